#!/bin/sh
# My own confirmation of every seeded change, in one scratch worktree of /repo's current HEAD:
# the demonstration FAILS with the patch and PASSES without it (the project builds both ways).
# Writes one line per change to seeded/CONFIRM.log.  usage: tools_confirm_all_seeded.sh [ids...]
export GOFLAGS=-mod=mod GOPROXY=off GOSUMDB=off GOTOOLCHAIN=local
cd /verif/seeded || exit 2
ids=${*:-$(ls -d */ | tr -d /)}
wt=/tmp/confirm-wt
git -C /repo worktree remove --force $wt 2>/dev/null
git -C /repo worktree add -q --detach $wt HEAD || exit 2
for id in $ids; do
  d=/verif/seeded/$id
  pkg=$(python3 -c "import json;print(json.load(open('$d/meta.json'))['demo_pkg'])" 2>/dev/null) || { echo "$id: no meta" >> CONFIRM.log; continue; }
  cd $wt && git checkout -q -- . && git clean -fdq
  if ! git apply --check $d/patch.diff 2>/dev/null; then echo "$id: patch does not apply to HEAD" >> /verif/seeded/CONFIRM.log; continue; fi
  git apply $d/patch.diff
  cp $d/zz_mut_demo_test.go.txt $wt/$pkg/zz_mut_demo_test.go
  with=$(go1.26 test -vet=off -count=1 -timeout 60m -run ZZMut ./$pkg/ 2>&1 | tail -1 | cut -c1-80)
  git apply -R $d/patch.diff
  without=$(go1.26 test -vet=off -count=1 -timeout 60m -run ZZMut ./$pkg/ 2>&1 | tail -1 | cut -c1-80)
  echo "$id: WITH patch: [$with] WITHOUT patch: [$without]" >> /verif/seeded/CONFIRM.log
done
cd /; git -C /repo worktree remove --force $wt
echo "done" >> /verif/seeded/CONFIRM.log
