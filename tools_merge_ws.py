#!/usr/bin/env python3
"""Merge an isolated builder workspace into /verif: tools_merge_ws.py <workspace> <Cxx> [<Cyy> ...]"""
import json, os, shutil, subprocess, sys
ws = sys.argv[1].rstrip('/')
keys = sys.argv[2:]
V = '/verif'
out = subprocess.run(['git', 'status', '--short'], cwd=ws, capture_output=True, text=True).stdout
new = []
for l in out.splitlines():
    st, path = l[:2], l[3:]
    if st == '??':
        new.append(path)
files = []
for p in new:
    full = os.path.join(ws, p)
    if os.path.isdir(full):
        for root, _, fs in os.walk(full):
            for f in fs:
                files.append(os.path.relpath(os.path.join(root, f), ws))
    else:
        files.append(p)
for f in files:
    if f.startswith('evidence/') or f.startswith('bin/') or f.startswith('replays/') or f == 'KNOWN_FINDINGS.jsonl':
        continue
    dst = os.path.join(V, f)
    os.makedirs(os.path.dirname(dst), exist_ok=True)
    if os.path.exists(dst):
        print('EXISTS (skipped):', f)
        continue
    shutil.copyfile(os.path.join(ws, f), dst)
    print('copied', f)

def entry(path, key):
    src = open(path).read()
    i = src.index('"%s": {' % key)
    d = 0
    for k in range(i + len(key) + 4, len(src)):
        if src[k] == '{': d += 1
        elif src[k] == '}':
            d -= 1
            if d == 0: return src[i:k + 1]
for key in keys:
    e = entry(ws + '/checklib/props.py', key)
    p = V + '/checklib/props.py'
    s = open(p).read().rstrip()
    if '"%s": {' % key not in s:
        open(p, 'w').write(s[:-1] + '    ' + e + ',\n}\n')
    e = entry(ws + '/checklib/manifest_text.py', key)
    p = V + '/checklib/manifest_text.py'
    s = open(p).read()
    if '"%s": {' % key not in s:
        i = s.index('\nNOT_YET')
        head = s[:i].rstrip()
        open(p, 'w').write(head[:-1] + '    ' + e + ',\n}\n' + s[i:])
    p = V + '/lean/Driver/Main.lean'
    s = open(p).read()
    if 'import Driver.%s\n' % key not in s:
        s = s.replace('open Lean\n', 'import Driver.%s\nopen Lean\n' % key, 1) if 'open Lean\n' in s else s
        s = s.replace('  | _ => .error s!"unknown property {prop}"', '  | "%s" => Driver.%s.handle j\n  | _ => .error s!"unknown property {prop}"' % (key, key))
        open(p, 'w').write(s)
# known findings: append lines whose finding id is new
have = set()
for l in open(V + '/KNOWN_FINDINGS.jsonl'):
    if l.strip(): have.add(json.loads(l)['finding'])
if os.path.exists(ws + '/KNOWN_FINDINGS.jsonl'):
    with open(V + '/KNOWN_FINDINGS.jsonl', 'a') as f:
        for l in open(ws + '/KNOWN_FINDINGS.jsonl'):
            if l.strip() and json.loads(l)['finding'] not in have:
                f.write(l if l.endswith('\n') else l + '\n')
                print('finding added:', json.loads(l)['finding'])
