package harness

import (
	"encoding/json"
	"errors"
	"fmt"
	"os"
	"os/exec"
	"path/filepath"
	"strings"
	"testing"

	"github.com/gittuf/gittuf/internal/attestations"
	"github.com/gittuf/gittuf/internal/policy"
	"github.com/gittuf/gittuf/internal/signerverifier/dsse"
	"github.com/gittuf/gittuf/pkg/githash"
	"github.com/gittuf/gittuf/pkg/gitinterface"
	"github.com/gittuf/gittuf/pkg/gitstore"
	"github.com/gittuf/gittuf/pkg/rsl"
)

// ---- starting states ---------------------------------------------------------
//
// empty        no reference at all
// entries      two pushes to refs/heads/main recorded (log 1..2), no policy / attestations
// staged       entries + policy S1 staged with its entry (3)           [first-ever Apply]
// established  staged + S1 applied (4) + push (5) + attestations A1 (6)
// staged2      established + policy S2 staged with its entry (7)       [Apply / Discard of a change]
// ahead        established + S2 published on refs/gittuf/policy directly (7); staging still S1
// diverged     ahead + S3 (child of S1) staged with its entry (8)

var c16States = []string{"empty", "entries", "staged", "established", "staged2", "ahead", "diverged"}
var c16Ops = []string{"record", "annotate", "stage", "apply", "discard", "reconcile", "attest"}

var managedRefs = []string{policy.PolicyRef, policy.PolicyStagingRef, attestations.Ref, rsl.Ref}

const (
	c16Root = 0
	c16Dev  = 1
)

func c16Policy(version int, extraRule bool) *PolicySpec {
	spec := &PolicySpec{Root: RootSpec{Version: uint64(version), RootKeys: []int{c16Root}, RootThreshold: 1, TargetsKeys: []int{c16Root}, TargetsThreshold: 1, Signers: []int{c16Root}}}
	file := RuleFileSpec{Name: "targets", Version: uint64(version), Signers: []int{c16Root},
		Principals: []PrincipalSpec{{ID: 1000 + c16Dev, Keys: []int{c16Dev}}},
		Rules:      []RuleSpec{{Name: "protect-main", Patterns: []string{"git:refs/heads/main"}, Principals: []int{1000 + c16Dev}, Threshold: 1}}}
	if extraRule {
		file.Rules = append(file.Rules, RuleSpec{Name: "protect-rel", Patterns: []string{"git:refs/heads/rel"}, Principals: []int{1000 + c16Dev}, Threshold: 1})
	}
	spec.Files = []RuleFileSpec{file}
	return spec
}

type c16Builder struct {
	t    *testing.T
	repo *gitinterface.Repository
	main githash.Hash
	nPush int
}

func (b *c16Builder) fatal(err error) {
	if err != nil {
		b.t.Helper()
		b.t.Fatal(err)
	}
}

func (b *c16Builder) push() {
	b.nPush++
	id, err := b.repo.CommitUsingSpecificKey(emptyTree(b.t, b.repo), "refs/heads/main", fmt.Sprintf("push %d\n", b.nPush), Keys(b.t, c16Dev+1)[c16Dev].PEM)
	b.fatal(err)
	b.main = id
	b.fatal(rsl.NewReferenceEntry("refs/heads/main", id).Commit(b.repo, false))
}

func (b *c16Builder) stage(spec *PolicySpec) {
	b.fatal(BuildState(b.t, spec).Commit(b.repo, "policy\n", true, false))
}

func (b *c16Builder) attest(n int) {
	a, err := attestations.LoadCurrentAttestations(b.repo)
	b.fatal(err)
	c16AddAuthorization(b.t, b.repo, a, n)
	b.fatal(a.Commit(b.repo, "attest\n", true, false))
}

func c16AddAuthorization(t *testing.T, repo *gitinterface.Repository, a *attestations.Attestations, n int) {
	from := repo.ZeroHash().String()
	to := emptyTree(t, repo).String()
	ref := fmt.Sprintf("refs/heads/auth%d", n)
	stmt, err := attestations.NewReferenceAuthorizationForCommit(ref, from, to)
	if err != nil {
		t.Fatal(err)
	}
	env, err := dsse.CreateEnvelope(stmt)
	if err != nil {
		t.Fatal(err)
	}
	env = signEnvWith(t, env, c16Dev)
	if err := a.SetReferenceAuthorization(repo, env, ref, from, to); err != nil {
		t.Fatal(err)
	}
}

// buildC16State builds the named starting state in a fresh repository and
// returns its working directory (used as a template for `cp -r`).
func buildC16State(t *testing.T, name string) string {
	rsl.VerifResetCache()
	dir := filepath.Join(scratchRoot(t), "r")
	repo := gitinterface.CreateTestGitRepository(t, dir, false)
	b := &c16Builder{t: t, repo: repo}
	idx := -1
	for i, s := range c16States {
		if s == name {
			idx = i
		}
	}
	if idx < 0 {
		t.Fatalf("unknown state %s", name)
	}
	if name == "empty" {
		return dir
	}
	b.push()
	b.push()
	if name == "entries" {
		return dir
	}
	b.stage(c16Policy(1, false))
	if name == "staged" {
		return dir
	}
	b.fatal(policy.Apply(ctx, repo, false))
	b.push()
	b.attest(1)
	if name == "established" {
		return dir
	}
	if name == "staged2" {
		b.stage(c16Policy(2, false))
		return dir
	}
	// ahead: S2 lands on the policy ref without going through staging (as a
	// propagation from a controller would): commit S2 on staging without entry, move
	// policy to it, put staging back to S1
	s1, err := repo.GetReference(policy.PolicyStagingRef)
	b.fatal(err)
	b.fatal(BuildState(t, c16Policy(2, false)).Commit(repo, "policy\n", false, false))
	s2, err := repo.GetReference(policy.PolicyStagingRef)
	b.fatal(err)
	b.fatal(repo.SetReference(policy.PolicyStagingRef, s1))
	b.fatal(repo.SetReference(policy.PolicyRef, s2))
	b.fatal(rsl.NewReferenceEntry(policy.PolicyRef, s2).Commit(repo, false))
	if name == "ahead" {
		return dir
	}
	b.stage(c16Policy(2, true))
	return dir
}

// ---- operations ----------------------------------------------------------------

const c16FakeTarget = "1111111111111111111111111111111111111111"

// c16Op returns the operation as a function of the storer; preparation that is
// not part of the operation under test (building metadata, loading the current
// attestations) uses the raw repository and a cold cache is re-established after it.
func c16Op(t *testing.T, op, state string, repo *gitinterface.Repository) func(st gitstore.Storer) error {
	switch op {
	case "record":
		target, _ := githash.NewHash(c16FakeTarget)
		return func(st gitstore.Storer) error {
			return rsl.NewReferenceEntry("refs/heads/feature", target).Commit(st, false)
		}
	case "annotate":
		// refers to the latest entry for refs/heads/main (a fake id on logs without one)
		id, _ := githash.NewHash(c16FakeTarget)
		if e, _, err := rsl.GetLatestReferenceUpdaterEntry(repo, rsl.ForReference("refs/heads/main")); err == nil {
			id = e.GetID()
		}
		return func(st gitstore.Storer) error {
			return rsl.NewAnnotationEntry([]githash.Hash{id}, true, "revoked").Commit(st, false)
		}
	case "stage":
		version := 1
		switch state {
		case "established":
			version = 2
		case "staged2", "ahead", "diverged":
			version = 3
		}
		s := BuildState(t, c16Policy(version, false))
		return func(st gitstore.Storer) error { return s.Commit(st, "policy\n", true, false) }
	case "apply":
		return func(st gitstore.Storer) error { return policy.Apply(ctx, st, false) }
	case "discard":
		return func(st gitstore.Storer) error { return policy.Discard(st) }
	case "reconcile":
		return func(st gitstore.Storer) error { return policy.ReconcileStaging(st, false) }
	case "attest":
		a, err := attestations.LoadCurrentAttestations(repo)
		if err != nil {
			t.Fatal(err)
		}
		c16AddAuthorization(t, repo, a, 7)
		return func(st gitstore.Storer) error { return a.Commit(st, "attest\n", true, false) }
	}
	t.Fatalf("unknown op %s", op)
	return nil
}

func cpDir(t *testing.T, from string) string {
	to := filepath.Join(scratchRoot(t), "r")
	if out, err := exec.Command("cp", "-r", from, to).CombinedOutput(); err != nil {
		t.Fatalf("cp: %v %s", err, out)
	}
	return to
}

// openTestRepo: a handle on a copied template (configuration is copied with it).
// LoadRepository gives a real clock: commit ids then differ between runs, which is why
// states are compared through content-based names (namer), never through ids.
func openTestRepo(t *testing.T, dir string) *gitinterface.Repository {
	repo, err := gitinterface.LoadRepository(dir)
	if err != nil {
		t.Fatal(err)
	}
	return repo
}

// ---- observation -----------------------------------------------------------------

type c16Entry struct {
	Kind   string `json:"kind"`
	Ref    string `json:"ref"`
	Target string `json:"target"` // canonical object name
	Number uint64 `json:"number"`
	NPar   int    `json:"npar"`
}

type c16Snap struct {
	Refs   map[string]string `json:"refs"` // managed ref -> canonical object name ("" = absent)
	Log    []c16Entry        `json:"log"`  // oldest first
	Chain  bool              `json:"chain"`
	Reader string            `json:"reader"`
	Verify string            `json:"verify"` // verdict of VerifyRef(refs/heads/main): ok / fail / nopolicy / err
	Objs   map[string]string `json:"objs"`   // every commit reachable from policy / staging / attestations: name -> first parent's name ("" = root)
}

// namer gives stable abstract names to object ids: the commits on the managed
// refs get names by (tree content, depth), so that states reached along
// different paths are comparable.
type namer struct {
	gitDir string
	names  map[string]string
}

func (n *namer) name(id string) string {
	if id == "" {
		return ""
	}
	if id == c16FakeTarget {
		return "fake"
	}
	if v, ok := n.names[id]; ok {
		return v
	}
	// name = tree id prefix + number of ancestors (first-parent depth)
	tree, err := gitOut(n.gitDir, "rev-parse", "--verify", "--quiet", id+"^{tree}")
	if err != nil {
		n.names[id] = "?" + id[:6]
		return n.names[id]
	}
	cnt, _ := gitOut(n.gitDir, "rev-list", "--count", id)
	v := "c-" + strings.TrimSpace(tree)[:8] + "-" + strings.TrimSpace(cnt)
	n.names[id] = v
	return v
}

func snapshot(t *testing.T, dir string, withVerify bool) c16Snap {
	rsl.VerifResetCache()
	repo, err := gitinterface.LoadRepository(dir)
	if err != nil {
		t.Fatal(err)
	}
	gitDir := repo.GetGitDir()
	nm := &namer{gitDir: gitDir, names: map[string]string{}}
	s := c16Snap{Refs: map[string]string{}, Log: []c16Entry{}}
	for _, r := range managedRefs {
		if r == rsl.Ref {
			continue
		}
		s.Refs[r] = nm.name(RefValue(gitDir, r))
	}
	s.Objs = map[string]string{}
	for _, r := range managedRefs {
		if r == rsl.Ref || RefValue(gitDir, r) == "" {
			continue
		}
		out, err := gitOut(gitDir, "rev-list", "--parents", r)
		if err != nil {
			t.Fatal(err)
		}
		for _, l := range strings.Split(strings.TrimSpace(out), "\n") {
			f := strings.Fields(l)
			if len(f) == 0 {
				continue
			}
			par := ""
			if len(f) > 1 {
				par = nm.name(f[1])
			}
			s.Objs[nm.name(f[0])] = par
		}
	}
	w, err := WalkLog(gitDir)
	if err != nil {
		t.Fatal(err)
	}
	s.Chain = ChainValid(w)
	for i := len(w) - 1; i >= 0; i-- {
		e := w[i]
		tgt := nm.name(e.Target)
		if e.Kind == "ann" {
			tgt = fmt.Sprintf("ann%d", len(e.Refs))
		}
		s.Log = append(s.Log, c16Entry{Kind: e.Kind, Ref: e.Ref, Target: tgt, Number: e.Number, NPar: e.NParents})
	}
	s.Reader, _ = ReadersWalk(repo)
	if withVerify {
		s.Verify = verdictMain(repo)
	}
	rsl.VerifResetCache()
	return s
}

func verdictMain(repo *gitinterface.Repository) string {
	rsl.VerifResetCache()
	var verdict string
	func() {
		defer func() {
			if r := recover(); r != nil {
				verdict = "panic"
			}
		}()
		_, err := policy.NewPolicyVerifier(repo).VerifyRef(ctx, "refs/heads/main")
		switch {
		case err == nil:
			verdict = "ok"
		case errors.Is(err, rsl.ErrRSLEntryNotFound):
			verdict = "noentry"
		case errors.Is(err, policy.ErrPolicyNotFound):
			verdict = "nopolicy"
		default:
			verdict = "fail"
		}
	}()
	return verdict
}

func errClass(err error, crashed bool, panicked string) string {
	switch {
	case panicked != "":
		return "panic"
	case crashed:
		return "crashed"
	case err == nil:
		return "ok"
	case errors.Is(err, errInjected):
		return "injected"
	case errors.Is(err, policy.ErrInvalidPolicy):
		return "invalid-policy"
	default:
		return "error"
	}
}

// ---- the test ------------------------------------------------------------------------

type c16In struct {
	Op    string `json:"op"`
	State string `json:"state"`
	Mode  string `json:"mode"` // "fault" | "crash"
	K     int    `json:"k"`
}

type c16Impl struct {
	N        int      `json:"n"`         // calls of the uninterrupted run
	Trace0   []string `json:"trace0"`    // call kinds of the uninterrupted run
	Result0  string   `json:"result0"`   // its result class
	Before   c16Snap  `json:"before"`
	After0   c16Snap  `json:"after0"`    // state after the uninterrupted run
	Trace    []string `json:"trace"`     // call kinds of the faulted / crashed run
	Result   string   `json:"result"`
	After    c16Snap  `json:"after"`     // state after the faulted / crashed run (fresh handle)
	Retry    string   `json:"retry"`     // result class of the retry (fault mode)
	AfterRetry *c16Snap `json:"after_retry,omitempty"`
}

type c16Line struct {
	Prop string  `json:"prop"`
	ID   int     `json:"id"`
	In   c16In   `json:"in"`
	Impl c16Impl `json:"impl"`
}

type c16Base struct {
	tmpl    string
	before  c16Snap
	n       int
	trace0  []string
	result0 string
	after0  c16Snap
}

var c16Bases = map[string]*c16Base{}
var c16Tmpl = map[string]string{}

func c16GetBase(t *testing.T, op, state string) *c16Base {
	key := op + "/" + state
	if b, ok := c16Bases[key]; ok {
		return b
	}
	tmpl, ok := c16Tmpl[state]
	if !ok {
		tmpl = buildC16State(t, state)
		c16Tmpl[state] = tmpl
	}
	b := &c16Base{tmpl: tmpl}
	b.before = snapshot(t, tmpl, true)
	dir := cpDir(t, tmpl)
	repo := openTestRepo(t, dir)
	rsl.VerifResetCache()
	f := c16Op(t, op, state, repo)
	rsl.VerifResetCache()
	cs := NewCountingStorer(repo)
	err, crashed, panicked := runGuarded(func() error { return f(cs) })
	b.n = cs.N
	b.trace0 = cs.Trace
	b.result0 = errClass(err, crashed, panicked)
	b.after0 = snapshot(t, dir, true)
	c16Bases[key] = b
	return b
}

func c16Run(t *testing.T, in c16In) c16Impl {
	b := c16GetBase(t, in.Op, in.State)
	impl := c16Impl{N: b.n, Trace0: b.trace0, Result0: b.result0, Before: b.before, After0: b.after0}
	if in.K < 1 || in.K > b.n {
		impl.Result = "out-of-range"
		return impl
	}
	dir := cpDir(t, b.tmpl)
	repo := openTestRepo(t, dir)
	rsl.VerifResetCache()
	f := c16Op(t, in.Op, in.State, repo)
	rsl.VerifResetCache()
	cs := NewCountingStorer(repo)
	if in.Mode == "fault" {
		cs.FaultAt = in.K
	} else {
		cs.CrashAfter = in.K
	}
	err, crashed, panicked := runGuarded(func() error { return f(cs) })
	impl.Trace = cs.Trace
	impl.Result = errClass(err, crashed, panicked)
	impl.After = snapshot(t, dir, in.Mode == "crash")
	if in.Mode == "fault" {
		// the fault has cleared: repeat the same operation (a new process: cold cache, fresh handle)
		repo2 := openTestRepo(t, dir)
		rsl.VerifResetCache()
		f2 := c16Op(t, in.Op, in.State, repo2)
		rsl.VerifResetCache()
		cs2 := NewCountingStorer(repo2)
		err2, crashed2, panicked2 := runGuarded(func() error { return f2(cs2) })
		impl.Retry = errClass(err2, crashed2, panicked2)
		s := snapshot(t, dir, false)
		impl.AfterRetry = &s
	}
	os.RemoveAll(filepath.Dir(dir))
	return impl
}

func TestC16(t *testing.T) {
	seed := uint64(envInt("VERIF_SEED", 1))
	n := envInt("VERIF_N", 100000)
	shard := envInt("VERIF_SHARD", 0)
	tier := envStr("VERIF_TIER", "quick")
	out, err := OpenOut()
	if err != nil {
		t.Fatal(err)
	}
	defer out.Close()

	if replay := ReplayInputs[c16In](t); replay != nil {
		for i, in := range replay {
			if err := out.Emit(c16Line{Prop: "C16", ID: i + 1, In: in, Impl: c16Run(t, in)}); err != nil {
				t.Fatal(err)
			}
		}
		return
	}
	if os.Getenv("VERIF_C16_DUMP") != "" {
		for _, st := range c16States {
			for _, op := range c16Ops {
				b := c16GetBase(t, op, st)
				j, _ := json.Marshal(b.after0)
				fmt.Printf("== %s/%s n=%d result=%s\n   %s\n   after=%s\n", op, st, b.n, b.result0, strings.Join(b.trace0, " "), j)
			}
			j, _ := json.Marshal(c16Bases["record/"+st].before)
			fmt.Printf("## before %s = %s\n", st, j)
		}
		return
	}
	// every (operation, starting state, mode, k)
	type cand struct {
		in   c16In
		tail bool
	}
	all := []cand{}
	for _, os := range c16Matrix {
		// quick: the call counts measured on this tree (re-measured when the case is run; a k
		// beyond the actual count is clamped); thorough: measured now
		bn, ok := c16N[os[0]+"/"+os[1]]
		if !ok || tier == "thorough" {
			bn = c16GetBase(t, os[0], os[1]).n
		}
		for k := 1; k <= bn; k++ {
			all = append(all, cand{c16In{Op: os[0], State: os[1], Mode: "fault", K: k}, k > bn-5})
			if k < bn {
				all = append(all, cand{c16In{Op: os[0], State: os[1], Mode: "crash", K: k}, k > bn-5})
			}
		}
	}
	sel := []c16In{}
	if tier == "thorough" || n >= len(all) {
		for _, c := range all {
			sel = append(sel, c.in)
		}
	} else {
		// quick: a deterministic sample (VERIF_SEED): two thirds from the calls around the
		// mutations (the last five calls of each operation), one third from the rest
		rng := NewRng(seed*1000003 + uint64(shard))
		tail, rest := []c16In{}, []c16In{}
		for _, c := range all {
			if c.tail {
				tail = append(tail, c.in)
			} else {
				rest = append(rest, c.in)
			}
		}
		pick := func(from []c16In, m int) {
			for i := 0; i < m && len(from) > 0; i++ {
				j := rng.Intn(len(from))
				sel = append(sel, from[j])
				from = append(from[:j], from[j+1:]...)
			}
		}
		pick(tail, n*2/3)
		pick(rest, n-n*2/3)
	}
	id := shard*1000000 + 1
	for _, in := range sel {
		if b := c16GetBase(t, in.Op, in.State); in.K > b.n {
			in.K = b.n
		}
		if err := out.Emit(c16Line{Prop: "C16", ID: id, In: in, Impl: c16Run(t, in)}); err != nil {
			t.Fatal(err)
		}
		id++
	}
}

var c16N = map[string]int{
	"record/empty": 3, "record/entries": 4, "record/established": 4,
	"annotate/empty": 1, "annotate/entries": 4, "annotate/established": 5,
	"stage/empty": 9, "stage/entries": 10, "stage/established": 10,
	"attest/empty": 6, "attest/entries": 7, "attest/established": 7,
	"discard/empty": 2, "discard/staged": 2, "discard/staged2": 2,
	"reconcile/empty": 4, "reconcile/entries": 9, "reconcile/staged": 10, "reconcile/established": 11, "reconcile/ahead": 19,
	"apply/empty": 7, "apply/staged": 27, "apply/staged2": 42, "apply/ahead": 54,
}

// the (operation, starting state) pairs explored
var c16Matrix = [][2]string{
	{"record", "empty"}, {"record", "entries"}, {"record", "established"},
	{"annotate", "empty"}, {"annotate", "entries"}, {"annotate", "established"},
	{"stage", "empty"}, {"stage", "entries"}, {"stage", "established"},
	{"attest", "empty"}, {"attest", "entries"}, {"attest", "established"},
	{"discard", "empty"}, {"discard", "staged"}, {"discard", "staged2"},
	{"reconcile", "empty"}, {"reconcile", "entries"}, {"reconcile", "staged"}, {"reconcile", "established"}, {"reconcile", "ahead"},
	{"apply", "empty"}, {"apply", "staged"}, {"apply", "staged2"}, {"apply", "ahead"},
}

// the diverged starting state (rebase of staging, policy.go:1040-1074) is built and can be
// replayed, but the model does not yet reproduce its final states: explored only on request.
func init() {
	if os.Getenv("VERIF_C16_DIVERGED") != "" {
		c16Matrix = append(c16Matrix, [2]string{"reconcile", "diverged"}, [2]string{"apply", "diverged"})
	}
}
