package harness

import (
	"encoding/json"
	"fmt"
	"testing"
)

type WorldLine2 struct {
	WorldLine
	Impl2 []VResult `json:"impl2"`
}

// TestC11: histories under policies combining delegation rules with global rules (threshold over
// matching / non-matching patterns, block-force-pushes); every history is also rebuilt with all
// global rules removed and verified again (monotonicity: P+G accepts ⇒ P accepts).
func TestC11(t *testing.T) {
	seed := uint64(envInt("VERIF_SEED", 1))
	n := envInt("VERIF_N", 10)
	shard := envInt("VERIF_SHARD", 0)
	out, err := OpenOut()
	if err != nil {
		t.Fatal(err)
	}
	defer out.Close()
	run := func(id int, w *World, qs []VQuery, b *WorldBuilder, meta string) {
		if b == nil {
			b = Rebuild(t, w)
		}
		line := WorldLine2{WorldLine: WorldLine{Prop: "C11", ID: id, In: WorldIn{World: b.Snapshot(), Queries: qs}, Meta: meta}}
		for _, q := range qs {
			line.Impl = append(line.Impl, RunQuery(b, q))
		}
		// sibling without global rules
		data, _ := json.Marshal(b.W)
		w2 := &World{}
		if err := json.Unmarshal(data, w2); err != nil {
			t.Fatal(err)
		}
		for i := range w2.Policies {
			w2.Policies[i].Root.GlobalRules = nil
		}
		b2 := Rebuild(t, w2)
		for _, q := range qs {
			line.Impl2 = append(line.Impl2, RunQuery(b2, q))
		}
		if err := out.Emit(line); err != nil {
			t.Fatal(err)
		}
	}
	if replay := ReplayInputs[WorldIn](t); replay != nil {
		for i, w := range replay {
			run(i+1, w.World, w.Queries, nil, "replay")
		}
		return
	}
	rng := NewRng(seed*1000003 + uint64(shard) + 1111)
	for i := 0; i < n; i++ {
		s := rng.U64()
		b := NewWorldBuilder(t)
		g := &histGen{r: NewRng(s), b: b, tipOf: map[string]int{}, lastGood: map[string]int{}, opts: histOpts{globalRules: true, bfpEpisodes: true, fileRules: rng.Chance(40), delegation: rng.Chance(20)}}
		g.run(3 + rng.Intn(8))
		run(shard*1000000+i+1, nil, g.queries(), b, fmt.Sprintf("seed=%d", s))
	}
}
