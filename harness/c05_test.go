package harness

import (
	"errors"
	"fmt"
	"sort"
	"testing"

	"github.com/gittuf/gittuf/internal/policy"
	sslibdsse "github.com/gittuf/gittuf/internal/third_party/go-securesystemslib/dsse"
	"github.com/gittuf/gittuf/pkg/githash"
	"github.com/gittuf/gittuf/pkg/gitinterface"
)

// ---- abstract case (mirrors lean/Driver/C05.lean) ----

type c05Sig struct {
	Key  int  `json:"key"`
	Over int  `json:"over"`
	Hint *int `json:"hint"`
}
type c05Principal struct {
	ID   int   `json:"id"`
	Keys []int `json:"keys"`
}
type c05Env struct {
	Digest int      `json:"digest"`
	Sigs   []c05Sig `json:"sigs"`
}
type c05In struct {
	Principals []c05Principal `json:"principals"`
	Threshold  int            `json:"threshold"`
	Exhaustive bool           `json:"exhaustive"`
	Git        *c05Sig        `json:"git"`
	Gd         int            `json:"gd"`
	Env        *c05Env        `json:"env"`
}
type c05Impl struct {
	Class string `json:"class"`
	Set   []int  `json:"set"`
	Err   string `json:"err,omitempty"`
}
type c05Line struct {
	Prop string  `json:"prop"`
	ID   int     `json:"id"`
	In   c05In   `json:"in"`
	Impl c05Impl `json:"impl"`
	Meta string  `json:"meta,omitempty"`
}

const (
	c05TrustedKeys = 6 // key indices 0..5 may be listed in rules
	c05Untrusted   = 6 // key 6 is never listed
	c05RootKey     = 7
)

// genC05 draws one abstract case. Key principals have id 1000+key, persons small ids.
func genC05(r *Rng, exhaustive bool) c05In {
	c := c05In{Principals: []c05Principal{}, Exhaustive: exhaustive, Gd: 5}
	n := r.Intn(5)
	if r.Chance(5) {
		n = 0
	}
	shared := r.Chance(35)
	usedKeys := map[int]bool{}
	keyPrincipals := map[int]bool{}
	for i := 0; i < n; i++ {
		person := r.Chance(60)
		nk := 1
		if person && r.Bool() {
			nk = 2
		}
		ks := []int{}
		for tries := 0; len(ks) < nk && tries < 10; tries++ {
			k := r.Intn(c05TrustedKeys)
			if !shared && usedKeys[k] {
				free := -1
				for j := 0; j < c05TrustedKeys; j++ {
					if !usedKeys[j] {
						free = j
						break
					}
				}
				if free < 0 {
					break
				}
				k = free
			}
			dup := false
			for _, x := range ks {
				if x == k {
					dup = true
				}
			}
			if dup {
				continue
			}
			ks = append(ks, k)
			usedKeys[k] = true
		}
		if len(ks) == 0 {
			continue
		}
		if !person {
			if keyPrincipals[ks[0]] {
				continue
			}
			keyPrincipals[ks[0]] = true
			c.Principals = append(c.Principals, c05Principal{ID: 1000 + ks[0], Keys: ks[:1]})
		} else {
			c.Principals = append(c.Principals, c05Principal{ID: i + 1, Keys: ks})
		}
	}
	c.Threshold = r.Intn(6)
	if r.Chance(70) && len(c.Principals) > 0 {
		c.Threshold = 1 + r.Intn(len(c.Principals))
	}
	switch x := r.Intn(10); {
	case x < 2:
		c.Git = nil
		c.Gd = 0 // no git object at all
	case x < 4:
		c.Git = nil // unsigned commit
	case x < 5:
		c.Git = &c05Sig{Key: c05Untrusted, Over: 5}
	default:
		c.Git = &c05Sig{Key: r.Intn(c05TrustedKeys), Over: 5}
	}
	if r.Chance(85) {
		e := &c05Env{Digest: 77, Sigs: []c05Sig{}}
		ns := r.Intn(6)
		for i := 0; i < ns; i++ {
			s := c05Sig{Key: r.Intn(c05TrustedKeys + 1), Over: 77}
			if r.Chance(12) {
				s.Over = 78 // lifted from another payload
			}
			switch x := r.Intn(10); {
			case x < 6:
				h := s.Key
				s.Hint = &h
			case x < 8:
				s.Hint = nil
			default:
				h := r.Intn(c05TrustedKeys + 1)
				s.Hint = &h
			}
			e.Sigs = append(e.Sigs, s)
		}
		c.Env = e
	}
	return c
}

// c05RealEnvelope builds a DSSE envelope whose signatures follow the abstract ones.
func c05RealEnvelope(t *testing.T, e *c05Env) *sslibdsse.Envelope {
	if e == nil {
		return nil
	}
	mk := func(d int) *sslibdsse.Envelope {
		return signEnv(t, map[string]int{"payload": d}, nil)
	}
	env := mk(e.Digest)
	for _, s := range e.Sigs {
		src := signEnvWith(t, mk(s.Over), s.Key)
		sig := src.Signatures[0]
		if s.Hint == nil {
			sig.KeyID = ""
		} else {
			sig.KeyID = Keys(t, *s.Hint+1)[*s.Hint].ID()
		}
		env.Signatures = append(env.Signatures, sig)
	}
	return env
}

func c05Spec(p c05Principal, ns int) PrincipalSpec {
	if p.ID >= 1000 {
		return PrincipalSpec{ID: p.ID, Person: false, Keys: p.Keys}
	}
	return PrincipalSpec{ID: ns*10 + p.ID, Person: true, Keys: p.Keys}
}

// c05RunBatch realizes the abstract cases in one policy (one rule per case) and
// runs the real SignatureVerifier.Verify on each.
func c05RunBatch(t *testing.T, repo *gitinterface.Repository, cases []c05In, exhaustive bool, firstID int, out *Out) {
	tree := emptyTree(t, repo)
	spec := &PolicySpec{Root: RootSpec{RootKeys: []int{c05RootKey}, RootThreshold: 1, TargetsKeys: []int{c05RootKey}, TargetsThreshold: 1, Signers: []int{c05RootKey}}}
	if exhaustive {
		spec.Root.GlobalRules = []GlobalRuleSpec{{Name: "g", Kind: "threshold", Patterns: []string{"git:refs/heads/zzz"}, Threshold: 1}}
	}
	file := RuleFileSpec{Name: "targets", Signers: []int{c05RootKey}}
	seen := map[string]bool{}
	for i, c := range cases {
		ids := []int{}
		for _, p := range c.Principals {
			ps := c05Spec(p, i)
			ids = append(ids, ps.ID)
			key := fmt.Sprintf("%v-%d", ps.Person, ps.ID)
			if !seen[key] {
				seen[key] = true
				file.Principals = append(file.Principals, ps)
			}
		}
		file.Rules = append(file.Rules, RuleSpec{Name: fmt.Sprintf("r%d", i), Patterns: []string{fmt.Sprintf("git:refs/heads/case%d", i)}, Principals: ids, Threshold: c.Threshold})
	}
	spec.Files = []RuleFileSpec{file}
	state := CommitStagedAndLoad(t, repo, BuildState(t, spec))

	for i, c := range cases {
		id := firstID + i
		verifiers, err := state.FindVerifiersForPath(fmt.Sprintf("git:refs/heads/case%d", i))
		if err != nil {
			t.Fatal(err)
		}
		if !exhaustive && len(verifiers) != 1 {
			t.Fatalf("expected one verifier, got %d", len(verifiers))
		}
		v := verifiers[0]
		in := c
		name2id := map[string]int{}
		if exhaustive {
			// the exhaustive verifier trusts every principal of the policy
			in.Threshold = 1
			in.Principals = []c05Principal{}
			hasRoot := false
			for _, p := range file.Principals {
				if !p.Person && p.Keys[0] == c05RootKey {
					hasRoot = true
				}
				in.Principals = append(in.Principals, c05Principal{ID: p.ID, Keys: p.Keys})
				name2id[p.Name(t)] = p.ID
			}
			if !hasRoot {
				rootSpec := PrincipalSpec{ID: 1000 + c05RootKey, Keys: []int{c05RootKey}}
				in.Principals = append(in.Principals, c05Principal{ID: rootSpec.ID, Keys: rootSpec.Keys})
				name2id[rootSpec.Name(t)] = rootSpec.ID
			}
		} else {
			for _, p := range c.Principals {
				name2id[c05Spec(p, i).Name(t)] = p.ID
			}
		}
		// the harness's view of the rule must be the implementation's
		trusted := v.TrustedPrincipalIDs()
		if trusted.Len() != len(in.Principals) {
			t.Fatalf("harness/impl principal sets differ: %v vs %v", trusted.Contents(), in.Principals)
		}
		for _, name := range trusted.Contents() {
			if _, ok := name2id[name]; !ok {
				t.Fatalf("unknown principal %s", name)
			}
		}

		var gitID githash.Hash
		switch {
		case c.Git == nil && c.Gd == 0:
			gitID = nil
		case c.Git == nil:
			gitID, err = repo.Commit(tree, "refs/heads/scratch", fmt.Sprintf("c%d", id), false)
		default:
			gitID, err = repo.CommitUsingSpecificKey(tree, "refs/heads/scratch", fmt.Sprintf("c%d", id), Keys(t, c.Git.Key+1)[c.Git.Key].PEM)
		}
		if err != nil {
			t.Fatal(err)
		}
		env := c05RealEnvelope(t, c.Env)

		used, verr := v.Verify(ctx, gitID, env)
		impl := c05Impl{Set: []int{}}
		switch {
		case verr == nil:
			impl.Class = "ok"
		case errors.Is(verr, policy.ErrInvalidVerifier):
			impl.Class = "invalid"
		case errors.Is(verr, policy.ErrVerifierConditionsUnmet):
			impl.Class = "unmet"
		default:
			impl.Class = "other"
			impl.Err = verr.Error()
		}
		if used != nil {
			for _, name := range used.Contents() {
				impl.Set = append(impl.Set, name2id[name])
			}
			sort.Ints(impl.Set)
		}
		if err := out.Emit(c05Line{Prop: "C05", ID: id, In: in, Impl: impl}); err != nil {
			t.Fatal(err)
		}
	}
}

func TestC05(t *testing.T) {
	seed := uint64(envInt("VERIF_SEED", 1))
	n := envInt("VERIF_N", 200)
	shard := envInt("VERIF_SHARD", 0)
	out, err := OpenOut()
	if err != nil {
		t.Fatal(err)
	}
	defer out.Close()
	repo := NewRepo(t)

	if replay := ReplayInputs[c05In](t); replay != nil {
		for i, c := range replay {
			c05RunBatch(t, repo, []c05In{c}, c.Exhaustive, i+1, out)
		}
		return
	}

	rng := NewRng(seed*1000003 + uint64(shard))
	const batch = 25
	id := shard*1000000 + 1
	for done := 0; done < n; {
		exhaustive := rng.Chance(12)
		bn := batch
		if exhaustive {
			bn = 1
		}
		if done+bn > n {
			bn = n - done
		}
		cases := make([]c05In, bn)
		for i := range cases {
			cases[i] = genC05(rng, exhaustive)
		}
		c05RunBatch(t, repo, cases, exhaustive, id, out)
		id += bn
		done += bn
	}
}
