package harness

// C18: propagation copies exactly the upstream subtree and is idempotent. Real upstream and
// downstream repositories; trees written by the harness (gittree.go), upstream RSL through the
// real rsl API, propagation through the real PropagateChangesFromUpstreamRepository; trees read
// back with `git ls-tree -r -z`, the downstream RSL with `git log`.

import (
	"bytes"
	"fmt"
	"os"
	"path/filepath"
	"strings"
	"testing"

	"github.com/gittuf/gittuf/internal/propagation"
	"github.com/gittuf/gittuf/internal/tuf"
	tufv02 "github.com/gittuf/gittuf/internal/tuf/v02"
	"github.com/gittuf/gittuf/pkg/githash"
	"github.com/gittuf/gittuf/pkg/gitinterface"
	"github.com/gittuf/gittuf/pkg/rsl"
)

var c18UpRefs = []string{"refs/heads/main", "refs/heads/release"}
var c18Locations = []string{"https://example.com/upstream-a", "https://example.com/upstream-b"}

const c18DownRef = "refs/heads/main"

type c18UpEntry struct {
	Ref     int  `json:"ref"`     // index into c18UpRefs
	Commit  int  `json:"commit"`  // index into up_trees (upstream commit i carries tree i)
	Skipped bool `json:"skipped"` // followed by a skip annotation
	At      int  `json:"at"`      // recorded before call number `at` (0 = before the first call)
}

type c18Directive struct {
	UpRef    int   `json:"up_ref"`
	Repo     int   `json:"repo"` // index into c18Locations (the name recorded in the entry)
	UpPath   []int `json:"up_path"`
	DownPath []int `json:"down_path"`
}

type c18In struct {
	UpTrees [][]tEntry     `json:"up_trees"`
	UpLog   []c18UpEntry   `json:"up_log"`
	Down    []tEntry       `json:"down"`
	Dirs    []c18Directive `json:"dirs"`
	Reps    int            `json:"reps"`
}

type c18PEntry struct {
	Kind    string `json:"kind"`     // propagation | other
	RefOK   bool   `json:"ref_ok"`   // names the downstream reference
	Repo    int    `json:"repo"`     // index of the recorded upstream location, -1 unknown
	UpEntry int    `json:"up_entry"` // index into up_log of the recorded upstream entry id, -1 unknown
	Target  int    `json:"target"`   // the target is the n-th commit created on the downstream ref, -1 none
}

type c18Step struct {
	Class   string      `json:"class"` // ok | err | panic
	Err     string      `json:"err,omitempty"`
	Tree    []lsEntry   `json:"tree"`    // downstream ref's tree after the call (ls-tree -r -z)
	Commits int         `json:"commits"` // commits on the downstream ref since the start
	Entries []c18PEntry `json:"entries"` // downstream RSL entries since the start, oldest first
}

type c18Impl struct {
	Before []lsEntry `json:"before"`
	Steps  []c18Step `json:"steps"`
}

type c18Line struct {
	Prop string  `json:"prop"`
	ID   int     `json:"id"`
	In   c18In   `json:"in"`
	Impl c18Impl `json:"impl"`
}

// ---- generator ----

var c18DownPaths = []string{"vendor", "vendor/", "third_party/up", "third_party/up/", "foo", "foo/", "lib", "metadata/"}
var c18OddDownPaths = []string{"odd dir", "é", "q\"d", "x*"}

func addUnder(r *Rng, es []tEntry, dir string, n, oddPct int, exotic bool, salt int) []tEntry {
	for i := 0; i < n; i++ {
		comps := []string{genComp(r, oddPct)}
		if r.Chance(30) {
			comps = append(comps, genComp(r, oddPct))
		}
		p := dir + "/" + strings.Join(comps, "/")
		if treeConflict(es, p) {
			continue
		}
		mode := "100644"
		if exotic && r.Chance(35) {
			mode = "100755"
			if r.Chance(30) {
				mode = "120000"
			}
		}
		es = append(es, tEntry{P: b2i([]byte(p)), M: mode, C: salt*7 + r.Intn(6)})
	}
	sortEntries(es)
	return es
}

func resalt(es []tEntry, salt int) []tEntry {
	for i := range es {
		es[i].C = salt*7 + es[i].C%7
	}
	return es
}

func genC18(r *Rng, salt int) c18In {
	in := c18In{UpLog: []c18UpEntry{}}
	oddPct := []int{0, 0, 0, 15, 40}[r.Intn(5)]
	exotic := r.Chance(30)
	// directives
	nd := 1
	if r.Chance(35) {
		nd = 2
	}
	upDirs := []string{"metadata", "src/meta", "metadata"}
	usedDown := map[string]bool{}
	for i := 0; i < nd; i++ {
		d := c18Directive{UpRef: 0, Repo: 0, UpPath: []int{}}
		if r.Chance(25) {
			d.UpRef = 1
		}
		if r.Chance(30) {
			d.Repo = 1
		}
		if r.Chance(45) {
			p := upDirs[r.Intn(len(upDirs))]
			if r.Chance(30) {
				p += "/"
			}
			if r.Chance(4) {
				p = "missing"
			}
			d.UpPath = b2i([]byte(p))
		}
		var dp string
		for tries := 0; tries < 10; tries++ {
			dp = c18DownPaths[r.Intn(len(c18DownPaths))]
			if oddPct > 0 && r.Chance(20) {
				dp = c18OddDownPaths[r.Intn(len(c18OddDownPaths))]
			}
			if !usedDown[strings.TrimSuffix(dp, "/")] {
				break
			}
		}
		usedDown[strings.TrimSuffix(dp, "/")] = true
		d.DownPath = b2i([]byte(dp))
		in.Dirs = append(in.Dirs, d)
	}
	// upstream history: 1..3 commits
	nc := 1 + r.Intn(3)
	var prev []tEntry
	for i := 0; i < nc; i++ {
		var tr []tEntry
		if prev == nil || r.Chance(30) {
			tr = resalt(genTree(r, 5, oddPct, exotic), salt)
		} else {
			tr = resalt(mutateTree(r, prev, oddPct), salt)
		}
		for _, d := range in.Dirs {
			up := strings.TrimSuffix(string(i2b(d.UpPath)), "/")
			if up != "" && up != "missing" {
				has := false
				for _, e := range tr {
					if strings.HasPrefix(string(e.path()), up+"/") {
						has = true
					}
				}
				if !has || r.Chance(30) {
					tr = addUnder(r, tr, up, 1+r.Intn(3), oddPct, exotic, salt)
				}
			}
		}
		in.UpTrees = append(in.UpTrees, tr)
		prev = tr
	}
	// upstream log: states {no entry, entries, skipped latest entry, updated entry between calls}
	in.Reps = 1 + r.Intn(3)
	if !r.Chance(8) {
		for i := 0; i < nc; i++ {
			if i > 0 && r.Chance(15) {
				continue
			}
			e := c18UpEntry{Ref: 0, Commit: i}
			if r.Chance(25) {
				e.Ref = 1
			}
			if i == nc-1 && nc > 1 && r.Chance(30) {
				e.Skipped = true
			}
			if i > 0 && in.Reps > 1 && r.Chance(35) {
				e.At = 1 + r.Intn(in.Reps-1)
			}
			in.UpLog = append(in.UpLog, e)
		}
		// keep `at` monotone (the log is append-only)
		for i := 1; i < len(in.UpLog); i++ {
			if in.UpLog[i].At < in.UpLog[i-1].At {
				in.UpLog[i].At = in.UpLog[i-1].At
			}
		}
	}
	// downstream tree: own files, siblings whose names are prefixes of the downstream path,
	// sometimes stale or already up-to-date content below the downstream path
	down := resalt(genTree(r, 5, oddPct, exotic), salt)
	for _, d := range in.Dirs {
		dp := strings.TrimSuffix(string(i2b(d.DownPath)), "/")
		if r.Chance(50) {
			for _, sib := range []string{dp + "bar/x", dp + ".txt", dp + "-old/keep", dp + " 2"} {
				if r.Chance(50) && !treeConflict(down, sib) && !treeConflict(down, dp+"/probe") {
					down = append(down, tEntry{P: b2i([]byte(sib)), M: "100644", C: salt*7 + r.Intn(6)})
				}
			}
		}
		if treeConflict(down, dp+"/probe") && !hasUnder(down, dp) {
			continue // dp is (under) a file: leave it, the model predicts the outcome
		}
		switch x := r.Intn(10); {
		case x < 3:
			down = addUnder(r, down, dp, 1+r.Intn(2), oddPct, exotic, salt) // stale content
		case x < 5 && len(in.UpTrees) > 0:
			// already holds the content of some upstream commit (whole tree or subtree)
			src := in.UpTrees[r.Intn(len(in.UpTrees))]
			up := strings.TrimSuffix(string(i2b(d.UpPath)), "/")
			for _, e := range src {
				p := string(e.path())
				if up != "" {
					if !strings.HasPrefix(p, up+"/") {
						continue
					}
					p = p[len(up)+1:]
				}
				if !treeConflict(down, dp+"/"+p) {
					down = append(down, tEntry{P: b2i([]byte(dp + "/" + p)), M: e.M, C: e.C})
				}
			}
		}
	}
	sortEntries(down)
	in.Down = down
	// not modelled: an upstream path that names a FILE of some upstream tree (git resolves it to a
	// blob and the propagation quietly does nothing); such directives propagate the whole tree instead
	for di := range in.Dirs {
		up := strings.TrimSuffix(string(i2b(in.Dirs[di].UpPath)), "/")
		if up == "" {
			continue
		}
		for _, tr := range in.UpTrees {
			for _, e := range tr {
				if string(e.path()) == up {
					in.Dirs[di].UpPath = []int{}
				}
			}
		}
	}
	return in
}

func hasUnder(es []tEntry, dir string) bool {
	for _, e := range es {
		if strings.HasPrefix(string(e.path()), dir+"/") {
			return true
		}
	}
	return false
}

// ---- realization ----

func readRefFile(t testing.TB, gitDir, ref string) string {
	b, err := os.ReadFile(filepath.Join(gitDir, ref))
	if err != nil {
		if os.IsNotExist(err) {
			return ""
		}
		t.Fatal(err)
	}
	return strings.TrimSpace(string(b))
}

func writeRefFile(t testing.TB, gitDir, ref, id string) {
	p := filepath.Join(gitDir, ref)
	if err := os.MkdirAll(filepath.Dir(p), 0o755); err != nil {
		t.Fatal(err)
	}
	if err := os.WriteFile(p, []byte(id+"\n"), 0o644); err != nil {
		t.Fatal(err)
	}
}

func clearRefs(t testing.TB, gitDir string) {
	for _, d := range []string{"refs/heads", "refs/gittuf"} {
		os.RemoveAll(filepath.Join(gitDir, d))
	}
	os.MkdirAll(filepath.Join(gitDir, "refs/heads"), 0o755)
	if _, err := os.Stat(filepath.Join(gitDir, "packed-refs")); err == nil {
		t.Fatal("unexpected packed-refs")
	}
}

type c18Repos struct {
	up, down *gitinterface.Repository
}

func newC18Repos(t *testing.T) *c18Repos {
	du := scratchRoot(t)
	dd := scratchRoot(t)
	return &c18Repos{
		up:   gitinterface.CreateTestGitRepository(t, filepath.Join(du, "up"), true),
		down: gitinterface.CreateTestGitRepository(t, filepath.Join(dd, "down"), true),
	}
}

// downstream RSL, oldest first: (id, message)
func rslLog(t testing.TB, gitDir string) [][2]string {
	if readRefFile(t, gitDir, rsl.Ref) == "" {
		return nil
	}
	out := gitRaw(t, gitDir, nil, nil, "log", "--reverse", "--format=%H%x01%B%x00", rsl.Ref)
	res := [][2]string{}
	for _, rec := range bytes.Split(out, []byte{0}) {
		rec = bytes.TrimLeft(rec, "\n")
		if len(rec) == 0 {
			continue
		}
		i := bytes.IndexByte(rec, 1)
		res = append(res, [2]string{string(rec[:i]), string(rec[i+1:])})
	}
	return res
}

func c18Run(t *testing.T, repos *c18Repos, in c18In, id int, out *Out) {
	ug, dg := repos.up.GetGitDir(), repos.down.GetGitDir()
	clearRefs(t, ug)
	clearRefs(t, dg)

	// upstream commits (linear history), refs are set when entries are recorded
	upCommits := []string{}
	for i := range in.UpTrees {
		tree := writeTreeRaw(t, ug, in.UpTrees[i])
		parents := []string{}
		if i > 0 {
			parents = append(parents, upCommits[i-1])
		}
		upCommits = append(upCommits, commitTreeRaw(t, ug, tree, parents...))
	}
	upEntryIDs := make([]string, len(in.UpLog))
	recorded := 0
	recordUpTo := func(call int) {
		for ; recorded < len(in.UpLog) && in.UpLog[recorded].At <= call; recorded++ {
			e := in.UpLog[recorded]
			h, err := gitinterface.NewHash(upCommits[e.Commit])
			if err != nil {
				t.Fatal(err)
			}
			writeRefFile(t, ug, c18UpRefs[e.Ref], upCommits[e.Commit])
			if err := rsl.NewReferenceEntry(c18UpRefs[e.Ref], h).Commit(repos.up, false); err != nil {
				t.Fatal(err)
			}
			upEntryIDs[recorded] = readRefFile(t, ug, rsl.Ref)
			if e.Skipped {
				eh, _ := gitinterface.NewHash(upEntryIDs[recorded])
				if err := rsl.NewAnnotationEntry([]githash.Hash{eh}, true, "revoked").Commit(repos.up, false); err != nil {
					t.Fatal(err)
				}
			}
		}
	}

	// downstream: one commit carrying the tree
	downTree := writeTreeRaw(t, dg, in.Down)
	base := commitTreeRaw(t, dg, downTree)
	writeRefFile(t, dg, c18DownRef, base)

	directives := []tuf.PropagationDirective{}
	for i, d := range in.Dirs {
		directives = append(directives, tufv02.NewPropagationDirective(fmt.Sprintf("d%d", i), c18Locations[d.Repo], c18UpRefs[d.UpRef],
			string(i2b(d.UpPath)), c18DownRef, string(i2b(d.DownPath))))
	}

	impl := c18Impl{Before: leavesOf(lsTreeAllZ(t, dg, base)), Steps: []c18Step{}}
	for call := 0; call < in.Reps; call++ {
		recordUpTo(call)
		st := c18Step{Entries: []c18PEntry{}}
		func() {
			defer func() {
				if rec := recover(); rec != nil {
					st.Class = "panic"
					st.Err = fmt.Sprint(rec)
				}
			}()
			if err := propagation.PropagateChangesFromUpstreamRepository(repos.down, repos.up, directives, false); err != nil {
				st.Class = "err"
				st.Err = err.Error()
				if len(st.Err) > 160 {
					st.Err = st.Err[:160]
				}
				return
			}
			st.Class = "ok"
		}()
		tip := readRefFile(t, dg, c18DownRef)
		st.Tree = leavesOf(lsTreeAllZ(t, dg, tip))
		// commits created on the downstream ref, oldest first
		newCommits := []string{}
		if tip != base {
			revs := strings.Fields(string(gitRaw(t, dg, nil, nil, "rev-list", "--reverse", base+".."+tip)))
			newCommits = revs
		}
		st.Commits = len(newCommits)
		for _, e := range rslLog(t, dg) {
			pe := c18PEntry{Kind: "other", Repo: -1, UpEntry: -1, Target: -1}
			lines := strings.Split(e[1], "\n")
			if strings.TrimSpace(lines[0]) == rsl.PropagationEntryHeader {
				pe.Kind = "propagation"
				for _, l := range lines[1:] {
					k, v, ok := strings.Cut(l, ": ")
					if !ok {
						continue
					}
					v = strings.TrimSpace(v)
					switch k {
					case "ref":
						pe.RefOK = v == c18DownRef
					case "targetID":
						for i, c := range newCommits {
							if c == v {
								pe.Target = i
							}
						}
					case "upstreamRepository":
						for i, loc := range c18Locations {
							if loc == v {
								pe.Repo = i
							}
						}
					case "upstreamEntryID":
						for i, x := range upEntryIDs {
							if x != "" && x == v {
								pe.UpEntry = i
							}
						}
					}
				}
			}
			st.Entries = append(st.Entries, pe)
		}
		impl.Steps = append(impl.Steps, st)
	}
	if err := out.Emit(c18Line{Prop: "C18", ID: id, In: in, Impl: impl}); err != nil {
		t.Fatal(err)
	}
}

func TestC18(t *testing.T) {
	seed := uint64(envInt("VERIF_SEED", 1))
	n := envInt("VERIF_N", 60)
	shard := envInt("VERIF_SHARD", 0)
	out, err := OpenOut()
	if err != nil {
		t.Fatal(err)
	}
	defer out.Close()

	if replay := ReplayInputs[c18In](t); replay != nil {
		for i, c := range replay {
			c18Run(t, newC18Repos(t), c, i+1, out) // fresh repositories: blob contents may repeat across lines
		}
		return
	}
	repos := newC18Repos(t)
	rng := NewRng(seed*1000003 + uint64(shard))
	for i := 0; i < n; i++ {
		// blob contents are unique per case (salt), so that trees of earlier cases in the shared
		// object stores never coincide with trees of this case
		c18Run(t, repos, genC18(rng, i+1), shard*1000000+i+1, out)
	}
}
