package harness

import (
	"fmt"
	"testing"
)

// TestC07: recovery patterns. One protected reference (main -> key 2), optionally a second
// protected reference; every push is independently valid / violating, tree-new / tree-same
// as an earlier entry; skip annotations are placed anywhere later, possibly covering several
// entries; policy and attestation entries are interleaved.
func TestC07(t *testing.T) {
	seed := uint64(envInt("VERIF_SEED", 1))
	n := envInt("VERIF_N", 20)
	shard := envInt("VERIF_SHARD", 0)
	out, err := OpenOut()
	if err != nil {
		t.Fatal(err)
	}
	defer out.Close()
	if replay := ReplayInputs[WorldIn](t); replay != nil {
		for i, w := range replay {
			replayWorld(t, "C07", i+1, w, out)
		}
		return
	}
	rng := NewRng(seed*1000003 + uint64(shard) + 77)
	for i := 0; i < n; i++ {
		c07Case(t, shard*1000000+i+1, rng.U64(), out)
	}
}

type c07Event struct {
	kind   string // push | ann | policy | att
	ref    string
	valid  bool
	same   int // index (among pushes of this ref) whose tree to reuse, -1 new tree
	covers []int
	skip   bool
}

func c07Case(t *testing.T, id int, seed uint64, out *Out) {
	b, qs := c07Build(t, seed)
	emitWitness(t, out, "C07", id, b, qs, fmt.Sprintf("seed=%d", seed))
}

// c07Build builds one recovery-pattern history and the queries to run on it.
func c07Build(t *testing.T, seed uint64) (*WorldBuilder, []VQuery) {
	r := NewRng(seed)
	b := NewWorldBuilder(t)
	main, other := "refs/heads/main", "refs/heads/feature"
	p := basePolicy()
	p.Files[0].Rules = append(p.Files[0].Rules, RuleSpec{Name: "protect-feature", Patterns: []string{"git:refs/heads/feature"}, Principals: []int{1003}, Threshold: 1})
	b.AddPolicy(p, r.Chance(70))

	k := 2 + r.Intn(6)
	if r.Chance(30) {
		k = 7 + r.Intn(5) // room for two or three incidents on one reference in one verified range
	}
	// plan pushes
	type pushPlan struct {
		ref   string
		valid bool
		same  int
		stale bool // signed by the key the previous policy state authorized (de-authorized since)
	}
	plans := []pushPlan{}
	perRef := map[string]int{}
	annAt := map[int][]int{} // insertion point (after push index) -> pushes covered
	lastValid := map[string]int{}
	policyAfter := map[int]bool{}
	addPush := func(pp pushPlan) int {
		perRef[pp.ref]++
		plans = append(plans, pp)
		if pp.valid && pp.same < 0 {
			lastValid[pp.ref] = perRef[pp.ref] - 1
		}
		return len(plans) - 1
	}
	if r.Chance(60) {
		// an early entry of the other reference (annotations may also name it)
		addPush(pushPlan{ref: other, valid: r.Chance(85), same: -1})
	}
	if r.Chance(70) {
		// structured episodes: good, bad+, revoke (maybe incomplete), fix (maybe wrong tree / skipped / unauthorized)
		for len(plans) < k {
			ref := main
			if r.Chance(20) {
				ref = other
			}
			if perRef[ref] == 0 || r.Chance(35) {
				addPush(pushPlan{ref: ref, valid: r.Chance(90), same: -1})
				continue
			}
			nbad := 1 + r.Intn(2)
			bad := []int{}
			for i := 0; i < nbad; i++ {
				bad = append(bad, addPush(pushPlan{ref: ref, valid: false, same: -1}))
				if r.Chance(15) {
					addPush(pushPlan{ref: other, valid: r.Chance(80), same: -1})
				}
			}
			covered := []int{}
			for _, bi := range bad {
				if r.Chance(88) {
					covered = append(covered, bi)
				}
			}
			if r.Chance(60) {
				policyAfter[bad[len(bad)-1]] = true // a policy update INSIDE the recovery window
			}
			fix := pushPlan{ref: ref, valid: r.Chance(75), same: -1}
			if lv, ok := lastValid[ref]; ok && r.Chance(85) {
				fix.same = lv
			}
			fi := addPush(fix)
			at := bad[len(bad)-1]
			if r.Chance(40) {
				at = fi + r.Intn(2) // annotation recorded after the fix
			}
			if len(covered) > 0 {
				annAt[at] = append(annAt[at], covered...)
			}
			if r.Chance(10) {
				annAt[fi] = append(annAt[fi], fi) // the fix itself is revoked
			}
			if r.Chance(80) {
				// relies on the state in force after the fix: signed by whoever it names, or (25%) by
				// the key that the state recorded inside the window has just de-authorized
				addPush(pushPlan{ref: ref, valid: r.Chance(85), same: -1, stale: r.Chance(25)})
			}
		}
		k = len(plans)
	} else {
		for i := 0; i < k; i++ {
			ref := main
			if r.Chance(25) {
				ref = other
			}
			pp := pushPlan{ref: ref, valid: r.Chance(55), same: -1}
			if perRef[ref] > 0 && r.Chance(45) {
				pp.same = r.Intn(perRef[ref])
			}
			addPush(pp)
		}
		k = len(plans)
		// annotations: for each push decide whether/where it is skipped
		for i := range plans {
			skipP := 35
			if !plans[i].valid {
				skipP = 70
			}
			if r.Chance(skipP) {
				at := i + r.Intn(k-i) // after push `at`
				annAt[at] = append(annAt[at], i)
			}
		}
	}
	mainKey := 2
	pushEntry := make([]int, k)
	pushCommit := make([]int, k)
	refPushes := map[string][]int{}
	tip := map[string]*int{}
	nblob := 0
	for i, pp := range plans {
		var tree int
		if pp.same >= 0 {
			tree = b.W.Commits[pushCommit[refPushes[pp.ref][pp.same]]].Tree
		} else {
			nblob++
			tree = b.AddTree([]WFile{{"README", nblob}})
		}
		signer := kOutsider
		if pp.valid {
			if pp.ref == main {
				signer = mainKey
			} else {
				signer = 3
			}
		}
		if pp.stale && pp.ref == main {
			signer = 5 - mainKey // the other one of keys 2 / 3
		}
		c := b.AddCommit(tip[pp.ref], tree, ip(signer))
		tip[pp.ref] = ip(c)
		pushCommit[i] = c
		pushEntry[i] = b.Push(pp.ref, c, ip(signer))
		refPushes[pp.ref] = append(refPushes[pp.ref], i)
		if covered, ok := annAt[i]; ok {
			// one annotation covering all, or one per entry
			ents := []int{}
			for _, ci := range covered {
				ents = append(ents, pushEntry[ci])
			}
			// sometimes the annotation also names an entry of the other reference (or an early
			// entry that a from-entry verification leaves out of range), listed in any position
			if r.Chance(25) && i > 0 {
				ents = append(ents, pushEntry[r.Intn(i+1)])
			}
			for a := len(ents) - 1; a > 0; a-- {
				b2 := r.Intn(a + 1)
				ents[a], ents[b2] = ents[b2], ents[a]
			}
			if r.Chance(60) {
				// an entry of ANOTHER reference listed first
				for ci := i; ci >= 0; ci-- {
					if plans[ci].ref != plans[covered[0]].ref {
						ents = append([]int{pushEntry[ci]}, ents...)
						break
					}
				}
			}
			dedup := []int{}
			seenE := map[int]bool{}
			for _, e := range ents {
				if !seenE[e] {
					seenE[e] = true
					dedup = append(dedup, e)
				}
			}
			ents = dedup
			if r.Bool() || len(ents) == 1 {
				b.Annotate(ents, r.Chance(92), ip(2))
			} else {
				for _, e := range ents {
					b.Annotate([]int{e}, r.Chance(92), ip(2))
				}
			}
		}
		if r.Chance(12) || policyAfter[i] {
			// a policy update that swaps who may push to main (2 <-> 3): later "valid" pushes are
			// signed by whoever the state in force names, so a dropped or misplaced policy entry shows
			np := clonePolicy(p)
			np.Root.Version++
			np.Files[0].Version++
			if mainKey == 2 {
				mainKey = 3
			} else {
				mainKey = 2
			}
			np.Files[0].Rules[0].Principals = []int{1000 + mainKey}
			p = np
			b.AddPolicy(p, r.Bool())
		}
		if r.Chance(8) {
			b.AddAtt(WAtt{})
		}
	}
	for at := k; at < k+3; at++ {
		if covered, ok := annAt[at]; ok {
			ents := []int{}
			for _, ci := range covered {
				ents = append(ents, pushEntry[ci])
			}
			b.Annotate(ents, true, ip(2))
		}
	}
	qs := []VQuery{}
	for _, ref := range []string{main, other} {
		if len(refPushes[ref]) == 0 {
			continue
		}
		qs = append(qs, VQuery{Mode: "full", Ref: ref})
		if r.Chance(50) {
			from := pushEntry[refPushes[ref][r.Intn(len(refPushes[ref]))]]
			qs = append(qs, VQuery{Mode: "from", Ref: ref, From: from})
		}
		if r.Chance(30) {
			qs = append(qs, VQuery{Mode: "latest", Ref: ref})
		}
	}
	return b, qs
}
