package harness

import (
	"bytes"
	"encoding/base64"
	"encoding/hex"
	"encoding/json"
	"encoding/pem"
	"errors"
	"fmt"
	"strconv"
	"strings"
	"testing"

	"github.com/gittuf/gittuf/pkg/githash"
	"github.com/gittuf/gittuf/pkg/gitinterface"
	"github.com/gittuf/gittuf/pkg/rsl"
)

// ---- abstract case (mirrors lean/Driver/C14.lean) ----

// bs is a byte string transported as a JSON array of byte values (arbitrary
// bytes survive; Go strings are byte strings).
type bs []byte

func (b bs) MarshalJSON() ([]byte, error) {
	var sb strings.Builder
	sb.WriteByte('[')
	for i, c := range b {
		if i > 0 {
			sb.WriteByte(',')
		}
		sb.WriteString(strconv.Itoa(int(c)))
	}
	sb.WriteByte(']')
	return []byte(sb.String()), nil
}

func (b *bs) UnmarshalJSON(data []byte) error {
	var v []int
	if err := json.Unmarshal(data, &v); err != nil {
		return err
	}
	*b = make([]byte, len(v))
	for i, x := range v {
		(*b)[i] = byte(x)
	}
	return nil
}

// c14Entry: the fields the property speaks about. Hashes are lower-case hex.
type c14Entry struct {
	T      string   `json:"t"` // ref | ann | prop
	Ref    bs       `json:"ref"`
	Target string   `json:"target"`
	IDs    []string `json:"ids"`
	Skip   bool     `json:"skip"`
	Msg    bs       `json:"msg"`
	Up     bs       `json:"up"`
	UpID   string   `json:"upid"`
	Num    uint64   `json:"num"`
}

type c14In struct {
	K string `json:"k"` // rec | txt
	// rec: the entry to record through the real API. For annotations the ids are
	// chosen by the harness among the entries of the scratch log (NIDs of them);
	// Unnumbered: record with CommitWithoutNumber and the given Num (may be 0).
	E          *c14Entry `json:"e,omitempty"`
	NIDs       int       `json:"nids,omitempty"`
	Unnumbered bool      `json:"unnumbered,omitempty"`
	// txt: the text given to ParseEntryText
	Text bs     `json:"text,omitempty"`
	Gen  string `json:"gen,omitempty"` // how the text was produced (diagnostic only)
}

type c14Impl struct {
	Class   string    `json:"class"` // ok | error | panic | unrecorded
	Err     string    `json:"err,omitempty"`
	E       *c14Entry `json:"e,omitempty"`       // parsed entry
	Written *c14Entry `json:"written,omitempty"` // rec: the entry object after Commit
	Text    bs        `json:"text,omitempty"`    // rec: commit message read back
	Detail  string    `json:"detail,omitempty"`
}

type c14Line struct {
	Prop string  `json:"prop"`
	ID   int     `json:"id"`
	In   c14In   `json:"in"`
	Impl c14Impl `json:"impl"`
}

// ---- real side ----

func c14Canon(e rsl.Entry) *c14Entry {
	switch v := e.(type) {
	case *rsl.ReferenceEntry:
		return &c14Entry{T: "ref", Ref: bs(v.RefName), Target: v.TargetID.String(), Num: v.Number}
	case *rsl.AnnotationEntry:
		ids := []string{}
		for _, id := range v.RSLEntryIDs {
			ids = append(ids, id.String())
		}
		return &c14Entry{T: "ann", IDs: ids, Skip: v.Skip, Msg: bs(v.Message), Num: v.Number}
	case *rsl.PropagationEntry:
		return &c14Entry{T: "prop", Ref: bs(v.RefName), Target: v.TargetID.String(), Up: bs(v.UpstreamRepository), UpID: v.UpstreamEntryID.String(), Num: v.Number}
	}
	return nil
}

func c14ErrClass(err error) string {
	switch {
	case errors.Is(err, rsl.ErrInvalidRSLEntry):
		return "invalid"
	case errors.Is(err, githash.ErrInvalidHashLength):
		return "hashlen"
	case errors.Is(err, githash.ErrInvalidHashEncoding):
		return "hashenc"
	case errors.Is(err, strconv.ErrSyntax):
		return "numsyntax"
	case errors.Is(err, strconv.ErrRange):
		return "numrange"
	}
	return "other"
}

// c14Parse runs the real parser on text; a panic is an observable class.
func c14Parse(id githash.Hash, text string) (res c14Impl) {
	defer func() {
		if r := recover(); r != nil {
			res = c14Impl{Class: "panic", Detail: fmt.Sprint(r)}
		}
	}()
	e, err := rsl.ParseEntryText(id, text)
	if err != nil {
		return c14Impl{Class: "error", Err: c14ErrClass(err)}
	}
	c := c14Canon(e)
	if c == nil {
		return c14Impl{Class: "error", Err: "other", Detail: "nil entry without error"}
	}
	if !e.GetID().Equal(id) {
		return c14Impl{Class: "error", Err: "other", Detail: "id not recorded"}
	}
	return c14Impl{Class: "ok", E: c}
}

type c14Repos struct {
	t        *testing.T
	numbered *gitinterface.Repository // entries recorded with Commit
	legacy   *gitinterface.Repository // entries recorded with CommitWithoutNumber
	idsNum   []githash.Hash
	idsLeg   []githash.Hash
}

func mustHash(t *testing.T, s string) githash.Hash {
	h, err := githash.NewHash(s)
	if err != nil {
		t.Fatal(err)
	}
	return h
}

// c14Record records the entry through the real API and reads it back.
func (rs *c14Repos) record(in c14In) c14Impl {
	t := rs.t
	repo, ids := rs.numbered, &rs.idsNum
	if in.Unnumbered {
		repo, ids = rs.legacy, &rs.idsLeg
	}
	if repo == nil {
		repo = NewRepo(t)
		if in.Unnumbered {
			rs.legacy = repo
		} else {
			rs.numbered = repo
		}
	}
	reset := func() {
		if in.Unnumbered {
			rs.legacy, rs.idsLeg = nil, nil
		} else {
			rs.numbered, rs.idsNum = nil, nil
		}
	}
	var written func() *c14Entry
	var err error
	switch in.E.T {
	case "ref":
		e := rsl.NewReferenceEntry(string(in.E.Ref), mustHash(t, in.E.Target))
		if in.Unnumbered {
			e.Number = in.E.Num
			err = e.CommitWithoutNumber(repo)
		} else {
			err = e.Commit(repo, false)
		}
		written = func() *c14Entry { return c14Canon(e) }
	case "prop":
		e := rsl.NewPropagationEntry(string(in.E.Ref), mustHash(t, in.E.Target), string(in.E.Up), mustHash(t, in.E.UpID))
		// PropagationEntry has no CommitWithoutNumber: only the numbered path exists
		err = e.Commit(repo, false)
		written = func() *c14Entry { return c14Canon(e) }
	case "ann":
		// referenced entries must exist in the log
		for len(*ids) < in.NIDs {
			f := rsl.NewReferenceEntry("refs/heads/filler", gitinterface.ZeroHash)
			var ferr error
			if in.Unnumbered {
				ferr = f.CommitWithoutNumber(repo)
			} else {
				ferr = f.Commit(repo, false)
			}
			if ferr != nil {
				t.Fatal(ferr)
			}
			fid, ferr := repo.GetReference(rsl.Ref)
			if ferr != nil {
				t.Fatal(ferr)
			}
			*ids = append(*ids, fid)
		}
		// the NIDs most recent entries, oldest first, possibly with a repetition
		refd := append([]githash.Hash{}, (*ids)[len(*ids)-in.NIDs:]...)
		e := rsl.NewAnnotationEntry(refd, in.E.Skip, string(in.E.Msg))
		if in.Unnumbered {
			e.Number = in.E.Num
			err = e.CommitWithoutNumber(repo)
		} else {
			err = e.Commit(repo, false)
		}
		written = func() *c14Entry { return c14Canon(e) }
	default:
		t.Fatalf("unknown entry type %q", in.E.T)
	}
	if err != nil {
		reset()
		return c14Impl{Class: "unrecorded", Detail: err.Error()}
	}
	id, err := repo.GetReference(rsl.Ref)
	if err != nil {
		t.Fatal(err)
	}
	*ids = append(*ids, id)
	text, err := repo.GetCommitMessage(id)
	if err != nil {
		t.Fatal(err)
	}
	res := c14Parse(id, text)
	res.Written = written()
	res.Text = bs(text)
	if res.Class != "ok" {
		// the log can no longer be extended (GetLatestEntry fails): start a new one
		reset()
	}
	return res
}

// ---- generators ----

var c14WS = []string{" ", "\t", "\r", "\v", "\f", "\u0085", "\u00a0", "\u1680", "\u2000", "\u2003", "\u200a", "\u2028", "\u2029", "\u202f", "\u205f", "\u3000"}

// bytes that look like white space to a careless model but are not for Go
var c14NearWS = []string{"\xa0", "\xc2", "\x85", "\xe2\x80", "\xe3\x80", "\u200b", "\u180e", "\ufeff", "\xc2\xa0\xc2", "\xe2\x80\x8b", "\xe2\x80\xa7", "\xc0\xa0", "\xe0\x82\xa0"}

func pick[T any](r *Rng, xs []T) T { return xs[r.Intn(len(xs))] }

func genHex(r *Rng, n int) string {
	b := make([]byte, n/2+1)
	for i := range b {
		b[i] = byte(r.U64())
	}
	return hex.EncodeToString(b)[:n]
}

func genHash(r *Rng) string {
	if r.Chance(25) {
		return genHex(r, 64)
	}
	if r.Chance(5) {
		return strings.Repeat("0", 40)
	}
	return genHex(r, 40)
}

var c14RefAlphabet = []string{"a", "b", "x", "Z", "0", "9", "-", "_", ".", "+", "=", "%", "#", "!", "é", "日", "ß", "\u00a0", "\u3000", "\u200b", "\xa0", "\xff", "\xc2", "@", ","}

// genRefName: names git-check-ref-format accepts (plus, rarely, F11 shapes: a
// Unicode white-space rune at either end, which git accepts as well).
func genRefName(r *Rng, f11 bool) string {
	prefix := pick(r, []string{"refs/heads/", "refs/heads/", "refs/tags/", "refs/gittuf/", "refs/remotes/origin/"})
	ncomp := 1 + r.Intn(3)
	comps := []string{}
	for i := 0; i < ncomp; i++ {
		n := 1 + r.Intn(8)
		var sb strings.Builder
		for j := 0; j < n; j++ {
			c := pick(r, c14RefAlphabet)
			if c == "." && (j == 0 || j == n-1 || strings.HasSuffix(sb.String(), ".")) {
				c = "d"
			}
			if c == "@" && n == 1 {
				c = "a"
			}
			sb.WriteString(c)
		}
		s := sb.String()
		if strings.HasSuffix(s, ".lock") {
			s += "x"
		}
		comps = append(comps, s)
	}
	name := prefix + strings.Join(comps, "/")
	// the generator's alphabet contains U+00A0 / U+3000: keep them away from the
	// ends unless an F11 shape is requested
	name = strings.TrimSpace(name)
	for strings.HasSuffix(name, "/") || strings.HasSuffix(name, ".") {
		name += "k"
	}
	if f11 {
		ws := pick(r, []string{"\u00a0", "\u3000", "\u0085", "\u2003", "\u2028", "\u202f", "\u205f", "\u1680"})
		name += ws
	}
	return name
}

func genUpstream(r *Rng, bad bool) string {
	base := pick(r, []string{
		"https://example.com/org/repo", "https://example.com:8443/org/repo.git", "git@github.com:org/repo.git",
		"ssh://git@host:22/path", "file:///tmp/up stream", "C:\\repos\\up", "../up:stream", ":", "::", "a:b:c: d",
		"http://[::1]:80/x", "/srv/git/日本", "/srv/git/x\u00a0y", "", "x", "ref: refs/heads/main", "number: 5",
	})
	if r.Chance(30) {
		base += pick(r, []string{"/sub", ":", ":x", "?q=a:b", "#frag", "\xff", "\xa0", "\u200b"})
	}
	if bad {
		base += pick(r, []string{" ", "\u00a0", "\u3000", "\t"})
	}
	return base
}

func genMessage(r *Rng) []byte {
	switch r.Intn(12) {
	case 0:
		return []byte{}
	case 1:
		return []byte("-----BEGIN MESSAGE-----\nZm9v\n-----END MESSAGE-----")
	case 2:
		return []byte("line one\r\nline two\r\n")
	case 3:
		return []byte("-----END MESSAGE-----\nskip: false\nentryID: " + genHex(r, 40))
	case 4:
		return []byte(pick(r, []string{"\n", " ", "\x00", "=", "\u00a0", "a", "ab", "abc"}))
	case 5:
		n := pick(r, []int{45, 46, 47, 48, 49, 95, 96, 97, 144, 192})
		b := make([]byte, n)
		for i := range b {
			b[i] = byte(r.U64())
		}
		return b
	case 6:
		return []byte("revoked: key compromise, see https://example.com/advisory:42\n\nnumber: 7\n")
	}
	n := r.Intn(120)
	if r.Chance(10) {
		n = 200 + r.Intn(300)
	}
	b := make([]byte, n)
	for i := range b {
		if r.Chance(50) {
			b[i] = byte(32 + r.Intn(95))
		} else {
			b[i] = byte(r.U64())
		}
	}
	return b
}

func genNumber(r *Rng) uint64 {
	switch r.Intn(8) {
	case 0:
		return 0
	case 1:
		return 1
	case 2:
		return 1<<64 - 1
	case 3:
		return 1 << 63
	case 4:
		return 9 + uint64(r.Intn(3))
	case 5:
		return pick(r, []uint64{99, 100, 999999999, 1000000000, 18446744073709551614, 1844674407370955161, 1844674407370955162})
	}
	return r.U64() >> uint(r.Intn(64))
}

// c14NonUTF8: also record reference names / locations that are not valid UTF-8
// (off by default: git commit-tree itself rewrites such bytes as Latin-1, see
// corpus/C14/candidates).
var c14NonUTF8 = envStr("VERIF_C14_NONUTF8", "") == "1"

func genEntryUTF8(r *Rng, wfOnly bool) *c14Entry {
	e := genEntry(r, wfOnly)
	if !c14NonUTF8 {
		e.Ref = bs(strings.ToValidUTF8(string(e.Ref), "\u00e9"))
		e.Up = bs(strings.ToValidUTF8(string(e.Up), "\u00e9"))
	}
	return e
}

func genEntry(r *Rng, wfOnly bool) *c14Entry {
	bad := !wfOnly && r.Chance(6)
	switch r.Intn(3) {
	case 0:
		return &c14Entry{T: "ref", Ref: bs(genRefName(r, bad)), Target: genHash(r), Num: genNumber(r)}
	case 1:
		n := 1 + r.Intn(3)
		if r.Chance(10) {
			n = 4 + r.Intn(6)
		}
		ids := []string{}
		for i := 0; i < n; i++ {
			ids = append(ids, genHash(r))
		}
		return &c14Entry{T: "ann", IDs: ids, Skip: r.Bool(), Msg: genMessage(r), Num: genNumber(r)}
	}
	badUp := !wfOnly && r.Chance(3)
	return &c14Entry{T: "prop", Ref: bs(genRefName(r, bad && !badUp)), Target: genHash(r), Up: bs(genUpstream(r, badUp)), UpID: genHash(r), Num: genNumber(r)}
}

// c14Render: the harness' own rendering of an entry, used only to *generate*
// plausible texts for the parser (nothing is concluded from it).
func c14Lines(e *c14Entry) []string {
	var lines []string
	switch e.T {
	case "ref":
		lines = []string{rsl.ReferenceEntryHeader, "", "ref: " + string(e.Ref), "targetID: " + e.Target}
	case "prop":
		lines = []string{rsl.PropagationEntryHeader, "", "ref: " + string(e.Ref), "targetID: " + e.Target,
			"upstreamRepository: " + string(e.Up), "upstreamEntryID: " + e.UpID}
	case "ann":
		lines = []string{rsl.AnnotationEntryHeader, ""}
		for _, id := range e.IDs {
			lines = append(lines, "entryID: "+id)
		}
		lines = append(lines, "skip: "+strconv.FormatBool(e.Skip))
	}
	if e.Num > 0 {
		lines = append(lines, "number: "+strconv.FormatUint(e.Num, 10))
	}
	if e.T == "ann" && len(e.Msg) > 0 {
		p := strings.TrimSpace(string(pem.EncodeToMemory(&pem.Block{Type: "MESSAGE", Bytes: e.Msg})))
		lines = append(lines, strings.Split(p, "\n")...)
	}
	return lines
}

var c14BadNumbers = []string{"18446744073709551616", "18446744073709551615", "99999999999999999999999999", "+5", "-1", "0x10", "1_000", "007", "0", "00", "", "５", "1e3", "1.0", "١", "18446744073709551615x", "184467440737095516150", "x18446744073709551616", " 5", "5 5", "9223372036854775808"}
var c14Keys = []string{"ref", "targetID", "number", "entryID", "skip", "upstreamRepository", "upstreamEntryID"}

func c14MutKey(r *Rng, k string) string {
	switch r.Intn(6) {
	case 0:
		return strings.ToUpper(k)
	case 1:
		return strings.ToLower(k)
	case 2:
		return strings.ToUpper(k[:1]) + k[1:]
	case 3:
		return k + "s"
	case 4:
		return pick(r, c14Keys)
	}
	return "x-" + k
}

// mutateLines applies one structured mutation.
func c14MutateLines(r *Rng, lines []string) ([]string, string) {
	ls := append([]string{}, lines...)
	if len(ls) == 0 {
		return ls, "none"
	}
	i := r.Intn(len(ls))
	j := r.Intn(len(ls))
	splitKV := func(s string) (string, string, bool) { return strings.Cut(s, ": ") }
	switch r.Intn(24) {
	case 0: // drop
		return append(ls[:i], ls[i+1:]...), "drop"
	case 1: // duplicate in place
		return append(ls[:i+1], append([]string{ls[i]}, ls[i+1:]...)...), "dup"
	case 2: // duplicate elsewhere
		x := ls[i]
		return append(ls[:j], append([]string{x}, ls[j:]...)...), "dup-move"
	case 3: // swap
		ls[i], ls[j] = ls[j], ls[i]
		return ls, "swap"
	case 4: // rename key
		if k, v, ok := splitKV(ls[i]); ok {
			ls[i] = c14MutKey(r, k) + ": " + v
		}
		return ls, "rename"
	case 5: // unknown key line
		x := pick(r, []string{"foo: bar", "note:", ":", ": x", "x", "", "ref", "futureField: refs/heads/main", "skip", "Number: 3", "-----BEGIN MESSAGE-----", "key:value:more"})
		return append(ls[:j], append([]string{x}, ls[j:]...)...), "insert"
	case 6: // white space at the end of a line
		ls[i] += pick(r, c14WS)
		return ls, "ws-end"
	case 7: // white space at the start of a line
		ls[i] = pick(r, c14WS) + ls[i]
		return ls, "ws-start"
	case 8: // white space around the separator
		if k, v, ok := splitKV(ls[i]); ok {
			switch r.Intn(4) {
			case 0:
				ls[i] = k + pick(r, c14WS) + ": " + v
			case 1:
				ls[i] = k + ":" + pick(r, c14WS) + v
			case 2:
				ls[i] = k + ":" + v
			case 3:
				ls[i] = k + " : " + pick(r, c14WS) + v + pick(r, c14WS)
			}
		}
		return ls, "ws-sep"
	case 9: // near-white-space bytes at the ends of a value
		if k, v, ok := splitKV(ls[i]); ok {
			if r.Bool() {
				ls[i] = k + ": " + v + pick(r, c14NearWS)
			} else {
				ls[i] = k + ": " + pick(r, c14NearWS) + v
			}
		}
		return ls, "near-ws"
	case 10: // number games
		for n := range ls {
			if strings.HasPrefix(ls[n], "number: ") {
				ls[n] = "number: " + pick(r, c14BadNumbers)
				return ls, "number"
			}
		}
		return append(ls, "number: "+pick(r, c14BadNumbers)), "number-add"
	case 11: // id length / case / alphabet
		for tries := 0; tries < 6; tries++ {
			n := r.Intn(len(ls))
			if k, v, ok := splitKV(ls[n]); ok && (k == "targetID" || k == "entryID" || k == "upstreamEntryID") {
				switch r.Intn(8) {
				case 0:
					v = genHex(r, pick(r, []int{39, 41, 63, 65, 0, 1, 20, 32, 80, 128}))
				case 1:
					v = strings.ToUpper(v)
				case 2:
					if len(v) > 0 {
						p := r.Intn(len(v))
						v = v[:p] + pick(r, []string{"g", "G", " ", "x", "-", "\u00a0", ":"}) + v[p+1:]
					}
				case 3:
					v = v + v
				case 4:
					if len(v) > 2 {
						v = v[:len(v)-2] + "\u00e9" // 2 bytes, 1 rune: byte length still 40/64
					}
				case 5:
					v = "0x" + v[:len(v)-min(2, len(v))]
				case 6:
					if len(v) > 3 {
						v = v[:len(v)-3] + "\u3000" // trimmed away: 37/61 left
					}
				case 7:
					v = genHex(r, 64)
				}
				ls[n] = k + ": " + v
				return ls, "id"
			}
		}
		return ls, "id-none"
	case 12: // skip value
		for n := range ls {
			if strings.HasPrefix(ls[n], "skip: ") {
				ls[n] = "skip: " + pick(r, []string{"True", "TRUE", "1", "yes", "", "true ", "false\u00a0", "truefalse", "false", "true", "t"})
				return ls, "skip"
			}
		}
		return ls, "skip-none"
	case 13: // header games
		ls[0] = pick(r, []string{ls[0] + " ", ls[0] + "s", strings.ToLower(ls[0]), " " + ls[0], ls[0] + "\r", "RSL Reference Entry", "RSL Annotation Entry", "RSL Propagation Entry", "RSL", ls[0] + ": x", ls[0] + "\u00a0"})
		return ls, "header"
	case 14: // second line
		if len(ls) > 1 {
			ls[1] = pick(r, []string{" ", "\u00a0", "\t\r", "x", "ref: refs/heads/main", "\u3000 \u2028", "\u200b", ":"})
		}
		return ls, "blank"
	case 15: // remove the blank line
		if len(ls) > 1 {
			return append(ls[:1], ls[2:]...), "noblank"
		}
		return ls, "noblank"
	case 16: // trailing newline(s)
		return append(ls, pick(r, []string{"", " ", "\u00a0"})), "trailing-nl"
	case 17: // move everything of one kind first
		x := ls[len(ls)-1]
		return append([]string{ls[0], ls[1%len(ls)], x}, ls[min(2, len(ls)):len(ls)-1]...), "last-first"
	case 18: // PEM games
		return c14MutatePEM(r, ls), "pem"
	case 19: // a field from another entry kind
		x := pick(r, []string{"ref: refs/heads/other", "targetID: " + genHex(r, 40), "entryID: " + genHex(r, 40), "skip: true", "skip: false",
			"upstreamRepository: http://x:1/y", "upstreamEntryID: " + genHex(r, 40), "number: 4"})
		return append(ls[:j], append([]string{x}, ls[j:]...)...), "foreign"
	case 20: // value replaced by one with separators in it
		if k, _, ok := splitKV(ls[i]); ok {
			ls[i] = k + ": " + pick(r, []string{"a:b", ":", "::x", "ref: y", " :", "x: " + genHex(r, 40)})
		}
		return ls, "colon-value"
	case 21: // empty value
		if k, _, ok := splitKV(ls[i]); ok {
			ls[i] = k + pick(r, []string{":", ": ", ":\u00a0", ""})
		}
		return ls, "empty-value"
	case 22: // reverse the body
		if len(ls) > 3 {
			b := ls[2:]
			for a, z := 0, len(b)-1; a < z; a, z = a+1, z-1 {
				b[a], b[z] = b[z], b[a]
			}
		}
		return ls, "reverse"
	}
	// key only differs by white space / invisible characters
	if k, v, ok := splitKV(ls[i]); ok {
		ls[i] = pick(r, []string{"\u00a0" + k, k + "\u200b", "\ufeff" + k, k + "\u3000"}) + ": " + v
	}
	return ls, "key-ws"
}

func c14MutatePEM(r *Rng, ls []string) []string {
	b64 := base64.StdEncoding.EncodeToString(genMessage(r))
	typ := pick(r, []string{"MESSAGE", "MESSAGE", "OTHER", "", "MESSAGE ", "X:Y", "message"})
	endTyp := typ
	if r.Chance(15) {
		endTyp = pick(r, []string{"MESSAGE", "OTHER", ""})
	}
	var blk []string
	blk = append(blk, "-----BEGIN "+typ+"-----"+pick(r, []string{"", "", "", " ", "\t", "\r", "x", "\u00a0"}))
	if r.Chance(20) {
		blk = append(blk, pick(r, []string{"Header: value", "Proc-Type: 4,ENCRYPTED", "skip: true", "number: 9", "entryID: " + genHex(r, 40), "a:b"}))
		if r.Bool() {
			blk = append(blk, "")
		}
	}
	switch r.Intn(9) {
	case 0:
		// empty block
	case 1:
		blk = append(blk, b64+"=")
	case 2:
		blk = append(blk, strings.TrimRight(b64, "="))
	case 3:
		blk = append(blk, " "+b64+" \t")
	case 4:
		if len(b64) > 4 {
			blk = append(blk, b64[:4]+"\r", b64[4:])
		} else {
			blk = append(blk, b64)
		}
	case 5:
		blk = append(blk, b64+"!")
	case 6:
		if len(b64) > 2 {
			blk = append(blk, b64[:len(b64)/2]+"=", b64[len(b64)/2:])
		}
	default:
		for len(b64) > 64 {
			blk = append(blk, b64[:64])
			b64 = b64[64:]
		}
		blk = append(blk, b64)
	}
	if !r.Chance(12) {
		blk = append(blk, "-----END "+endTyp+"-----"+pick(r, []string{"", "", "", " ", "x", "\r", " \t"}))
	}
	// strip an existing block sometimes, then insert the new one somewhere
	out := []string{}
	stripOld := r.Bool()
	in := false
	for _, l := range ls {
		if stripOld && strings.HasPrefix(l, "-----BEGIN ") {
			in = true
		}
		if !in {
			out = append(out, l)
		}
		if stripOld && strings.HasPrefix(l, "-----END ") {
			in = false
		}
	}
	pos := len(out)
	if r.Chance(35) {
		pos = r.Intn(len(out) + 1)
	}
	res := append([]string{}, out[:pos]...)
	res = append(res, blk...)
	res = append(res, out[pos:]...)
	if r.Chance(15) {
		res = append(res, "foo: -----BEGIN MESSAGE-----")
	}
	return res
}

func c14MutateBytes(r *Rng, b []byte) []byte {
	if len(b) == 0 {
		return []byte{byte(r.U64())}
	}
	p := r.Intn(len(b))
	switch r.Intn(5) {
	case 0:
		b[p] ^= 1 << uint(r.Intn(8))
	case 1:
		b = append(b[:p], b[p+1:]...)
	case 2:
		b = append(b[:p], append([]byte{byte(r.U64())}, b[p:]...)...)
	case 3:
		b = b[:p]
	case 4:
		b = append(b[:p], append([]byte(pick(r, c14WS)), b[p:]...)...)
	}
	return b
}

var c14Vocab = []string{
	rsl.ReferenceEntryHeader, rsl.AnnotationEntryHeader, rsl.PropagationEntryHeader, "\n", "\n", "\n\n", "\r\n", ": ", ":", " ",
	"ref", "targetID", "number", "entryID", "skip", "upstreamRepository", "upstreamEntryID", "true", "false",
	"refs/heads/main", "-----BEGIN MESSAGE-----", "-----END MESSAGE-----", "-----BEGIN ", "-----END ", "-----", "Zm9v", "Zg==", "Zm8=", "=",
	"1", "42", "18446744073709551615", "18446744073709551616", "\u00a0", "\u3000", "\u0085", "\xc2", "\xa0", "\x00",
}

func genFuzz(r *Rng) []byte {
	var b bytes.Buffer
	if r.Chance(25) {
		n := r.Intn(60)
		for i := 0; i < n; i++ {
			b.WriteByte(byte(r.U64()))
		}
		return b.Bytes()
	}
	if r.Chance(80) {
		b.WriteString(pick(r, c14Vocab[:3]))
		if r.Chance(85) {
			b.WriteString("\n\n")
		}
	}
	if r.Chance(40) {
		// line structured: random known / unknown fields in random order
		n := r.Intn(7)
		for i := 0; i < n; i++ {
			k := pick(r, c14Keys)
			if r.Chance(15) {
				k = pick(r, []string{"foo", "Ref", "", "x y"})
			}
			v := pick(r, []string{genHex(r, 40), genHex(r, 64), "refs/heads/main", "true", "false", "1", "42", "", "a:b", "18446744073709551615"})
			if i > 0 {
				b.WriteString("\n")
			}
			b.WriteString(k + pick(r, []string{": ", ":", " : "}) + v)
		}
		return b.Bytes()
	}
	n := r.Intn(24)
	for i := 0; i < n; i++ {
		switch r.Intn(10) {
		case 0:
			b.WriteString(genHex(r, pick(r, []int{40, 64, 40, 39, 41})))
		case 1:
			b.WriteByte(byte(r.U64()))
		case 2, 3:
			b.WriteString(pick(r, c14Keys) + ": ")
		default:
			b.WriteString(pick(r, c14Vocab))
		}
	}
	return b.Bytes()
}

func genText(r *Rng) ([]byte, string) {
	switch k := r.Intn(100); {
	case k < 12: // a valid text as is (possibly with non-canonical but accepted values)
		return []byte(strings.Join(c14Lines(genEntry(r, false)), "\n")), "valid"
	case k < 72: // structured mutations
		ls := c14Lines(genEntry(r, true))
		n := 1
		if r.Chance(25) {
			n = 2 + r.Intn(2)
		}
		tags := []string{}
		for i := 0; i < n; i++ {
			var tag string
			ls, tag = c14MutateLines(r, ls)
			tags = append(tags, tag)
		}
		sep := "\n"
		if r.Chance(6) {
			sep = "\r\n"
			tags = append(tags, "crlf")
		}
		return []byte(strings.Join(ls, sep)), strings.Join(tags, "+")
	case k < 80: // PEM games on an annotation
		var e *c14Entry
		for e = genEntry(r, true); e.T != "ann"; e = genEntry(r, true) {
		}
		ls := c14MutatePEM(r, c14Lines(e))
		tag := "pem-ann"
		if r.Chance(30) {
			ls, tag = c14MutateLines(r, ls)
			tag = "pem-ann+" + tag
		}
		sep := "\n"
		if r.Chance(8) {
			sep = "\r\n"
		}
		return []byte(strings.Join(ls, sep)), tag
	case k < 88: // byte-level mutations of a valid text
		b := []byte(strings.Join(c14Lines(genEntry(r, true)), "\n"))
		n := 1 + r.Intn(3)
		for i := 0; i < n; i++ {
			b = c14MutateBytes(r, b)
		}
		return b, "bytes"
	}
	return genFuzz(r), "fuzz"
}

func genC14(r *Rng) c14In {
	if r.Chance(22) {
		e := genEntryUTF8(r, false)
		in := c14In{K: "rec", E: e}
		if e.T == "ann" {
			in.NIDs = len(e.IDs)
			e.IDs = nil
		}
		if e.T != "prop" && r.Chance(40) {
			in.Unnumbered = true
		} else {
			e.Num = 0 // assigned by the log
		}
		return in
	}
	text, gen := genText(r)
	return c14In{K: "txt", Text: bs(text), Gen: gen}
}

func c14Run(rs *c14Repos, in c14In) c14Impl {
	switch in.K {
	case "rec":
		return rs.record(in)
	case "txt":
		return c14Parse(gitinterface.ZeroHash, string(in.Text))
	}
	rs.t.Fatalf("unknown case kind %q", in.K)
	return c14Impl{}
}

func TestC14(t *testing.T) {
	seed := uint64(envInt("VERIF_SEED", 1))
	n := envInt("VERIF_N", 200)
	shard := envInt("VERIF_SHARD", 0)
	out, err := OpenOut()
	if err != nil {
		t.Fatal(err)
	}
	defer out.Close()
	rs := &c14Repos{t: t}

	if replay := ReplayInputs[c14In](t); replay != nil {
		for i, in := range replay {
			if err := out.Emit(c14Line{Prop: "C14", ID: i + 1, In: in, Impl: c14Run(rs, in)}); err != nil {
				t.Fatal(err)
			}
		}
		return
	}

	rng := NewRng(seed*1000003 + uint64(shard))
	id := shard*1000000 + 1
	for i := 0; i < n; i++ {
		in := genC14(rng)
		if err := out.Emit(c14Line{Prop: "C14", ID: id, In: in, Impl: c14Run(rs, in)}); err != nil {
			t.Fatal(err)
		}
		id++
	}
}
