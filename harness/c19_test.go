package harness

import (
	"fmt"
	"testing"

	"github.com/gittuf/gittuf/internal/policy"
)

type c19Recorder struct {
	Signer  *int    `json:"signer"`
	Verdict VResult `json:"verdict"`
}
type c19In struct {
	World   *World `json:"world"`
	Target  string `json:"target"`
	Feature string `json:"feature"`
	// the merge that is recorded by each candidate: a fast-forward of target to this commit
	FeatureCommit int `json:"feature_commit"`
}
type c19Impl struct {
	NeedSig    bool          `json:"need_sig"`
	Class      string        `json:"class"` // ok | verif | other...
	Err        string        `json:"err,omitempty"`
	Candidates []c19Recorder `json:"candidates"`
}
type c19Line struct {
	Prop string  `json:"prop"`
	ID   int     `json:"id"`
	In   c19In   `json:"in"`
	Impl c19Impl `json:"impl"`
	Meta string  `json:"meta,omitempty"`
}

// TestC19: mergeability prediction vs. verification of the recorded merge.
func TestC19(t *testing.T) {
	seed := uint64(envInt("VERIF_SEED", 1))
	n := envInt("VERIF_N", 10)
	shard := envInt("VERIF_SHARD", 0)
	out, err := OpenOut()
	if err != nil {
		t.Fatal(err)
	}
	defer out.Close()
	if replay := ReplayInputs[c19In](t); replay != nil {
		for i, in := range replay {
			b := Rebuild(t, in.World)
			c19Run(t, i+1, b, in.Target, in.Feature, in.FeatureCommit, "replay", out)
		}
		return
	}
	rng := NewRng(seed*1000003 + uint64(shard) + 1919)
	for i := 0; i < n; i++ {
		c19Case(t, shard*1000000+i+1, rng.U64(), out)
	}
}

func c19Run(t *testing.T, id int, b *WorldBuilder, target, feature string, fc int, meta string, out *Out) {
	in := c19In{World: b.Snapshot(), Target: target, Feature: feature, FeatureCommit: fc}
	v := policy.NewPolicyVerifier(b.Repo)
	need, err := v.VerifyMergeable(ctx, target, feature)
	r := classifyVerifyErr(err)
	impl := c19Impl{NeedSig: need, Class: r.Class, Err: r.Err}
	// previous target of the target ref
	var prev *int
	for i := len(b.W.Log) - 1; i >= 0; i-- {
		e := b.W.Log[i]
		if e.Kind != "ann" && e.Ref == target {
			prev = ip(e.Target.I)
			break
		}
	}
	cands := []*int{nil, ip(kOutsider)}
	for k := kDevFirst; k <= kDevFirst+4; k++ {
		cands = append(cands, ip(k))
	}
	for _, c := range cands {
		b.Push(target, fc, c)
		res := RunQuery(b, VQuery{Mode: "full", Ref: target})
		impl.Candidates = append(impl.Candidates, c19Recorder{Signer: c, Verdict: res})
		b.PopLastEntry(target, prev)
	}
	if err := out.Emit(c19Line{Prop: "C19", ID: id, In: in, Impl: impl, Meta: meta}); err != nil {
		t.Fatal(err)
	}
}

func c19Case(t *testing.T, id int, seed uint64, out *Out) {
	r := NewRng(seed)
	b := NewWorldBuilder(t)
	main, feature := "refs/heads/main", "refs/heads/feature"
	pol := PolicySpec{Root: RootSpec{Version: 1, RootKeys: []int{kRoot}, RootThreshold: 1, TargetsKeys: []int{kTargets}, TargetsThreshold: 1, Signers: []int{kRoot}}}
	if r.Chance(40) {
		pol.Root.Apps = []AppSpec{{Name: "app", Key: kApp, Trusted: true}}
	}
	if r.Chance(25) {
		switch r.Intn(3) {
		case 0:
			pol.Root.GlobalRules = []GlobalRuleSpec{{Name: "g", Kind: "threshold", Patterns: []string{"git:refs/heads/main"}, Threshold: 1 + r.Intn(3)}}
		case 1:
			pol.Root.GlobalRules = []GlobalRuleSpec{{Name: "g", Kind: "threshold", Patterns: []string{"git:refs/heads/unrelated"}, Threshold: 1}}
		default:
			pol.Root.GlobalRules = []GlobalRuleSpec{{Name: "g", Kind: "block-force-pushes", Patterns: []string{"git:refs/heads/main"}}}
		}
	}
	file := RuleFileSpec{Name: "targets", Version: 1, Signers: []int{kTargets}}
	ids := []int{}
	for k := kDevFirst; k <= kDevFirst+3; k++ {
		file.Principals = append(file.Principals, PrincipalSpec{ID: k, Person: true, Keys: []int{k}, Identities: map[string]string{"app": fmt.Sprintf("user%d", k)}})
		ids = append(ids, k)
	}
	nP := 1 + r.Intn(3)
	thr := 1 + r.Intn(nP)
	if nP >= 2 && r.Chance(50) {
		thr = 2
	}
	file.Rules = []RuleSpec{{Name: "protect-main", Patterns: []string{"git:refs/heads/main"}, Principals: ids[:nP], Threshold: thr}}
	if r.Chance(25) {
		// a second consulted rule for main
		file.Rules = append(file.Rules, RuleSpec{Name: "protect-main-2", Patterns: []string{"git:refs/heads/*"}, Principals: ids[1:], Threshold: 1 + r.Intn(2)})
	}
	fileRule := r.Chance(35)
	if fileRule {
		file.Rules = append(file.Rules, RuleSpec{Name: "protect-src", Patterns: []string{"file:src/*"}, Principals: ids[:2], Threshold: 1})
	}
	pol.Files = []RuleFileSpec{file}
	b.AddPolicy(pol, true)

	// base state of main (signed properly so that the history before the merge verifies)
	var base *int
	if r.Chance(80) {
		c := b.AddCommit(nil, b.AddTree([]WFile{{"README", 1}}), ip(ids[0]))
		base = ip(c)
		// make the base entry valid: authorization by enough principals if threshold > 1
		if thr > 1 {
			b.AddAtt(WAtt{Auths: []WAuth{{SRef: main, SFrom: nil, STo: b.W.Commits[c].Tree, Ref: main, From: nil, To: b.W.Commits[c].Tree, Signers: ids[1:thr]}}})
		}
		b.Push(main, c, ip(ids[0]))
	}
	// feature history
	tip := base
	files := []WFile{{"README", 1}}
	nc := 1 + r.Intn(3)
	var fc int
	for i := 0; i < nc; i++ {
		path := "docs/x"
		if fileRule && r.Chance(50) {
			path = "src/main.go"
		}
		files = append([]WFile{}, files...)
		found := false
		for j := range files {
			if files[j].Path == path {
				files[j].Blob = 100 + i
				found = true
			}
		}
		if !found {
			files = append(files, WFile{path, 100 + i})
		}
		var signer *int
		switch x := r.Intn(10); {
		case x < 6:
			signer = ip(ids[r.Intn(len(ids))])
		case x < 8:
			signer = ip(kOutsider)
		}
		fc = b.AddCommit(tip, b.AddTree(files), signer)
		tip = ip(fc)
	}
	b.Push(feature, fc, ip(ids[r.Intn(len(ids))]))
	// approvals for the merge (main, base, tree(fc))
	mt := b.W.Commits[fc].Tree
	att := WAtt{}
	if len(b.W.Atts) > 0 {
		att.Auths = append(att.Auths, b.W.Atts[len(b.W.Atts)-1].Auths...)
	}
	if r.Chance(75) {
		signers := []int{}
		for _, k := range ids {
			if r.Chance(40) {
				signers = append(signers, k)
			}
		}
		if r.Chance(15) {
			signers = append(signers, kOutsider)
		}
		att.Auths = append(att.Auths, WAuth{SRef: main, SFrom: base, STo: mt, Ref: main, From: base, To: mt, Signers: signers})
	}
	if len(pol.Root.Apps) > 0 && r.Chance(50) {
		g := WGh{SRef: main, SFrom: base, STo: mt, Ref: main, From: base, To: mt, App: "app", Signers: []int{kApp}, Approvers: []string{}, Dismissed: []string{}}
		for _, k := range ids {
			if r.Chance(35) {
				g.Approvers = append(g.Approvers, fmt.Sprintf("user%d", k))
			}
		}
		if len(g.Approvers) == 0 {
			g.Approvers = []string{"stranger"}
		}
		att.Gh = append(att.Gh, g)
	}
	if len(att.Auths)+len(att.Gh) > 0 {
		b.AddAtt(att)
	}
	c19Run(t, id, b, main, feature, fc, fmt.Sprintf("seed=%d", seed), out)
}
