package harness

import (
	"fmt"
	"os"
	"path/filepath"
	"strings"
	"testing"

	"github.com/gittuf/gittuf/pkg/githash"
	"github.com/gittuf/gittuf/pkg/gitinterface"
	"github.com/gittuf/gittuf/pkg/gitstore"
	"github.com/gittuf/gittuf/pkg/rsl"
)

// ---- abstract case (mirrors lean/Driver/C17.lean) ----

type c17Op struct {
	Kind string `json:"kind"` // "record" | "annotate"
	Ann  int    `json:"ann"`  // annotate: number (1-based) of the pre-existing entry referred to
}
type c17In struct {
	Pre      int     `json:"pre"` // entries in the log at the start
	Ops      []c17Op `json:"ops"`
	Split    bool    `json:"split"` // Commit seen as two halves
	Schedule []int   `json:"schedule"`
}
type c17Node struct {
	NPar   int    `json:"npar"`
	Number uint64 `json:"number"`
	Owner  int    `json:"owner"` // 0 = pre-existing, i+1 = operation i, -1 = unknown
	Kind   string `json:"kind"`
}
type c17Impl struct {
	Results  []string   `json:"results"`
	Traces   [][]string `json:"traces"`
	Granted  []int      `json:"granted"`
	Chain    []c17Node  `json:"chain"` // everything reachable from the log tip, newest first
	Valid    bool       `json:"valid"` // independent walker's verdict
	Reader   string     `json:"reader"`
	ReadLen  int        `json:"readlen"`
	Deadlock bool       `json:"deadlock"`
}
type c17Line struct {
	Prop string  `json:"prop"`
	ID   int     `json:"id"`
	In   c17In   `json:"in"`
	Impl c17Impl `json:"impl"`
}

var c17Tmpl = map[int]string{}
var c17Pre = map[int][]WalkEntry{}

func c17Template(t *testing.T, pre int) string {
	if d, ok := c17Tmpl[pre]; ok {
		return d
	}
	rsl.VerifResetCache()
	dir := scratchRoot(t) + "/r"
	repo := gitinterface.CreateTestGitRepository(t, dir, false)
	target, _ := githash.NewHash(c16FakeTarget)
	for i := 0; i < pre; i++ {
		if err := rsl.NewReferenceEntry("refs/heads/main", target).Commit(repo, false); err != nil {
			t.Fatal(err)
		}
	}
	c17Tmpl[pre] = dir
	return dir
}

func c17Run(t *testing.T, in c17In) c17Impl {
	dir := cpDir(t, c17Template(t, in.Pre))
	repo, err := gitinterface.LoadRepository(dir)
	if err != nil {
		t.Fatal(err)
	}
	gitDir := repo.GetGitDir()
	rsl.VerifResetCache()
	pre, ok := c17Pre[in.Pre]
	if !ok {
		pre, err = WalkLog(gitDir)
		if err != nil {
			t.Fatal(err)
		}
		c17Pre[in.Pre] = pre
	}
	// pre[0] is the newest; entry number n is pre[len-n]
	ops := []func(st gitstore.Storer) error{}
	for i, op := range in.Ops {
		i := i
		switch op.Kind {
		case "record":
			target, _ := githash.NewHash(fmt.Sprintf("%040x", 0xabc000+i))
			ops = append(ops, func(st gitstore.Storer) error {
				return rsl.NewReferenceEntry(fmt.Sprintf("refs/heads/t%d", i), target).Commit(st, false)
			})
		case "annotate":
			if op.Ann < 1 || op.Ann > len(pre) {
				t.Fatalf("annotate: no entry %d", op.Ann)
			}
			id, _ := githash.NewHash(pre[len(pre)-op.Ann].ID)
			ops = append(ops, func(st gitstore.Storer) error {
				return rsl.NewAnnotationEntry([]githash.Hash{id}, true, fmt.Sprintf("t%d", i)).Commit(st, false)
			})
		default:
			t.Fatalf("unknown op %s", op.Kind)
		}
	}
	s := NewStepScheduler(repo, len(ops))
	for i := range ops {
		cs := s.Storer(i)
		cs.SplitCommit = in.Split
		cs.Repo = repo
		cs.ScratchRef = fmt.Sprintf("refs/verif-scratch/t%d", i)
	}
	// concurrent writers are separate processes, each with its own entry cache: the
	// process-wide cache is switched to the running thread's contents at every context switch
	onSwitch := func(_, to int) {
		rsl.VerifResetCache()
		for _, id := range s.Storer(to).Fetched {
			_, _ = rsl.GetEntry(repo, id)
		}
	}
	rsl.VerifResetCache()
	impl := c17Impl{Results: []string{}, Traces: [][]string{}, Chain: []c17Node{}}
	if err := s.Run(ops, in.Schedule, onSwitch); err != nil {
		impl.Deadlock = true
		return impl
	}
	impl.Granted = s.Granted
	for _, th := range s.threads {
		switch {
		case th.panicS != "":
			impl.Results = append(impl.Results, "panic")
		case th.err != nil:
			impl.Results = append(impl.Results, "error")
		default:
			impl.Results = append(impl.Results, "ok")
		}
		tr := th.cs.Trace
		if tr == nil {
			tr = []string{}
		}
		impl.Traces = append(impl.Traces, tr)
	}
	rsl.VerifResetCache()
	w, err := WalkLog(gitDir)
	if err != nil {
		t.Fatal(err)
	}
	impl.Valid = ChainValid(w)
	preIDs := map[string]bool{}
	for _, e := range pre {
		preIDs[e.ID] = true
	}
	for _, e := range w {
		n := c17Node{NPar: e.NParents, Number: e.Number, Kind: e.Kind, Owner: -1}
		switch {
		case preIDs[e.ID]:
			n.Owner = 0
		case e.Kind == "ref" && strings.HasPrefix(e.Ref, "refs/heads/t"):
			fmt.Sscanf(e.Ref, "refs/heads/t%d", &n.Owner)
			n.Owner++
		case e.Kind == "ann" && strings.HasPrefix(e.Body, "t"):
			fmt.Sscanf(e.Body, "t%d", &n.Owner)
			n.Owner++
		}
		impl.Chain = append(impl.Chain, n)
	}
	impl.Reader, impl.ReadLen = ReadersWalk(repo)
	rsl.VerifResetCache()
	os.RemoveAll(filepath.Dir(dir))
	return impl
}

// c17Systematic: all schedules of two operations with at most two preemptions:
// f runs i calls, g runs j calls, f runs to its end, g runs to its end.
func c17Systematic() []c17In {
	res := []c17In{}
	const L = 8
	rep := func(tid, n int) []int {
		r := make([]int, n)
		for i := range r {
			r[i] = tid
		}
		return r
	}
	type cfg struct {
		pre int
		ops []c17Op
	}
	cfgs := []cfg{
		{0, []c17Op{{Kind: "record"}, {Kind: "record"}}},
		{2, []c17Op{{Kind: "record"}, {Kind: "record"}}},
		{2, []c17Op{{Kind: "record"}, {Kind: "annotate", Ann: 2}}},
		{2, []c17Op{{Kind: "annotate", Ann: 1}, {Kind: "annotate", Ann: 2}}},
	}
	// upper bound of the number of Storer calls of an operation (a shorter run makes some
	// schedules coincide; those are emitted once)
	maxLen := func(op c17Op, split bool) int {
		n := 4
		if op.Kind == "annotate" {
			n = 5
		}
		if split {
			n++
		}
		return n
	}
	for _, c := range cfgs {
		for _, split := range []bool{false, true} {
			for f := 0; f < 2; f++ {
				g := 1 - f
				for i := 1; i < maxLen(c.ops[f], split); i++ {
					for j := 1; j <= maxLen(c.ops[g], split); j++ {
						sch := append(append(append(rep(f, i), rep(g, j)...), rep(f, L)...), rep(g, L)...)
						res = append(res, c17In{Pre: c.pre, Ops: c.ops, Split: split, Schedule: sch})
					}
				}
			}
		}
	}
	return res
}

func TestC17(t *testing.T) {
	seed := uint64(envInt("VERIF_SEED", 1))
	n := envInt("VERIF_N", 400)
	shard := envInt("VERIF_SHARD", 0)
	tier := envStr("VERIF_TIER", "quick")
	out, err := OpenOut()
	if err != nil {
		t.Fatal(err)
	}
	defer out.Close()
	id := shard*1000000 + 1
	emit := func(in c17In, impl c17Impl) {
		if err := out.Emit(c17Line{Prop: "C17", ID: id, In: in, Impl: impl}); err != nil {
			t.Fatal(err)
		}
		id++
	}
	if replay := ReplayInputs[c17In](t); replay != nil {
		for _, in := range replay {
			emit(in, c17Run(t, in))
		}
		return
	}
	rng := NewRng(seed*1000003 + uint64(shard))
	done := 0
	if shard == 0 {
		// systematic part; schedules that turn out to be the same sequence of grants are emitted once
		seen := map[string]bool{}
		all := c17Systematic()
		if len(all) > n {
			// deterministic sample of n schedules (VERIF_SEED), keeping the order
			keep := map[int]bool{}
			for len(keep) < n {
				keep[rng.Intn(len(all))] = true
			}
			sel := []c17In{}
			for i, in := range all {
				if keep[i] {
					sel = append(sel, in)
				}
			}
			all = sel
		}
		for _, in := range all {
			impl := c17Run(t, in)
			key := fmt.Sprint(in.Pre, in.Ops, in.Split, impl.Granted)
			if seen[key] && !impl.Deadlock {
				continue
			}
			seen[key] = true
			in.Schedule = impl.Granted
			if impl.Deadlock {
				in.Schedule = []int{}
			}
			emit(in, impl)
			done++
		}
	}
	if tier != "thorough" {
		return
	}
	// random schedules of three operations
	for ; done < n; done++ {
		in := c17In{Pre: rng.Intn(3), Split: rng.Bool(), Ops: []c17Op{}, Schedule: []int{}}
		for i := 0; i < 3; i++ {
			if in.Pre > 0 && rng.Chance(35) {
				in.Ops = append(in.Ops, c17Op{Kind: "annotate", Ann: 1 + rng.Intn(in.Pre)})
			} else {
				in.Ops = append(in.Ops, c17Op{Kind: "record"})
			}
		}
		for i := 0; i < 24; i++ {
			in.Schedule = append(in.Schedule, rng.Intn(3))
		}
		impl := c17Run(t, in)
		in.Schedule = impl.Granted
		emit(in, impl)
	}
}
