package harness

import (
	"encoding/json"
	"errors"
	"fmt"
	"sort"
	"strings"
	"testing"

	"github.com/gittuf/gittuf/internal/tuf"
	"github.com/gittuf/gittuf/internal/tuf/migrations"
	tufv01 "github.com/gittuf/gittuf/internal/tuf/v01"
	tufv02 "github.com/gittuf/gittuf/internal/tuf/v02"
	"github.com/secure-systems-lab/go-securesystemslib/signerverifier"
)

// ---- abstract case (mirrors lean/Driver/C13.lean) ----

// c13P is an abstract principal argument. Kind "key": ID is "k<i>" (key i of the
// deterministic pool; its real id is the key id). Kind "person": a tufv02.Person
// with PersonID = ID and the listed keys. Kind "bogus": some other implementation
// of tuf.Principal. A nil *c13P is a nil interface value.
type c13P struct {
	ID   string   `json:"id"`
	Kind string   `json:"kind"`
	Keys []string `json:"keys"`
}

type c13G struct {
	Name     string   `json:"name"`
	Kind     string   `json:"kind"` // threshold | block
	Patterns []string `json:"patterns"`
	Thr      int      `json:"thr"`
}

type c13Op struct {
	Op       string   `json:"op"`
	Name     string   `json:"name,omitempty"`
	IDs      []string `json:"ids,omitempty"`
	Patterns []string `json:"patterns,omitempty"`
	Thr      int      `json:"thr,omitempty"`
	Names    []string `json:"names,omitempty"`
	P        *c13P    `json:"p,omitempty"`
	ID       string   `json:"id,omitempty"`
	Which    string   `json:"which,omitempty"` // root | targets
	G        *c13G    `json:"g,omitempty"`
	D        []string `json:"d,omitempty"`      // propagation directive: name, upstream repo/ref/path, downstream ref/path
	Stages   []int    `json:"stages,omitempty"` // hook stages (0 pre-commit, 1 pre-push, other: invalid)
}

type c13In struct {
	Kind string  `json:"kind"` // targets | root
	Ver  int     `json:"ver"`  // 1 | 2
	Ops  []c13Op `json:"ops"`
}

type c13Step struct {
	Err string `json:"e"`
	// D is the canonical dump of the object after the op; null when it is
	// identical to the dump before the op.
	D json.RawMessage `json:"d"`
}

type c13Impl struct {
	Init  json.RawMessage `json:"init"`
	Steps []c13Step       `json:"steps"`
	Final json.RawMessage `json:"final"` // queries of the final object (without internals)
	RT    json.RawMessage `json:"rt"`    // ... after json.Marshal / Unmarshal of the final object
	RTErr string          `json:"rt_err"`
	Mig   json.RawMessage `json:"mig"`    // ... of the object migrated to v02 (ver 1 only)
	MigRT json.RawMessage `json:"mig_rt"` // ... of the migrated object after a JSON round trip
}

type c13Line struct {
	Prop string  `json:"prop"`
	ID   int     `json:"id"`
	In   c13In   `json:"in"`
	Impl c13Impl `json:"impl"`
}

// ---- real principals ----

type c13Bogus struct{ id string }

func (b *c13Bogus) ID() string                        { return b.id }
func (b *c13Bogus) Keys() []*signerverifier.SSLibKey  { return nil }
func (b *c13Bogus) CustomMetadata() map[string]string { return nil }

const c13NKeys = 4

type c13Ctx struct {
	t        *testing.T
	real2abs map[string]string
	abs2real map[string]string
}

func newC13Ctx(t *testing.T) *c13Ctx {
	c := &c13Ctx{t: t, real2abs: map[string]string{}, abs2real: map[string]string{}}
	for i, k := range Keys(t, c13NKeys) {
		a := fmt.Sprintf("k%d", i)
		c.real2abs[k.ID()] = a
		c.abs2real[a] = k.ID()
	}
	return c
}

func (c *c13Ctx) key(abs string) *tufv02.Key {
	for i, k := range Keys(c.t, c13NKeys) {
		if abs == fmt.Sprintf("k%d", i) {
			return k.V02Key()
		}
	}
	c.t.Fatalf("unknown key %q", abs)
	return nil
}

// real id of an abstract principal id (keys are renamed, everything else is verbatim)
func (c *c13Ctx) real(abs string) string {
	if r, ok := c.abs2real[abs]; ok {
		return r
	}
	return abs
}
func (c *c13Ctx) reals(abs []string) []string {
	if abs == nil {
		return nil
	}
	res := make([]string, len(abs))
	for i, a := range abs {
		res[i] = c.real(a)
	}
	return res
}
func (c *c13Ctx) abs(real string) string {
	if a, ok := c.real2abs[real]; ok {
		return a
	}
	return real
}

func (c *c13Ctx) principal(p *c13P) tuf.Principal {
	if p == nil {
		return nil
	}
	switch p.Kind {
	case "key":
		return c.key(p.ID)
	case "person":
		person := &tufv02.Person{PersonID: p.ID, PublicKeys: map[string]*tufv02.Key{}}
		for _, k := range p.Keys {
			key := c.key(k)
			person.PublicKeys[key.KeyID] = key
		}
		return person
	default:
		return &c13Bogus{id: c.real(p.ID)}
	}
}

// ---- canonical dumps (the "queries") ----

func (c *c13Ctx) dumpPrincipal(p tuf.Principal) []any {
	if p == nil {
		return []any{"<nil>", "nil", []string{}}
	}
	kind := "bogus"
	switch p.(type) {
	case *tufv02.Key:
		kind = "key"
	case *tufv02.Person:
		kind = "person"
	}
	keys := []string{}
	for _, k := range p.Keys() {
		keys = append(keys, c.abs(k.KeyID))
	}
	sort.Strings(keys)
	if kind == "key" {
		keys = []string{}
	}
	return []any{c.abs(p.ID()), kind, keys}
}

func (c *c13Ctx) dumpPrincipals(m map[string]tuf.Principal) []any {
	ids := []string{}
	for id := range m {
		ids = append(ids, id)
	}
	res := []any{}
	type ent struct {
		abs string
		v   []any
	}
	ents := []ent{}
	for _, id := range ids {
		d := c.dumpPrincipal(m[id])
		if d[0] != c.abs(id) {
			// map key and principal id disagree: make it visible
			d[0] = c.abs(id) + "!=" + fmt.Sprint(d[0])
		}
		ents = append(ents, ent{c.abs(id), d})
	}
	sort.Slice(ents, func(i, j int) bool { return ents[i].abs < ents[j].abs })
	for _, e := range ents {
		res = append(res, e.v)
	}
	return res
}

func (c *c13Ctx) sortedAbs(ids []string) []string {
	res := []string{}
	for _, id := range ids {
		res = append(res, c.abs(id))
	}
	sort.Strings(res)
	return res
}

func nn(s []string) []string {
	if s == nil {
		return []string{}
	}
	return s
}

func (c *c13Ctx) dumpTargets(m tuf.TargetsMetadata, internals bool) json.RawMessage {
	d := map[string]any{}
	if internals {
		switch mm := m.(type) {
		case *tufv02.TargetsMetadata:
			d["pn"] = mm.Delegations.Principals == nil
		case *tufv01.TargetsMetadata:
			d["pn"] = mm.Delegations.Keys == nil
		}
	}
	d["ps"] = c.dumpPrincipals(m.GetPrincipals())
	rules := []any{}
	for _, r := range m.GetRules() {
		ids := []string{}
		if s := r.GetPrincipalIDs(); s != nil {
			ids = c.sortedAbs(s.Contents())
		}
		rules = append(rules, []any{r.ID(), nn(r.GetProtectedNamespaces()), ids, r.GetThreshold(), r.IsLastTrustedInRuleFile()})
	}
	d["rs"] = rules
	d["v"] = m.GetVersion()
	d["x"] = ""
	b, err := json.Marshal(d)
	if err != nil {
		c.t.Fatal(err)
	}
	return b
}

func (c *c13Ctx) dumpRole(ps []tuf.Principal, thr int, err error) any {
	if err != nil {
		return nil
	}
	ids := []string{}
	for _, p := range ps {
		if p == nil {
			ids = append(ids, "<undefined>")
			continue
		}
		ids = append(ids, c.abs(p.ID()))
	}
	sort.Strings(ids)
	return []any{ids, thr}
}

func (c *c13Ctx) dumpOther(rs []tuf.OtherRepository) string {
	parts := []string{}
	for _, r := range rs {
		ps := []string{}
		for _, p := range r.GetInitialRootPrincipals() {
			ps = append(ps, fmt.Sprint(c.dumpPrincipal(p)))
		}
		parts = append(parts, fmt.Sprintf("%s@%s%v", r.GetName(), r.GetLocation(), ps))
	}
	return strings.Join(parts, ";")
}

// v01 GetRootPrincipals refuses when a listed key is not defined; read the role directly then.
func (c *c13Ctx) roleIDs(m tuf.RootMetadata, role string) ([]string, bool) {
	switch mm := m.(type) {
	case *tufv02.RootMetadata:
		r, ok := mm.Roles[role]
		if !ok || r.PrincipalIDs == nil {
			return nil, ok
		}
		return c.sortedAbs(r.PrincipalIDs.Contents()), true
	case *tufv01.RootMetadata:
		r, ok := mm.Roles[role]
		if !ok || r.KeyIDs == nil {
			return nil, ok
		}
		return c.sortedAbs(r.KeyIDs.Contents()), true
	}
	return nil, false
}

func (c *c13Ctx) dumpRoot(m tuf.RootMetadata) json.RawMessage {
	d := map[string]any{}
	d["ps"] = c.dumpPrincipals(m.GetPrincipals())
	rp, err1 := m.GetRootPrincipals()
	rt, err2 := m.GetRootThreshold()
	if err1 == nil && err2 != nil || err1 != nil && err2 == nil {
		// defined ids only through the role itself
		if ids, ok := c.roleIDs(m, tuf.RootRoleName); ok {
			d["rr"] = []any{append(ids, "<query-error>"), rt}
		}
	} else {
		d["rr"] = c.dumpRole(rp, rt, err1)
	}
	tp, err1 := m.GetPrimaryRuleFilePrincipals()
	tt, err2 := m.GetPrimaryRuleFileThreshold()
	if err1 == nil && err2 != nil || err1 != nil && err2 == nil {
		if ids, ok := c.roleIDs(m, tuf.TargetsRoleName); ok {
			d["tr"] = []any{append(ids, "<query-error>"), tt}
		}
	} else {
		d["tr"] = c.dumpRole(tp, tt, err1)
	}
	gs := []any{}
	for _, g := range m.GetGlobalRules() {
		switch gg := g.(type) {
		case tuf.GlobalRuleThreshold:
			gs = append(gs, []any{gg.GetName(), "threshold", nn(gg.GetProtectedNamespaces()), gg.GetThreshold()})
		case tuf.GlobalRuleBlockForcePushes:
			gs = append(gs, []any{gg.GetName(), "block", nn(gg.GetProtectedNamespaces()), 0})
		default:
			gs = append(gs, []any{g.GetName(), "unknown", []string{}, 0})
		}
	}
	d["gs"] = gs
	pd := []any{}
	for _, p := range m.GetPropagationDirectives() {
		pd = append(pd, []string{p.GetName(), p.GetUpstreamRepository(), p.GetUpstreamReference(), p.GetUpstreamPath(), p.GetDownstreamReference(), p.GetDownstreamPath()})
	}
	d["pd"] = pd
	// everything else as one opaque canonical string
	d["v"] = m.GetVersion()
	x := []string{"location=" + m.GetRepositoryLocation(), fmt.Sprintf("controller=%v", m.IsController()),
		"controllers=" + c.dumpOther(m.GetControllerRepositories()), "network=" + c.dumpOther(m.GetNetworkRepositories())}
	for _, stage := range []tuf.HookStage{tuf.HookStagePreCommit, tuf.HookStagePrePush} {
		hooks, _ := m.GetHooks(stage) // "no hooks defined" and an empty list are the same answer here
		hs := []string{}
		for _, h := range hooks {
			ids := []string{}
			if s := h.GetPrincipalIDs(); s != nil {
				ids = c.sortedAbs(s.Contents())
			}
			hk := []string{}
			for k, v := range h.GetHashes() {
				hk = append(hk, k+"="+v)
			}
			sort.Strings(hk)
			hs = append(hs, fmt.Sprintf("%s%v%v env=%d timeout=%d", h.ID(), ids, hk, h.GetEnvironment(), h.GetTimeout()))
		}
		x = append(x, fmt.Sprintf("hooks%d=%s", stage, strings.Join(hs, ";")))
	}
	d["x"] = strings.Join(x, "|")
	b, err := json.Marshal(d)
	if err != nil {
		c.t.Fatal(err)
	}
	return b
}

// ---- running ops on the real objects ----

func c13ErrClass(err error) string {
	switch {
	case err == nil:
		return "ok"
	case errors.Is(err, tuf.ErrCannotManipulateRulesWithGittufPrefix):
		return "reservedPrefix"
	case errors.Is(err, tuf.ErrPrincipalNotFound):
		return "principalNotFound"
	case errors.Is(err, tuf.ErrInvalidThreshold):
		return "invalidThreshold"
	case errors.Is(err, tuf.ErrCannotMeetThreshold):
		return "cannotMeetThreshold"
	case errors.Is(err, tuf.ErrDuplicatedRuleName):
		return "duplicatedRuleName"
	case errors.Is(err, tuf.ErrRuleNotFound):
		return "ruleNotFound"
	case errors.Is(err, tuf.ErrMissingRules):
		return "missingRules"
	case errors.Is(err, tuf.ErrInvalidPrincipalType):
		return "invalidPrincipalType"
	case errors.Is(err, tuf.ErrInvalidPrincipalID):
		return "invalidPrincipalID"
	case errors.Is(err, tuf.ErrPrincipalStillInUse):
		return "principalStillInUse"
	case errors.Is(err, tuf.ErrInvalidOperationForMetadataVersion):
		return "invalidOperation"
	case errors.Is(err, tuf.ErrInvalidRootMetadata):
		return "invalidRoot"
	case errors.Is(err, tuf.ErrPrimaryRuleFileInformationNotFoundInRoot):
		return "noTargetsRole"
	case errors.Is(err, tuf.ErrGlobalRuleAlreadyExists):
		return "globalRuleExists"
	case errors.Is(err, tuf.ErrGlobalRuleNotFound):
		return "globalRuleNotFound"
	case errors.Is(err, tuf.ErrCannotUpdateGlobalRuleType):
		return "globalRuleType"
	case errors.Is(err, tuf.ErrPropagationDirectiveAlreadyExists):
		return "propagationExists"
	case errors.Is(err, tuf.ErrPropagationDirectiveNotFound):
		return "propagationNotFound"
	default:
		return "other:" + err.Error()
	}
}

func (c *c13Ctx) applyTargets(m tuf.TargetsMetadata, op c13Op) (cls string) {
	defer func() {
		if r := recover(); r != nil {
			cls = "panic"
		}
	}()
	var err error
	switch op.Op {
	case "AddRule":
		err = m.AddRule(op.Name, c.reals(op.IDs), op.Patterns, op.Thr)
	case "UpdateRule":
		err = m.UpdateRule(op.Name, c.reals(op.IDs), op.Patterns, op.Thr)
	case "RemoveRule":
		err = m.RemoveRule(op.Name)
	case "ReorderRules":
		err = m.ReorderRules(op.Names)
	case "AddPrincipal":
		err = m.AddPrincipal(c.principal(op.P))
	case "UpdatePrincipal":
		err = m.UpdatePrincipal(c.principal(op.P))
	case "RemovePrincipal":
		err = m.RemovePrincipal(c.real(op.ID))
	case "XIncVersion":
		m.IncrementVersion()
	default:
		c.t.Fatalf("unknown targets op %q", op.Op)
	}
	return c13ErrClass(err)
}

func (c *c13Ctx) globalRule(g *c13G) tuf.GlobalRule {
	if g.Kind == "threshold" {
		return tufv02.NewGlobalRuleThreshold(g.Name, g.Patterns, g.Thr)
	}
	r, err := tufv02.NewGlobalRuleBlockForcePushes(g.Name, g.Patterns)
	if err != nil {
		c.t.Fatal(err) // the generator only uses git: patterns here
	}
	return r
}

func c13Stages(s []int) []tuf.HookStage {
	res := []tuf.HookStage{}
	for _, x := range s {
		res = append(res, tuf.HookStage(x))
	}
	return res
}

func (c *c13Ctx) applyRoot(m tuf.RootMetadata, op c13Op) (cls string) {
	defer func() {
		if r := recover(); r != nil {
			cls = "panic"
		}
	}()
	var err error
	d := func(i int) string {
		if i < len(op.D) {
			return op.D[i]
		}
		return ""
	}
	switch op.Op {
	case "AddRolePrincipal":
		if op.Which == "root" {
			err = m.AddRootPrincipal(c.principal(op.P))
		} else {
			err = m.AddPrimaryRuleFilePrincipal(c.principal(op.P))
		}
	case "DeleteRolePrincipal":
		if op.Which == "root" {
			err = m.DeleteRootPrincipal(c.real(op.ID))
		} else {
			err = m.DeletePrimaryRuleFilePrincipal(c.real(op.ID))
		}
	case "UpdateRoleThreshold":
		if op.Which == "root" {
			err = m.UpdateRootThreshold(op.Thr)
		} else {
			err = m.UpdatePrimaryRuleFileThreshold(op.Thr)
		}
	case "AddGlobalRule":
		err = m.AddGlobalRule(c.globalRule(op.G))
	case "UpdateGlobalRule":
		err = m.UpdateGlobalRule(c.globalRule(op.G))
	case "DeleteGlobalRule":
		err = m.DeleteGlobalRule(op.Name)
	case "AddPropagation":
		err = m.AddPropagationDirective(tufv02.NewPropagationDirective(d(0), d(1), d(2), d(3), d(4), d(5)))
	case "UpdatePropagation":
		err = m.UpdatePropagationDirective(tufv02.NewPropagationDirective(d(0), d(1), d(2), d(3), d(4), d(5)))
	case "DeletePropagation":
		err = m.DeletePropagationDirective(op.Name)
	// ops outside the Lean model (only "refused => unchanged", round trip and migration are judged)
	case "XIncVersion":
		m.IncrementVersion()
	case "XSetLocation":
		m.SetRepositoryLocation(op.Name)
	case "XAddHook":
		_, err = m.AddHook(c13Stages(op.Stages), op.Name, c.reals(op.IDs), map[string]string{"sha1": op.ID}, tuf.HookEnvironmentLua, op.Thr)
	case "XUpdateHook":
		err = m.UpdateHook(c13Stages(op.Stages), op.Name, c.reals(op.IDs), map[string]string{"sha1": op.ID}, tuf.HookEnvironmentLua, op.Thr)
	case "XRemoveHook":
		err = m.RemoveHook(c13Stages(op.Stages), op.Name)
	case "XEnableController":
		err = m.EnableController()
	case "XDisableController":
		err = m.DisableController()
	case "XAddControllerRepository", "XAddNetworkRepository":
		ps := []tuf.Principal{}
		for _, id := range op.IDs {
			if strings.HasPrefix(id, "k") {
				ps = append(ps, c.key(id))
			} else {
				ps = append(ps, c.principal(&c13P{ID: id, Kind: "bogus"}))
			}
		}
		if op.Op == "XAddControllerRepository" {
			err = m.AddControllerRepository(op.Name, op.ID, ps)
		} else {
			err = m.AddNetworkRepository(op.Name, op.ID, ps)
		}
	default:
		c.t.Fatalf("unknown root op %q", op.Op)
	}
	return c13ErrClass(err)
}

// ---- generation ----

var (
	c13RuleNames = []string{"r0", "r1", "r2", "r3", "gittuf-x", tuf.AllowRuleName, ""}
	c13IDs       = []string{"k0", "k1", "k2", "k3", "p0", "p1", "", "zz"}
	c13Patterns  = []string{"git:refs/heads/main", "git:refs/heads/*", "file:src/*", "file:*", "git:refs/tags/*"}
)

func c13Pick(r *Rng, pool []string) string { return pool[r.Intn(len(pool))] }

func c13GenP(r *Rng) *c13P {
	switch x := r.Intn(20); {
	case x < 1:
		return nil
	case x < 3:
		return &c13P{ID: c13Pick(r, c13IDs), Kind: "bogus", Keys: []string{}}
	case x < 12:
		return &c13P{ID: fmt.Sprintf("k%d", r.Intn(c13NKeys)), Kind: "key", Keys: []string{}}
	default:
		ks := []string{}
		for i := 0; i < c13NKeys; i++ {
			if r.Chance(35) {
				ks = append(ks, fmt.Sprintf("k%d", i))
			}
		}
		return &c13P{ID: []string{"p0", "p1", "p0", "p1", ""}[r.Intn(5)], Kind: "person", Keys: ks}
	}
}

func c13GenIDs(r *Rng, defined []string) []string {
	n := r.Intn(4)
	if r.Chance(25) {
		n = 1 + r.Intn(2)
	}
	ids := []string{}
	for i := 0; i < n; i++ {
		switch {
		case len(ids) > 0 && r.Chance(22):
			ids = append(ids, ids[r.Intn(len(ids))]) // duplicate
		case len(defined) > 0 && r.Chance(85):
			ids = append(ids, defined[r.Intn(len(defined))])
		default:
			ids = append(ids, c13Pick(r, c13IDs))
		}
	}
	return ids
}

func c13GenThr(r *Rng, n int) int {
	switch x := r.Intn(10); {
	case x < 5 && n > 0:
		return 1 + r.Intn(n)
	case x < 7:
		return 1
	default:
		return r.Intn(7) - 1
	}
}

func c13GenPatterns(r *Rng) []string {
	n := 1 + r.Intn(2)
	ps := []string{}
	for i := 0; i < n; i++ {
		ps = append(ps, c13Pick(r, c13Patterns))
	}
	return ps
}

func c13Shuffle(r *Rng, s []string) []string {
	res := append([]string{}, s...)
	for i := len(res) - 1; i > 0; i-- {
		j := r.Intn(i + 1)
		res[i], res[j] = res[j], res[i]
	}
	return res
}

func (c *c13Ctx) genTargetsOp(r *Rng, m tuf.TargetsMetadata, step int) c13Op {
	defined := []string{}
	for id := range m.GetPrincipals() {
		defined = append(defined, c.abs(id))
	}
	sort.Strings(defined)
	names := []string{}
	for _, rule := range m.GetRules() {
		if rule.ID() != tuf.AllowRuleName {
			names = append(names, rule.ID())
		}
	}
	x := r.Intn(100)
	if step < 3 && r.Chance(70) {
		x = 0
	}
	switch {
	case x < 18:
		return c13Op{Op: "AddPrincipal", P: c13GenP(r)}
	case x < 45:
		ids := c13GenIDs(r, defined)
		return c13Op{Op: "AddRule", Name: c13Pick(r, c13RuleNames[:4+r.Intn(4)]), IDs: ids, Patterns: c13GenPatterns(r), Thr: c13GenThr(r, len(ids))}
	case x < 60:
		ids := c13GenIDs(r, defined)
		name := c13Pick(r, c13RuleNames)
		if len(names) > 0 && r.Chance(75) {
			name = c13Pick(r, names)
		}
		return c13Op{Op: "UpdateRule", Name: name, IDs: ids, Patterns: c13GenPatterns(r), Thr: c13GenThr(r, len(ids))}
	case x < 67:
		name := c13Pick(r, c13RuleNames)
		if len(names) > 0 && r.Chance(60) {
			name = c13Pick(r, names)
		}
		return c13Op{Op: "RemoveRule", Name: name}
	case x < 78:
		ns := c13Shuffle(r, names)
		if r.Chance(40) {
			switch r.Intn(4) {
			case 0:
				ns = append(ns, c13Pick(r, c13RuleNames))
			case 1:
				if len(ns) > 0 {
					ns = ns[1:]
				}
			case 2:
				if len(ns) > 0 {
					ns = append(ns, ns[0])
				}
			default:
				ns = append([]string{tuf.AllowRuleName}, ns...)
			}
		}
		// a rule file may hold several rules of one name: a plain permutation then has duplicates
		return c13Op{Op: "ReorderRules", Names: ns}
	case x < 85:
		p := c13GenP(r)
		if p != nil && len(defined) > 0 && r.Chance(60) && p.Kind == "person" {
			for _, d := range defined {
				if !strings.HasPrefix(d, "k") {
					p.ID = d
				}
			}
		}
		return c13Op{Op: "UpdatePrincipal", P: p}
	case x < 98:
		id := c13Pick(r, c13IDs)
		if len(defined) > 0 && r.Chance(70) {
			id = c13Pick(r, defined)
		}
		return c13Op{Op: "RemovePrincipal", ID: id}
	default:
		return c13Op{Op: "XIncVersion"}
	}
}

func (c *c13Ctx) genRootOp(r *Rng, m tuf.RootMetadata, step int) c13Op {
	which := []string{"root", "targets"}[r.Intn(2)]
	defined := []string{}
	for id := range m.GetPrincipals() {
		defined = append(defined, c.abs(id))
	}
	sort.Strings(defined)
	gnames := []string{"g0", "g1", "g2", ""}
	pnames := []string{"d0", "d1", ""}
	genG := func() *c13G {
		g := &c13G{Name: c13Pick(r, gnames), Kind: "threshold", Patterns: c13GenPatterns(r), Thr: r.Intn(5) - 1}
		if r.Chance(60) {
			g.Thr = 1 + r.Intn(3)
		}
		if r.Chance(35) {
			g.Kind, g.Thr = "block", 0
			g.Patterns = []string{"git:refs/heads/main", "git:refs/heads/*"}[:1+r.Intn(2)]
		}
		return g
	}
	genD := func() []string {
		return []string{c13Pick(r, pnames), c13Pick(r, []string{"https://example.com/up", "https://example.com/other"}),
			c13Pick(r, []string{"refs/heads/main", "refs/heads/dev"}), c13Pick(r, []string{"", "sub"}),
			c13Pick(r, []string{"refs/heads/main", "refs/heads/vendor"}), c13Pick(r, []string{"vendor", "third_party"})}
	}
	x := r.Intn(100)
	if step < 3 && r.Chance(60) {
		x = 0
	}
	switch {
	case x < 25:
		return c13Op{Op: "AddRolePrincipal", Which: which, P: c13GenP(r)}
	case x < 40:
		id := c13Pick(r, c13IDs)
		if len(defined) > 0 && r.Chance(75) {
			id = c13Pick(r, defined)
		}
		return c13Op{Op: "DeleteRolePrincipal", Which: which, ID: id}
	case x < 55:
		return c13Op{Op: "UpdateRoleThreshold", Which: which, Thr: c13GenThr(r, 1+r.Intn(3))}
	case x < 64:
		return c13Op{Op: "AddGlobalRule", G: genG()}
	case x < 70:
		return c13Op{Op: "UpdateGlobalRule", G: genG()}
	case x < 75:
		return c13Op{Op: "DeleteGlobalRule", Name: c13Pick(r, gnames)}
	case x < 80:
		return c13Op{Op: "AddPropagation", D: genD()}
	case x < 83:
		return c13Op{Op: "UpdatePropagation", D: genD()}
	case x < 86:
		return c13Op{Op: "DeletePropagation", Name: c13Pick(r, pnames)}
	case x < 88:
		return c13Op{Op: "XIncVersion"}
	case x < 89:
		return c13Op{Op: "XSetLocation", Name: c13Pick(r, []string{"", "https://example.com/repo"})}
	case x < 94:
		stages := [][]int{{0}, {1}, {0, 1}, {1, 0}, {0, 7}, {}, {7}}[r.Intn(7)]
		op := []string{"XAddHook", "XAddHook", "XAddHook", "XUpdateHook", "XRemoveHook"}[r.Intn(5)]
		return c13Op{Op: op, Stages: stages, Name: c13Pick(r, []string{"h0", "h1"}), IDs: c13GenIDs(r, defined), ID: c13Pick(r, []string{"aa", "bb"}), Thr: 10 * r.Intn(3)}
	case x < 96:
		return c13Op{Op: []string{"XEnableController", "XDisableController"}[r.Intn(2)]}
	default:
		ids := []string{}
		for i := 0; i < r.Intn(3); i++ {
			ids = append(ids, fmt.Sprintf("k%d", r.Intn(c13NKeys)))
		}
		if r.Chance(10) {
			ids = append(ids, "zz")
		}
		return c13Op{Op: []string{"XAddControllerRepository", "XAddNetworkRepository"}[r.Intn(2)], Name: c13Pick(r, []string{"n0", "n1"}),
			ID: c13Pick(r, []string{"https://example.com/a", "https://example.com/b"}), IDs: ids}
	}
}

// ---- one case ----

func rawEq(a, b json.RawMessage) bool { return string(a) == string(b) }

// c13Run applies the ops (given, or generated on the fly from rng when ops is nil) to a fresh real object.
func (c *c13Ctx) c13Run(kind string, ver int, ops []c13Op, rng *Rng, nOps int) (c13In, c13Impl) {
	t := c.t
	in := c13In{Kind: kind, Ver: ver, Ops: []c13Op{}}
	impl := c13Impl{Steps: []c13Step{}}
	if ops != nil {
		nOps = len(ops)
	}
	if kind == "targets" {
		var m tuf.TargetsMetadata
		if ver == 1 {
			m = tufv01.NewTargetsMetadata()
		} else {
			m = tufv02.NewTargetsMetadata()
		}
		prev := c.dumpTargets(m, true)
		impl.Init = prev
		for i := 0; i < nOps; i++ {
			var op c13Op
			if ops != nil {
				op = ops[i]
			} else {
				op = c.genTargetsOp(rng, m, i)
			}
			in.Ops = append(in.Ops, op)
			cls := c.applyTargets(m, op)
			cur := c.dumpTargets(m, true)
			st := c13Step{Err: cls}
			if !rawEq(cur, prev) {
				st.D = cur
			}
			impl.Steps = append(impl.Steps, st)
			prev = cur
		}
		impl.Final = c.dumpTargets(m, false)
		data, err := json.Marshal(m)
		if err != nil {
			impl.RTErr = "marshal: " + err.Error()
			return in, impl
		}
		var back tuf.TargetsMetadata
		if ver == 1 {
			back = &tufv01.TargetsMetadata{}
		} else {
			back = &tufv02.TargetsMetadata{}
		}
		if err := json.Unmarshal(data, back); err != nil {
			impl.RTErr = "unmarshal: " + err.Error()
			return in, impl
		}
		impl.RT = c.dumpTargets(back, false)
		if ver == 1 {
			mig := migrations.MigrateTargetsMetadataV01ToV02(back.(*tufv01.TargetsMetadata))
			impl.Mig = c.dumpTargets(mig, false)
			data, err := json.Marshal(mig)
			if err != nil {
				t.Fatal(err)
			}
			back2 := &tufv02.TargetsMetadata{}
			if err := json.Unmarshal(data, back2); err != nil {
				impl.RTErr = "unmarshal migrated: " + err.Error()
				return in, impl
			}
			impl.MigRT = c.dumpTargets(back2, false)
		}
		return in, impl
	}

	var m tuf.RootMetadata
	if ver == 1 {
		m = tufv01.NewRootMetadata()
	} else {
		m = tufv02.NewRootMetadata()
	}
	prev := c.dumpRoot(m)
	impl.Init = prev
	for i := 0; i < nOps; i++ {
		var op c13Op
		if ops != nil {
			op = ops[i]
		} else {
			op = c.genRootOp(rng, m, i)
		}
		in.Ops = append(in.Ops, op)
		cls := c.applyRoot(m, op)
		cur := c.dumpRoot(m)
		st := c13Step{Err: cls}
		if !rawEq(cur, prev) {
			st.D = cur
		}
		impl.Steps = append(impl.Steps, st)
		prev = cur
	}
	impl.Final = c.dumpRoot(m)
	data, err := json.Marshal(m)
	if err != nil {
		impl.RTErr = "marshal: " + err.Error()
		return in, impl
	}
	var back tuf.RootMetadata
	if ver == 1 {
		back = &tufv01.RootMetadata{}
	} else {
		back = &tufv02.RootMetadata{}
	}
	if err := json.Unmarshal(data, back); err != nil {
		impl.RTErr = "unmarshal: " + err.Error()
		return in, impl
	}
	impl.RT = c.dumpRoot(back)
	if ver == 1 {
		// migrate the in-memory object and reload the result. (The reloaded object `back` is judged
		// separately above through impl.RT, so that a loss on reload - as F20, fixed by f26f8ac, was -
		// shows up as a round-trip difference and not as a migration difference.)
		mig := migrations.MigrateRootMetadataV01ToV02(m.(*tufv01.RootMetadata))
		impl.Mig = c.dumpRoot(mig)
		data, err := json.Marshal(mig)
		if err != nil {
			t.Fatal(err)
		}
		back2 := &tufv02.RootMetadata{}
		if err := json.Unmarshal(data, back2); err != nil {
			impl.RTErr = "unmarshal migrated: " + err.Error()
			return in, impl
		}
		impl.MigRT = c.dumpRoot(back2)
	}
	return in, impl
}

func TestC13(t *testing.T) {
	seed := uint64(envInt("VERIF_SEED", 1))
	n := envInt("VERIF_N", 200)
	shard := envInt("VERIF_SHARD", 0)
	out, err := OpenOut()
	if err != nil {
		t.Fatal(err)
	}
	defer out.Close()
	c := newC13Ctx(t)

	if replay := ReplayInputs[c13In](t); replay != nil {
		for i, in := range replay {
			ops := in.Ops
			if ops == nil {
				ops = []c13Op{}
			}
			in2, impl := c.c13Run(in.Kind, in.Ver, ops, nil, 0)
			if err := out.Emit(c13Line{Prop: "C13", ID: i + 1, In: in2, Impl: impl}); err != nil {
				t.Fatal(err)
			}
		}
		return
	}

	rng := NewRng(seed*1000003 + uint64(shard))
	id := shard*1000000 + 1
	for i := 0; i < n; i++ {
		kind := "targets"
		if rng.Chance(40) {
			kind = "root"
		}
		ver := 2
		if rng.Chance(30) {
			ver = 1
		}
		nOps := 5 + rng.Intn(21)
		in, impl := c.c13Run(kind, ver, nil, rng, nOps)
		if err := out.Emit(c13Line{Prop: "C13", ID: id, In: in, Impl: impl}); err != nil {
			t.Fatal(err)
		}
		id++
	}
}
