package harness

import (
	"fmt"
	"testing"
)

// TestC02: chains of policy states in which each successor is obtained from its predecessor by
// valid updates, root rotations signed by any subset of old/new keys, forged or unsigned rule
// files, version bumps / rollbacks, added / removed / dangling delegated files, dropped primary
// file; reference entries (signed by the principal the state in force names) are placed before,
// between and after the policy entries; every mode is run.
func TestC02(t *testing.T) {
	seed := uint64(envInt("VERIF_SEED", 1))
	n := envInt("VERIF_N", 20)
	shard := envInt("VERIF_SHARD", 0)
	out, err := OpenOut()
	if err != nil {
		t.Fatal(err)
	}
	defer out.Close()
	if replay := ReplayInputs[WorldIn](t); replay != nil {
		for i, w := range replay {
			replayWorld(t, "C02", i+1, w, out)
		}
		return
	}
	rng := NewRng(seed*1000003 + uint64(shard) + 202)
	for i := 0; i < n; i++ {
		c02Case(t, shard*1000000+i+1, rng.U64(), out)
	}
}

func clonePolicy(p PolicySpec) PolicySpec {
	q := p
	q.Root.RootKeys = append([]int{}, p.Root.RootKeys...)
	q.Root.TargetsKeys = append([]int{}, p.Root.TargetsKeys...)
	q.Root.Signers = append([]int{}, p.Root.Signers...)
	q.Root.GlobalRules = append([]GlobalRuleSpec{}, p.Root.GlobalRules...)
	q.Files = nil
	for _, f := range p.Files {
		g := f
		g.Principals = append([]PrincipalSpec{}, f.Principals...)
		g.Rules = append([]RuleSpec{}, f.Rules...)
		g.Signers = append([]int{}, f.Signers...)
		q.Files = append(q.Files, g)
	}
	return q
}

// mainSigner: key of the first principal of the rule protecting main in the primary file (or outsider)
func mainSigner(p PolicySpec) int {
	if len(p.Files) == 0 {
		return kOutsider
	}
	byID := p.principalByID()
	for _, r := range p.Files[0].Rules {
		for _, pat := range r.Patterns {
			if pat == "git:refs/heads/main" && len(r.Principals) > 0 {
				if ps, ok := byID[r.Principals[0]]; ok {
					return ps.Keys[0]
				}
			}
		}
	}
	return kOutsider
}

func c02Mutate(r *Rng, prev PolicySpec) (PolicySpec, string) {
	p := clonePolicy(prev)
	p.Root.Version++
	if len(p.Files) > 0 {
		p.Files[0].Version++
	}
	if len(p.Files) > 1 && r.Chance(45) {
		// the policy has a delegated rule file: replay / remove / bump it, with the primary rule
		// file's version unchanged or bumped
		if r.Bool() {
			p.Files[0].Version = prev.Files[0].Version // primary unchanged
		}
		switch r.Intn(4) {
		case 0:
			if p.Files[1].Version > 1 {
				p.Files[1].Version--
				return p, "delegated-version-rollback"
			}
			p.Files[1].Version++
			return p, "delegated-bump"
		case 1:
			p.Files = p.Files[:1]
			return p, "delegated-removed"
		case 2:
			p.Files[1].Version++
			return p, "delegated-bump"
		default:
			p.Files[1].Signers = []int{kOutsider}
			p.Files[1].Version++
			return p, "delegated-forged"
		}
	}
	switch x := r.Intn(100); {
	case x < 22:
		return p, "valid-bump"
	case x < 34:
		// root rotation
		hasNew := false
		for _, k := range p.Root.RootKeys {
			if k == kRoot2 {
				hasNew = true
			}
		}
		if !hasNew {
			p.Root.RootKeys = append(p.Root.RootKeys, kRoot2)
		} else if len(p.Root.RootKeys) > 1 && r.Bool() {
			p.Root.RootKeys = []int{kRoot2}
			p.Root.RootThreshold = 1
		}
		if r.Chance(30) && len(p.Root.RootKeys) >= 2 {
			p.Root.RootThreshold = 2
		}
		switch r.Intn(4) {
		case 0:
			p.Root.Signers = []int{kRoot}
		case 1:
			p.Root.Signers = []int{kRoot2}
		case 2:
			p.Root.Signers = []int{kRoot, kRoot2}
		default:
			p.Root.Signers = append([]int{}, prev.Root.RootKeys...)
		}
		return p, "root-rotation"
	case x < 42:
		p.Root.Signers = []int{kOutsider}
		return p, "root-forged"
	case x < 52:
		// keep the old root envelope (same content, same signers), forge the rule file
		p.Root = prev.Root
		if len(p.Files) > 0 {
			p.Files[0].Signers = []int{kOutsider}
			p.Files[0].Principals = append(p.Files[0].Principals, PrincipalSpec{ID: 1000 + kOutsider, Keys: []int{kOutsider}})
			if len(p.Files[0].Rules) > 0 {
				p.Files[0].Rules[0].Principals = []int{1000 + kOutsider}
				p.Files[0].Rules[0].Threshold = 1
			}
		}
		return p, "primary-forged"
	case x < 58:
		if len(p.Files) > 0 {
			p.Files[0].Signers = []int{}
		}
		return p, "primary-unsigned"
	case x < 66:
		if p.Root.Version >= 2 {
			p.Root.Version -= 2
		}
		if p.Root.Version == 0 {
			p.Root.Version = 1
		}
		return p, "root-version-rollback"
	case x < 73:
		if len(p.Files) > 0 && p.Files[0].Version >= 2 {
			p.Files[0].Version -= 2
			if p.Files[0].Version == 0 {
				p.Files[0].Version = 1
			}
		}
		return p, "primary-version-rollback"
	case x < 84:
		// add a delegated file under protect-main
		if len(p.Files) == 1 && len(p.Files[0].Rules) > 0 {
			rule := p.Files[0].Rules[0]
			byID := p.principalByID()
			sub := RuleFileSpec{Name: rule.Name, Version: 1}
			if r.Chance(65) {
				for _, pid := range rule.Principals {
					sub.Signers = append(sub.Signers, byID[pid].Keys[0])
				}
			} else {
				sub.Signers = []int{kOutsider}
			}
			sub.Rules = []RuleSpec{{Name: "sub-main", Patterns: []string{"git:refs/heads/main"}, Principals: rule.Principals, Threshold: 1}}
			p.Files = append(p.Files, sub)
			return p, "delegation-added"
		}
		if len(p.Files) > 1 {
			p.Files = p.Files[:1]
			return p, "delegation-removed"
		}
		return p, "valid-bump"
	case x < 90:
		// dangling delegated file
		p.Files = append(p.Files, RuleFileSpec{Name: fmt.Sprintf("dangling%d", r.Intn(3)), Version: 1, Signers: []int{kTargets}})
		return p, "dangling"
	case x < 94:
		p.Files = nil
		return p, "primary-dropped"
	default:
		// change who may push to main (valid update)
		if len(p.Files) > 0 && len(p.Files[0].Rules) > 0 {
			if p.Files[0].Rules[0].Principals[0] == 1002 {
				p.Files[0].Rules[0].Principals = []int{1003}
			} else {
				p.Files[0].Rules[0].Principals = []int{1002}
			}
		}
		return p, "valid-rekey"
	}
}

func c02Case(t *testing.T, id int, seed uint64, out *Out) {
	b, qs, meta := c02Build(t, seed)
	emitWitness(t, out, "C02", id, b, qs, meta)
}

// c02Build: a chain of policy states (valid and forged successors), pushes in between, some
// policy updates inside recovery windows; also used by C08 (forged policy entries under a cache)
func c02Build(t *testing.T, seed uint64) (*WorldBuilder, []VQuery, string) {
	r := NewRng(seed)
	b := NewWorldBuilder(t)
	main := "refs/heads/main"
	pol := basePolicy()
	meta := ""
	if r.Chance(45) {
		// start with a delegated rule file (version 2, so that it can be rolled back)
		sub := RuleFileSpec{Name: "protect-main", Version: 2, Signers: []int{2}}
		sub.Rules = []RuleSpec{{Name: "sub-main", Patterns: []string{"git:refs/heads/main"}, Principals: []int{1002}, Threshold: 1}}
		pol.Files = append(pol.Files, sub)
		meta += "with-delegation,"
	}
	var tip *int
	nblob := 0
	lastTree := -1
	push := func() int {
		nblob++
		lastTree = b.AddTree([]WFile{{"README", nblob}})
		c := b.AddCommit(tip, lastTree, ip(mainSigner(pol)))
		tip = ip(c)
		return b.Push(main, c, ip(mainSigner(pol)))
	}
	pushes := []int{}
	if r.Chance(10) {
		pushes = append(pushes, push()) // before any policy
	}
	b.AddPolicy(pol, r.Chance(70))
	nStates := 2 + r.Intn(4)
	for s := 0; s < nStates; s++ {
		for k := r.Intn(3); k > 0; k-- {
			pushes = append(pushes, push())
		}
		if s < nStates-1 {
			// one policy update in three is recorded INSIDE a recovery window: after a violating push
			// that is revoked later and before the push that restores the last good tree
			window := len(pushes) > 0 && lastTree >= 0 && r.Chance(35)
			badEntry, goodTree := -1, lastTree
			if window {
				nblob++
				c := b.AddCommit(tip, b.AddTree([]WFile{{"README", nblob}}), ip(kOutsider))
				tip = ip(c)
				badEntry = b.Push(main, c, ip(kOutsider))
				meta += "window["
			}
			var what string
			pol, what = c02Mutate(r, pol)
			meta += what + ","
			b.AddPolicy(pol, r.Chance(60))
			if window {
				b.Annotate([]int{badEntry}, true, ip(mainSigner(pol)))
				c := b.AddCommit(tip, goodTree, ip(mainSigner(pol)))
				tip = ip(c)
				pushes = append(pushes, b.Push(main, c, ip(mainSigner(pol))))
				lastTree = goodTree
				meta += "],"
			}
		}
	}
	if len(pushes) == 0 || r.Chance(60) {
		pushes = append(pushes, push())
	}
	qs := []VQuery{{Mode: "full", Ref: main}, {Mode: "latest", Ref: main}}
	qs = append(qs, VQuery{Mode: "from", Ref: main, From: pushes[r.Intn(len(pushes))]})
	return b, qs, meta + fmt.Sprintf("seed=%d", seed)
}
