package harness

// C15 — reconcile and sync never drop, reorder, un-revoke or invent log entries.
//
// One case = a REAL pair of repositories (bare remote + bare local with the remote added as
// "origin") whose RSLs share a prefix and then diverge (or not), plus a state for the ordinary
// references of both sides; the real ReconcileLocalRSLWithRemote / Sync of
// experimental/gittuf is run on the local one. Logs and references are read before and after
// with plain git (rev-list --first-parent, cat-file --batch, for-each-ref), never with
// gittuf's readers.
//
// Abstract ids: shared entry i -> i; local-only entry j -> 1000+j; remote-only entry j ->
// 2000+j; a commit that appears on a log only after the operation -> 3000+k (k-th such commit,
// oldest first, local log first). Targets are indices into the target DAG.

import (
	"bytes"
	"compress/zlib"
	"crypto/sha1"
	"encoding/hex"
	"encoding/pem"
	"errors"
	"fmt"
	"os"
	"os/exec"
	"path/filepath"
	"sort"
	"strconv"
	"strings"
	"sync"
	"testing"

	"github.com/gittuf/gittuf/experimental/gittuf"
	"github.com/gittuf/gittuf/pkg/githash"
	"github.com/gittuf/gittuf/pkg/gitinterface"
	"github.com/gittuf/gittuf/pkg/rsl"
)

// target commits:  t0 <- t1 <- t2 <- t5,  t3 (another root),  t4 <- t1
var c15TargetParents = []int{-1, 0, 1, -1, 1, 2}
var c15Refs = []string{"refs/heads/main", "refs/heads/feature", "refs/heads/dev"}

const (
	c15LocalBase  = 1000
	c15RemoteBase = 2000
	c15NewBase    = 3000
)

type c15Entry struct {
	K       string `json:"k"` // ref | ann | prop
	Ref     string `json:"ref,omitempty"`
	Target  int    `json:"target"`
	IDs     []int  `json:"ids,omitempty"` // abstract ids of the entries an annotation names
	Skip    bool   `json:"skip,omitempty"`
	Msg     string `json:"msg,omitempty"`
	Repo    string `json:"repo,omitempty"`
	UpEntry int    `json:"upEntry"`
}

type c15Ref struct {
	Ref    string `json:"ref"`
	Target int    `json:"target"` // -1: the reference does not exist
}

type c15In struct {
	Targets    []int      `json:"targets"`
	Shared     []c15Entry `json:"shared"`
	Local      []c15Entry `json:"local"`  // local-only suffix
	Remote     []c15Entry `json:"remote"` // remote-only suffix
	Mode       string     `json:"mode"`   // how the starting logs are written: api (pkg/rsl) | raw (commit objects written directly)
	Op         string     `json:"op"`     // reconcile | sync
	Overwrite  bool       `json:"overwrite,omitempty"`
	LocalRefs  []c15Ref   `json:"localRefs"`
	RemoteRefs []c15Ref   `json:"remoteRefs"`
}

// an entry as the independent reader sees it
type c15Seen struct {
	ID      int    `json:"id"`
	K       string `json:"k"` // ref | ann | prop | garbage
	Ref     string `json:"ref,omitempty"`
	Target  int    `json:"target"`
	IDs     []int  `json:"ids,omitempty"` // -1: an id that is no known entry
	Skip    bool   `json:"skip,omitempty"`
	Msg     string `json:"msg,omitempty"`
	Repo    string `json:"repo,omitempty"`
	UpEntry int    `json:"upEntry"`
	Number  int    `json:"number"`
}

type c15Impl struct {
	Class      string    `json:"class"` // reconcile: ok | conflict | other; sync: ok | diverged | other
	Diverged   []string  `json:"diverged,omitempty"`
	Err        string    `json:"err,omitempty"`
	LocalLog   []c15Seen `json:"localLog"` // oldest first, after the operation
	RemoteLog  []c15Seen `json:"remoteLog"`
	LocalRefs  []c15Ref  `json:"localRefs"`
	RemoteRefs []c15Ref  `json:"remoteRefs"`
	Numbered   bool      `json:"numbered"` // entry numbers of the new local log are 1..n
}

type c15Line struct {
	Prop string  `json:"prop"`
	ID   int     `json:"id"`
	In   c15In   `json:"in"`
	Impl c15Impl `json:"impl"`
}

// ---- one side ----

type c15Side struct {
	t      *testing.T
	repo   *gitinterface.Repository // api mode only
	gitDir string
	tip    string // raw mode: tip of the RSL
	n      int    // raw mode: entries written
}

func c15Git(t *testing.T, gitDir string, stdin string, args ...string) string {
	cmd := exec.Command("git", append([]string{"--git-dir", gitDir}, args...)...)
	cmd.Env = append(os.Environ(), "GIT_CONFIG_GLOBAL=/dev/null", "GIT_CONFIG_SYSTEM=/dev/null")
	if stdin != "" {
		cmd.Stdin = strings.NewReader(stdin)
	}
	var out, errb bytes.Buffer
	cmd.Stdout, cmd.Stderr = &out, &errb
	if err := cmd.Run(); err != nil {
		t.Fatalf("git %v: %v: %s", args, err, errb.String())
	}
	return out.String()
}

type c15World struct {
	t       *testing.T
	in      c15In
	local   *c15Side
	remote  *c15Side
	tree    githash.Hash
	targets []githash.Hash
	tIdx    map[string]int
	hashOf  map[int]githash.Hash // abstract entry id -> commit
	absOf   map[string]int
	nNew    int
}

// message of an entry exactly as pkg/rsl's createCommitMessage writes it (C14's subject)
func (w *c15World) message(e c15Entry, num int) string {
	switch e.K {
	case "ref":
		return fmt.Sprintf("RSL Reference Entry\n\nref: %s\ntargetID: %s\nnumber: %d", e.Ref, w.targets[e.Target].String(), num)
	case "prop":
		return fmt.Sprintf("RSL Propagation Entry\n\nref: %s\ntargetID: %s\nupstreamRepository: %s\nupstreamEntryID: %s\nnumber: %d",
			e.Ref, w.targets[e.Target].String(), e.Repo, w.targets[e.UpEntry].String(), num)
	case "ann":
		lines := []string{"RSL Annotation Entry", ""}
		for _, i := range e.IDs {
			h, ok := w.hashOf[i]
			if !ok {
				w.t.Fatalf("annotation names unknown abstract id %d", i)
			}
			lines = append(lines, "entryID: "+h.String())
		}
		lines = append(lines, fmt.Sprintf("skip: %v", e.Skip), fmt.Sprintf("number: %d", num))
		if e.Msg != "" {
			var b strings.Builder
			_ = pem.Encode(&b, &pem.Block{Type: "MESSAGE", Bytes: []byte(e.Msg)})
			lines = append(lines, strings.TrimSpace(b.String()))
		}
		return strings.Join(lines, "\n")
	}
	w.t.Fatalf("bad entry kind %q", e.K)
	return ""
}

func c15WriteObject(t *testing.T, gitDir, typ string, content []byte) string {
	full := append([]byte(fmt.Sprintf("%s %d\x00", typ, len(content))), content...)
	sum := sha1.Sum(full)
	id := hex.EncodeToString(sum[:])
	dir := filepath.Join(gitDir, "objects", id[:2])
	if err := os.MkdirAll(dir, 0o755); err != nil {
		t.Fatal(err)
	}
	var buf bytes.Buffer
	zw := zlib.NewWriter(&buf)
	_, _ = zw.Write(full)
	_ = zw.Close()
	if err := os.WriteFile(filepath.Join(dir, id[2:]), buf.Bytes(), 0o444); err != nil && !os.IsExist(err) {
		if _, serr := os.Stat(filepath.Join(dir, id[2:])); serr != nil {
			t.Fatal(err)
		}
	}
	return id
}

func c15WriteRef(t *testing.T, gitDir, ref, id string) {
	p := filepath.Join(gitDir, filepath.FromSlash(ref))
	if err := os.MkdirAll(filepath.Dir(p), 0o755); err != nil {
		t.Fatal(err)
	}
	if err := os.WriteFile(p, []byte(id+"\n"), 0o644); err != nil {
		t.Fatal(err)
	}
}

// record appends one entry to the side's RSL: through pkg/rsl (api) or as a commit object
// written directly (raw; same tree, same message, one parent).
func (w *c15World) record(s *c15Side, e c15Entry, abs int) {
	var tip githash.Hash
	if w.in.Mode == "raw" {
		s.n++
		var b strings.Builder
		fmt.Fprintf(&b, "tree %s\n", w.tree.String())
		if s.tip != "" {
			fmt.Fprintf(&b, "parent %s\n", s.tip)
		}
		ts := 1700000000 + abs
		fmt.Fprintf(&b, "author Jane Doe <jane.doe@example.com> %d +0000\ncommitter Jane Doe <jane.doe@example.com> %d +0000\n\n%s\n", ts, ts, w.message(e, s.n))
		id := c15WriteObject(w.t, s.gitDir, "commit", []byte(b.String()))
		c15WriteRef(w.t, s.gitDir, rsl.Ref, id)
		s.tip = id
		tip, _ = githash.NewHash(id)
	} else {
		var err error
		switch e.K {
		case "ref":
			err = rsl.NewReferenceEntry(e.Ref, w.targets[e.Target]).Commit(s.repo, false)
		case "prop":
			err = rsl.NewPropagationEntry(e.Ref, w.targets[e.Target], e.Repo, w.targets[e.UpEntry]).Commit(s.repo, false)
		case "ann":
			ids := []githash.Hash{}
			for _, i := range e.IDs {
				h, ok := w.hashOf[i]
				if !ok {
					w.t.Fatalf("annotation names unknown abstract id %d", i)
				}
				ids = append(ids, h)
			}
			err = rsl.NewAnnotationEntry(ids, e.Skip, e.Msg).Commit(s.repo, false)
		default:
			w.t.Fatalf("bad entry kind %q", e.K)
		}
		if err != nil {
			w.t.Fatalf("recording %+v: %v", e, err)
		}
		tip, err = s.repo.GetReference(rsl.Ref)
		if err != nil {
			w.t.Fatal(err)
		}
	}
	if _, dup := w.absOf[tip.String()]; dup {
		w.t.Fatalf("commit id %s reused", tip.String())
	}
	w.hashOf[abs] = tip
	w.absOf[tip.String()] = abs
}

func (w *c15World) setRefs(s *c15Side, refs []c15Ref) {
	for _, r := range refs {
		if r.Target < 0 {
			continue
		}
		c15WriteRef(w.t, s.gitDir, r.Ref, w.targets[r.Target].String())
	}
}

// readLog: first-parent chain of the RSL ref, oldest first, in abstract form (plain git log).
func (w *c15World) readLog(s *c15Side) []c15Seen {
	res := []c15Seen{}
	cmd := exec.Command("git", "--git-dir", s.gitDir, "log", "--first-parent", "--format=%H%n%B%x00", rsl.Ref)
	cmd.Env = append(os.Environ(), "GIT_CONFIG_GLOBAL=/dev/null", "GIT_CONFIG_SYSTEM=/dev/null")
	out, err := cmd.Output()
	if err != nil {
		return res // no RSL
	}
	ids := []string{}
	msgs := map[string]string{}
	for _, rec := range strings.Split(string(out), "\x00") {
		rec = strings.TrimLeft(rec, "\n")
		if rec == "" {
			continue
		}
		id, body, _ := strings.Cut(rec, "\n")
		ids = append(ids, id)
		msgs[id] = strings.TrimRight(body, "\n")
	}
	// oldest first; commits not seen before get fresh abstract ids in this order
	for i := len(ids) - 1; i >= 0; i-- {
		if _, ok := w.absOf[ids[i]]; !ok {
			w.absOf[ids[i]] = c15NewBase + w.nNew
			w.nNew++
		}
	}
	for i := len(ids) - 1; i >= 0; i-- {
		res = append(res, w.parseEntry(w.absOf[ids[i]], msgs[ids[i]]))
	}
	return res
}

func (w *c15World) targetIdx(h string) int {
	if i, ok := w.tIdx[strings.TrimSpace(h)]; ok {
		return i
	}
	return -1
}

func (w *c15World) parseEntry(abs int, msg string) c15Seen {
	e := c15Seen{ID: abs, K: "garbage", Target: -1, UpEntry: -1}
	lines := strings.Split(msg, "\n")
	switch lines[0] {
	case "RSL Reference Entry":
		e.K = "ref"
	case "RSL Annotation Entry":
		e.K = "ann"
	case "RSL Propagation Entry":
		e.K = "prop"
	default:
		return e
	}
	for i := 1; i < len(lines); i++ {
		l := lines[i]
		if l == "-----BEGIN MESSAGE-----" {
			blk, _ := pem.Decode([]byte(strings.Join(lines[i:], "\n") + "\n"))
			if blk != nil {
				e.Msg = string(blk.Bytes)
			}
			break
		}
		k, v, ok := strings.Cut(l, ": ")
		if !ok {
			continue
		}
		switch k {
		case "ref":
			e.Ref = v
		case "targetID":
			e.Target = w.targetIdx(v)
		case "entryID":
			if a, ok := w.absOf[strings.TrimSpace(v)]; ok {
				e.IDs = append(e.IDs, a)
			} else {
				e.IDs = append(e.IDs, -1)
			}
		case "skip":
			e.Skip = v == "true"
		case "upstreamRepository":
			e.Repo = v
		case "upstreamEntryID":
			e.UpEntry = w.targetIdx(v)
		case "number":
			e.Number, _ = strconv.Atoi(v)
		}
	}
	if e.K != "prop" {
		e.UpEntry = 0
	}
	if e.K == "ann" {
		e.Target = 0
	}
	return e
}

func (w *c15World) readRefs(s *c15Side) []c15Ref {
	out := c15Git(w.t, s.gitDir, "", "for-each-ref", "--format=%(refname) %(objectname)", "refs/heads", "refs/tags")
	have := map[string]int{}
	for _, l := range strings.Split(strings.TrimSpace(out), "\n") {
		f := strings.Fields(l)
		if len(f) != 2 || strings.HasPrefix(f[0], "refs/heads/target") {
			continue
		}
		have[f[0]] = w.targetIdx(f[1])
		if have[f[0]] < 0 {
			have[f[0]] = -2 // points at something that is not a target commit
		}
	}
	names := append([]string{}, c15Refs...)
	for r := range have {
		known := false
		for _, k := range c15Refs {
			known = known || k == r
		}
		if !known {
			names = append(names, r)
		}
	}
	sort.Strings(names)
	res := []c15Ref{}
	for _, r := range names {
		if t, ok := have[r]; ok {
			res = append(res, c15Ref{Ref: r, Target: t})
		} else {
			res = append(res, c15Ref{Ref: r, Target: -1})
		}
	}
	return res
}

func c15SameLog(seen []c15Seen, base int, shared, suffix []c15Entry) bool {
	if len(seen) != len(shared)+len(suffix) {
		return false
	}
	for i, s := range seen {
		var e c15Entry
		want := i
		if i < len(shared) {
			e = shared[i]
		} else {
			e = suffix[i-len(shared)]
			want = base + i - len(shared)
		}
		if s.ID != want || s.K != e.K || s.Number != i+1 {
			return false
		}
		switch e.K {
		case "ref":
			if s.Ref != e.Ref || s.Target != e.Target {
				return false
			}
		case "prop":
			if s.Ref != e.Ref || s.Target != e.Target || s.Repo != e.Repo || s.UpEntry != e.UpEntry {
				return false
			}
		case "ann":
			if s.Skip != e.Skip || s.Msg != e.Msg || fmt.Sprint(s.IDs) != fmt.Sprint(e.IDs) {
				return false
			}
		}
	}
	return true
}

// the template: a bare repository holding the target commits, made once per process with the
// repository helpers and copied for every case
var c15Template struct {
	once    sync.Once
	dir     string
	tree    githash.Hash
	targets []githash.Hash
}

func c15CopyDir(t *testing.T, from, to string) {
	err := filepath.Walk(from, func(p string, info os.FileInfo, err error) error {
		if err != nil {
			return err
		}
		rel, _ := filepath.Rel(from, p)
		if info.IsDir() {
			if info.Name() == "hooks" {
				return filepath.SkipDir
			}
			return os.MkdirAll(filepath.Join(to, rel), 0o755)
		}
		data, err := os.ReadFile(p)
		if err != nil {
			return err
		}
		return os.WriteFile(filepath.Join(to, rel), data, 0o644)
	})
	if err != nil {
		t.Fatal(err)
	}
}

func c15Run(t *testing.T, in c15In, id int, out *Out) {
	if in.Mode == "" {
		in.Mode = "api"
	}
	tp := &c15Template
	tp.once.Do(func() {
		tp.dir = filepath.Join(scratchRoot(t), "template")
		repo := gitinterface.CreateTestGitRepository(t, tp.dir, true)
		tp.tree = emptyTree(t, repo)
		for i, p := range c15TargetParents {
			ref := fmt.Sprintf("refs/heads/target%d", i)
			if p >= 0 {
				if err := repo.SetReference(ref, tp.targets[p]); err != nil {
					t.Fatal(err)
				}
			}
			h, err := repo.Commit(tp.tree, ref, fmt.Sprintf("target %d", i), false)
			if err != nil {
				t.Fatal(err)
			}
			tp.targets = append(tp.targets, h)
		}
	})
	if fmt.Sprint(in.Targets) != fmt.Sprint(c15TargetParents) {
		t.Fatalf("case %d: unsupported target DAG %v", id, in.Targets)
	}
	dir := scratchRoot(t)
	defer os.RemoveAll(dir)
	w := &c15World{t: t, in: in, tree: tp.tree, targets: tp.targets, tIdx: map[string]int{}, hashOf: map[int]githash.Hash{}, absOf: map[string]int{}}
	for i, h := range tp.targets {
		w.tIdx[h.String()] = i
	}
	mk := func(name, from string) *c15Side {
		d := filepath.Join(dir, name)
		c15CopyDir(t, from, d)
		s := &c15Side{t: t, gitDir: d}
		if in.Mode != "raw" {
			r, err := gitinterface.LoadRepository(d)
			if err != nil {
				t.Fatal(err)
			}
			s.repo = r
		}
		return s
	}
	w.remote = mk("remote", tp.dir)
	for i, e := range in.Shared {
		w.record(w.remote, e, i)
	}
	// the local repository: a copy of the remote as it is now, with the remote added as origin
	w.local = mk("local", w.remote.gitDir)
	w.local.tip, w.local.n = w.remote.tip, w.remote.n
	cfg, err := os.OpenFile(filepath.Join(w.local.gitDir, "config"), os.O_APPEND|os.O_WRONLY, 0o644)
	if err != nil {
		t.Fatal(err)
	}
	fmt.Fprintf(cfg, "[remote \"origin\"]\n\turl = %s\n\tfetch = +refs/heads/*:refs/remotes/origin/*\n", w.remote.gitDir)
	cfg.Close()
	for j, e := range in.Remote {
		w.record(w.remote, e, c15RemoteBase+j)
	}
	for j, e := range in.Local {
		w.record(w.local, e, c15LocalBase+j)
	}
	w.setRefs(w.remote, in.RemoteRefs)
	w.setRefs(w.local, in.LocalRefs)

	// the starting point, as the independent reader sees it, must be the abstract input
	if in.Mode != "raw" || id%25 == 1 {
		if l := w.readLog(w.local); !c15SameLog(l, c15LocalBase, in.Shared, in.Local) {
			t.Fatalf("case %d: local log is not the intended one: %+v", id, l)
		}
		if l := w.readLog(w.remote); !c15SameLog(l, c15RemoteBase, in.Shared, in.Remote) {
			t.Fatalf("case %d: remote log is not the intended one: %+v", id, l)
		}
		if w.nNew != 0 {
			t.Fatalf("case %d: unexpected commits before the operation", id)
		}
	}

	rsl.VerifResetCache()
	lrepo, lerr := gittuf.LoadRepository(w.local.gitDir)
	if err = lerr; err != nil {
		t.Fatal(err)
	}
	impl := c15Impl{}
	switch in.Op {
	case "reconcile":
		err := lrepo.ReconcileLocalRSLWithRemote(ctx, "origin", false)
		switch {
		case err == nil:
			impl.Class = "ok"
		case strings.Contains(err.Error(), "both RSLs contain changes to the same refs"):
			impl.Class = "conflict"
		default:
			impl.Class = "other"
			impl.Err = err.Error()
		}
	case "sync":
		div, err := lrepo.Sync(ctx, "origin", in.Overwrite, false)
		switch {
		case err == nil:
			impl.Class = "ok"
		case errors.Is(err, gittuf.ErrDivergedRefs):
			impl.Class = "diverged"
			sort.Strings(div)
			impl.Diverged = div
		default:
			impl.Class = "other"
			impl.Err = err.Error()
		}
	default:
		t.Fatalf("bad op %q", in.Op)
	}
	impl.LocalLog = w.readLog(w.local)
	impl.RemoteLog = w.readLog(w.remote)
	impl.LocalRefs = w.readRefs(w.local)
	impl.RemoteRefs = w.readRefs(w.remote)
	impl.Numbered = true
	for i, e := range impl.LocalLog {
		if e.Number != i+1 {
			impl.Numbered = false
		}
	}
	if err := out.Emit(c15Line{Prop: "C15", ID: id, In: in, Impl: impl}); err != nil {
		t.Fatal(err)
	}
}

// ---- generator ----

func c15LatestTargets(entries []c15Entry) map[string]int {
	res := map[string]int{}
	for _, e := range entries {
		if e.K == "ref" || e.K == "prop" {
			res[e.Ref] = e.Target
		}
	}
	return res
}

// c15Relative picks a target commit that is behind / ahead of / unrelated to t (or t itself).
func c15Relative(r *Rng, parents []int, t int, how string) int {
	isAnc := func(a, b int) bool { // a is a (reflexive) ancestor of b
		for x := b; x >= 0; x = parents[x] {
			if x == a {
				return true
			}
		}
		return false
	}
	cands := []int{}
	for x := range parents {
		switch how {
		case "behind":
			if x != t && isAnc(x, t) {
				cands = append(cands, x)
			}
		case "ahead":
			if x != t && isAnc(t, x) {
				cands = append(cands, x)
			}
		case "diverged":
			if !isAnc(x, t) && !isAnc(t, x) {
				cands = append(cands, x)
			}
		}
	}
	if len(cands) == 0 {
		return t
	}
	return cands[r.Intn(len(cands))]
}

func genC15(r *Rng, tier string) c15In {
	in := c15In{Targets: c15TargetParents, Op: "reconcile", Mode: "raw"}
	if r.Chance(12) {
		in.Mode = "api"
	}
	if r.Chance(40) {
		in.Op = "sync"
		in.Overwrite = r.Chance(40)
	}
	nT := len(c15TargetParents)
	maxSuffix := 4
	if tier == "thorough" && r.Chance(10) {
		maxSuffix = 10
	}
	// which references each side may touch
	disjoint := r.Chance(65)
	localRefs, remoteRefs := c15Refs, c15Refs
	if disjoint {
		k := 1 + r.Intn(2)
		order := append([]string{}, c15Refs...)
		for i := len(order) - 1; i > 0; i-- {
			j := r.Intn(i + 1)
			order[i], order[j] = order[j], order[i]
		}
		localRefs, remoteRefs = order[:k], order[k:]
	}
	propOverlap := r.Chance(35) // propagation entries may name any reference, also one the other side changes

	gen := func(n int, base int, refs []string, shared []c15Entry, allowProp bool) []c15Entry {
		res := []c15Entry{}
		for j := 0; j < n; j++ {
			e := c15Entry{}
			earlier := len(shared) + len(res)
			x := r.Intn(100)
			switch {
			case x < 48 || earlier == 0:
				e.K = "ref"
			case x < 83:
				e.K = "ann"
			default:
				e.K = "prop"
				if !allowProp {
					e.K = "ref"
				}
			}
			switch e.K {
			case "ref", "prop":
				e.Ref = refs[r.Intn(len(refs))]
				if e.K == "prop" && propOverlap {
					e.Ref = c15Refs[r.Intn(len(c15Refs))]
				}
				e.Target = r.Intn(nT)
				if e.K == "prop" {
					e.Repo = rslUpstreams[r.Intn(len(rslUpstreams))]
					e.UpEntry = r.Intn(nT)
				}
			case "ann":
				// candidates: ids of earlier entries of this side; reference entries preferred,
				// own suffix preferred over the shared prefix
				abs := func(i int) int {
					if i < len(shared) {
						return i
					}
					return base + i - len(shared)
				}
				kind := func(i int) string {
					if i < len(shared) {
						return shared[i].K
					}
					return res[i-len(shared)].K
				}
				pick := func() int {
					for try := 0; try < 8; try++ {
						i := r.Intn(earlier)
						if len(res) > 0 && r.Chance(60) {
							i = len(shared) + r.Intn(len(res))
						}
						if kind(i) == "ref" || r.Chance(12) {
							return i
						}
					}
					return r.Intn(earlier)
				}
				k := 1
				if r.Chance(25) {
					k = 2
				}
				seen := map[int]bool{}
				for len(e.IDs) < k {
					i := pick()
					if seen[i] && earlier > 1 {
						k--
						continue
					}
					seen[i] = true
					e.IDs = append(e.IDs, abs(i))
				}
				e.Skip = r.Chance(70)
				if r.Chance(40) {
					e.Msg = []string{"note", "revoked: bad push", "multi\nline"}[r.Intn(3)]
				}
			}
			res = append(res, e)
			// "revoked, then annotated again": two annotations on the same fresh reference entry, a
			// skip and a plain note in either order - which of the two a reader meets first must not matter
			if e.K == "ref" && r.Chance(25) {
				id := base + len(res) - 1
				if len(shared) == 0 && base == 0 {
					id = len(res) - 1
				}
				first, second := true, false
				if r.Chance(30) {
					first, second = false, true
				}
				res = append(res, c15Entry{K: "ann", IDs: []int{id}, Skip: first, Msg: "revoked: bad push"})
				res = append(res, c15Entry{K: "ann", IDs: []int{id}, Skip: second, Msg: "note"})
			}
		}
		return res
	}

	nShared := 1 + r.Intn(3)
	if r.Chance(3) {
		nShared = 0
	}
	in.Shared = gen(nShared, 0, c15Refs, nil, true)
	if in.Shared == nil {
		in.Shared = []c15Entry{}
	}
	shape := r.Intn(100)
	nl, nr := 1+r.Intn(maxSuffix), 1+r.Intn(maxSuffix)
	switch {
	case nShared == 0:
	case in.Op == "reconcile" && shape < 8, in.Op == "sync" && shape < 30:
		nr = 0 // local ahead
	case in.Op == "reconcile" && shape < 16, in.Op == "sync" && shape < 65:
		nl = 0 // remote ahead
	case shape >= 97:
		nl, nr = 0, 0
	}
	in.Local = gen(nl, c15LocalBase, localRefs, in.Shared, true)
	in.Remote = gen(nr, c15RemoteBase, remoteRefs, in.Shared, true)
	if nl > 0 && nr > 0 && fmt.Sprint(in.Local[0]) == fmt.Sprint(in.Remote[0]) {
		// the same entry on the same parent could be the same commit: then nothing has diverged
		in.Remote[0] = c15Entry{K: "ref", Ref: remoteRefs[0], Target: (in.Local[0].Target + 1) % nT}
	}

	// references: each side starts where its own log says, then the local side is perturbed
	ltips := c15LatestTargets(append(append([]c15Entry{}, in.Shared...), in.Local...))
	rtips := c15LatestTargets(append(append([]c15Entry{}, in.Shared...), in.Remote...))
	for _, ref := range c15Refs {
		lt, lok := ltips[ref]
		rt, rok := rtips[ref]
		if !lok {
			lt = -1
		}
		if !rok {
			rt = -1
		}
		if in.Op == "sync" && lt < 0 && r.Chance(50) {
			// the branch exists locally although no unrevoked entry of the local log names it
			// (sync only ever moves references that exist locally)
			lt = r.Intn(nT)
		}
		if in.Op == "sync" && nl > 0 && nr == 0 && rok {
			// local ahead: the remote reference is where the shared log says (or, rarely, elsewhere)
			if st, ok := c15LatestTargets(in.Shared)[ref]; ok {
				rt = st
			}
			if r.Chance(12) {
				rt = r.Intn(nT)
			}
		}
		switch x := r.Intn(100); {
		case x < 50:
		case x < 60 && lt >= 0:
			lt = c15Relative(r, c15TargetParents, lt, "behind")
		case x < 70 && lt >= 0:
			lt = c15Relative(r, c15TargetParents, lt, "ahead")
		case x < 80 && lt >= 0:
			lt = c15Relative(r, c15TargetParents, lt, "diverged")
		case x < 86:
			lt = -1
		case x < 93 && rt >= 0:
			lt = c15Relative(r, c15TargetParents, rt, []string{"behind", "ahead", "diverged"}[r.Intn(3)])
		default:
			lt = r.Intn(nT)
		}
		in.LocalRefs = append(in.LocalRefs, c15Ref{Ref: ref, Target: lt})
		in.RemoteRefs = append(in.RemoteRefs, c15Ref{Ref: ref, Target: rt})
	}
	return in
}

func TestC15(t *testing.T) {
	seed := uint64(envInt("VERIF_SEED", 1))
	n := envInt("VERIF_N", 10)
	shard := envInt("VERIF_SHARD", 0)
	tier := envStr("VERIF_TIER", "quick")
	out, err := OpenOut()
	if err != nil {
		t.Fatal(err)
	}
	defer out.Close()

	if replay := ReplayInputs[c15In](t); replay != nil {
		for i, c := range replay {
			c15Run(t, c, i+1, out)
		}
		return
	}
	rng := NewRng(seed*1000003 + uint64(shard))
	id := shard*1000000 + 1
	for i := 0; i < n; i++ {
		c15Run(t, genC15(rng, tier), id, out)
		id++
	}
}
