package harness

import (
	"context"
	"fmt"
	"testing"

	"github.com/gittuf/gittuf/internal/common/set"
	"github.com/gittuf/gittuf/internal/policy"
	"github.com/gittuf/gittuf/internal/signerverifier/dsse"
	sslibdsse "github.com/gittuf/gittuf/internal/third_party/go-securesystemslib/dsse"
	"github.com/gittuf/gittuf/internal/tuf"
	tufv01 "github.com/gittuf/gittuf/internal/tuf/v01"
	tufv02 "github.com/gittuf/gittuf/internal/tuf/v02"
)

var ctx = context.Background()

// PrincipalSpec: an abstract principal. Person=false: a bare Key principal
// (exactly one key; its id in the policy is the key id). Person=true: a
// tufv02.Person named "p<ID>" with the listed keys.
type PrincipalSpec struct {
	ID         int               `json:"id"`
	Person     bool              `json:"person"`
	Keys       []int             `json:"keys"`
	Identities map[string]string `json:"identities,omitempty"` // app name -> identity
}

func (p PrincipalSpec) Name(t testing.TB) string {
	if p.Person {
		return fmt.Sprintf("p%d", p.ID)
	}
	return Keys(t, p.Keys[0]+1)[p.Keys[0]].ID()
}

func (p PrincipalSpec) Principal(t testing.TB) tuf.Principal {
	if !p.Person {
		return Keys(t, p.Keys[0]+1)[p.Keys[0]].V02Key()
	}
	person := &tufv02.Person{PersonID: p.Name(t), PublicKeys: map[string]*tufv02.Key{}}
	for _, ki := range p.Keys {
		k := Keys(t, ki+1)[ki]
		person.PublicKeys[k.ID()] = k.V02Key()
	}
	if len(p.Identities) != 0 {
		person.AssociatedIdentities = map[string]string{}
		for a, id := range p.Identities {
			person.AssociatedIdentities[a] = id
		}
	}
	return person
}

type RuleSpec struct {
	Name        string   `json:"name"`
	Patterns    []string `json:"patterns"`
	Principals  []int    `json:"principals"` // principal spec ids (looked up in the file's + inherited specs)
	Threshold   int      `json:"threshold"`
	Terminating bool     `json:"terminating"`
}

type RuleFileSpec struct {
	Name       string          `json:"name"` // "targets" or the delegating rule's name
	Version    uint64          `json:"version"`
	Principals []PrincipalSpec `json:"principals"`
	Rules      []RuleSpec      `json:"rules"`
	Signers    []int           `json:"signers"` // key indices signing the envelope
	NoAllow    bool            `json:"no_allow,omitempty"`
}

type GlobalRuleSpec struct {
	Name      string   `json:"name"`
	Kind      string   `json:"kind"` // "threshold" | "block-force-pushes"
	Patterns  []string `json:"patterns"`
	Threshold int      `json:"threshold"`
}

type AppSpec struct {
	Name    string `json:"name"`
	Key     int    `json:"key"`
	Trusted bool   `json:"trusted"`
}

type RootSpec struct {
	Version          uint64           `json:"version"`
	RootKeys         []int            `json:"root_keys"`
	RootThreshold    int              `json:"root_threshold"`
	TargetsKeys      []int            `json:"targets_keys"`
	TargetsThreshold int              `json:"targets_threshold"`
	GlobalRules      []GlobalRuleSpec `json:"global_rules,omitempty"`
	Apps             []AppSpec        `json:"apps,omitempty"`
	Signers          []int            `json:"signers"`
}

type PolicySpec struct {
	Root  RootSpec       `json:"root"`
	Files []RuleFileSpec `json:"files"` // Files[0] (if any) is the primary rule file "targets"
}

// allSpecs: every principal spec of the policy by id (rule principals may be
// defined in the file itself or in an ancestor file; the builder is permissive).
func (s *PolicySpec) principalByID() map[int]PrincipalSpec {
	m := map[int]PrincipalSpec{}
	for _, f := range s.Files {
		for _, p := range f.Principals {
			m[p.ID] = p
		}
	}
	return m
}

func signEnv(t testing.TB, payload any, signers []int) *sslibdsse.Envelope {
	t.Helper()
	env, err := dsse.CreateEnvelope(payload)
	if err != nil {
		t.Fatal(err)
	}
	for _, ki := range signers {
		k := Keys(t, ki+1)[ki]
		env, err = dsse.SignEnvelope(ctx, env, k)
		if err != nil {
			t.Fatal(err)
		}
	}
	return env
}

func BuildRootMetadata(t testing.TB, r RootSpec) *tufv02.RootMetadata {
	t.Helper()
	root := tufv02.NewRootMetadata()
	root.SetExpires("2099-01-01T00:00:00Z")
	if r.Version != 0 {
		root.Version = r.Version
	}
	root.Principals = map[string]tuf.Principal{}
	root.Roles = map[string]tufv02.Role{}
	ids := set.NewSet[string]()
	for _, ki := range r.RootKeys {
		k := Keys(t, ki+1)[ki]
		root.Principals[k.ID()] = k.V02Key()
		ids.Add(k.ID())
	}
	root.Roles[tuf.RootRoleName] = tufv02.Role{PrincipalIDs: ids, Threshold: r.RootThreshold}
	if len(r.TargetsKeys) != 0 {
		tids := set.NewSet[string]()
		for _, ki := range r.TargetsKeys {
			k := Keys(t, ki+1)[ki]
			root.Principals[k.ID()] = k.V02Key()
			tids.Add(k.ID())
		}
		root.Roles[tuf.TargetsRoleName] = tufv02.Role{PrincipalIDs: tids, Threshold: r.TargetsThreshold}
	}
	for _, g := range r.GlobalRules {
		switch g.Kind {
		case "threshold":
			root.GlobalRules = append(root.GlobalRules, tufv01.NewGlobalRuleThreshold(g.Name, g.Patterns, g.Threshold))
		case "block-force-pushes":
			gr, err := tufv01.NewGlobalRuleBlockForcePushes(g.Name, g.Patterns)
			if err != nil {
				t.Fatal(err)
			}
			root.GlobalRules = append(root.GlobalRules, gr)
		}
	}
	for _, a := range r.Apps {
		k := Keys(t, a.Key+1)[a.Key]
		if err := root.AddGitHubAppPrincipal(a.Name, k.V02Key()); err != nil {
			t.Fatal(err)
		}
		if a.Trusted {
			root.EnableGitHubAppApprovals(a.Name)
		}
	}
	return root
}

func BuildTargetsMetadata(t testing.TB, spec *PolicySpec, f RuleFileSpec) *tufv02.TargetsMetadata {
	t.Helper()
	byID := spec.principalByID()
	tm := tufv02.NewTargetsMetadata()
	tm.SetExpires("2099-01-01T00:00:00Z")
	if f.Version != 0 {
		tm.Version = f.Version
	}
	tm.Delegations = &tufv02.Delegations{Principals: map[string]tuf.Principal{}, Roles: []*tufv02.Delegation{}}
	for _, p := range f.Principals {
		pr := p.Principal(t)
		tm.Delegations.Principals[pr.ID()] = pr
	}
	for _, r := range f.Rules {
		ids := set.NewSet[string]()
		for _, pid := range r.Principals {
			ids.Add(byID[pid].Name(t))
		}
		tm.Delegations.Roles = append(tm.Delegations.Roles, &tufv02.Delegation{
			Name: r.Name, Paths: r.Patterns, Terminating: r.Terminating,
			Role: tufv02.Role{PrincipalIDs: ids, Threshold: r.Threshold},
		})
	}
	if !f.NoAllow {
		tm.Delegations.Roles = append(tm.Delegations.Roles, tufv02.AllowRule())
	}
	return tm
}

// BuildState produces an (unverified, not yet committed) policy state.
func BuildState(t testing.TB, spec *PolicySpec) *policy.State {
	t.Helper()
	st := &policy.State{Metadata: &policy.StateMetadata{}}
	st.Metadata.RootEnvelope = signEnv(t, BuildRootMetadata(t, spec.Root), spec.Root.Signers)
	for i, f := range spec.Files {
		env := signEnv(t, BuildTargetsMetadata(t, spec, f), f.Signers)
		if i == 0 {
			st.Metadata.TargetsEnvelope = env
		} else {
			if st.Metadata.DelegationEnvelopes == nil {
				st.Metadata.DelegationEnvelopes = map[string]*sslibdsse.Envelope{}
			}
			st.Metadata.DelegationEnvelopes[f.Name] = env
		}
	}
	return st
}

func signEnvWith(t testing.TB, env *sslibdsse.Envelope, ki int) *sslibdsse.Envelope {
	t.Helper()
	k := Keys(t, ki+1)[ki]
	env, err := dsse.SignEnvelope(ctx, env, k)
	if err != nil {
		t.Fatal(err)
	}
	return env
}
