package harness

import (
	"sort"
	"testing"

	"github.com/gittuf/gittuf/pkg/githash"
	"github.com/gittuf/gittuf/pkg/rsl"
)

// ---- abstract case (mirrors lean/Driver/C04.lean) ----

type c04Query struct {
	Fn        string `json:"fn"` // latest | first | ngparent | forcommit | range | entry | parent
	Ref       string `json:"ref,omitempty"`
	BeforeID  int    `json:"beforeId"` // commit index, -1 unset
	BeforeNum int    `json:"beforeNum,omitempty"`
	UntilID   int    `json:"untilId"`
	UntilNum  int    `json:"untilNum,omitempty"`
	Unskipped bool   `json:"unskipped,omitempty"`
	NonGittuf bool   `json:"nonGittuf,omitempty"`
	IsRef     bool   `json:"isRef,omitempty"`
	PropRepo  string `json:"propRepo,omitempty"`
	Entry     int    `json:"entry"`
	Commit    int    `json:"commit"`
	First     int    `json:"first"`
	Last      int    `json:"last"`
}

type c04In struct {
	Targets []int      `json:"targets"`
	Log     []rslStep  `json:"log"`
	Queries []c04Query `json:"queries"`
}

type c04Res struct {
	Class   string  `json:"class"`
	Entries []int   `json:"entries"`
	Anns    [][]int `json:"anns"`
	Err     string  `json:"err,omitempty"`
}

type c04Impl struct {
	Nums    []int    `json:"nums"`
	Results []c04Res `json:"results"`
}

type c04Line struct {
	Prop string  `json:"prop"`
	ID   int     `json:"id"`
	In   c04In   `json:"in"`
	Impl c04Impl `json:"impl"`
}

// genC04Log draws a log (oldest first). About a third of the logs carry one corruption.
func genC04Log(r *Rng, maxLen int) []rslStep {
	n := r.Intn(maxLen + 1)
	if r.Chance(3) {
		n = 0
	}
	legacy := 0
	if r.Chance(25) && n > 0 {
		legacy = 1 + r.Intn(minInt(n, 4))
		if r.Chance(20) {
			legacy = n // a log that never got numbers
		}
	}
	corruptAt := -1
	corruptKind := ""
	if r.Chance(35) && n > 1 {
		corruptAt = 1 + r.Intn(n-1)
		corruptKind = []string{"extraParent", "gap", "dup", "zero", "garbage", "garbage"}[r.Intn(6)]
	}
	nrefs := 2 + r.Intn(len(rslRefs)-1)
	steps := []rslStep{}
	num := 0      // number of the previous commit as the model will see it
	raw := false  // everything after a garbage commit has to be crafted
	entryIdx := []int{} // indices of commits that parse as entries
	for i := 0; i < n; i++ {
		s := rslStep{Mode: "api"}
		switch x := r.Intn(100); {
		case x < 55 || len(entryIdx) == 0:
			s.K = "ref"
		case x < 72:
			s.K = "prop"
		default:
			s.K = "ann"
		}
		s.Ref = rslRefs[r.Intn(nrefs)]
		s.Target = r.Intn(len(rslTargetParents))
		if s.K == "ref" && !isGittufRefName(s.Ref) && r.Chance(60) {
			s.Target = []int{0, 1, 2}[r.Intn(3)] // mostly along the main line of targets
		}
		switch s.K {
		case "prop":
			s.Repo = rslUpstreams[r.Intn(len(rslUpstreams))]
			s.UpEntry = r.Intn(len(rslTargetParents))
		case "ann":
			k := 1 + r.Intn(2)
			for j := 0; j < k; j++ {
				t := entryIdx[r.Intn(len(entryIdx))]
				if r.Chance(60) { // prefer recent entries
					t = entryIdx[len(entryIdx)-1-r.Intn(minInt(len(entryIdx), 4))]
				}
				s.IDs = append(s.IDs, t)
			}
			s.Skip = r.Chance(60)
			if r.Chance(30) {
				s.Msg = []string{"note", "revoked: bad push", "x"}[r.Intn(3)]
			}
			s.Ref = ""
			s.Target = 0
		}
		isLegacy := i < legacy
		switch {
		case i == corruptAt && corruptKind == "garbage":
			s = rslStep{K: "garbage", Mode: "raw", Msg: "g"}
			raw = true
		case i == corruptAt:
			s.Mode = "raw"
			switch corruptKind {
			case "extraParent":
				s.ExtraParent = true
				s.Num = nextNum(num, isLegacy)
			case "gap":
				s.Num = num + 2 + r.Intn(2)
			case "dup":
				s.Num = num
				if num == 0 {
					s.Num = 2 // in a legacy log: a number that does not start at 1
				}
			case "zero":
				s.Num = 0
				if num == 0 {
					s.Num = 3
				}
			}
			num = s.Num
		case raw:
			s.Mode = "raw"
			s.Num = num + 1
			num = s.Num
		case isLegacy && s.K != "prop":
			s.Mode = "legacy"
			num = 0
		case isLegacy:
			s.K = "ref"
			s.Mode = "legacy"
			s.Repo, s.UpEntry = "", 0
			num = 0
		default:
			if r.Chance(15) { // crafted but regular: exercises the raw path on well-formed logs too
				s.Mode = "raw"
				s.Num = num + 1
			}
			num = num + 1
		}
		if s.K != "garbage" {
			entryIdx = append(entryIdx, i)
		}
		steps = append(steps, s)
	}
	return steps
}

func nextNum(num int, legacy bool) int {
	if legacy {
		return 0
	}
	return num + 1
}

func minInt(a, b int) int {
	if a < b {
		return a
	}
	return b
}

func isGittufRefName(s string) bool { return len(s) >= 12 && s[:12] == "refs/gittuf/" }

func genC04Queries(r *Rng, log []rslStep, nq int) []c04Query {
	n := len(log)
	pick := func() int { // an index into the log, biased to the ends
		if n == 0 {
			return 0
		}
		switch r.Intn(10) {
		case 0:
			return n - 1
		case 1:
			return 0
		default:
			return r.Intn(n)
		}
	}
	pickRef := func(emptyPct int) string {
		switch {
		case r.Chance(emptyPct):
			return ""
		case r.Chance(5):
			return "refs/heads/absent"
		default:
			return rslRefs[r.Intn(len(rslRefs))]
		}
	}
	qs := []c04Query{}
	for i := 0; i < nq; i++ {
		q := c04Query{BeforeID: -1, UntilID: -1, Entry: -1, Commit: -1, First: -1, Last: -1}
		switch x := r.Intn(100); {
		case x < 55:
			q.Fn = "latest"
			q.Ref = pickRef(35)
			b, u := pick(), pick()
			if b < u && r.Chance(80) { // mostly until older than before
				b, u = u, b
			}
			switch r.Intn(5) {
			case 0, 1:
				q.BeforeID = b
			case 2:
				q.BeforeNum = b + 1 - r.Intn(2)
			}
			switch r.Intn(6) {
			case 0, 1:
				q.UntilID = u
			case 2, 3:
				q.UntilNum = u + 1 - r.Intn(2)
			}
			if r.Chance(12) && (q.BeforeID >= 0 || q.BeforeNum > 0) { // before == until
				if q.BeforeID >= 0 {
					q.UntilID, q.UntilNum = q.BeforeID, 0
					if r.Bool() {
						q.UntilID, q.UntilNum = -1, q.BeforeID+1
					}
				} else {
					q.UntilID, q.UntilNum = -1, q.BeforeNum
				}
			}
			if r.Chance(3) {
				q.BeforeID, q.BeforeNum = pick(), 1+r.Intn(n+1)
			}
			if r.Chance(3) {
				q.UntilID, q.UntilNum = pick(), 1+r.Intn(n+1)
			}
			if r.Chance(3) {
				q.UntilNum = n + 1 + r.Intn(3)
			}
			q.Unskipped = r.Chance(45)
			q.NonGittuf = r.Chance(25)
			q.IsRef = r.Chance(20)
			if r.Chance(20) {
				q.PropRepo = rslUpstreams[r.Intn(len(rslUpstreams))]
			}
		case x < 63:
			q.Fn = "first"
			q.Ref = pickRef(30)
		case x < 76:
			q.Fn = "ngparent"
			q.Entry = pick()
		case x < 80 && n <= 12:
			q.Fn = "forcommit"
			q.Commit = r.Intn(len(rslTargetParents))
		case x < 94:
			q.Fn = "range"
			q.First, q.Last = pick(), pick()
			if q.First > q.Last && r.Chance(85) {
				q.First, q.Last = q.Last, q.First
			}
			q.Ref = pickRef(40)
		case x < 97:
			q.Fn = "entry"
			q.Entry = pick()
		default:
			q.Fn = "parent"
			q.Entry = pick()
		}
		if n == 0 && q.Fn != "latest" && q.Fn != "first" && q.Fn != "forcommit" {
			q.Fn = "first"
		}
		qs = append(qs, q)
	}
	return qs
}

func (w *rslWorld) annIdx(anns []*rsl.AnnotationEntry, sorted bool) []int {
	res := []int{}
	for _, a := range anns {
		res = append(res, w.index(a.GetID()))
	}
	if sorted {
		sort.Ints(res)
	}
	return res
}

func (w *rslWorld) idOrNil(i int) githash.Hash {
	if i < 0 {
		return nil
	}
	return w.hashOf(i)
}

func c04RunQuery(w *rslWorld, q c04Query) c04Res {
	one := func(e rsl.ReferenceUpdaterEntry, anns []*rsl.AnnotationEntry, err error) c04Res {
		res := c04Res{Class: rslErrClass(err), Entries: []int{}, Anns: [][]int{}}
		if err != nil {
			if res.Class == "other" {
				res.Err = err.Error()
			}
			return res
		}
		res.Entries = []int{w.index(e.GetID())}
		res.Anns = [][]int{w.annIdx(anns, true)}
		return res
	}
	switch q.Fn {
	case "latest":
		opts := []rsl.GetLatestReferenceUpdaterEntryOption{}
		if q.Ref != "" {
			opts = append(opts, rsl.ForReference(q.Ref))
		}
		if q.BeforeID >= 0 {
			opts = append(opts, rsl.BeforeEntryID(w.hashOf(q.BeforeID)))
		}
		if q.BeforeNum > 0 {
			opts = append(opts, rsl.BeforeEntryNumber(uint64(q.BeforeNum)))
		}
		if q.UntilID >= 0 {
			opts = append(opts, rsl.UntilEntryID(w.hashOf(q.UntilID)))
		}
		if q.UntilNum > 0 {
			opts = append(opts, rsl.UntilEntryNumber(uint64(q.UntilNum)))
		}
		if q.Unskipped {
			opts = append(opts, rsl.IsUnskipped())
		}
		if q.NonGittuf {
			opts = append(opts, rsl.ForNonGittufReference())
		}
		if q.IsRef {
			opts = append(opts, rsl.IsReferenceEntry())
		}
		if q.PropRepo != "" {
			opts = append(opts, rsl.IsPropagationEntryForRepository(q.PropRepo))
		}
		return one(rsl.GetLatestReferenceUpdaterEntry(w.repo, opts...))
	case "first":
		if q.Ref == "" {
			return one(rsl.GetFirstEntry(w.repo))
		}
		return one(rsl.GetFirstReferenceUpdaterEntryForRef(w.repo, q.Ref))
	case "ngparent":
		e, err := rsl.GetEntry(w.repo, w.hashOf(q.Entry))
		if err != nil {
			return c04Res{Class: "skip", Entries: []int{}, Anns: [][]int{}}
		}
		return one(rsl.GetNonGittufParentReferenceUpdaterEntryForEntry(w.repo, e))
	case "forcommit":
		return one(rsl.GetFirstReferenceUpdaterEntryForCommit(w.repo, w.targets[q.Commit]))
	case "range":
		var entries []rsl.ReferenceUpdaterEntry
		var annMap map[string][]*rsl.AnnotationEntry
		var err error
		if q.Ref == "" {
			entries, annMap, err = rsl.GetReferenceUpdaterEntriesInRange(w.repo, w.hashOf(q.First), w.hashOf(q.Last))
		} else {
			entries, annMap, err = rsl.GetReferenceUpdaterEntriesInRangeForRef(w.repo, w.hashOf(q.First), w.hashOf(q.Last), q.Ref)
		}
		res := c04Res{Class: rslErrClass(err), Entries: []int{}, Anns: [][]int{}}
		if err != nil {
			if res.Class == "other" {
				res.Err = err.Error()
			}
			return res
		}
		keys := map[string]bool{}
		for _, e := range entries {
			res.Entries = append(res.Entries, w.index(e.GetID()))
			res.Anns = append(res.Anns, w.annIdx(annMap[e.GetID().String()], false))
			keys[e.GetID().String()] = true
		}
		for k := range annMap { // the map must not carry entries outside the result
			if !keys[k] {
				res.Class = "other"
				res.Err = "annotation map has a key that is not a returned entry"
			}
		}
		return res
	case "entry":
		e, err := rsl.GetEntry(w.repo, w.hashOf(q.Entry))
		res := c04Res{Class: rslErrClass(err), Entries: []int{}, Anns: [][]int{}}
		if err == nil {
			res.Entries = []int{w.index(e.GetID())}
		}
		return res
	case "parent":
		e, err := rsl.GetEntry(w.repo, w.hashOf(q.Entry))
		if err != nil {
			return c04Res{Class: "skip", Entries: []int{}, Anns: [][]int{}}
		}
		p, err := rsl.GetParentForEntry(w.repo, e)
		res := c04Res{Class: rslErrClass(err), Entries: []int{}, Anns: [][]int{}}
		if err == nil {
			res.Entries = []int{w.index(p.GetID())}
		} else if res.Class == "other" {
			res.Err = err.Error()
		}
		return res
	}
	w.t.Fatalf("unknown query %s", q.Fn)
	return c04Res{}
}

// c04Run builds the log in a fresh repository (all corruption happens before the first
// read) and runs the queries on the real readers.
func c04Run(t *testing.T, w *rslWorld, in c04In, id int, out *Out) {
	w.reset()
	for i, s := range in.Log {
		if err := w.apply(s); err != nil {
			t.Fatalf("case %d: step %d %+v failed: %v", id, i, s, err)
		}
	}
	impl := c04Impl{Nums: w.nums(), Results: []c04Res{}}
	for _, q := range in.Queries {
		impl.Results = append(impl.Results, c04RunQuery(w, q))
	}
	// queries the implementation could not even be asked (entry id does not parse) are dropped
	kept := c04In{Targets: in.Targets, Log: in.Log, Queries: []c04Query{}}
	keptRes := []c04Res{}
	for i, r := range impl.Results {
		if r.Class != "skip" {
			kept.Queries = append(kept.Queries, in.Queries[i])
			keptRes = append(keptRes, r)
		}
	}
	impl.Results = keptRes
	if err := out.Emit(c04Line{Prop: "C04", ID: id, In: kept, Impl: impl}); err != nil {
		t.Fatal(err)
	}
}

func TestC04(t *testing.T) {
	seed := uint64(envInt("VERIF_SEED", 1))
	n := envInt("VERIF_N", 50)
	shard := envInt("VERIF_SHARD", 0)
	tier := envStr("VERIF_TIER", "quick")
	out, err := OpenOut()
	if err != nil {
		t.Fatal(err)
	}
	defer out.Close()

	w := newRslWorld(t)
	if replay := ReplayInputs[c04In](t); replay != nil {
		for i, c := range replay {
			c04Run(t, w, c, i+1, out)
		}
		return
	}

	rng := NewRng(seed*1000003 + uint64(shard))
	id := shard*1000000 + 1
	for i := 0; i < n; i++ {
		maxLen := 12
		if rng.Chance(8) {
			maxLen = 30
		}
		if tier == "thorough" && rng.Chance(10) {
			maxLen = 60
		}
		log := genC04Log(rng, maxLen)
		in := c04In{Targets: rslTargetParents, Log: log, Queries: genC04Queries(rng, log, 20)}
		c04Run(t, w, in, id, out)
		id++
	}
}
