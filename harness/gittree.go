package harness

// Helpers shared by the C10 / C18 harnesses: trees with odd path names written and read with
// git plumbing directly (NUL-delimited, never through gitinterface's own readers/writers).

import (
	"bytes"
	"compress/zlib"
	"crypto/sha1"
	"encoding/hex"
	"fmt"
	"os"
	"os/exec"
	"path/filepath"
	"sort"
	"strings"
	"testing"
)

// tEntry is one leaf of a flattened tree. Paths travel as byte lists (never raw JSON strings).
// C determines the blob content (replay re-creates the blob and checks the id).
type tEntry struct {
	P  []int  `json:"p"`
	M  string `json:"m"`
	C  int    `json:"c"`
	ID string `json:"id"`
}

func b2i(b []byte) []int {
	r := make([]int, len(b))
	for i, x := range b {
		r[i] = int(x)
	}
	return r
}
func i2b(a []int) []byte {
	r := make([]byte, len(a))
	for i, x := range a {
		r[i] = byte(x)
	}
	return r
}
func (e tEntry) path() []byte { return i2b(e.P) }

func gitEnv() []string {
	return append(os.Environ(), "LC_ALL=C", "GIT_NO_REPLACE_OBJECTS=1",
		"GIT_AUTHOR_NAME=h", "GIT_AUTHOR_EMAIL=h@example.com", "GIT_COMMITTER_NAME=h", "GIT_COMMITTER_EMAIL=h@example.com",
		"GIT_AUTHOR_DATE=1700000000 +0000", "GIT_COMMITTER_DATE=1700000000 +0000")
}

// gitRaw runs git against gitDir and returns stdout untouched.
func gitRaw(t testing.TB, gitDir string, stdin []byte, extraEnv []string, args ...string) []byte {
	t.Helper()
	cmd := exec.Command("git", append([]string{"--git-dir", gitDir}, args...)...)
	cmd.Env = append(gitEnv(), extraEnv...)
	if stdin != nil {
		cmd.Stdin = bytes.NewReader(stdin)
	}
	var so, se bytes.Buffer
	cmd.Stdout, cmd.Stderr = &so, &se
	if err := cmd.Run(); err != nil {
		t.Fatalf("git %v: %v: %s", args, err, se.String())
	}
	return so.Bytes()
}

func blobContent(mode string, c int) []byte {
	if mode == "120000" {
		return []byte(fmt.Sprintf("target-%d", c))
	}
	return []byte(fmt.Sprintf("blob %d\n", c))
}

// writeLoose stores one loose object (zlib-deflated "<type> <len>\x00<body>") and returns its id.
// Objects are written by the harness itself: no git process per object (a git spawn costs ~50 ms
// here), no gitinterface writer; every tree is read back with `git ls-tree -z` as the truth and the
// repository is checked with `git fsck` at the end of the run.
func writeLoose(t testing.TB, gitDir, typ string, body []byte) string {
	t.Helper()
	var raw bytes.Buffer
	fmt.Fprintf(&raw, "%s %d\x00", typ, len(body))
	raw.Write(body)
	sum := sha1.Sum(raw.Bytes())
	id := hex.EncodeToString(sum[:])
	dir := filepath.Join(gitDir, "objects", id[:2])
	file := filepath.Join(dir, id[2:])
	if _, err := os.Stat(file); err == nil {
		return id
	}
	if err := os.MkdirAll(dir, 0o755); err != nil {
		t.Fatal(err)
	}
	var z bytes.Buffer
	w := zlib.NewWriter(&z)
	w.Write(raw.Bytes())
	w.Close()
	if err := os.WriteFile(file, z.Bytes(), 0o444); err != nil {
		t.Fatal(err)
	}
	return id
}

// writeBlob stores the blob for (mode, c) and returns its id.
func writeBlob(t testing.TB, gitDir, mode string, c int) string {
	return writeLoose(t, gitDir, "blob", blobContent(mode, c))
}

type rawNode struct {
	name string
	mode string
	id   []byte
	dir  bool
}

// writeTreeRaw writes the (nested) tree objects for the given leaves and fills in the blob ids.
func writeTreeRaw(t testing.TB, gitDir string, es []tEntry) string {
	t.Helper()
	type leaf struct {
		comps []string
		mode  string
		id    string
	}
	leaves := []leaf{}
	for i := range es {
		id := writeBlob(t, gitDir, es[i].M, es[i].C)
		if es[i].ID != "" && es[i].ID != id {
			t.Fatalf("replayed blob id differs: %s vs %s", es[i].ID, id)
		}
		es[i].ID = id
		leaves = append(leaves, leaf{comps: strings.Split(string(es[i].path()), "/"), mode: es[i].M, id: id})
	}
	var build func(ls []leaf) string
	build = func(ls []leaf) string {
		nodes := []rawNode{}
		sub := map[string][]leaf{}
		order := []string{}
		for _, l := range ls {
			if len(l.comps) == 1 {
				raw, _ := hex.DecodeString(l.id)
				nodes = append(nodes, rawNode{name: l.comps[0], mode: l.mode, id: raw})
				continue
			}
			if _, ok := sub[l.comps[0]]; !ok {
				order = append(order, l.comps[0])
			}
			sub[l.comps[0]] = append(sub[l.comps[0]], leaf{comps: l.comps[1:], mode: l.mode, id: l.id})
		}
		for _, name := range order {
			raw, _ := hex.DecodeString(build(sub[name]))
			nodes = append(nodes, rawNode{name: name, mode: "40000", id: raw, dir: true})
		}
		key := func(n rawNode) string {
			if n.dir {
				return n.name + "/"
			}
			return n.name
		}
		sort.Slice(nodes, func(i, j int) bool { return key(nodes[i]) < key(nodes[j]) })
		var body bytes.Buffer
		for _, n := range nodes {
			body.WriteString(n.mode)
			body.WriteByte(' ')
			body.WriteString(n.name)
			body.WriteByte(0)
			body.Write(n.id)
		}
		return writeLoose(t, gitDir, "tree", body.Bytes())
	}
	return build(leaves)
}

// fsckRepo: the objects written by writeLoose must be acceptable to git.
func fsckRepo(t testing.TB, gitDir string) {
	t.Helper()
	cmd := exec.Command("git", "--git-dir", gitDir, "fsck", "--no-dangling", "--no-reflogs")
	cmd.Env = gitEnv()
	out, err := cmd.CombinedOutput()
	if err != nil {
		t.Fatalf("git fsck: %v: %s", err, out)
	}
}

type lsEntry struct {
	P    []int  `json:"p"`
	M    string `json:"m"`
	Tree bool   `json:"tree"`
	ID   string `json:"id"`
}

// lsTreeZ is the truth: `git ls-tree [-r] -z`, split at NUL by us.
func lsTreeZ(t testing.TB, gitDir, tree string, recursive bool) []lsEntry {
	t.Helper()
	args := []string{"ls-tree", "-z"}
	if recursive {
		args = append(args, "-r")
	}
	return lsTreeArgs(t, gitDir, tree, args)
}

// lsTreeAllZ: `git ls-tree -r -t -z`: every tree and blob entry below tree, full paths (one spawn).
func lsTreeAllZ(t testing.TB, gitDir, tree string) []lsEntry {
	return lsTreeArgs(t, gitDir, tree, []string{"ls-tree", "-z", "-r", "-t"})
}

// leavesOf / childrenOf derive the recursive listing and the immediate entries of directory dir
// ("" = root) from the -r -t listing.
func leavesOf(all []lsEntry) []lsEntry {
	res := []lsEntry{}
	for _, e := range all {
		if !e.Tree {
			res = append(res, e)
		}
	}
	return res
}
func childrenOf(all []lsEntry, dir string) []lsEntry {
	res := []lsEntry{}
	for _, e := range all {
		p := string(i2b(e.P))
		if dir != "" {
			if !strings.HasPrefix(p, dir+"/") {
				continue
			}
			p = p[len(dir)+1:]
		}
		if strings.Contains(p, "/") {
			continue
		}
		res = append(res, lsEntry{P: b2i([]byte(p)), M: e.M, Tree: e.Tree, ID: e.ID})
	}
	return res
}

func lsTreeArgs(t testing.TB, gitDir, tree string, args []string) []lsEntry {
	t.Helper()
	out := gitRaw(t, gitDir, nil, nil, append(args, tree)...)
	res := []lsEntry{}
	for _, rec := range bytes.Split(out, []byte{0}) {
		if len(rec) == 0 {
			continue
		}
		tab := bytes.IndexByte(rec, '\t')
		f := strings.Split(string(rec[:tab]), " ")
		res = append(res, lsEntry{P: b2i(rec[tab+1:]), M: f[0], Tree: f[1] == "tree", ID: f[2]})
	}
	return res
}

// diffTreeZ is the truth for changed paths: `git diff-tree -r -z --name-only --no-commit-id a b`.
func diffTreeZ(t testing.TB, gitDir, a, b string) [][]int {
	t.Helper()
	out := gitRaw(t, gitDir, nil, nil, "diff-tree", "-r", "-z", "--name-only", "--no-commit-id", a, b)
	res := [][]int{}
	for _, rec := range bytes.Split(out, []byte{0}) {
		if len(rec) == 0 {
			continue
		}
		res = append(res, b2i(rec))
	}
	return res
}

func commitTreeRaw(t testing.TB, gitDir, tree string, parents ...string) string {
	var body bytes.Buffer
	fmt.Fprintf(&body, "tree %s\n", tree)
	for _, p := range parents {
		fmt.Fprintf(&body, "parent %s\n", p)
	}
	body.WriteString("author h <h@example.com> 1700000000 +0000\ncommitter h <h@example.com> 1700000000 +0000\n\nc\n")
	return writeLoose(t, gitDir, "commit", body.Bytes())
}

// ---- generator of trees with odd names ----

var safeComps = []string{"a", "b", "foo", "foobar", "bar", "x1", "keep", "src", "lib", "vendor", "README.md", "metadata", "foo.txt", "fo"}
var oddComps = []string{
	"a b", " x", "x ", "keep me", "foo bar", "foo  2", " ", // blanks inside / leading / trailing
	"é", "日本", "é f", "café", "\xff\xfe", "x ", // multi-byte UTF-8, invalid UTF-8, trailing NBSP
	"q\"q", "\"quoted\"", "\"", "b\\s", "\\303\\251", "\\", // quotes, backslashes
	"t\tt", "\x01", "c\x7f", "\x1b[0m", "\ttab", "\a\b\v\f\r", // control bytes (no newline)
	"*", "?", "[a]", "x*", "**", "a?c", "[", "{b}", // glob metacharacters
	"-dash", "#h", "'sq'", "$v", "~t", "!", "a:b", "aéb c",
}

func genComp(r *Rng, oddPct int) string {
	if r.Chance(oddPct) {
		return oddComps[r.Intn(len(oddComps))]
	}
	return safeComps[r.Intn(len(safeComps))]
}

// genTree draws 1..max leaves without file/directory conflicts. oddPct: share of odd components.
func genTree(r *Rng, max, oddPct int, exotic bool) []tEntry {
	n := 1 + r.Intn(max)
	paths := map[string]bool{}
	dirs := map[string]bool{}
	res := []tEntry{}
	for tries := 0; len(res) < n && tries < 50; tries++ {
		depth := 1
		if r.Chance(45) {
			depth = 2
		}
		if r.Chance(12) {
			depth = 3
		}
		comps := []string{}
		if len(res) > 0 && r.Chance(40) {
			// share a directory with an earlier path
			prev := strings.Split(string(res[r.Intn(len(res))].path()), "/")
			if len(prev) > 1 {
				comps = append(comps, prev[:1+r.Intn(len(prev)-1)]...)
			}
		}
		for len(comps) < depth {
			comps = append(comps, genComp(r, oddPct))
		}
		p := strings.Join(comps, "/")
		if paths[p] || dirs[p] {
			continue
		}
		bad := false
		for i := 1; i < len(comps); i++ {
			if paths[strings.Join(comps[:i], "/")] {
				bad = true
			}
		}
		if bad {
			continue
		}
		for i := 1; i < len(comps); i++ {
			dirs[strings.Join(comps[:i], "/")] = true
		}
		paths[p] = true
		mode := "100644"
		if exotic {
			switch x := r.Intn(10); {
			case x < 3:
				mode = "100755"
			case x < 4:
				mode = "120000"
			}
		}
		res = append(res, tEntry{P: b2i([]byte(p)), M: mode, C: r.Intn(6)})
	}
	sortEntries(res)
	return res
}

func sortEntries(es []tEntry) {
	sort.Slice(es, func(i, j int) bool { return bytes.Compare(es[i].path(), es[j].path()) < 0 })
}

func cloneEntries(es []tEntry) []tEntry {
	r := make([]tEntry, len(es))
	for i, e := range es {
		r[i] = tEntry{P: append([]int{}, e.P...), M: e.M, C: e.C}
	}
	return r
}

// treeConflict reports whether adding path p to es would create a file/directory conflict or a duplicate.
func treeConflict(es []tEntry, p string) bool {
	for _, e := range es {
		q := string(e.path())
		if q == p || strings.HasPrefix(q, p+"/") || strings.HasPrefix(p, q+"/") {
			return true
		}
	}
	return false
}

// mutateTree: modify / add / delete leaves (the child or the other side of a merge).
func mutateTree(r *Rng, es []tEntry, oddPct int) []tEntry {
	res := cloneEntries(es)
	k := 1 + r.Intn(3)
	for i := 0; i < k; i++ {
		switch x := r.Intn(10); {
		case x < 4 && len(res) > 0:
			j := r.Intn(len(res))
			res[j].C = (res[j].C + 1 + r.Intn(5)) % 7
		case x < 6 && len(res) > 1:
			j := r.Intn(len(res))
			res = append(res[:j], res[j+1:]...)
		default:
			comps := []string{genComp(r, oddPct)}
			if r.Bool() {
				comps = append(comps, genComp(r, oddPct))
			}
			p := strings.Join(comps, "/")
			if !treeConflict(res, p) {
				res = append(res, tEntry{P: b2i([]byte(p)), M: "100644", C: r.Intn(6)})
			}
		}
	}
	sortEntries(res)
	return res
}
