// Package harness drives the real gittuf code (from /repo's working tree) for
// the correspondence checks of /verif. It is built as a test binary so that the
// repository's own test helpers (which need *testing.T) are available.
package harness

import (
	"bytes"
	"context"
	"crypto/ed25519"
	"crypto/sha256"
	"encoding/pem"
	"fmt"
	"os"
	"path/filepath"
	"testing"

	gssh "github.com/gittuf/gittuf/internal/signerverifier/ssh"
	tufv01 "github.com/gittuf/gittuf/internal/tuf/v01"
	tufv02 "github.com/gittuf/gittuf/internal/tuf/v02"
	"github.com/hiddeco/sshsig"
	"github.com/secure-systems-lab/go-securesystemslib/signerverifier"
	"golang.org/x/crypto/ssh"
)

// TestKey is one deterministic ed25519 SSH key usable for Git object
// signatures (PEM) and DSSE signatures (in-process sshsig).
type TestKey struct {
	Index  int
	PEM    []byte // OpenSSH private key
	Pub    ssh.PublicKey
	signer ssh.Signer
	SSLib  *signerverifier.SSLibKey
}

// Sign implements dsse.Signer in process (the repository's own ssh.Signer
// shells out to ssh-keygen; the signature format is the same sshsig armor).
func (k *TestKey) Sign(_ context.Context, data []byte) ([]byte, error) {
	sig, err := sshsig.Sign(bytes.NewReader(data), k.signer, sshsig.HashSHA512, gssh.SigNamespace)
	if err != nil {
		return nil, err
	}
	return sshsig.Armor(sig), nil
}

func (k *TestKey) KeyID() (string, error) { return k.SSLib.KeyID, nil }
func (k *TestKey) ID() string             { return k.SSLib.KeyID }

// V01Key returns the key as a tuf principal (Key).
func (k *TestKey) V01Key() *tufv01.Key { return tufv01.NewKeyFromSSLibKey(k.SSLib) }
func (k *TestKey) V02Key() *tufv02.Key { return tufv02.NewKeyFromSSLibKey(k.SSLib) }

var keyPool []*TestKey

// Keys returns the first n keys of the deterministic pool.
func Keys(t testing.TB, n int) []*TestKey {
	t.Helper()
	for len(keyPool) < n {
		i := len(keyPool)
		seed := sha256.Sum256([]byte(fmt.Sprintf("verif-key-%d", i)))
		priv := ed25519.NewKeyFromSeed(seed[:])
		block, err := ssh.MarshalPrivateKey(priv, "")
		if err != nil {
			t.Fatal(err)
		}
		signer, err := ssh.NewSignerFromKey(priv)
		if err != nil {
			t.Fatal(err)
		}
		pub := signer.PublicKey()
		k := &TestKey{Index: i, PEM: pem.EncodeToMemory(block), Pub: pub, signer: signer}
		k.SSLib = &signerverifier.SSLibKey{
			KeyID:   ssh.FingerprintSHA256(pub),
			KeyType: gssh.KeyType,
			Scheme:  pub.Type(),
			KeyVal:  signerverifier.KeyVal{Public: encodeB64(pub.Marshal())},
		}
		keyPool = append(keyPool, k)
	}
	return keyPool[:n]
}

// WriteKeyFiles writes key i to dir (for APIs that need a path).
func (k *TestKey) WriteKeyFiles(dir string) (string, error) {
	p := filepath.Join(dir, fmt.Sprintf("key%d", k.Index))
	if err := os.WriteFile(p, k.PEM, 0o600); err != nil {
		return "", err
	}
	if err := os.WriteFile(p+".pub", ssh.MarshalAuthorizedKey(k.Pub), 0o600); err != nil {
		return "", err
	}
	return p, nil
}
