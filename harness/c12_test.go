package harness

import (
	"encoding/json"
	"errors"
	"fmt"
	"os"
	"os/exec"
	"reflect"
	"sort"
	"strconv"
	"strings"
	"testing"
	"time"
	"unsafe"

	"github.com/gittuf/gittuf/experimental/gittuf"
	trustpolicyopts "github.com/gittuf/gittuf/experimental/gittuf/options/trustpolicy"
	rootopts "github.com/gittuf/gittuf/experimental/gittuf/options/root"
	rslopts "github.com/gittuf/gittuf/experimental/gittuf/options/rsl"
	"github.com/gittuf/gittuf/internal/policy"
	gssh "github.com/gittuf/gittuf/internal/signerverifier/ssh"
	"github.com/gittuf/gittuf/internal/tuf"
	tufv02 "github.com/gittuf/gittuf/internal/tuf/v02"
	"github.com/gittuf/gittuf/pkg/githash"
	"github.com/gittuf/gittuf/pkg/gitinterface"
	"github.com/gittuf/gittuf/pkg/gitstore"
	"github.com/gittuf/gittuf/pkg/rsl"
)

// ---- abstract case (mirrors lean/Driver/C12.lean) ----

// c12Op is one operation of the abstract sequence.
//
//	stage   : policy.State{spec}.Commit(repo, tag, entry, false)            (internal/policy layer)
//	apply   : policy.Apply(ctx, repo, false)  | api: Repository.ApplyPolicy(ctx, "", true, false)
//	discard : policy.Discard(repo)            | api: Repository.DiscardPolicy()
//	tamper  : repo.SetReference(ref, state[target]) / DeleteReference (target = -1); no log entry
//	record  : rsl.NewReferenceEntry(ref, tip).Commit | dup: Repository.StagePolicy / RecordRSLEntryForReference (duplicate check)
//	probe   : a new commit on refs/heads/probe recorded in the log (unsigned)
//	edit    : one call of the experimental/gittuf API by `signer` (see c12World.edit)
type c12Op struct {
	Op     string      `json:"op"`
	Policy *PolicySpec `json:"policy,omitempty"`
	Entry  bool        `json:"entry"`
	Tag    string      `json:"tag"`
	API    bool        `json:"api"`
	Ref    string      `json:"ref"`    // "policy" | "staging"
	Target int         `json:"target"` // tamper: state index, -1 = delete the reference
	Dup    bool        `json:"dup"`
	Kind   string      `json:"kind"`
	Signer int         `json:"signer"`
	Key    int         `json:"key"`
	N      int         `json:"n"`
	Name   string      `json:"name"`
}

type c12In struct {
	Ops []c12Op `json:"ops"`
}

type c12New struct {
	Parent int        `json:"parent"` // abstract index of the parent policy commit, -1 = root commit
	Policy PolicySpec `json:"policy"` // canonical dump of the real metadata stored in the commit
}

type c12LogE struct {
	Ref  string `json:"ref"`
	Kind string `json:"kind"` // "policy" (target = policy commit index) | "commit" (probe commit index) | "unknown"
	I    int    `json:"i"`
}

type c12Step struct {
	Err   string    `json:"err"`   // ok | invalid | notancestor | unauthorized | other
	Pol   int       `json:"pol"`   // policy ref: abstract state index, -1 = absent
	Stg   int       `json:"stg"`   // staging ref
	Log   []c12LogE `json:"log"`   // the whole RSL after the operation, oldest first (independent reader)
	New   []c12New  `json:"new"`   // policy commits first seen after this operation (index = order of appearance)
	// observed around every apply: "" = not observed at this step
	PreLoad  string `json:"pre_load"`  // before the operation: policy.LoadCurrentState(PolicyRef): ok | error | none (no policy entry)
	PreProbe string `json:"pre_probe"` // before the operation: VerifyRefFull(refs/heads/probe): ok | error | none (no probe entry)
	Load     string `json:"load"`      // after a successful apply
	Probe    string `json:"probe"`
	Msg   string    `json:"msg,omitempty"`
}

type c12Impl struct {
	Steps []c12Step `json:"steps"`
}

type c12Line struct {
	Prop string  `json:"prop"`
	ID   int     `json:"id"`
	In   c12In   `json:"in"`
	Impl c12Impl `json:"impl"`
	Meta string  `json:"meta,omitempty"`
}

const probeRef = "refs/heads/probe"

// ---- API signers (ssh-keygen backed, as InitializeRoot insists on *ssh.Signer) ----

var c12Signers = map[int]*gssh.Signer{}
var c12KeyDir string

func c12Signer(t *testing.T, k int) *gssh.Signer {
	if s, ok := c12Signers[k]; ok {
		return s
	}
	if c12KeyDir == "" {
		d, err := os.MkdirTemp(envStr("VERIF_TMP", os.TempDir()), "c12keys-")
		if err != nil {
			t.Fatal(err)
		}
		c12KeyDir = d
	}
	key := Keys(t, k+1)[k]
	p, err := key.WriteKeyFiles(c12KeyDir)
	if err != nil {
		t.Fatal(err)
	}
	s, err := gssh.NewSignerFromFile(p)
	if err != nil {
		t.Fatal(err)
	}
	id, _ := s.KeyID()
	if id != key.ID() {
		t.Fatalf("key id mismatch for key %d: %s vs %s", k, id, key.ID())
	}
	c12Signers[k] = s
	return s
}

// apiRepo wraps a test repository (fixed clock: commit ids are a function of tree, parent and
// message) into the exported API type, whose only field is unexported.
func apiRepo(t *testing.T, repo *gitinterface.Repository) *gittuf.Repository {
	r := &gittuf.Repository{}
	f := reflect.ValueOf(r).Elem().FieldByName("r")
	if !f.IsValid() {
		t.Fatal("gittuf.Repository has no field r")
	}
	reflect.NewAt(f.Type(), unsafe.Pointer(f.UnsafeAddr())).Elem().Set(reflect.ValueOf(repo))
	return r
}

// ---- canonical specs / dump of real metadata ----

func sortedUniq(a []int) []int {
	b := append([]int{}, a...)
	sort.Ints(b)
	res := []int{}
	for i, x := range b {
		if i == 0 || x != b[i-1] {
			res = append(res, x)
		}
	}
	return res
}

// canonSpec: the representation shared with the model (set-valued fields sorted).
func canonSpec(p PolicySpec) PolicySpec {
	q := clonePolicy(p)
	if q.Root.Version == 0 {
		q.Root.Version = 1
	}
	q.Root.RootKeys = sortedUniq(q.Root.RootKeys)
	q.Root.TargetsKeys = sortedUniq(q.Root.TargetsKeys)
	if len(q.Root.TargetsKeys) == 0 {
		q.Root.TargetsThreshold = 0
	}
	if q.Root.Signers == nil {
		q.Root.Signers = []int{}
	}
	if len(q.Root.GlobalRules) == 0 {
		q.Root.GlobalRules = nil
	}
	q.Root.Apps = nil
	for i := range q.Files {
		f := &q.Files[i]
		if f.Version == 0 {
			f.Version = 1
		}
		sort.Slice(f.Principals, func(a, b int) bool { return f.Principals[a].ID < f.Principals[b].ID })
		for j := range f.Rules {
			f.Rules[j].Principals = sortedUniq(f.Rules[j].Principals)
			if f.Rules[j].Patterns == nil {
				f.Rules[j].Patterns = []string{}
			}
		}
		if f.Principals == nil {
			f.Principals = []PrincipalSpec{}
		}
		if f.Rules == nil {
			f.Rules = []RuleSpec{}
		}
		if f.Signers == nil {
			f.Signers = []int{}
		}
	}
	if len(q.Files) > 2 {
		rest := q.Files[1:]
		sort.SliceStable(rest, func(a, b int) bool { return rest[a].Name < rest[b].Name })
	}
	if q.Files == nil {
		q.Files = []RuleFileSpec{}
	}
	return q
}

func keyIndexByID(t *testing.T, id string) int {
	for i, k := range Keys(t, 12) {
		if k.ID() == id {
			return i
		}
	}
	t.Fatalf("unknown key id %s", id)
	return -1
}

func principalIDToInt(t *testing.T, id string) int {
	if strings.HasPrefix(id, "p") {
		if n, err := strconv.Atoi(id[1:]); err == nil {
			return n
		}
	}
	return 1000 + keyIndexByID(t, id)
}

func dumpPrincipals(t *testing.T, ps []tuf.Principal) []int {
	res := []int{}
	for _, p := range ps {
		res = append(res, keyIndexByID(t, p.ID()))
	}
	return sortedUniq(res)
}

func dumpRuleFile(t *testing.T, name string, st *policy.State) RuleFileSpec {
	tm, err := st.GetTargetsMetadata(name, true)
	if err != nil {
		t.Fatal(err)
	}
	f := RuleFileSpec{Name: name, Version: tm.GetVersion(), Principals: []PrincipalSpec{}, Rules: []RuleSpec{}, Signers: []int{}, NoAllow: true}
	for id, p := range tm.GetPrincipals() {
		switch p := p.(type) {
		case *tufv02.Person:
			ps := PrincipalSpec{ID: principalIDToInt(t, id), Person: true}
			for kid := range p.PublicKeys {
				ps.Keys = append(ps.Keys, keyIndexByID(t, kid))
			}
			ps.Keys = sortedUniq(ps.Keys)
			f.Principals = append(f.Principals, ps)
		default:
			k := keyIndexByID(t, id)
			f.Principals = append(f.Principals, PrincipalSpec{ID: 1000 + k, Keys: []int{k}})
		}
	}
	rules := tm.GetRules()
	for i, r := range rules {
		if r.ID() == tuf.AllowRuleName {
			if i == len(rules)-1 {
				f.NoAllow = false
				continue
			}
		}
		rs := RuleSpec{Name: r.ID(), Patterns: append([]string{}, r.GetProtectedNamespaces()...), Threshold: r.GetThreshold(), Terminating: r.IsLastTrustedInRuleFile()}
		for _, pid := range r.GetPrincipalIDs().Contents() {
			rs.Principals = append(rs.Principals, principalIDToInt(t, pid))
		}
		f.Rules = append(f.Rules, rs)
	}
	env := st.Metadata.TargetsEnvelope
	if name != policy.TargetsRoleName {
		env = st.Metadata.DelegationEnvelopes[name]
	}
	for _, s := range env.Signatures {
		f.Signers = append(f.Signers, keyIndexByID(t, s.KeyID))
	}
	return f
}

// dumpState decodes the real metadata of a loaded state into the abstract spec.
func dumpState(t *testing.T, st *policy.State) PolicySpec {
	rm, err := st.GetRootMetadata(true)
	if err != nil {
		t.Fatal(err)
	}
	p := PolicySpec{Files: []RuleFileSpec{}}
	p.Root.Version = rm.GetVersion()
	rp, err := rm.GetRootPrincipals()
	if err != nil {
		t.Fatal(err)
	}
	p.Root.RootKeys = dumpPrincipals(t, rp)
	p.Root.RootThreshold, _ = rm.GetRootThreshold()
	if tp, err := rm.GetPrimaryRuleFilePrincipals(); err == nil {
		p.Root.TargetsKeys = dumpPrincipals(t, tp)
		p.Root.TargetsThreshold, _ = rm.GetPrimaryRuleFileThreshold()
	} else {
		p.Root.TargetsKeys = []int{}
	}
	for _, g := range rm.GetGlobalRules() {
		switch g := g.(type) {
		case tuf.GlobalRuleThreshold:
			p.Root.GlobalRules = append(p.Root.GlobalRules, GlobalRuleSpec{Name: g.GetName(), Kind: "threshold", Patterns: g.GetProtectedNamespaces(), Threshold: g.GetThreshold()})
		case tuf.GlobalRuleBlockForcePushes:
			p.Root.GlobalRules = append(p.Root.GlobalRules, GlobalRuleSpec{Name: g.GetName(), Kind: "block-force-pushes", Patterns: g.GetProtectedNamespaces()})
		}
	}
	p.Root.Signers = []int{}
	for _, s := range st.Metadata.RootEnvelope.Signatures {
		p.Root.Signers = append(p.Root.Signers, keyIndexByID(t, s.KeyID))
	}
	if st.Metadata.TargetsEnvelope != nil {
		p.Files = append(p.Files, dumpRuleFile(t, policy.TargetsRoleName, st))
		names := []string{}
		for n := range st.Metadata.DelegationEnvelopes {
			names = append(names, n)
		}
		sort.Strings(names)
		for _, n := range names {
			p.Files = append(p.Files, dumpRuleFile(t, n, st))
		}
	}
	return canonSpec(p)
}

// ---- the world the operations run on ----

type c12World struct {
	t        *testing.T
	repo     *gitinterface.Repository
	api      *gittuf.Repository
	gitDir   string
	stateIDs []githash.Hash // abstract policy-commit index -> commit id
	specs    []PolicySpec   // dump (or the staged spec when the commit cannot be loaded)
	probeIDs []githash.Hash
	logSeen  map[string]c12LogE // RSL commit id -> parsed entry (ids resolved lazily)
	rawSeen  map[string][2]string
	rawPar   map[string]string
	nOps     int
}

func newC12World(t *testing.T) *c12World {
	repo := NewRepo(t)
	rsl.VerifResetCache()
	return &c12World{t: t, repo: repo, api: apiRepo(t, repo), gitDir: repo.GetGitDir(), rawSeen: map[string][2]string{}, rawPar: map[string]string{}}
}

func (w *c12World) stateIndex(id githash.Hash) int {
	for i, s := range w.stateIDs {
		if s.Equal(id) {
			return i
		}
	}
	return -1
}

func (w *c12World) refIndex(ref string, news *[]c12New, staged *PolicySpec) int {
	id, err := w.repo.GetReference(ref)
	if err != nil {
		if errors.Is(err, gitinterface.ErrReferenceNotFound) {
			return -1
		}
		w.t.Fatal(err)
	}
	return w.indexOrNew(id, news, staged)
}

// indexOrNew: abstract index of a policy commit; a commit seen for the first time gets the next index.
func (w *c12World) indexOrNew(id githash.Hash, news *[]c12New, staged *PolicySpec) int {
	if i := w.stateIndex(id); i >= 0 {
		return i
	}
	parents, err := w.repo.GetCommitParentIDs(id)
	if err != nil {
		w.t.Fatal(err)
	}
	parent := -1
	if len(parents) > 0 {
		parent = w.indexOrNew(parents[0], news, nil)
	}
	var spec PolicySpec
	st, err := policy.LoadStateFromCommit(w.repo, id)
	switch {
	case err == nil:
		spec = dumpState(w.t, st)
		if staged != nil {
			if want := canonSpec(*staged); !reflect.DeepEqual(jsonOf(want), jsonOf(spec)) {
				w.t.Fatalf("dump of the staged state differs from its spec:\nspec %s\ndump %s", jsonOf(want), jsonOf(spec))
			}
		}
	case staged != nil:
		spec = canonSpec(*staged) // e.g. duplicated rule names: the loader refuses the state
	default:
		w.t.Fatalf("cannot load policy commit %s: %v", id, err)
	}
	w.stateIDs = append(w.stateIDs, id)
	w.specs = append(w.specs, spec)
	*news = append(*news, c12New{Parent: parent, Policy: spec})
	return len(w.stateIDs) - 1
}

func jsonOf(v any) string {
	b, _ := json.Marshal(v)
	return string(b)
}

func (w *c12World) git(args ...string) (string, error) {
	cmd := exec.Command("git", append([]string{"--git-dir", w.gitDir}, args...)...)
	out, err := cmd.Output()
	return strings.TrimSpace(string(out)), err
}

// readLog: the RSL read with plain git (first-parent chain, `ref:` / `targetID:` lines), oldest first.
func (w *c12World) readLog(news *[]c12New) []c12LogE {
	tip, err := w.git("rev-parse", "--verify", "-q", rsl.Ref)
	if err != nil || tip == "" {
		return []c12LogE{}
	}
	chain := []string{}
	for id := tip; id != ""; {
		if _, ok := w.rawSeen[id]; !ok {
			obj, err := w.git("cat-file", "commit", id)
			if err != nil {
				w.t.Fatal(err)
			}
			head, body, _ := strings.Cut(obj, "\n\n")
			par := ""
			for _, l := range strings.Split(head, "\n") {
				if v, ok := strings.CutPrefix(l, "parent "); ok && par == "" {
					par = v
				}
			}
			var ref, target string
			for _, l := range strings.Split(body, "\n") {
				if v, ok := strings.CutPrefix(l, "ref: "); ok {
					ref = v
				}
				if v, ok := strings.CutPrefix(l, "targetID: "); ok {
					target = v
				}
			}
			w.rawSeen[id] = [2]string{ref, target}
			w.rawPar[id] = par
		}
		chain = append(chain, id)
		id = w.rawPar[id]
	}
	res := make([]c12LogE, 0, len(chain))
	for i := len(chain) - 1; i >= 0; i-- {
		e := w.rawSeen[chain[i]]
		le := c12LogE{Ref: e[0], Kind: "unknown", I: -1}
		h, err := gitinterface.NewHash(e[1])
		if err == nil {
			if e[0] == policy.PolicyRef || e[0] == policy.PolicyStagingRef {
				le.Kind, le.I = "policy", w.indexOrNew(h, news, nil)
			} else {
				for j, p := range w.probeIDs {
					if p.Equal(h) {
						le.Kind, le.I = "commit", j
					}
				}
			}
		}
		res = append(res, le)
	}
	return res
}

func c12ErrClass(err error) string {
	switch {
	case err == nil:
		return "ok"
	case errors.Is(err, policy.ErrInvalidPolicy):
		return "invalid"
	case errors.Is(err, policy.ErrNotAncestor):
		return "notancestor"
	case errors.Is(err, gittuf.ErrUnauthorizedKey):
		return "unauthorized"
	case errors.Is(err, errC12Panic):
		return "panic"
	default:
		return "other"
	}
}

func refName(r string) string {
	if r == "policy" {
		return policy.PolicyRef
	}
	return policy.PolicyStagingRef
}

func (w *c12World) edit(op c12Op) error {
	s := c12Signer(w.t, op.Signer)
	opts := []trustpolicyopts.Option{}
	if op.Entry {
		opts = append(opts, trustpolicyopts.WithRSLEntry())
	}
	key := func() tuf.Principal { return Keys(w.t, op.Key+1)[op.Key].V02Key() }
	keyID := func() string { return Keys(w.t, op.Key+1)[op.Key].ID() }
	switch op.Kind {
	case "initRoot":
		ro := []rootopts.Option{}
		if op.Entry {
			ro = append(ro, rootopts.WithRSLEntry())
		}
		return w.api.InitializeRoot(ctx, s, false, ro...)
	case "addRootKey":
		return w.api.AddRootKey(ctx, s, key(), false, opts...)
	case "removeRootKey":
		return w.api.RemoveRootKey(ctx, s, keyID(), false, opts...)
	case "rootThreshold":
		return w.api.UpdateRootThreshold(ctx, s, op.N, false, opts...)
	case "addTargetsKey":
		return w.api.AddTopLevelTargetsKey(ctx, s, key(), false, opts...)
	case "removeTargetsKey":
		return w.api.RemoveTopLevelTargetsKey(ctx, s, keyID(), false, opts...)
	case "targetsThreshold":
		return w.api.UpdateTopLevelTargetsThreshold(ctx, s, op.N, false, opts...)
	case "addGlobal":
		return w.api.AddGlobalRuleThreshold(ctx, s, op.Name, []string{"git:refs/heads/main"}, op.N, false, opts...)
	case "removeGlobal":
		return w.api.RemoveGlobalRule(ctx, s, op.Name, false, opts...)
	case "signRoot":
		return w.api.SignRoot(ctx, s, false, opts...)
	case "initTargets":
		return w.api.InitializeTargets(ctx, s, policy.TargetsRoleName, false, opts...)
	case "addPrincipal":
		return w.api.AddPrincipalToTargets(ctx, s, policy.TargetsRoleName, []tuf.Principal{key()}, false, opts...)
	case "addRule":
		return w.api.AddDelegation(ctx, s, policy.TargetsRoleName, op.Name, []string{keyID()}, []string{"git:refs/heads/main"}, 1, false, opts...)
	case "removeRule":
		return w.api.RemoveDelegation(ctx, s, policy.TargetsRoleName, op.Name, false, opts...)
	case "signTargets":
		return w.api.SignTargets(ctx, s, policy.TargetsRoleName, false, opts...)
	}
	w.t.Fatalf("unknown edit kind %q", op.Kind)
	return nil
}

// run executes one operation on the real code and observes the repository.
func (w *c12World) run(op c12Op) c12Step {
	w.nOps++
	var err error
	var staged *PolicySpec
	preLoad, preProbe := "", ""
	if op.Op == "apply" {
		preLoad, preProbe = w.loadClass(), w.verifyProbe()
	}
	t0 := time.Now()
	switch op.Op {
	case "stage":
		st := BuildState(w.t, op.Policy)
		staged = op.Policy
		err = st.Commit(w.repo, op.Tag, op.Entry, false)
	case "apply":
		if op.API {
			err = w.api.ApplyPolicy(ctx, "", true, false)
		} else {
			err = policy.Apply(ctx, w.repo, false)
		}
	case "discard":
		if op.API {
			err = w.api.DiscardPolicy()
		} else {
			err = policy.Discard(w.repo)
		}
	case "tamper":
		if op.Target < 0 {
			err = w.repo.DeleteReference(refName(op.Ref))
			if err != nil {
				err = nil // deleting an absent reference: nothing happens
			}
		} else {
			if op.Target >= len(w.stateIDs) {
				w.t.Fatalf("tamper target %d does not exist", op.Target)
			}
			err = w.repo.SetReference(refName(op.Ref), w.stateIDs[op.Target])
		}
	case "record":
		ref := refName(op.Ref)
		if op.Dup {
			if op.Ref == "staging" {
				err = w.api.StagePolicy(ctx, "", true, false)
			} else {
				err = w.api.RecordRSLEntryForReference(ctx, ref, false, rslopts.WithRecordLocalOnly())
			}
		} else {
			var tip githash.Hash
			tip, err = w.repo.GetReference(ref)
			if err == nil {
				err = rsl.NewReferenceEntry(ref, tip).Commit(w.repo, false)
			}
		}
	case "probe":
		blob, berr := w.repo.WriteBlob([]byte(fmt.Sprintf("probe-%d\n", len(w.probeIDs))))
		if berr != nil {
			w.t.Fatal(berr)
		}
		tid, terr2 := w.repo.WriteTree([]gitstore.TreeEntry{{Path: "f", ID: blob, Kind: gitstore.KindBlob}})
		if terr2 != nil {
			w.t.Fatal(terr2)
		}
		cid, cerr := w.repo.Commit(tid, probeRef, fmt.Sprintf("probe %d\n", len(w.probeIDs)), false)
		if cerr != nil {
			w.t.Fatal(cerr)
		}
		w.probeIDs = append(w.probeIDs, cid)
		err = rsl.NewReferenceEntry(probeRef, cid).Commit(w.repo, false)
	case "edit":
		func() {
			defer func() {
				if p := recover(); p != nil {
					err = fmt.Errorf("%w: %v", errC12Panic, p)
				}
			}()
			err = w.edit(op)
		}()
	default:
		w.t.Fatalf("unknown op %q", op.Op)
	}
	tOp := time.Since(t0)
	step := c12Step{Err: c12ErrClass(err), New: []c12New{}}
	if err != nil {
		step.Msg = err.Error()
		if len(step.Msg) > 140 {
			step.Msg = step.Msg[:140]
		}
	}
	// the staging tip first (a freshly staged commit is the first new state), then the policy tip, then the log
	step.Stg = w.refIndex(policy.PolicyStagingRef, &step.New, staged)
	step.Pol = w.refIndex(policy.PolicyRef, &step.New, nil)
	step.Log = w.readLog(&step.New)
	step.PreLoad, step.PreProbe = preLoad, preProbe
	// what later verification makes of the published policy
	if op.Op == "apply" && err == nil {
		step.Load, step.Probe = w.loadClass(), w.verifyProbe()
	}
	if os.Getenv("C12_TIMING") != "" {
		fmt.Fprintf(os.Stderr, "%s/%s op=%v all=%v\n", op.Op, op.Kind, tOp, time.Since(t0))
	}
	return step
}

var errC12Panic = errors.New("panic")

func (w *c12World) loadClass() string {
	if _, lerr := policy.LoadCurrentState(ctx, w.repo, policy.PolicyRef); lerr == nil {
		return "ok"
	} else if errors.Is(lerr, rsl.ErrRSLEntryNotFound) {
		return "none"
	}
	return "error"
}

func (w *c12World) verifyProbe() string {
	_, err := policy.NewPolicyVerifier(w.repo).VerifyRefFull(ctx, probeRef)
	switch {
	case err == nil:
		return "ok"
	case errors.Is(err, rsl.ErrRSLEntryNotFound) && len(w.probeIDs) == 0:
		return "none"
	default:
		return "error"
	}
}

// ---- generator ----

const (
	c12Outsider = kOutsider
	c12KeyB     = kRoot2
)

var c12KeyPool = []int{kRoot, kTargets, 2, kOutsider, kRoot2}

func (w *c12World) stagingSpec() *PolicySpec {
	id, err := w.repo.GetReference(policy.PolicyStagingRef)
	if err != nil {
		return nil
	}
	if i := w.stateIndex(id); i >= 0 {
		s := clonePolicy(w.specs[i])
		return &s
	}
	return nil
}

func (w *c12World) policySpec() *PolicySpec {
	id, err := w.repo.GetReference(policy.PolicyRef)
	if err != nil {
		return nil
	}
	if i := w.stateIndex(id); i >= 0 {
		s := clonePolicy(w.specs[i])
		return &s
	}
	return nil
}

func (w *c12World) freshTag() string { return fmt.Sprintf("c12 op %d\n", w.nOps) }

// genInternal draws the next operation of an internal/policy-layer sequence.
func (w *c12World) genInternal(r *Rng) c12Op {
	stageOp := func() c12Op {
		base := w.stagingSpec()
		if base == nil {
			base = w.policySpec()
		}
		var spec PolicySpec
		if base == nil {
			spec = basePolicy()
			if r.Chance(10) {
				spec.Root.Signers = []int{kOutsider} // invalid first state
			}
		} else if r.Chance(8) && len(w.specs) > 0 {
			spec = clonePolicy(w.specs[r.Intn(len(w.specs))]) // an earlier state again
		} else {
			spec, _ = c02Mutate(r, *base)
		}
		spec = canonSpec(spec)
		tag := w.freshTag()
		if r.Chance(8) {
			tag = "same message\n"
		}
		return c12Op{Op: "stage", Policy: &spec, Entry: !r.Chance(12), Tag: tag}
	}
	if len(w.stateIDs) == 0 {
		return stageOp()
	}
	switch x := r.Intn(100); {
	case x < 34:
		return stageOp()
	case x < 62:
		return c12Op{Op: "apply", API: r.Chance(30)}
	case x < 72:
		return c12Op{Op: "discard", API: r.Chance(30)}
	case x < 82:
		target := r.Intn(len(w.stateIDs)+1) - 1
		if target < 0 && !r.Chance(30) {
			target = 0
		}
		ref := "staging"
		if r.Chance(45) {
			ref = "policy"
		}
		return c12Op{Op: "tamper", Ref: ref, Target: target}
	case x < 90:
		ref := "staging"
		if r.Chance(40) {
			ref = "policy"
		}
		return c12Op{Op: "record", Ref: ref, Dup: r.Chance(40)}
	default:
		return c12Op{Op: "probe"}
	}
}

// genAPI draws the next operation of an API-layer sequence (signers inside and outside the roles).
func (w *c12World) genAPI(r *Rng, initTargetsDone *bool) c12Op {
	cur := w.stagingSpec()
	signer := func(inside []int) int {
		if len(inside) > 0 && r.Chance(70) {
			return inside[r.Intn(len(inside))]
		}
		return c12KeyPool[r.Intn(len(c12KeyPool))]
	}
	if cur == nil {
		if _, err := w.repo.GetReference(policy.PolicyRef); err != nil && len(w.stateIDs) == 0 {
			return c12Op{Op: "edit", Kind: "initRoot", Signer: kRoot, Entry: r.Chance(50)}
		}
		// staging is gone (discard without applied policy, or tampering): put some state back
		if len(w.stateIDs) > 0 {
			return c12Op{Op: "tamper", Ref: "staging", Target: r.Intn(len(w.stateIDs))}
		}
	}
	var rootKeys, targetsKeys []int
	if cur != nil {
		rootKeys, targetsKeys = cur.Root.RootKeys, cur.Root.TargetsKeys
	}
	edit := func(kind string, s int) c12Op {
		return c12Op{Op: "edit", Kind: kind, Signer: s, Key: c12KeyPool[r.Intn(len(c12KeyPool))], N: r.Intn(4), Name: []string{"r1", "r2"}[r.Intn(2)], Entry: r.Chance(35)}
	}
	switch x := r.Intn(100); {
	case x < 9:
		return edit("addRootKey", signer(rootKeys))
	case x < 16:
		return edit("removeRootKey", signer(rootKeys))
	case x < 21:
		return edit("rootThreshold", signer(rootKeys))
	case x < 28:
		return edit("addTargetsKey", signer(rootKeys))
	case x < 31:
		return edit("removeTargetsKey", signer(rootKeys))
	case x < 34:
		return edit("targetsThreshold", signer(rootKeys))
	case x < 38:
		return edit("addGlobal", signer(rootKeys))
	case x < 40:
		return edit("removeGlobal", signer(rootKeys))
	case x < 45:
		return edit("signRoot", signer(rootKeys))
	case x < 52:
		if *initTargetsDone || (cur != nil && len(cur.Files) > 0) {
			return edit("signTargets", signer(targetsKeys))
		}
		*initTargetsDone = true
		return edit("initTargets", signer(targetsKeys))
	case x < 57:
		return edit("addPrincipal", signer(targetsKeys))
	case x < 62:
		return edit("addRule", signer(targetsKeys))
	case x < 64:
		return edit("removeRule", signer(targetsKeys))
	case x < 66:
		return c12Op{Op: "edit", Kind: "initRoot", Signer: signer(rootKeys), Entry: r.Chance(50)} // refused: already initialized
	case x < 76:
		return c12Op{Op: "record", Ref: "staging", Dup: true} // StagePolicy
	case x < 92:
		return c12Op{Op: "apply", API: true}
	case x < 96:
		return c12Op{Op: "discard", API: true}
	default:
		return c12Op{Op: "probe"}
	}
}

// ---- scripted sequences ----

func c12Scripts() map[string][]c12Op {
	A, B, T, X := kRoot, kRoot2, kTargets, kOutsider
	v1 := canonSpec(basePolicy())
	v2 := clonePolicy(v1)
	v2.Root.Version = 2
	v2.Root.RootKeys = []int{A, B}
	v2 = canonSpec(v2)
	v3 := clonePolicy(v2)
	v3.Root.Version = 3
	v3.Root.RootKeys = []int{B}
	v3.Root.Signers = []int{B}
	v3 = canonSpec(v3)
	side := clonePolicy(v1)
	side.Root.Version = 2
	side.Files[0].Version = 2
	side = canonSpec(side)
	ed := func(kind string, signer, key, n int, name string, entry bool) c12Op {
		return c12Op{Op: "edit", Kind: kind, Signer: signer, Key: key, N: n, Name: name, Entry: entry}
	}
	st := func(p PolicySpec, tag string) c12Op { q := p; return c12Op{Op: "stage", Policy: &q, Entry: true, Tag: tag} }
	return map[string][]c12Op{
		// F9 on the internal layer: two staged root rotations applied at once
		"f9-internal": {st(v1, "v1\n"), {Op: "apply"}, {Op: "probe"}, st(v2, "v2\n"), st(v3, "v3\n"), {Op: "apply"}, {Op: "probe"}},
		// the same rotation applied step by step is fine
		"rotation-stepwise": {st(v1, "v1\n"), {Op: "apply"}, {Op: "probe"}, st(v2, "v2\n"), {Op: "apply"}, st(v3, "v3\n"), {Op: "apply"}, {Op: "probe"}},
		// F9 through the API
		"f9-api": {ed("initRoot", A, 0, 0, "", false), ed("addTargetsKey", A, T, 0, "", false), ed("initTargets", T, 0, 0, "", false),
			{Op: "record", Ref: "staging", Dup: true}, {Op: "apply", API: true}, {Op: "probe"},
			ed("addRootKey", A, B, 0, "", false), ed("removeRootKey", B, A, 0, "", false),
			{Op: "record", Ref: "staging", Dup: true}, {Op: "apply", API: true}},
		// root edits by signers outside the root role are refused
		"outsiders": {ed("initRoot", A, 0, 0, "", true), ed("addRootKey", X, X, 0, "", true), ed("addTargetsKey", T, T, 0, "", true),
			ed("rootThreshold", X, 0, 1, "", true), ed("removeRootKey", B, A, 0, "", true), ed("addGlobal", X, 0, 1, "g", true),
			ed("addTargetsKey", A, T, 0, "", true), ed("removeTargetsKey", T, T, 0, "", true), ed("targetsThreshold", X, 0, 1, "", true),
			ed("initTargets", X, 0, 0, "", true), {Op: "apply", API: true}, ed("signTargets", T, 0, 0, "", true), {Op: "apply", API: true},
			ed("addRootKey", A, B, 0, "", true), ed("removeRootKey", X, A, 0, "", true), ed("removeRootKey", B, A, 0, "", true), {Op: "apply", API: true}},
		// references that disagree with the log
		"tamper": {st(v1, "v1\n"), {Op: "apply"}, st(side, "side\n"), {Op: "tamper", Ref: "policy", Target: 1}, {Op: "apply"},
			{Op: "tamper", Ref: "policy", Target: 0}, {Op: "tamper", Ref: "staging", Target: 0}, {Op: "apply"},
			{Op: "tamper", Ref: "staging", Target: 1}, {Op: "apply"}, {Op: "discard"}, {Op: "apply"}, {Op: "tamper", Ref: "staging", Target: -1}, {Op: "apply"}},
		// discard with and without applied policy
		"discard": {st(v1, "v1\n"), {Op: "discard"}, st(v1, "v1 again\n"), {Op: "apply"}, st(side, "side\n"), {Op: "discard"}, {Op: "apply"}, st(side, "side 2\n"), {Op: "apply"}},
		// a policy entry but neither staging reference nor staging entry; first apply of an invalid state
		"no-staging": {{Op: "stage", Policy: &v1, Entry: false, Tag: "v1\n"}, {Op: "tamper", Ref: "policy", Target: 0}, {Op: "record", Ref: "policy"},
			{Op: "tamper", Ref: "staging", Target: -1}, {Op: "apply"}, {Op: "discard"}, {Op: "apply"}, {Op: "record", Ref: "staging"}, {Op: "apply"},
			st(v3, "v3 unsigned by A\n"), {Op: "apply"}},
		// policy moved (with a log entry) behind staging's back: ReconcileStaging fast-forwards / rebases staging
		"reconcile": {st(v1, "v1\n"), {Op: "apply"}, {Op: "probe"}, st(side, "side\n"), {Op: "discard"}, st(v2, "v2\n"),
			{Op: "tamper", Ref: "policy", Target: 1}, {Op: "record", Ref: "policy"}, {Op: "apply"},
			{Op: "tamper", Ref: "staging", Target: 0}, {Op: "record", Ref: "staging"}, {Op: "apply"}},
	}
}

// ---- the test ----

func c12Emit(t *testing.T, out *Out, id int, ops []c12Op, steps []c12Step, meta string) {
	if err := out.Emit(c12Line{Prop: "C12", ID: id, In: c12In{Ops: ops}, Impl: c12Impl{Steps: steps}, Meta: meta}); err != nil {
		t.Fatal(err)
	}
}

func c12Replay(t *testing.T, out *Out, id int, ops []c12Op, meta string) {
	w := newC12World(t)
	steps := []c12Step{}
	for _, op := range ops {
		steps = append(steps, w.run(op))
	}
	c12Emit(t, out, id, ops, steps, meta)
}

func TestC12(t *testing.T) {
	seed := uint64(envInt("VERIF_SEED", 1))
	n := envInt("VERIF_N", 10)
	shard := envInt("VERIF_SHARD", 0)
	out, err := OpenOut()
	if err != nil {
		t.Fatal(err)
	}
	defer out.Close()
	defer func() {
		if c12KeyDir != "" {
			os.RemoveAll(c12KeyDir)
		}
	}()
	if replay := ReplayInputs[c12In](t); replay != nil {
		for i, in := range replay {
			c12Replay(t, out, i+1, in.Ops, "replay")
		}
		return
	}
	if w := envStr("VERIF_WITNESS", ""); w != "" {
		if w == "all" {
			names := []string{}
			for name := range c12Scripts() {
				names = append(names, name)
			}
			sort.Strings(names)
			for i, name := range names {
				c12Replay(t, out, i+1, c12Scripts()[name], "script:"+name)
			}
			return
		}
		ops, ok := c12Scripts()[w]
		if !ok {
			t.Fatalf("unknown script %s", w)
		}
		c12Replay(t, out, 1, ops, "script:"+w)
		return
	}
	id := shard * 1000000
	rng := NewRng(seed*1000003 + uint64(shard) + 1212)
	maxOps := envInt("VERIF_C12_MAXOPS", 12)
	for i := 0; i < n; i++ {
		r := NewRng(rng.U64())
		id++
		w := newC12World(t)
		ops := []c12Op{}
		steps := []c12Step{}
		nOps := 4 + r.Intn(maxOps-3)
		api := r.Chance(40)
		initTargetsDone := false
		for k := 0; k < nOps; k++ {
			var op c12Op
			if api {
				op = w.genAPI(r, &initTargetsDone)
			} else {
				op = w.genInternal(r)
			}
			ops = append(ops, op)
			steps = append(steps, w.run(op))
		}
		meta := "internal"
		if api {
			meta = "api"
		}
		c12Emit(t, out, id, ops, steps, meta)
	}
}
