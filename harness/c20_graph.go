package harness

// C20: extraction of the Lua environment graph of a real LuaEnvironment.
//
// Every value reachable from the script-visible roots (globals table, thread
// environment, metatables of the basic types) is walked through table keys and
// values, metatables, function environments, upvalues and prototype constants.
// Node identity is the Go pointer; ids are assigned in a deterministic BFS
// order (table keys sorted) so that two extractions of the same tree give the
// same graph. Go functions are identified by their *implementation* (symbol of
// the Go function behind the LGFunction), translated to the path at which the
// same implementation sits in a reference state with ALL standard libraries
// opened (lua.NewState()): a dangerous function stored under a harmless name is
// still reported as what it is.

import (
	"fmt"
	"reflect"
	"regexp"
	"runtime"
	"sort"
	"strings"

	lua "github.com/yuin/gopher-lua"
)

type c20Node struct {
	ID   int    `json:"id"`
	Kind string `json:"kind"` // table | gofn | luafn | userdata | thread | inert
	Name string `json:"name"` // first path at which the node was found
	Impl string `json:"impl"` // gofn: reference path of the implementation, else ""
	Prot bool   `json:"prot"` // table whose metatable carries __newindex
}
type c20Edge struct {
	From  int    `json:"from"`
	Label string `json:"label"`
	To    int    `json:"to"`
}
type c20Graph struct {
	Nodes  []c20Node `json:"nodes"`
	Edges  []c20Edge `json:"edges"`
	Roots  []int     `json:"roots"`  // script-visible roots
	Hidden []int     `json:"hidden"` // roots only Go code can reach (registry)
}

func goSymbol(fn *lua.LFunction) string {
	if fn == nil || fn.GFunction == nil {
		return ""
	}
	pc := reflect.ValueOf(fn.GFunction).Pointer()
	f := runtime.FuncForPC(pc)
	if f == nil {
		return fmt.Sprintf("pc:%x", pc)
	}
	s := f.Name()
	s = strings.Replace(s, "github.com/yuin/gopher-lua.", "lua.", 1)
	s = strings.Replace(s, "github.com/gittuf/gittuf/internal/luasandbox.", "luasandbox.", 1)
	return s
}

type c20Walker struct {
	L      *lua.LState
	ids    map[any]int // pointer -> id
	g      *c20Graph
	queue  []any
	refSym map[string]string // go symbol -> reference path (nil while walking the reference state)
	symOf  map[int]string    // node id -> raw go symbol
	addr   map[string]int    // "%p" -> id (for the in-sandbox walk)
}

func newC20Walker(L *lua.LState, refSym map[string]string) *c20Walker {
	w := &c20Walker{L: L, ids: map[any]int{}, g: &c20Graph{}, refSym: refSym, symOf: map[int]string{}, addr: map[string]int{}}
	// node 0: all inert values (strings, numbers, booleans)
	w.g.Nodes = append(w.g.Nodes, c20Node{ID: 0, Kind: "inert", Name: "<inert>"})
	return w
}

func keyLabel(k lua.LValue) string {
	switch v := k.(type) {
	case lua.LString:
		return "f:" + string(v)
	case lua.LNumber:
		return "i:" + v.String()
	case lua.LBool:
		return "b:" + v.String()
	default:
		return "k:" + k.Type().String()
	}
}

// node returns the id of the value (0 for inert data), registering it.
func (w *c20Walker) node(v lua.LValue, path string) int {
	var ptr any
	kind := ""
	switch x := v.(type) {
	case *lua.LTable:
		ptr, kind = x, "table"
	case *lua.LFunction:
		ptr = x
		if x.IsG {
			kind = "gofn"
		} else {
			kind = "luafn"
		}
	case *lua.LUserData:
		ptr, kind = x, "userdata"
	case *lua.LState:
		ptr, kind = x, "thread"
	default:
		if v == nil || v == lua.LNil {
			return -1
		}
		switch v.Type() {
		case lua.LTString, lua.LTNumber, lua.LTBool:
			return 0
		case lua.LTChannel:
			ptr, kind = v, "channel"
		default:
			return 0
		}
	}
	if id, ok := w.ids[ptr]; ok {
		return id
	}
	id := len(w.g.Nodes)
	w.ids[ptr] = id
	n := c20Node{ID: id, Kind: kind, Name: path}
	if fn, ok := ptr.(*lua.LFunction); ok && fn.IsG {
		sym := goSymbol(fn)
		w.symOf[id] = sym
		n.Impl = sym
		if w.refSym != nil {
			if p, ok := w.refSym[sym]; ok {
				n.Impl = p
			}
		}
	}
	w.g.Nodes = append(w.g.Nodes, n)
	w.addr[fmt.Sprintf("%p", ptr)] = id
	w.queue = append(w.queue, ptr)
	return id
}

func (w *c20Walker) edge(from int, label string, v lua.LValue, path string) {
	to := w.node(v, path)
	if to < 0 {
		return
	}
	w.g.Edges = append(w.g.Edges, c20Edge{From: from, Label: label, To: to})
}

func joinPath(base, key string) string {
	if base == "" || base == "_G" {
		return key
	}
	return base + "." + key
}

func (w *c20Walker) expand(ptr any) {
	id := w.ids[ptr]
	path := w.g.Nodes[id].Name
	switch x := ptr.(type) {
	case *lua.LTable:
		type kv struct {
			k, v lua.LValue
			lab  string
		}
		var kvs []kv
		x.ForEach(func(k, v lua.LValue) { kvs = append(kvs, kv{k, v, keyLabel(k)}) })
		sort.SliceStable(kvs, func(i, j int) bool { return kvs[i].lab < kvs[j].lab })
		for _, e := range kvs {
			// a key that is itself a table / function is reachable through next()
			if kn := w.node(e.k, joinPath(path, "<key>")); kn > 0 {
				w.g.Edges = append(w.g.Edges, c20Edge{From: id, Label: "key", To: kn})
			}
			w.edge(id, e.lab, e.v, joinPath(path, e.lab[2:]))
		}
		if mt, ok := x.Metatable.(*lua.LTable); ok {
			w.edge(id, "meta", mt, path+"<meta>")
			if mt.RawGetString("__newindex") != lua.LNil {
				w.g.Nodes[id].Prot = true
			}
		}
	case *lua.LFunction:
		if !x.IsG && x.Env != nil {
			w.edge(id, "env", x.Env, path+"<env>")
		}
		for i, uv := range x.Upvalues {
			if uv != nil {
				w.edge(id, fmt.Sprintf("up:%d", i), uv.Value(), fmt.Sprintf("%s<up%d>", path, i))
			}
		}
		if x.Proto != nil {
			var protos func(p *lua.FunctionProto, pp string)
			protos = func(p *lua.FunctionProto, pp string) {
				for i, c := range p.Constants {
					w.edge(id, fmt.Sprintf("const:%s%d", pp, i), c, fmt.Sprintf("%s<const%d>", path, i))
				}
				for i, sub := range p.FunctionPrototypes {
					protos(sub, fmt.Sprintf("%s%d/", pp, i))
				}
			}
			protos(x.Proto, "")
		}
	case *lua.LUserData:
		if x.Env != nil {
			w.edge(id, "env", x.Env, path+"<env>")
		}
		if mt, ok := x.Metatable.(*lua.LTable); ok {
			w.edge(id, "meta", mt, path+"<meta>")
		}
	case *lua.LState:
		w.edge(id, "env", x.Env, path+"<env>")
	}
}

func (w *c20Walker) run() {
	for len(w.queue) > 0 {
		p := w.queue[0]
		w.queue = w.queue[1:]
		w.expand(p)
	}
}

// walkState walks the script-visible part first (so that its ids do not depend
// on the hidden part), then the registry.
func (w *c20Walker) walkState() {
	L := w.L
	g := w.node(L.Get(lua.GlobalsIndex), "_G")
	w.g.Roots = append(w.g.Roots, g)
	if e := w.node(L.Get(lua.EnvironIndex), "<threadenv>"); e > 0 && e != g {
		w.g.Roots = append(w.g.Roots, e)
	}
	w.run() // name everything by its path from the globals first
	// metatables of the basic types: every string / number / function value a
	// script holds indexes through them
	for _, probe := range []struct {
		n string
		v lua.LValue
	}{{"string", lua.LString("x")}, {"number", lua.LNumber(1)}, {"boolean", lua.LTrue}, {"nil", lua.LNil},
		{"function", L.NewFunction(func(*lua.LState) int { return 0 })}, {"thread", L}} {
		mt := L.GetMetatable(probe.v)
		if id := w.node(mt, "<mt:"+probe.n+">"); id > 0 {
			dup := false
			for _, r := range w.g.Roots {
				dup = dup || r == id
			}
			if !dup {
				w.g.Roots = append(w.g.Roots, id)
			}
		}
	}
	w.run()
	if id := w.node(L.Get(lua.RegistryIndex), "<registry>"); id > 0 {
		w.g.Hidden = append(w.g.Hidden, id)
	}
	w.run()
}

// c20ReferenceSymbols: go symbol -> path in a state with every standard library.
func c20ReferenceSymbols() map[string]string {
	L := lua.NewState()
	defer L.Close()
	w := newC20Walker(L, nil)
	w.walkState()
	res := map[string]string{}
	for id, sym := range w.symOf {
		if _, ok := res[sym]; !ok || len(w.g.Nodes[id].Name) < len(res[sym]) {
			res[sym] = w.g.Nodes[id].Name
		}
	}
	return res
}

var c20APISym = regexp.MustCompile(`\.api([A-Z][A-Za-z0-9]*)\.func\d+$`)

// c20APISymbol maps the closures of apis.go to "api.<name>" and the guard of
// protectModule to "guard.newindex".
func c20NormalizeImpl(impl string) string {
	if m := c20APISym.FindStringSubmatch(impl); m != nil && strings.HasPrefix(impl, "luasandbox.") {
		return "api." + strings.ToLower(m[1][:1]) + m[1][1:]
	}
	if strings.HasPrefix(impl, "luasandbox.") && strings.Contains(impl, ".protectModule.") {
		return "guard.newindex"
	}
	return impl
}

func c20Extract(L *lua.LState) (*c20Graph, map[string]int) {
	w := newC20Walker(L, c20ReferenceSymbols())
	w.walkState()
	for i := range w.g.Nodes {
		w.g.Nodes[i].Impl = c20NormalizeImpl(w.g.Nodes[i].Impl)
	}
	return w.g, w.addr
}
