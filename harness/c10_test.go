package harness

// C10, layer (a): the path codec. Trees with odd path names are written with git plumbing,
// read back through the real gitinterface readers and compared with the NUL-delimited truth.

import (
	"bytes"
	"fmt"
	"sort"
	"testing"

	"github.com/gittuf/gittuf/pkg/gitinterface"
	"github.com/gittuf/gittuf/pkg/gitstore"
)

type c10In struct {
	Kind    string     `json:"kind"` // "paths"
	Tree    []tEntry   `json:"tree"`
	Parents [][]tEntry `json:"parents"` // 0: root commit, 1: linear child, 2: merge
}

type c10Named struct {
	P    []int  `json:"p"`
	ID   string `json:"id"`
	Tree bool   `json:"tree"`
}

type c10Dir struct {
	Truth []lsEntry  `json:"truth"` // `git ls-tree -z <tree>`
	Class string     `json:"class"` // ok | err | panic
	Impl  []c10Named `json:"impl"`  // GetEntriesInTree, in the order returned
}

type c10Impl struct {
	// truth, NUL-delimited
	TruthFiles []lsEntry `json:"truth_files"` // ls-tree -r -z of the commit's tree
	TruthDiffs [][][]int `json:"truth_diffs"` // diff-tree -r -z --name-only against every parent
	// what gittuf returned
	ChangedClass string     `json:"changed_class"` // ok | err | panic
	Changed      [][]int    `json:"changed"`       // GetFilePathsChangedByCommit, in the order returned
	FilesClass   string     `json:"files_class"`
	Files        []c10Named `json:"files"` // GetAllFilesInTree, sorted by name
	Dirs         []c10Dir   `json:"dirs"`  // GetEntriesInTree of the root tree and of up to two subtrees
}

type c10Line struct {
	Prop string  `json:"prop"`
	ID   int     `json:"id"`
	In   c10In   `json:"in"`
	Impl c10Impl `json:"impl"`
}

func genC10(r *Rng) c10In {
	oddPct := []int{0, 25, 50, 80}[r.Intn(4)]
	in := c10In{Kind: "paths", Parents: [][]tEntry{}}
	base := genTree(r, 7, oddPct, r.Chance(30))
	switch x := r.Intn(10); {
	case x < 3: // root commit
		in.Tree = base
	case x < 7: // linear child
		in.Parents = [][]tEntry{base}
		in.Tree = mutateTree(r, base, oddPct)
	default: // merge
		p1 := mutateTree(r, base, oddPct)
		p2 := mutateTree(r, base, oddPct)
		in.Parents = [][]tEntry{p1, p2}
		switch y := r.Intn(10); {
		case y < 2:
			in.Tree = cloneEntries(p2) // same as last parent
		case y < 4:
			in.Tree = cloneEntries(p1) // same as first parent
		default:
			in.Tree = mutateTree(r, p1, oddPct)
		}
	}
	return in
}

func classify(fn func() error) (class string) {
	defer func() {
		if rec := recover(); rec != nil {
			class = "panic"
		}
	}()
	if err := fn(); err != nil {
		return "err"
	}
	return "ok"
}

func c10Run(t *testing.T, repo *gitinterface.Repository, in c10In, id int, out *Out) {
	gd := repo.GetGitDir()
	parents := []string{}
	parentTrees := []string{}
	for i := range in.Parents {
		pt := writeTreeRaw(t, gd, in.Parents[i])
		parentTrees = append(parentTrees, pt)
		parents = append(parents, commitTreeRaw(t, gd, pt))
	}
	tree := writeTreeRaw(t, gd, in.Tree)
	commit := commitTreeRaw(t, gd, tree, parents...)

	impl := c10Impl{TruthDiffs: [][][]int{}, Changed: [][]int{}, Files: []c10Named{}, Dirs: []c10Dir{}}
	all := lsTreeAllZ(t, gd, tree)
	impl.TruthFiles = leavesOf(all)
	for _, p := range parents {
		impl.TruthDiffs = append(impl.TruthDiffs, diffTreeZ(t, gd, p, commit))
	}

	commitHash, err := gitinterface.NewHash(commit)
	if err != nil {
		t.Fatal(err)
	}
	treeHash, err := gitinterface.NewHash(tree)
	if err != nil {
		t.Fatal(err)
	}
	impl.ChangedClass = classify(func() error {
		paths, err := repo.GetFilePathsChangedByCommit(commitHash)
		for _, p := range paths {
			impl.Changed = append(impl.Changed, b2i([]byte(p)))
		}
		return err
	})
	impl.FilesClass = classify(func() error {
		files, err := repo.GetAllFilesInTree(treeHash)
		for p, h := range files {
			impl.Files = append(impl.Files, c10Named{P: b2i([]byte(p)), ID: h.String()})
		}
		return err
	})
	sort.Slice(impl.Files, func(i, j int) bool { return bytes.Compare(i2b(impl.Files[i].P), i2b(impl.Files[j].P)) < 0 })

	dirTrees := []string{tree}
	dirNames := []string{""}
	for _, e := range childrenOf(all, "") {
		if e.Tree && len(dirTrees) < 2 {
			dirTrees = append(dirTrees, e.ID)
			dirNames = append(dirNames, string(i2b(e.P)))
		}
	}
	for k, dt := range dirTrees {
		d := c10Dir{Truth: childrenOf(all, dirNames[k]), Impl: []c10Named{}}
		h, err := gitinterface.NewHash(dt)
		if err != nil {
			t.Fatal(err)
		}
		d.Class = classify(func() error {
			entries, err := repo.GetEntriesInTree(h)
			for _, e := range entries {
				d.Impl = append(d.Impl, c10Named{P: b2i([]byte(e.Path)), ID: e.ID.String(), Tree: e.Kind == gitstore.KindSubtree})
			}
			return err
		})
		impl.Dirs = append(impl.Dirs, d)
	}
	if err := out.Emit(c10Line{Prop: "C10", ID: id, In: in, Impl: impl}); err != nil {
		t.Fatal(err)
	}
}

func TestC10(t *testing.T) {
	seed := uint64(envInt("VERIF_SEED", 1))
	n := envInt("VERIF_N", 150)
	shard := envInt("VERIF_SHARD", 0)
	out, err := OpenOut()
	if err != nil {
		t.Fatal(err)
	}
	defer out.Close()
	repo := NewRepo(t)

	if replay := ReplayInputs[c10In](t); replay != nil {
		worlds := ReplayInputs[WorldIn](t)
		for i, c := range replay {
			if c.Kind != "paths" {
				if i < len(worlds) && len(worlds[i].World.Log) > 0 {
					replayWorld(t, "C01", i+1, worlds[i], out) // a layer (b) history
				}
				continue
			}
			c10Run(t, repo, c, i+1, out)
		}
		return
	}
	rng := NewRng(seed*1000003 + uint64(shard))
	for i := 0; i < n; i++ {
		c10Run(t, repo, genC10(rng), shard*1000000+i+1, out)
	}
	// layer (b): histories with file rules on real repositories, judged by the declarative
	// per-path authorization of Spec/C01 (one world case for every five codec cases)
	for i := 0; i < (n+4)/5; i++ {
		c10WorldCase(t, shard*1000000+500000+i+1, NewRng(rng.U64()), out)
	}
	fsckRepo(t, repo.GetGitDir())
	_ = fmt.Sprint
}

// c10WorldCase: a policy with file rules (and, half of the time, global rules), one to three pushes
// by the principal authorized for the branch; every pushed commit (sometimes with an unpushed
// intermediate commit) changes one to three paths drawn from protected and unprotected directories,
// sorting before and after the protected ones, and is signed by the file rule's principal, by
// another principal, by an outsider or not at all.
func c10WorldCase(t *testing.T, id int, r *Rng, out *Out) {
	main := "refs/heads/main"
	b := NewWorldBuilder(t)
	p := basePolicy()
	srcPats := []string{"file:src/*"}
	srcOwners := []int{1003}
	family := r.Intn(100)
	switch x := r.Intn(100); {
	case x < 20 || family < 20: // one rule for several directories: the paths of one commit share a verifier
		srcPats = []string{"file:src/*", "file:docs/*"}
		if r.Bool() {
			srcPats, srcOwners = []string{"file:*"}, []int{1002, 1003}
		}
	}
	noFileRule := r.Chance(12) || (family >= 20 && family < 35) // no delegation rule protects any file (global rules may)
	if !noFileRule {
		p.Files[0].Rules = append(p.Files[0].Rules, RuleSpec{Name: "protect-src", Patterns: srcPats, Principals: srcOwners, Threshold: 1})
	}
	if r.Chance(40) && !noFileRule {
		owner := []int{1002, 1003}[r.Intn(2)]
		p.Files[0].Rules = append(p.Files[0].Rules, RuleSpec{Name: "protect-lib", Patterns: []string{"file:lib/*"}, Principals: []int{owner}, Threshold: 1})
	}
	if family < 35 {
		// targeted families: a global threshold rule on src/* next to a rule shared by several
		// directories (family < 20), or with no delegation file rule at all (20 <= family < 35)
		thr := 1 + r.Intn(2)
		if family < 20 {
			thr = 2 // more than one signature can supply
		}
		p.Root.GlobalRules = []GlobalRuleSpec{{Name: "g-src", Kind: "threshold", Patterns: []string{"file:src/*"}, Threshold: thr}}
	} else if r.Chance(50) {
		switch r.Intn(3) {
		case 0:
			p.Root.GlobalRules = []GlobalRuleSpec{{Name: "unrelated", Kind: "threshold", Patterns: []string{"git:refs/heads/unrelated"}, Threshold: 1}}
		case 1:
			thr := 1 + r.Intn(2)
		if family < 20 {
			thr = 2 // more than one signature can supply
		}
		p.Root.GlobalRules = []GlobalRuleSpec{{Name: "g-src", Kind: "threshold", Patterns: []string{"file:src/*"}, Threshold: thr}}
		default:
			p.Root.GlobalRules = []GlobalRuleSpec{{Name: "g-bfp", Kind: "block-force-pushes", Patterns: []string{"git:" + main}}}
		}
	}
	b.AddPolicy(p, true)
	pool := []string{"LICENSE", "README", "docs/a", "lib/l.go", "src/a.go", "src/b.go", "tests/t", "zz"}
	files := []WFile{}
	blob := 0
	var parent *int
	touch := func() {
		k := 1 + r.Intn(3)
		if family < 20 && k < 2 {
			k = 2
		}
		for j := 0; j < k; j++ {
			path := pool[r.Intn(len(pool))]
			if family < 35 && j < 2 && (family < 20 || r.Chance(70)) {
				path = []string{"docs/a", "src/a.go"}[j] // an unmatched path first, then one the global rule matches
			}
			blob++
			found := false
			for i := range files {
				if files[i].Path == path {
					files[i].Blob = blob
					found = true
				}
			}
			if !found {
				files = append(files, WFile{Path: path, Blob: blob})
			}
		}
	}
	signer := func() *int {
		switch x := r.Intn(100); {
		case x < 45:
			return ip(3)
		case x < 70:
			return ip(2)
		case x < 90:
			return ip(kOutsider)
		default:
			return nil
		}
	}
	for i, n := 0, 1+r.Intn(3); i < n; i++ {
		if r.Chance(30) { // an intermediate commit that is never pushed on its own
			touch()
			c := b.AddCommit(parent, b.AddTree(append([]WFile{}, files...)), signer())
			parent = ip(c)
		}
		touch()
		c := b.AddCommit(parent, b.AddTree(append([]WFile{}, files...)), signer())
		parent = ip(c)
		b.Push(main, c, ip(2))
	}
	qs := []VQuery{{Mode: "full", Ref: main}, {Mode: "latest", Ref: main}}
	line := WorldLine{Prop: "C01", ID: id, In: WorldIn{World: b.Snapshot(), Queries: qs}, Meta: "c10-layer-b"}
	for _, q := range qs {
		line.Impl = append(line.Impl, RunQuery(b, q))
	}
	if err := out.Emit(line); err != nil {
		t.Fatal(err)
	}
}
