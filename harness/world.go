package harness

import (
	"encoding/base64"
	"encoding/json"
	"fmt"
	"path"
	"sort"
	"testing"

	"github.com/gittuf/gittuf/internal/attestations"
	"github.com/gittuf/gittuf/internal/policy"
	"github.com/gittuf/gittuf/internal/signerverifier/dsse"
	"github.com/gittuf/gittuf/pkg/githash"
	"github.com/gittuf/gittuf/pkg/gitinterface"
	"github.com/gittuf/gittuf/pkg/gitstore"
	"github.com/gittuf/gittuf/pkg/rsl"
)

// ---- abstract world (mirrors lean/Gittuf/Model/World.lean) ----

type WFile struct {
	Path string `json:"path"`
	Blob int    `json:"blob"`
}
type WCommit struct {
	Parents []int `json:"parents"`
	Tree    int   `json:"tree"`
	Signer  *int  `json:"signer"`
}
type WTarget struct {
	Kind string `json:"kind"` // "commit" | "policy" | "att" | "zero"
	I    int    `json:"i"`
}
type WEntry struct {
	Kind   string  `json:"kind"` // "ref" | "ann" | "prop"
	Ref    string  `json:"ref"`
	Target WTarget `json:"target"`
	Signer *int    `json:"signer"`
	Refs   []int   `json:"refs"`
	Skip   bool    `json:"skip"`
}
type WAuth struct {
	SRef    string `json:"sref"`
	SFrom   *int   `json:"sfrom"`
	STo     int    `json:"sto"`
	Ref     string `json:"ref"`
	From    *int   `json:"from"`
	To      int    `json:"to"`
	Signers []int  `json:"signers"`
}
type WGh struct {
	SRef      string   `json:"sref"`
	SFrom     *int     `json:"sfrom"`
	STo       int      `json:"sto"`
	Ref       string   `json:"ref"`
	From      *int     `json:"from"`
	To        int      `json:"to"`
	App       string   `json:"app"`
	Signers   []int    `json:"signers"`
	Approvers []string `json:"approvers"`
	Dismissed []string `json:"dismissed"`
}
type WAtt struct {
	Auths []WAuth `json:"auths"`
	Gh    []WGh   `json:"gh"`
}
type World struct {
	Trees    [][]WFile    `json:"trees"`
	Commits  []WCommit    `json:"commits"`
	Policies []PolicySpec `json:"policies"`
	Atts     []WAtt       `json:"atts"`
	Log      []WEntry     `json:"log"`
}

func ip(i int) *int { return &i }

// WorldBuilder realizes an abstract world on a real repository, step by step.
type WorldBuilder struct {
	t    *testing.T
	Repo *gitinterface.Repository
	W    *World

	treeIDs    []githash.Hash
	commitIDs  []githash.Hash
	policyIDs  []githash.Hash // commit on the staging/policy ref carrying policy i
	attIDs     []githash.Hash
	EntryIDs   []githash.Hash
	treeByKey  map[string]int
	scratchSeq int
}

func NewWorldBuilder(t *testing.T) *WorldBuilder {
	return &WorldBuilder{t: t, Repo: NewRepo(t), W: &World{Trees: [][]WFile{}, Commits: []WCommit{}, Policies: []PolicySpec{}, Atts: []WAtt{}, Log: []WEntry{}}, treeByKey: map[string]int{}}
}

func (b *WorldBuilder) fatal(err error) {
	if err != nil {
		b.t.Helper()
		b.t.Fatal(err)
	}
}

// AddTree registers a tree (deduplicated by content) and writes it.
func (b *WorldBuilder) AddTree(files []WFile) int {
	sort.Slice(files, func(i, j int) bool { return files[i].Path < files[j].Path })
	key, _ := json.Marshal(files)
	if i, ok := b.treeByKey[string(key)]; ok {
		return i
	}
	entries := []gitstore.TreeEntry{}
	for _, f := range files {
		blob, err := b.Repo.WriteBlob([]byte(fmt.Sprintf("blob-%d\n", f.Blob)))
		b.fatal(err)
		entries = append(entries, gitstore.TreeEntry{Path: f.Path, ID: blob, Kind: gitstore.KindBlob})
	}
	var id githash.Hash
	var err error
	if len(entries) == 0 {
		id, err = b.Repo.EmptyTree()
	} else {
		id, err = b.Repo.WriteTree(entries)
	}
	b.fatal(err)
	if files == nil {
		files = []WFile{}
	}
	b.W.Trees = append(b.W.Trees, files)
	b.treeIDs = append(b.treeIDs, id)
	b.treeByKey[string(key)] = len(b.W.Trees) - 1
	return len(b.W.Trees) - 1
}

// AddCommit creates a git commit with at most one parent (merge commits are made by AddMerge).
func (b *WorldBuilder) AddCommit(parent *int, tree int, signer *int) int {
	b.scratchSeq++
	ref := fmt.Sprintf("refs/verif-scratch/s%d", b.scratchSeq)
	if parent != nil {
		b.fatal(b.Repo.SetReference(ref, b.commitIDs[*parent]))
	}
	msg := fmt.Sprintf("commit %d\n", len(b.W.Commits))
	var id githash.Hash
	var err error
	if signer == nil {
		id, err = b.Repo.Commit(b.treeIDs[tree], ref, msg, false)
	} else {
		id, err = b.Repo.CommitUsingSpecificKey(b.treeIDs[tree], ref, msg, Keys(b.t, *signer+1)[*signer].PEM)
	}
	b.fatal(err)
	b.fatal(b.Repo.DeleteReference(ref))
	parents := []int{}
	if parent != nil {
		parents = []int{*parent}
	}
	b.W.Commits = append(b.W.Commits, WCommit{Parents: parents, Tree: tree, Signer: signer})
	b.commitIDs = append(b.commitIDs, id)
	return len(b.W.Commits) - 1
}

func (b *WorldBuilder) CommitID(i int) githash.Hash { return b.commitIDs[i] }
func (b *WorldBuilder) TreeID(i int) githash.Hash   { return b.treeIDs[i] }

func (b *WorldBuilder) recordRef(ref string, target githash.Hash, signer *int) githash.Hash {
	e := rsl.NewReferenceEntry(ref, target)
	var err error
	if signer == nil {
		err = e.Commit(b.Repo, false)
	} else {
		err = e.CommitUsingSpecificKey(b.Repo, Keys(b.t, *signer+1)[*signer].PEM)
	}
	b.fatal(err)
	latest, err := rsl.GetLatestEntry(b.Repo)
	b.fatal(err)
	return latest.GetID()
}

// Push points ref at commit c and records a reference entry signed by signer.
func (b *WorldBuilder) Push(ref string, c int, signer *int) int {
	b.fatal(b.Repo.SetReference(ref, b.commitIDs[c]))
	id := b.recordRef(ref, b.commitIDs[c], signer)
	b.W.Log = append(b.W.Log, WEntry{Kind: "ref", Ref: ref, Target: WTarget{"commit", c}, Signer: signer, Refs: []int{}})
	b.EntryIDs = append(b.EntryIDs, id)
	return len(b.W.Log) - 1
}

// Propagation records a propagation entry for ref -> commit c.
func (b *WorldBuilder) Propagation(ref string, c int, signer *int) int {
	b.fatal(b.Repo.SetReference(ref, b.commitIDs[c]))
	e := rsl.NewPropagationEntry(ref, b.commitIDs[c], "https://example.com/upstream", b.commitIDs[c])
	var err error
	if signer == nil {
		err = e.Commit(b.Repo, false)
	} else {
		err = e.CommitUsingSpecificKey(b.Repo, Keys(b.t, *signer+1)[*signer].PEM)
	}
	b.fatal(err)
	latest, err := rsl.GetLatestEntry(b.Repo)
	b.fatal(err)
	b.W.Log = append(b.W.Log, WEntry{Kind: "prop", Ref: ref, Target: WTarget{"commit", c}, Signer: signer, Refs: []int{}})
	b.EntryIDs = append(b.EntryIDs, latest.GetID())
	return len(b.W.Log) - 1
}

// Annotate records an annotation for the given log indices.
func (b *WorldBuilder) Annotate(refs []int, skip bool, signer *int) int {
	ids := []githash.Hash{}
	for _, r := range refs {
		ids = append(ids, b.EntryIDs[r])
	}
	e := rsl.NewAnnotationEntry(ids, skip, "annotation")
	var err error
	if signer == nil {
		err = e.Commit(b.Repo, false)
	} else {
		err = e.CommitUsingSpecificKey(b.Repo, Keys(b.t, *signer+1)[*signer].PEM)
	}
	b.fatal(err)
	latest, err := rsl.GetLatestEntry(b.Repo)
	b.fatal(err)
	b.W.Log = append(b.W.Log, WEntry{Kind: "ann", Refs: append([]int{}, refs...), Skip: skip, Signer: signer, Target: WTarget{"zero", 0}})
	b.EntryIDs = append(b.EntryIDs, latest.GetID())
	return len(b.W.Log) - 1
}

// AddPolicy commits the policy state to the staging ref (with its RSL entry) and
// then publishes it on the policy ref with an RSL entry, WITHOUT going through
// policy.Apply (so that forged / invalid states can be recorded, as a pusher
// with raw git access could). Returns the log index of the policy entry.
func (b *WorldBuilder) AddPolicy(spec PolicySpec, staged bool) int {
	st := BuildState(b.t, &spec)
	b.fatal(st.Commit(b.Repo, "policy", false, false))
	tip, err := b.Repo.GetReference(policy.PolicyStagingRef)
	b.fatal(err)
	b.W.Policies = append(b.W.Policies, spec)
	b.policyIDs = append(b.policyIDs, tip)
	pi := len(b.W.Policies) - 1
	if staged {
		id := b.recordRef(policy.PolicyStagingRef, tip, nil)
		b.W.Log = append(b.W.Log, WEntry{Kind: "ref", Ref: policy.PolicyStagingRef, Target: WTarget{"policy", pi}, Refs: []int{}})
		b.EntryIDs = append(b.EntryIDs, id)
	}
	b.fatal(b.Repo.SetReference(policy.PolicyRef, tip))
	id := b.recordRef(policy.PolicyRef, tip, nil)
	b.W.Log = append(b.W.Log, WEntry{Kind: "ref", Ref: policy.PolicyRef, Target: WTarget{"policy", pi}, Refs: []int{}})
	b.EntryIDs = append(b.EntryIDs, id)
	return len(b.W.Log) - 1
}

func (b *WorldBuilder) idStr(c *int) string {
	if c == nil {
		return b.Repo.ZeroHash().String()
	}
	return b.commitIDs[*c].String()
}

// AddAtt writes an attestation state: blobs are placed directly at their
// storage paths (the setters' validation is bypassed on purpose so that
// relocated attestations can be expressed), committed on the attestations ref
// and recorded in the log.
func (b *WorldBuilder) AddAtt(att WAtt) int {
	entries := []gitstore.TreeEntry{}
	seen := map[string]int{}
	add := func(p string, data []byte) {
		blob, err := b.Repo.WriteBlob(data)
		b.fatal(err)
		if i, ok := seen[p]; ok {
			entries[i].ID = blob // later definition wins, as in a map
			return
		}
		seen[p] = len(entries)
		entries = append(entries, gitstore.TreeEntry{Path: p, ID: blob, Kind: gitstore.KindBlob})
	}
	for _, a := range att.Auths {
		stmt, err := attestations.NewReferenceAuthorizationForCommit(a.Ref, b.idStr(a.From), b.treeIDs[a.To].String())
		b.fatal(err)
		env, err := dsse.CreateEnvelope(stmt)
		b.fatal(err)
		for _, k := range a.Signers {
			env = signEnvWith(b.t, env, k)
		}
		data, err := json.Marshal(env)
		b.fatal(err)
		add(path.Join("reference-authorizations", attestations.ReferenceAuthorizationPath(a.SRef, b.idStr(a.SFrom), b.treeIDs[a.STo].String())), data)
	}
	for _, g := range att.Gh {
		stmt, err := attestations.NewGitHubPullRequestApprovalAttestation(g.Ref, b.idStr(g.From), b.treeIDs[g.To].String(), g.Approvers, g.Dismissed)
		b.fatal(err)
		env, err := dsse.CreateEnvelope(stmt)
		b.fatal(err)
		for _, k := range g.Signers {
			env = signEnvWith(b.t, env, k)
		}
		data, err := json.Marshal(env)
		b.fatal(err)
		idx := attestations.GitHubPullRequestApprovalAttestationPath(g.SRef, b.idStr(g.SFrom), b.treeIDs[g.STo].String())
		add(path.Join("code-review-approvals", idx, base64.URLEncoding.EncodeToString([]byte(g.App))), data)
	}
	var tree githash.Hash
	var err error
	if len(entries) == 0 {
		tree, err = b.Repo.EmptyTree()
	} else {
		tree, err = b.Repo.WriteTree(entries)
	}
	b.fatal(err)
	cid, err := b.Repo.Commit(tree, attestations.Ref, "attestations", false)
	b.fatal(err)
	id := b.recordRef(attestations.Ref, cid, nil)
	if att.Auths == nil {
		att.Auths = []WAuth{}
	}
	if att.Gh == nil {
		att.Gh = []WGh{}
	}
	b.W.Atts = append(b.W.Atts, att)
	b.attIDs = append(b.attIDs, cid)
	b.W.Log = append(b.W.Log, WEntry{Kind: "ref", Ref: attestations.Ref, Target: WTarget{"att", len(b.W.Atts) - 1}, Refs: []int{}})
	b.EntryIDs = append(b.EntryIDs, id)
	return len(b.W.Log) - 1
}

// Snapshot returns a deep copy of the abstract world as built so far.
func (b *WorldBuilder) Snapshot() *World {
	data, err := json.Marshal(b.W)
	b.fatal(err)
	w := &World{}
	b.fatal(json.Unmarshal(data, w))
	return w
}

// CommitIndex maps a real commit id back to the abstract index (-1 if unknown).
func (b *WorldBuilder) CommitIndex(id githash.Hash) int {
	for i, c := range b.commitIDs {
		if c.Equal(id) {
			return i
		}
	}
	return -1
}

// Rebuild realizes a complete abstract world (e.g. from a replay file) on a fresh repository.
func Rebuild(t *testing.T, w *World) *WorldBuilder {
	b := NewWorldBuilder(t)
	for i, files := range w.Trees {
		if got := b.AddTree(append([]WFile{}, files...)); got != i {
			t.Fatalf("replay: tree %d rebuilt as %d (duplicate tree in input?)", i, got)
		}
	}
	for _, c := range w.Commits {
		var parent *int
		if len(c.Parents) > 0 {
			parent = ip(c.Parents[0])
		}
		b.AddCommit(parent, c.Tree, c.Signer)
	}
	for i := 0; i < len(w.Log); i++ {
		e := w.Log[i]
		switch {
		case e.Kind == "ann":
			b.Annotate(e.Refs, e.Skip, e.Signer)
		case e.Kind == "prop":
			b.Propagation(e.Ref, e.Target.I, e.Signer)
		case e.Target.Kind == "policy":
			staged := false
			if e.Ref == policy.PolicyStagingRef {
				if i+1 < len(w.Log) && w.Log[i+1].Ref == policy.PolicyRef && w.Log[i+1].Target.Kind == "policy" && w.Log[i+1].Target.I == e.Target.I {
					staged = true
					i++
				} else {
					t.Fatalf("replay: staging entry %d without policy entry is not supported", i)
				}
			}
			if e.Target.I != len(b.W.Policies) {
				t.Fatalf("replay: policy states must appear in order")
			}
			b.AddPolicy(w.Policies[e.Target.I], staged)
		case e.Target.Kind == "att":
			b.AddAtt(w.Atts[e.Target.I])
		default:
			b.Push(e.Ref, e.Target.I, e.Signer)
		}
	}
	return b
}

func replayWorld(t *testing.T, prop string, id int, in WorldIn, out *Out) {
	b := Rebuild(t, in.World)
	line := WorldLine{Prop: prop, ID: id, In: WorldIn{World: b.Snapshot(), Queries: in.Queries}, Meta: "replay"}
	for _, q := range in.Queries {
		line.Impl = append(line.Impl, RunQuery(b, q))
	}
	if err := out.Emit(line); err != nil {
		t.Fatal(err)
	}
}

// PopLastEntry undoes the most recent Push (log entry and reference), restoring
// the reference to prevTarget (nil: delete it).
func (b *WorldBuilder) PopLastEntry(ref string, prevTarget *int) {
	n := len(b.W.Log)
	if n == 0 {
		b.t.Fatal("PopLastEntry on empty log")
	}
	if n == 1 {
		b.fatal(b.Repo.DeleteReference(rsl.Ref))
	} else {
		b.fatal(b.Repo.SetReference(rsl.Ref, b.EntryIDs[n-2]))
	}
	if prevTarget == nil {
		b.fatal(b.Repo.DeleteReference(ref))
	} else {
		b.fatal(b.Repo.SetReference(ref, b.commitIDs[*prevTarget]))
	}
	b.W.Log = b.W.Log[:n-1]
	b.EntryIDs = b.EntryIDs[:n-1]
}
