package harness

import (
	"testing"
)

// ---- abstract case (mirrors lean/Driver/C03.lean) ----

type c03In struct {
	Targets []int     `json:"targets"`
	Ops     []rslStep `json:"ops"`
}

type c03Step struct {
	Class string       `json:"class"` // ok | notFound | invalid | branch | other
	Chain []seenCommit `json:"chain"` // the RSL as an independent reader sees it after the operation (newest first)
	Err   string       `json:"err,omitempty"`
}

type c03Impl struct {
	Steps []c03Step `json:"steps"`
}

type c03Line struct {
	Prop string  `json:"prop"`
	ID   int     `json:"id"`
	In   c03In   `json:"in"`
	Impl c03Impl `json:"impl"`
}

// genC03 draws a sequence of recording operations. `made` tracks how many commits exist so
// that annotations can name them; operations may fail (then nothing is added).
func genC03(r *Rng, maxOps int, allowEmptyAnn bool) []rslStep {
	n := 1 + r.Intn(maxOps)
	legacy := 0
	if r.Chance(30) {
		legacy = 1 + r.Intn(4)
	}
	ops := []rslStep{}
	made := 0
	dead := false // an annotation without ids has been written: the tip no longer parses
	policyMode := r.Chance(30) // policy / attestation recorders are used; the policy refs are left to them
	refs := rslRefs
	if policyMode {
		refs = rslRefs[:2]
		legacy = 0
	}
	refCount := map[string]int{}
	twice := func() []string {
		res := []string{}
		for _, ref := range rslRefs {
			if refCount[ref] >= 2 {
				res = append(res, ref)
			}
		}
		return res
	}
	for i := 0; i < n; i++ {
		s := rslStep{Mode: "api"}
		if i < legacy {
			s.Mode = "legacy"
		}
		switch x := r.Intn(100); {
		case policyMode && x >= 70:
			s.K = []string{"pstage", "papply", "papply", "attest"}[r.Intn(4)]
		case x < 12 && len(twice()) > 0 && i >= legacy:
			s.K = "skip"
		case x < 50 || made == 0:
			s.K = "ref"
		case x < 65 && s.Mode == "api":
			s.K = "prop"
		case x < 65:
			s.K = "ref"
		default:
			s.K = "ann"
		}
		willFail := dead && s.Mode == "api"
		switch s.K {
		case "skip":
			cands := twice()
			s.Ref = cands[r.Intn(len(cands))]
			if r.Chance(10) {
				s.Ref = rslRefs[r.Intn(len(rslRefs))]
			}
			// whether it appends is decided by the log; the generator only needs ids that exist
			willFail = true
		case "pstage", "papply", "attest":
			willFail = true // may or may not append; named ids stay within what certainly exists
		case "ref", "prop":
			s.Ref = refs[r.Intn(len(refs))]
			if r.Chance(10) {
				s.Ref = []string{"refs/heads/with space", "refs/tags/v1", "refs/heads/ünï", "x"}[r.Intn(4)]
			}
			s.Target = r.Intn(len(rslTargetParents))
			if s.K == "prop" {
				s.Repo = rslUpstreams[r.Intn(len(rslUpstreams))]
				s.UpEntry = r.Intn(len(rslTargetParents))
			}
		case "ann":
			k := 1 + r.Intn(3)
			for j := 0; j < k; j++ {
				s.IDs = append(s.IDs, r.Intn(made))
			}
			// position of a bad identifier: anywhere, but often NOT the last one (a check that only
			// looks at the last identifier must not pass)
			badPos := r.Intn(len(s.IDs))
			if len(s.IDs) > 1 && r.Chance(60) {
				badPos = r.Intn(len(s.IDs) - 1)
			}
			switch x := r.Intn(100); {
			case x < 12:
				s.IDs[badPos] = -1 // a commit that is not an RSL entry
				willFail = true
			case x < 24:
				s.IDs[badPos] = -2 // an object that does not exist
				willFail = true
			case x < 27 && allowEmptyAnn && i >= legacy:
				s.IDs = []int{}
				if !willFail {
					dead = true
				}
			}
			s.Skip = r.Bool()
			if r.Chance(40) {
				s.Msg = []string{"note", "revoked: bad push", "multi\nline\nmessage", "number: 7", "-----BEGIN MESSAGE-----"}[r.Intn(5)]
			}
		}
		if dead && s.K == "ann" && len(s.IDs) > 0 {
			// ids of commits are still fine to name; the operation fails when reading the tip
			willFail = willFail || s.Mode == "api"
		}
		if !willFail {
			made++
			if s.K == "ref" || s.K == "prop" {
				refCount[s.Ref]++
			}
		}
		ops = append(ops, s)
	}
	return ops
}

func c03Run(t *testing.T, w *rslWorld, in c03In, id int, out *Out) {
	w.reset()
	impl := c03Impl{Steps: []c03Step{}}
	for _, s := range in.Ops {
		err := w.apply(s)
		st := c03Step{Class: rslErrClass(err), Chain: w.chain()}
		if st.Class == "other" {
			st.Err = err.Error()
		}
		impl.Steps = append(impl.Steps, st)
	}
	if err := out.Emit(c03Line{Prop: "C03", ID: id, In: in, Impl: impl}); err != nil {
		t.Fatal(err)
	}
}

func TestC03(t *testing.T) {
	seed := uint64(envInt("VERIF_SEED", 1))
	n := envInt("VERIF_N", 30)
	shard := envInt("VERIF_SHARD", 0)
	tier := envStr("VERIF_TIER", "quick")
	out, err := OpenOut()
	if err != nil {
		t.Fatal(err)
	}
	defer out.Close()

	w := newRslWorld(t)
	if replay := ReplayInputs[c03In](t); replay != nil {
		for i, c := range replay {
			c03Run(t, w, c, i+1, out)
		}
		return
	}

	rng := NewRng(seed*1000003 + uint64(shard))
	id := shard*1000000 + 1
	for i := 0; i < n; i++ {
		maxOps := 12
		if rng.Chance(10) {
			maxOps = 30
		}
		if tier == "thorough" && rng.Chance(3) {
			maxOps = 120
		}
		in := c03In{Targets: rslTargetParents, Ops: genC03(rng, maxOps, true)}
		c03Run(t, w, in, id, out)
		id++
	}
}
