package harness

// C20 — hook scripts stay inside the sandbox API and stop within their timeout.
//
// Line kinds (field in.kind):
//   graph   : the environment graph of a real LuaEnvironment (c20_graph.go) plus
//             what a script running INSIDE the sandbox can enumerate by itself
//   probe   : an escape attempt: reach a (forbidden or allowed) name through one
//             of several access routes; exit code 7 = the value was reached
//   write   : an attempt to modify a library table; 7 = the table changed
//   retval  : scripts returning non-numbers / several values / nothing
//   timing  : non-terminating scripts under a 1 s timeout; wall time measured
//   hooksel : Repository.InvokeHooksForStage on a real repository with an
//             applied policy declaring hooks for principals
//
// The script text is a deterministic function of the abstract input
// (c20Script), so replaying `in` re-runs exactly the same script.

import (
	"context"
	"errors"
	"fmt"
	"path/filepath"
	"regexp"
	"sort"
	"strings"
	"testing"
	"time"

	"github.com/gittuf/gittuf/experimental/gittuf"
	"github.com/gittuf/gittuf/internal/dev"
	"github.com/gittuf/gittuf/internal/luasandbox"
	lsopts "github.com/gittuf/gittuf/internal/luasandbox/options/luasandbox"
	"github.com/gittuf/gittuf/internal/policy"
	"github.com/gittuf/gittuf/pkg/rsl"
	sslibdsse "github.com/gittuf/gittuf/internal/third_party/go-securesystemslib/dsse"
	"github.com/gittuf/gittuf/internal/tuf"
	"github.com/gittuf/gittuf/pkg/gitinterface"
	lua "github.com/yuin/gopher-lua"
)

type c20Hook struct {
	Name       string `json:"name"`
	Stages     []int  `json:"stages"`     // 0 = pre-commit, 1 = pre-push
	Principals []int  `json:"principals"` // indices into in.principals
	Ret        int    `json:"ret"`        // what the hook script returns in a pristine sandbox
	Script     string `json:"script,omitempty"` // ret | set (leaves globals behind) | read (returns 77 if it sees them)
}
type c20Principal struct {
	ID     int   `json:"id"`
	Person bool  `json:"person"`
	Keys   []int `json:"keys"`
}
type c20In struct {
	Kind string `json:"kind"`
	// probe
	Path []string `json:"path,omitempty"`
	Via  string   `json:"via,omitempty"`
	// write
	Table string `json:"table,omitempty"`
	Key   string `json:"key,omitempty"`
	How   string `json:"how,omitempty"`
	Val   string `json:"val,omitempty"`
	// retval
	Ret []string `json:"ret,omitempty"`
	// timing
	Family   string `json:"family,omitempty"`
	Size     int    `json:"size,omitempty"`
	TimeoutS int    `json:"timeout_s,omitempty"`
	SlackMs  int    `json:"slack_ms,omitempty"`
	// hooksel
	Hooks      []c20Hook      `json:"hooks,omitempty"`
	Principals []c20Principal `json:"principals,omitempty"`
	Signer     int            `json:"signer,omitempty"`
	Stage      int            `json:"stage,omitempty"`
}
type c20Impl struct {
	Class string `json:"class"` // ok | error | deadline | panic | hung   (hooksel: ok | nohooksdefined | nohooks | noprincipal | other)
	Code  int    `json:"code"`
	// timing
	WallMs int `json:"wall_ms,omitempty"`
	// graph
	Graph      *c20Graph `json:"graph,omitempty"`
	LuaSeen    []int     `json:"lua_seen"`
	LuaUnknown int       `json:"lua_unknown"`
	LuaClass   string    `json:"lua_class,omitempty"`
	// hooksel
	Ran []string `json:"ran,omitempty"`
	Err string   `json:"err,omitempty"`
}
type c20Line struct {
	Prop string  `json:"prop"`
	ID   int     `json:"id"`
	In   c20In   `json:"in"`
	Impl c20Impl `json:"impl"`
	Meta string  `json:"meta,omitempty"`
}

// ---------------------------------------------------------------- scripts

var c20Ident = regexp.MustCompile(`^[A-Za-z_][A-Za-z0-9_]*$`)

func luaQuote(s string) string { return fmt.Sprintf("%q", s) }

func c20PathExpr(base string, rest []string) string {
	e := base
	for _, p := range rest {
		e += "[" + luaQuote(p) + "]"
	}
	return e
}

// c20ProbeScript: 7 if the value named by path is non-nil when fetched through
// route `via`, else 0. The fetch runs under pcall: a missing route is "blocked".
func c20ProbeScript(path []string, via string) string {
	if len(path) == 0 {
		path = []string{"nil"}
	}
	direct := c20PathExpr(path[0], path[1:])
	if !c20Ident.MatchString(path[0]) {
		direct = c20PathExpr("getfenv(0)", path)
	}
	var body string
	switch via {
	case "direct":
		body = "return " + direct
	case "coroutine":
		body = "return coroutine.wrap(function() return " + direct + " end)()"
	case "cocreate":
		body = "local co = coroutine.create(function() coroutine.yield(" + direct + ") end) local ok2, v = coroutine.resume(co) if ok2 then return v end return nil"
	case "xpcall":
		body = "local ok, v = xpcall(function() return " + direct + " end, function(e) return e end) if ok then return v end return nil"
	case "getfenv0":
		body = "return " + c20PathExpr("getfenv(0)", path)
	case "getfenv1":
		body = "return " + c20PathExpr("getfenv(1)", path)
	case "getfenvnoarg":
		body = "return " + c20PathExpr("getfenv()", path)
	case "getfenvapi":
		body = "return " + c20PathExpr("getfenv(gitReadBlob)", path)
	case "getfenvlua":
		body = "return " + c20PathExpr("getfenv(strSplit)", path)
	case "getfenvlib":
		body = "return " + c20PathExpr("getfenv(string.find)", path)
	case "setfenvself":
		// give the running function a fresh environment inheriting nothing, then restore through getfenv(0)
		body = "local g = getfenv(0) setfenv(1, {}) local v = " + c20PathExpr("g", path) + " return v"
	case "pairs":
		body = "local cur = getfenv(0) for _, name in ipairs({" + quoteList(path) + "}) do local nxt = nil for k, v in pairs(cur) do if k == name then nxt = v end end cur = nxt if cur == nil then return nil end end return cur"
	case "next":
		body = "local cur = getfenv(0) for _, name in ipairs({" + quoteList(path) + "}) do local nxt, k, v = nil, next(cur) while k ~= nil do if k == name then nxt = v end k, v = next(cur, k) end cur = nxt if cur == nil then return nil end end return cur"
	case "select":
		body = "return (select(2, 1, " + direct + "))"
	case "unpack":
		body = "return (unpack({" + direct + "}))"
	case "strvalue":
		// methods through a string VALUE: ("x").rep, ("x"):dump ...
		body = "return " + c20PathExpr(`("x")`, path[1:])
	case "strindex":
		body = "return " + c20PathExpr(`("x").__index`, path[1:])
	default:
		body = "return " + direct
	}
	return "local ok, v = pcall(function() " + body + " end)\nif ok and v ~= nil then return 7 end\nreturn 0"
}

func quoteList(l []string) string {
	q := make([]string, len(l))
	for i, s := range l {
		q[i] = luaQuote(s)
	}
	return strings.Join(q, ", ")
}

// c20WriteScript: 7 if T[key] differs after the attempted write, else 0.
func c20WriteScript(table, key, how, val string) string {
	var t string
	switch how {
	case "assign":
		if table == "_G" {
			t = "getfenv(0)"
		} else {
			t = table
		}
	case "getfenv":
		if table == "_G" {
			t = "getfenv(1)"
		} else {
			t = "getfenv(0)[" + luaQuote(table) + "]"
		}
	case "strmeta": // the string module is also the metatable of every string
		t = `("x").__index`
	case "tinsert": // table.insert writes raw (no __newindex): T[1] appears
		if table == "_G" {
			t = "getfenv(0)"
		} else {
			t = table
		}
		return "local ok, T = pcall(function() return " + t + " end)\nif not ok or type(T) ~= \"table\" then return 0 end\n" +
			"pcall(function() table.insert(T, 12345) end)\nif T[1] ~= nil then return 7 end\nreturn 0"
	case "setfenvapi": // give the Lua-implemented API function an empty environment: it can no longer see string / table
		return "local ok0 = pcall(strSplit, \"a b\", \" \")\npcall(function() setfenv(strSplit, {}) end)\nlocal ok1 = pcall(strSplit, \"a b\", \" \")\n" +
			"if ok0 and not ok1 then return 7 end\nreturn 0"
	case "global": // plain global assignment (table == "_G")
		t = ""
	default:
		t = table
	}
	v := map[string]string{"nil": "nil", "fn": "function() return 1 end", "num": "12345", "tbl": "{}", "str": `"s"`}[val]
	if v == "" {
		v = "nil"
	}
	if t == "" && c20Ident.MatchString(key) {
		return "local before = " + key + "\npcall(function() " + key + " = " + v + " end)\nif " + key + " ~= before then return 7 end\nreturn 0"
	}
	if t == "" {
		t = "getfenv(0)"
	}
	k := luaQuote(key)
	return "local ok, T = pcall(function() return " + t + " end)\nif not ok or type(T) ~= \"table\" then return 0 end\n" +
		"local before = T[" + k + "]\npcall(function() T[" + k + "] = " + v + " end)\nif T[" + k + "] ~= before then return 7 end\nreturn 0"
}

func c20RetScript(ret []string) string {
	vals := []string{}
	for _, r := range ret {
		switch {
		case r == "none":
		case r == "nil":
			vals = append(vals, "nil")
		case r == "str":
			vals = append(vals, `"text"`)
		case r == "numstr":
			vals = append(vals, `"0"`)
		case r == "tbl":
			vals = append(vals, "{0}")
		case r == "bool":
			vals = append(vals, "false")
		case r == "true":
			vals = append(vals, "true")
		case r == "fn":
			vals = append(vals, "function() return 0 end")
		case r == "co":
			vals = append(vals, "coroutine.create(function() return 0 end)")
		case r == "ud":
			vals = append(vals, "newproxy()")
		case strings.HasPrefix(r, "num:"):
			vals = append(vals, r[4:])
		}
	}
	if len(ret) == 1 && ret[0] == "nostmt" {
		return "local x = 0\nhookExitCode = 0"
	}
	return "hookExitCode = 0\nreturn " + strings.Join(vals, ", ")
}

// c20TimingScript: scripts that never return by themselves.
func c20TimingScript(family string, size int) string {
	// pattern families: `size` = length of the subject, 7 greedy a* groups and a final b that never matches
	as := strings.Repeat("a", 30)
	pat := strings.Repeat("a*", 7) + "b"
	if strings.HasPrefix(family, "pattern_") {
		as = strings.Repeat("a", size)
	}
	switch family {
	case "tight":
		return "while true do end"
	case "tight_pcall":
		return "while true do pcall(function() while true do end end) end"
	case "tight_xpcall":
		return "while true do xpcall(function() while true do end end, function(e) while true do end end) end"
	case "recursion":
		return "local function f(n) return 1 + f(n + 1) end\nreturn f(1)"
	case "recursion_pcall":
		return "local function f() pcall(f) pcall(f) end\nf()\nwhile true do end"
	case "tailspin": // bounded number of tail calls, then a tight loop inside the last one
		return fmt.Sprintf("local n = 0\nlocal function f() n = n + 1 if n > %d then while true do end end return f() end\nf()", size)
	case "pingpong":
		return "local a, b\na = coroutine.create(function() while true do coroutine.resume(b) end end)\nb = coroutine.create(function() while true do coroutine.yield() end end)\ncoroutine.resume(a)\nwhile true do end"
	case "cowrap":
		return "local gen = coroutine.wrap(function() while true do coroutine.yield(1) end end)\nwhile true do gen() end"
	case "coinner":
		return "coroutine.wrap(function() while true do end end)()"
	case "pattern_find":
		return "string.find(\"" + as + "\", \"" + pat + "\")\nwhile true do end"
	case "pattern_match":
		return "local s = \"" + as + "\"\ns:match(\"" + pat + "\")\nwhile true do end"
	case "pattern_gsub":
		return "string.gsub(\"" + as + "\", \"" + pat + "\", \"\")\nwhile true do end"
	case "format":
		return "local s = string.format(\"%99999999d\", 1)\nwhile true do s = string.format(\"%099d\", 1) end"
	case "concat":
		return "local t = {}\nfor i = 1, 2000 do t[i] = \"xxxxxxxxxxxxxxxxxxxxxxxxxxxxxxxxxxxxxxxxxxxxxxxxxx\" end\nwhile true do local s = table.concat(t) end"
	case "sortcmp":
		return "table.sort({3, 2, 1}, function(a, b) while true do end end)"
	case "gsubfn":
		return "string.gsub(\"abc\", \".\", function(c) while true do end end)"
	case "regexapi":
		return "while true do matchRegex(\"(a*)*b\", \"" + as + as + "\") end"
	case "split":
		return "local s = \"a b c d e f g h\"\nwhile true do strSplit(s, \" \") end"
	case "doubling": // bounded memory: 2^20 bytes, then spin
		return "local s = \"x\"\nfor i = 1, 20 do s = s .. s end\nwhile true do local u = s:upper() end"
	}
	return "while true do end"
}

func c20Script(in c20In) string {
	switch in.Kind {
	case "probe":
		return c20ProbeScript(in.Path, in.Via)
	case "write":
		return c20WriteScript(in.Table, in.Key, in.How, in.Val)
	case "retval":
		return c20RetScript(in.Ret)
	case "timing":
		return c20TimingScript(in.Family, in.Size)
	}
	return "return 0"
}

// ---------------------------------------------------------------- running

func c20Classify(err error) string {
	switch {
	case err == nil:
		return "ok"
	case strings.Contains(err.Error(), context.DeadlineExceeded.Error()):
		return "deadline"
	default:
		return "error"
	}
}

// c20Run runs one script in a fresh environment with the given timeout (s).
// The clock starts before the environment is created, as the context does.
func c20Run(t *testing.T, repo *gitinterface.Repository, src string, timeoutS int, hard time.Duration) c20Impl {
	type res struct {
		code int
		err  error
		pan  any
	}
	done := make(chan res, 1)
	t0 := time.Now()
	go func() {
		var r res
		defer func() {
			if p := recover(); p != nil {
				r.pan = p
			}
			done <- r
		}()
		env, err := luasandbox.NewLuaEnvironment(ctx, repo, lsopts.WithLuaTimeout(timeoutS))
		if err != nil {
			r.err = err
			return
		}
		defer env.Cleanup()
		r.code, r.err = env.RunScript(src, lua.LTable{})
	}()
	select {
	case r := <-done:
		wall := int(time.Since(t0).Milliseconds())
		if r.pan != nil {
			return c20Impl{Class: "panic", Code: -2, WallMs: wall, Err: fmt.Sprint(r.pan)}
		}
		return c20Impl{Class: c20Classify(r.err), Code: r.code, WallMs: wall}
	case <-time.After(hard):
		return c20Impl{Class: "hung", Code: -3, WallMs: int(time.Since(t0).Milliseconds())}
	}
}

// c20LuaWalkScript enumerates, from inside the sandbox, every table / function /
// userdata / thread a script can get hold of without help: the environment
// tables (getfenv, if present), every global named in the Go-side graph, the
// string methods through a string value, the environment of every function
// found, and the metatables if getmetatable is reachable. The addresses are
// smuggled out through error().
func c20LuaWalkScript(globalNames []string) string {
	var b strings.Builder
	b.WriteString(`local seen, out, n = {}, {}, 0
local walk
walk = function(v)
  local t = type(v)
  if t ~= "table" and t ~= "function" and t ~= "userdata" and t ~= "thread" then return end
  if seen[v] then return end
  seen[v] = true
  n = n + 1
  out[n] = tostring(v)
  if t == "table" then
    for k, x in pairs(v) do walk(k) walk(x) end
  end
  if t == "function" and getfenv then
    local ok, e = pcall(getfenv, v)
    if ok then walk(e) end
  end
  if getmetatable then
    local ok, m = pcall(getmetatable, v)
    if ok then walk(m) end
  end
end
if getfenv then walk(getfenv(0)) walk(getfenv(1)) walk(getfenv()) end
pcall(function() walk(("x").__index) end)
pcall(function() walk(_G) end)
`)
	for _, g := range globalNames {
		if c20Ident.MatchString(g) {
			b.WriteString("pcall(function() walk(" + g + ") end)\n")
		}
	}
	b.WriteString("if getmetatable then for _, v in ipairs({\"x\", 1, true, walk}) do pcall(function() walk(getmetatable(v)) end) end end\n")
	b.WriteString("error(\"@@\" .. table.concat(out, \",\") .. \"@@\")\n")
	return b.String()
}

var c20WalkOut = regexp.MustCompile(`@@([^@]*)@@`)

func c20GraphLine(t *testing.T, repo *gitinterface.Repository) c20Impl {
	env, err := luasandbox.NewLuaEnvironment(ctx, repo, lsopts.WithLuaTimeout(30))
	if err != nil {
		t.Fatal(err)
	}
	defer env.Cleanup()
	g, addr := c20Extract(env.VerifLState())
	impl := c20Impl{Class: "ok", Graph: g, LuaSeen: []int{}}
	names := []string{}
	for _, e := range g.Edges {
		if e.From == g.Roots[0] && strings.HasPrefix(e.Label, "f:") {
			names = append(names, e.Label[2:])
		}
	}
	sort.Strings(names)
	_, rerr := env.RunScript(c20LuaWalkScript(names), lua.LTable{})
	if rerr == nil {
		impl.LuaClass = "noerror"
		return impl
	}
	m := c20WalkOut.FindStringSubmatch(rerr.Error())
	if m == nil {
		impl.LuaClass = "error"
		impl.Err = rerr.Error()
		return impl
	}
	impl.LuaClass = "ok"
	seen := map[int]bool{}
	for _, a := range strings.Split(m[1], ",") {
		if i := strings.LastIndex(a, " "); i >= 0 {
			a = a[i+1:]
		}
		if id, ok := addr[a]; ok {
			seen[id] = true
		} else if a != "" {
			impl.LuaUnknown++
		}
	}
	for id := range seen {
		impl.LuaSeen = append(impl.LuaSeen, id)
	}
	sort.Ints(impl.LuaSeen)
	return impl
}

// ---------------------------------------------------------------- hook selection

func c20HookSel(t *testing.T, in c20In) c20Impl {
	t.Setenv(dev.DevModeKey, "1")
	dir := scratchRoot(t)
	repo := gitinterface.CreateTestGitRepository(t, filepath.Join(dir, "r"), false)

	// principals: person principals live in the primary rule file, key principals too
	const rootKey = 7
	spec := &PolicySpec{Root: RootSpec{RootKeys: []int{rootKey}, RootThreshold: 1, TargetsKeys: []int{rootKey}, TargetsThreshold: 1, Signers: []int{rootKey}}}
	file := RuleFileSpec{Name: "targets", Signers: []int{rootKey}}
	pnames := make([]string, len(in.Principals))
	for i, p := range in.Principals {
		ps := PrincipalSpec{ID: p.ID, Person: p.Person, Keys: p.Keys}
		file.Principals = append(file.Principals, ps)
		pnames[i] = ps.Name(t)
	}
	spec.Files = []RuleFileSpec{file}

	root := BuildRootMetadata(t, spec.Root)
	for _, h := range in.Hooks {
		// every hook must see a pristine sandbox: "set" leaves a global and a replaced API behind,
		// "read" returns 77 if it can see either; in a fresh sandbox all three kinds return h.Ret
		src := fmt.Sprintf("return %d\n", h.Ret)
		switch h.Script {
		case "set":
			src = fmt.Sprintf("polluted = 1\nstrSplit = function() return {} end\nreturn %d\n", h.Ret)
		case "read":
			src = fmt.Sprintf("if polluted ~= nil then return 77 end\nif #strSplit(\"a,b\", \",\") ~= 2 then return 77 end\nreturn %d\n", h.Ret)
		}
		blob, err := repo.WriteBlob([]byte(src))
		if err != nil {
			t.Fatal(err)
		}
		stages := []tuf.HookStage{}
		for _, s := range h.Stages {
			stages = append(stages, tuf.HookStage(s))
		}
		ids := []string{}
		for _, pi := range h.Principals {
			ids = append(ids, pnames[pi])
		}
		if _, err := root.AddHook(stages, h.Name, ids, map[string]string{gitinterface.GitBlobHashName: blob.String()}, tuf.HookEnvironmentLua, 5); err != nil {
			t.Fatal(err)
		}
	}
	st := &policy.State{Metadata: &policy.StateMetadata{}}
	st.Metadata.RootEnvelope = signEnv(t, root, spec.Root.Signers)
	st.Metadata.TargetsEnvelope = signEnv(t, BuildTargetsMetadata(t, spec, file), file.Signers)
	if err := st.Commit(repo, "policy", false, false); err != nil {
		t.Fatal(err)
	}
	tip, err := repo.GetReference(policy.PolicyStagingRef)
	if err != nil {
		t.Fatal(err)
	}
	if err := repo.SetReference(policy.PolicyRef, tip); err != nil {
		t.Fatal(err)
	}
	if err := rsl.NewReferenceEntry(policy.PolicyRef, tip).Commit(repo, false); err != nil {
		t.Fatal(err)
	}

	r, err := gittuf.LoadRepository(filepath.Join(dir, "r"))
	if err != nil {
		t.Fatal(err)
	}
	var signer sslibdsse.Signer = Keys(t, in.Signer+1)[in.Signer]
	impl := c20Impl{Ran: []string{}}
	func() {
		defer func() {
			if p := recover(); p != nil {
				impl.Class = "panic"
				impl.Err = fmt.Sprint(p)
			}
		}()
		codes, err := r.InvokeHooksForStage(ctx, signer, tuf.HookStage(in.Stage))
		switch {
		case err == nil:
			impl.Class = "ok"
			for name, code := range codes {
				impl.Ran = append(impl.Ran, fmt.Sprintf("%s=%d", name, code))
			}
			sort.Strings(impl.Ran)
		case errors.Is(err, gittuf.ErrNoHooksFoundForPrincipal):
			impl.Class = "nohooks"
		case errors.Is(err, tuf.ErrNoHooksDefined):
			impl.Class = "nohooksdefined"
		case errors.Is(err, tuf.ErrPrincipalNotFound):
			impl.Class = "noprincipal"
		default:
			impl.Class = "other"
			impl.Err = err.Error()
		}
	}()
	return impl
}

// ---------------------------------------------------------------- generation

var c20Forbidden = [][]string{
	{"os"}, {"io"}, {"debug"}, {"package"}, {"require"}, {"module"}, {"dofile"}, {"load"}, {"loadstring"}, {"loadfile"},
	{"getmetatable"}, {"setmetatable"}, {"rawget"}, {"rawset"}, {"rawequal"}, {"rawlen"}, {"collectgarbage"}, {"_G"},
	{"os", "execute"}, {"os", "getenv"}, {"os", "remove"}, {"os", "exit"}, {"io", "open"}, {"io", "popen"}, {"io", "stdout"},
	{"debug", "getregistry"}, {"debug", "setmetatable"}, {"debug", "getupvalue"}, {"package", "loaders"}, {"package", "loadlib"},
	{"package", "loaded"}, {"package", "path"}, {"string", "dump"}, {"string", "rep"}, {"math", "randomseed"}, {"channel"},
	{"channel", "make"},
}
var c20Allowed = [][]string{
	{"string", "find"}, {"string", "format"}, {"string", "gmatch"}, {"string", "__index"}, {"math", "floor"}, {"math", "pi"}, {"math", "huge"},
	{"math", "random"}, {"table", "insert"}, {"table", "sort"}, {"coroutine", "create"}, {"coroutine", "wrap"}, {"pcall"}, {"xpcall"},
	{"getfenv"}, {"setfenv"}, {"newproxy"}, {"_printregs"}, {"print"}, {"gitReadBlob"}, {"gitGetStagedFilePaths"}, {"matchRegex"},
	{"strSplit"}, {"hookParameters"}, {"hookExitCode"}, {"_VERSION"}, {"_GOPHER_LUA_VERSION"}, {"string"}, {"table"}, {"math"},
	{"coroutine"}, {"tostring"}, {"type"}, {"next"}, {"pairs"}, {"ipairs"}, {"unpack"}, {"select"}, {"error"}, {"assert"}, {"tonumber"},
	{"string", "nosuch"}, {"nosuch"}, {"table", "getn", "x"}, {"string", "find", "x"},
}
var c20Vias = []string{"direct", "coroutine", "cocreate", "xpcall", "getfenv0", "getfenv1", "getfenvnoarg", "getfenvapi", "getfenvlua",
	"getfenvlib", "setfenvself", "pairs", "next", "select", "unpack"}

func genC20Probe(r *Rng) c20In {
	var path []string
	if r.Chance(60) {
		path = c20Forbidden[r.Intn(len(c20Forbidden))]
	} else {
		path = c20Allowed[r.Intn(len(c20Allowed))]
	}
	via := c20Vias[r.Intn(len(c20Vias))]
	if path[0] == "string" && len(path) > 1 && r.Chance(50) {
		if r.Bool() {
			via = "strvalue"
		} else {
			via = "strindex"
		}
	}
	return c20In{Kind: "probe", Path: path, Via: via}
}

func genC20Write(r *Rng) c20In {
	tables := map[string][]string{
		"string":    {"find", "format", "gsub", "len", "__index", "gmatch", "sub", "upper"},
		"math":      {"pi", "huge", "floor", "random", "max"},
		"table":     {"insert", "concat", "sort", "remove"},
		"coroutine": {"create", "wrap", "yield", "resume"},
		"_G": {"tostring", "pcall", "type", "pairs", "error", "getfenv", "gitReadBlob", "matchRegex", "strSplit", "string", "math",
			"hookParameters", "_VERSION"},
	}
	names := []string{"string", "math", "table", "coroutine", "_G"}
	tb := names[r.Intn(len(names))]
	in := c20In{Kind: "write", Table: tb}
	if r.Chance(60) {
		ks := tables[tb]
		in.Key = ks[r.Intn(len(ks))]
		in.Val = []string{"nil", "fn", "num", "tbl"}[r.Intn(4)]
	} else {
		in.Key = []string{"rep", "dump", "randomseed", "mine", "x1", "os", "__newindex", "__metatable", "zzz"}[r.Intn(9)]
		in.Val = []string{"fn", "num", "tbl", "str"}[r.Intn(4)]
	}
	hows := []string{"assign", "assign", "getfenv", "getfenv", "tinsert"}
	if tb == "string" {
		hows = append(hows, "strmeta")
	}
	if tb == "_G" {
		hows = append(hows, "global", "global", "setfenvapi")
	}
	in.How = hows[r.Intn(len(hows))]
	if in.How == "tinsert" {
		in.Key, in.Val = "1", "num"
	}
	if in.How == "setfenvapi" {
		in.Key, in.Val = "strSplit", "tbl"
	}
	return in
}

func genC20Ret(r *Rng) c20In {
	kinds := []string{"nil", "str", "numstr", "tbl", "bool", "true", "fn", "co", "ud", "num:0", "num:3", "num:7", "num:-1", "num:256"}
	switch r.Intn(8) {
	case 0:
		return c20In{Kind: "retval", Ret: []string{"none"}}
	case 1:
		return c20In{Kind: "retval", Ret: []string{"nostmt"}}
	}
	n := 1 + r.Intn(3)
	ret := []string{}
	for i := 0; i < n; i++ {
		ret = append(ret, kinds[r.Intn(len(kinds))])
	}
	return c20In{Kind: "retval", Ret: ret}
}

// c20LoadFactor measures how much slower than an idle machine this process currently runs (a fixed
// CPU loop of roughly 40 ms idle plus a 50 ms sleep): the timing slack is scaled by it so that a
// loaded machine does not turn scheduling delay into a false alarm.
func c20LoadFactor() float64 {
	t0 := time.Now()
	x := uint64(1)
	for i := 0; i < 40_000_000; i++ {
		x = x*6364136223846793005 + 1442695040888963407
	}
	time.Sleep(50 * time.Millisecond)
	el := time.Since(t0).Seconds()
	if x == 42 {
		el += 1e-9
	}
	f := el / 0.09
	if f < 1 {
		f = 1
	}
	if f > 30 {
		f = 30
	}
	return f
}

func genC20Timing(r *Rng) c20In {
	fams := []string{"tight", "tight_pcall", "tight_xpcall", "recursion", "recursion_pcall", "pingpong", "cowrap", "coinner", "format",
		"concat", "sortcmp", "gsubfn", "regexapi", "split", "doubling", "tailspin", "pattern_find", "pattern_match", "pattern_gsub"}
	in := c20In{Kind: "timing", Family: fams[r.Intn(len(fams))], TimeoutS: 1, SlackMs: int(2000 * c20LoadFactor())}
	switch in.Family {
	case "tailspin":
		in.Size = 4000000
	case "pattern_find", "pattern_match", "pattern_gsub":
		in.Size = 37
	}
	return in
}

func genC20HookSel(r *Rng) c20In {
	in := c20In{Kind: "hooksel"}
	np := 1 + r.Intn(3)
	shared := r.Chance(25)
	for i := 0; i < np; i++ {
		p := c20Principal{ID: i + 1, Person: r.Chance(70)}
		nk := 1
		if p.Person && r.Bool() {
			nk = 2
		}
		for len(p.Keys) < nk {
			k := r.Intn(5)
			if !shared {
				k = (i*2 + len(p.Keys)) % 6
			}
			dup := false
			for _, x := range p.Keys {
				dup = dup || x == k
			}
			if !dup {
				p.Keys = append(p.Keys, k)
			}
		}
		if !p.Person {
			p.ID = 1000 + p.Keys[0]
			for _, q := range in.Principals {
				if q.ID == p.ID {
					p.Person, p.ID = true, i+1
				}
			}
		}
		in.Principals = append(in.Principals, p)
	}
	nh := r.Intn(4)
	for i := 0; i < nh; i++ {
		h := c20Hook{Name: fmt.Sprintf("h%d", i), Ret: []int{0, 0, 1, 3}[r.Intn(4)], Script: []string{"ret", "ret", "set", "read", "read"}[r.Intn(5)]}
		switch r.Intn(3) {
		case 0:
			h.Stages = []int{0}
		case 1:
			h.Stages = []int{1}
		default:
			h.Stages = []int{0, 1}
		}
		for pi := range in.Principals {
			if r.Chance(50) {
				h.Principals = append(h.Principals, pi)
			}
		}
		if h.Principals == nil {
			h.Principals = []int{}
		}
		in.Hooks = append(in.Hooks, h)
	}
	if r.Chance(30) {
		// targeted family: one principal runs three hooks of the same stage, one of which leaves
		// globals behind - the other two must not see them, in whichever order they run
		in.Hooks = nil
		for i, k := range []string{"read", "set", "read"} {
			in.Hooks = append(in.Hooks, c20Hook{Name: fmt.Sprintf("h%d", i), Ret: []int{0, 1, 3}[r.Intn(3)], Script: k, Stages: []int{0}, Principals: []int{0}})
		}
		in.Signer = in.Principals[0].Keys[0]
		in.Stage = 0
		return in
	}
	// signer: mostly a key of some principal, sometimes the root key (a root principal without hooks) or an outsider
	switch x := r.Intn(10); {
	case x < 7:
		p := in.Principals[r.Intn(len(in.Principals))]
		in.Signer = p.Keys[r.Intn(len(p.Keys))]
	case x < 8:
		in.Signer = 7
	default:
		in.Signer = 6
	}
	in.Stage = 0 // pre-commit: pre-push additionally needs a remote; the stage filter is exercised by hooks declared for stage 1 only
	return in
}

func c20Emit(t *testing.T, out *Out, id int, in c20In, impl c20Impl, meta string) {
	if err := out.Emit(c20Line{Prop: "C20", ID: id, In: in, Impl: impl, Meta: meta}); err != nil {
		t.Fatal(err)
	}
}

func c20RunCase(t *testing.T, repo *gitinterface.Repository, out *Out, id int, in c20In) {
	switch in.Kind {
	case "graph":
		c20Emit(t, out, id, in, c20GraphLine(t, repo), "")
	case "hooksel":
		c20Emit(t, out, id, in, c20HookSel(t, in), "")
	case "timing":
		src := c20Script(in)
		impl := c20Run(t, repo, src, in.TimeoutS, time.Duration(in.TimeoutS)*time.Second+120*time.Second)
		c20Emit(t, out, id, in, impl, src)
	default:
		src := c20Script(in)
		impl := c20Run(t, repo, src, 5, 60*time.Second)
		impl.WallMs = 0
		c20Emit(t, out, id, in, impl, src)
	}
}

func TestC20(t *testing.T) {
	seed := uint64(envInt("VERIF_SEED", 1))
	n := envInt("VERIF_N", 150)
	shard := envInt("VERIF_SHARD", 0)
	out, err := OpenOut()
	if err != nil {
		t.Fatal(err)
	}
	defer out.Close()
	repo := NewRepo(t)

	if replay := ReplayInputs[c20In](t); replay != nil {
		for i, in := range replay {
			c20RunCase(t, repo, out, i+1, in)
		}
		return
	}

	rng := NewRng(seed*1000003 + uint64(shard))
	id := shard*1000000 + 1
	if shard == 0 {
		c20RunCase(t, repo, out, id, c20In{Kind: "graph"})
		id++
	}
	for i := 0; i < n; i++ {
		var in c20In
		switch x := rng.Intn(100); {
		case x < 52:
			in = genC20Probe(rng)
		case x < 74:
			in = genC20Write(rng)
		case x < 86:
			in = genC20Ret(rng)
		case x < 92:
			in = genC20Timing(rng)
		default:
			in = genC20HookSel(rng)
		}
		c20RunCase(t, repo, out, id, in)
		id++
	}
}
