package harness

import (
	"fmt"
	"testing"
)

// TestC09: approvals. A rule with threshold 1..3 over Person/Key principals; 0-2 GitHub apps
// (trusted or not); for every push, attestation states carrying authorizations and code-review
// approvals for the exact change or for another change, stored at the matching path or relocated
// to the path of the change under verification, signed by any subset of trusted / untrusted
// principals resp. by the app key / an outsider / nobody, recorded before or after the entry.
func TestC09(t *testing.T) {
	seed := uint64(envInt("VERIF_SEED", 1))
	n := envInt("VERIF_N", 10)
	shard := envInt("VERIF_SHARD", 0)
	out, err := OpenOut()
	if err != nil {
		t.Fatal(err)
	}
	defer out.Close()
	if replay := ReplayInputs[WorldIn](t); replay != nil {
		for i, w := range replay {
			replayWorld(t, "C09", i+1, w, out)
		}
		return
	}
	rng := NewRng(seed*1000003 + uint64(shard) + 909)
	for i := 0; i < n; i++ {
		c09Case(t, shard*1000000+i+1, rng.U64(), out)
	}
}

func c09Case(t *testing.T, id int, seed uint64, out *Out) {
	r := NewRng(seed)
	b := NewWorldBuilder(t)
	main := "refs/heads/main"
	apps := []AppSpec{}
	if r.Chance(80) {
		apps = append(apps, AppSpec{Name: "app", Key: kApp, Trusted: r.Chance(85)})
	}
	if r.Chance(45) {
		apps = append(apps, AppSpec{Name: "app2", Key: kApp + 1, Trusted: r.Chance(50)})
		if len(apps) == 2 && r.Chance(50) {
			// mixed trust: exactly one of the two apps is trusted
			apps[0].Trusted = !apps[1].Trusted
		}
	}
	pol := PolicySpec{
		Root: RootSpec{Version: 1, RootKeys: []int{kRoot}, RootThreshold: 1, TargetsKeys: []int{kTargets}, TargetsThreshold: 1, Signers: []int{kRoot}, Apps: apps},
	}
	file := RuleFileSpec{Name: "targets", Version: 1, Signers: []int{kTargets}}
	ids := []int{}
	sharedIdentity := r.Chance(35) // two persons registered the same reviewer identity: one approval, one credit
	for k := kDevFirst; k <= kDevFirst+3; k++ {
		if r.Chance(75) || (sharedIdentity && k <= kDevFirst+1) {
			idn := map[string]string{}
			if r.Chance(85) {
				idn["app"] = fmt.Sprintf("user%d", k)
			}
			if sharedIdentity && k <= kDevFirst+1 {
				idn["app"] = "shared-reviewer"
			}
			if r.Chance(30) {
				idn["app2"] = fmt.Sprintf("alt%d", k)
			}
			file.Principals = append(file.Principals, PrincipalSpec{ID: k, Person: true, Keys: []int{k}, Identities: idn})
			ids = append(ids, k)
		} else {
			file.Principals = append(file.Principals, PrincipalSpec{ID: 1000 + k, Keys: []int{k}})
			ids = append(ids, 1000+k)
		}
	}
	nP := 2 + r.Intn(3)
	if nP > len(ids) {
		nP = len(ids)
	}
	rulePs := ids[:nP]
	thr := 1 + r.Intn(min(nP, 3))
	if r.Chance(60) && nP >= 2 {
		thr = 2
	}
	file.Rules = []RuleSpec{{Name: "protect-main", Patterns: []string{"git:refs/heads/main"}, Principals: rulePs, Threshold: thr}}
	pol.Files = []RuleFileSpec{file}
	b.AddPolicy(pol, true)
	byID := pol.principalByID()
	ruleKeys := []int{}
	for _, pid := range rulePs {
		ruleKeys = append(ruleKeys, byID[pid].Keys[0])
	}
	pickKeys := func() []int {
		ks := []int{}
		for _, k := range ruleKeys {
			if r.Chance(45) {
				ks = append(ks, k)
			}
		}
		if r.Chance(20) {
			ks = append(ks, kOutsider)
		}
		if r.Chance(15) {
			ks = append(ks, kDevLast) // a developer outside the rule
		}
		return ks
	}
	otherTree := b.AddTree([]WFile{{"OTHER", 999}})
	var att WAtt
	var tip *int
	nblob := 0
	pushes := []int{}
	np := 1 + r.Intn(3)
	for pi := 0; pi < np; pi++ {
		nblob++
		tree := b.AddTree([]WFile{{"README", nblob}})
		// the change about to be recorded: (main, tip, tree)
		mkAtts := func() {
			newAtt := WAtt{}
			if r.Chance(70) {
				newAtt.Auths = append(newAtt.Auths, att.Auths...)
				newAtt.Gh = append(newAtt.Gh, att.Gh...)
			}
			if r.Chance(75) {
				a := WAuth{SRef: main, SFrom: tip, STo: tree, Ref: main, From: tip, To: tree, Signers: pickKeys()}
				switch x := r.Intn(10); {
				case x < 6: // exact
				case x < 8: // statement about another change, relocated to this change's path
					a.Ref, a.From, a.To = "refs/heads/other", nil, otherTree
				case x < 9: // statement about this ref but another tree, relocated
					a.To = otherTree
				default: // stored under another change's path, statement for this change
					a.SRef, a.SFrom, a.STo = "refs/heads/other", nil, otherTree
				}
				newAtt.Auths = append(newAtt.Auths, a)
			}
			for _, app := range apps {
				if !r.Chance(55) {
					continue
				}
				g := WGh{SRef: main, SFrom: tip, STo: tree, Ref: main, From: tip, To: tree, App: app.Name, Signers: []int{app.Key}, Approvers: []string{}, Dismissed: []string{}}
				for _, pid := range rulePs {
					ps := byID[pid]
					if idn, ok := ps.Identities["app"]; ok && (r.Chance(50) || (idn == "shared-reviewer" && r.Chance(60))) {
						listed := false
						for _, a := range append(append([]string{}, g.Approvers...), g.Dismissed...) {
							listed = listed || a == idn
						}
						if listed {
							// an identity is listed once (the attestation holds sets)
						} else if r.Chance(85) {
							g.Approvers = append(g.Approvers, idn)
						} else {
							g.Dismissed = append(g.Dismissed, idn)
						}
					}
					if idn, ok := ps.Identities["app2"]; ok && r.Chance(25) {
						g.Approvers = append(g.Approvers, idn)
					}
				}
				if r.Chance(15) || len(g.Approvers)+len(g.Dismissed) == 0 {
					g.Approvers = append(g.Approvers, "stranger")
				}
				switch x := r.Intn(10); {
				case x < 5:
				case x < 8:
					g.Ref, g.From, g.To = "refs/heads/other", nil, otherTree // relocated approval for another change
				case x < 9:
					g.Signers = []int{kOutsider}
				default:
					g.SRef, g.SFrom, g.STo = "refs/heads/other", nil, otherTree
				}
				newAtt.Gh = append(newAtt.Gh, g)
			}
			att = newAtt
			b.AddAtt(att)
		}
		after := r.Chance(15)
		if !after && r.Chance(85) {
			mkAtts()
		}
		var signer *int
		switch x := r.Intn(10); {
		case x < 6:
			signer = ip(ruleKeys[r.Intn(len(ruleKeys))])
		case x < 8:
			signer = ip(kOutsider)
		case x < 9:
			signer = ip(kDevLast)
		}
		c := b.AddCommit(tip, tree, signer)
		pushes = append(pushes, b.Push(main, c, signer))
		if after {
			mkAtts()
		}
		tip = ip(c)
	}
	qs := []VQuery{{Mode: "full", Ref: main}, {Mode: "latest", Ref: main}}
	emitWitness(t, out, "C09", id, b, qs, fmt.Sprintf("seed=%d", seed))
}
