package harness

// Shared by C03 and C04: abstract RSL steps, their realisation on a real repository
// through pkg/rsl (or, for corruptions, through plain git), and an independent reader
// of the chain (git plumbing via os/exec; none of gittuf's readers).

import (
	"bytes"
	"encoding/pem"
	"errors"
	"fmt"
	"os/exec"
	"strconv"
	"strings"
	"testing"

	"github.com/gittuf/gittuf/internal/attestations"
	"github.com/gittuf/gittuf/internal/policy"
	"github.com/gittuf/gittuf/pkg/githash"
	"github.com/gittuf/gittuf/pkg/gitinterface"
	"github.com/gittuf/gittuf/pkg/rsl"
)

var rslRefs = []string{"refs/heads/main", "refs/heads/feature", "refs/gittuf/policy", "refs/gittuf/policy-staging", "refs/gittuf/attestations"}
var rslUpstreams = []string{"https://example.com/upA", "git@example.com:upB"}

// target commits: a small DAG  t0 <- t1 <- t2,  t3 (another root),  t4 <- t1
var rslTargetParents = []int{-1, 0, 1, -1, 1}

type rslStep struct {
	K           string `json:"k"`    // ref | ann | prop | garbage | skip (SkipAllInvalidReferenceEntriesForRef) | pstage (policy State.Commit) | papply (policy.Apply) | attest (Attestations.Commit)
	Mode        string `json:"mode"` // api | legacy | raw
	Ref         string `json:"ref,omitempty"`
	Target      int    `json:"target"`
	IDs         []int  `json:"ids,omitempty"` // commit indices; -1 a target commit; -2 a missing object
	Skip        bool   `json:"skip,omitempty"`
	Msg         string `json:"msg,omitempty"`
	Repo        string `json:"repo,omitempty"`
	UpEntry     int    `json:"upEntry"`
	Num         int    `json:"num,omitempty"` // raw only
	ExtraParent bool   `json:"extraParent,omitempty"`
}

type rslWorld struct {
	t       *testing.T
	repo    *gitinterface.Repository
	gitDir  string
	tree    githash.Hash
	targets []githash.Hash
	ids     []githash.Hash // commits created on the RSL ref, in creation order
	idx     map[string]int
	seen    map[string]*rawCommit
	cur     githash.Hash // tip of the RSL ref as last observed
	policyN int
}

func newRslWorld(t *testing.T) *rslWorld {
	repo := NewRepo(t)
	w := &rslWorld{t: t, repo: repo, gitDir: repo.GetGitDir(), tree: emptyTree(t, repo), idx: map[string]int{}, seen: map[string]*rawCommit{}}
	for i, p := range rslTargetParents {
		ref := fmt.Sprintf("refs/heads/target%d", i)
		if p >= 0 {
			if err := repo.SetReference(ref, w.targets[p]); err != nil {
				t.Fatal(err)
			}
		}
		id, err := repo.Commit(w.tree, ref, fmt.Sprintf("target %d", i), false)
		if err != nil {
			t.Fatal(err)
		}
		w.targets = append(w.targets, id)
	}
	return w
}

// reset starts a new, empty log in the same repository. pkg/rsl's process-wide cache is
// keyed by commit id (content hash), so objects of earlier logs cannot be confused with new
// ones; the ref itself is never cached.
func (w *rslWorld) reset() {
	if w.cur != nil {
		if _, err := w.git("update-ref", "-d", rsl.Ref); err != nil {
			w.t.Fatal(err)
		}
	}
	for _, ref := range []string{policy.PolicyRef, policy.PolicyStagingRef, attestations.Ref} {
		_, _ = w.git("update-ref", "-d", ref)
	}
	w.cur = nil
	w.ids = nil
	w.idx = map[string]int{}
}

func (w *rslWorld) git(args ...string) (string, error) {
	cmd := exec.Command("git", append([]string{"--git-dir", w.gitDir}, args...)...)
	cmd.Env = append(cmd.Environ(), "GIT_AUTHOR_NAME=h", "GIT_AUTHOR_EMAIL=h@example.com", "GIT_COMMITTER_NAME=h", "GIT_COMMITTER_EMAIL=h@example.com",
		"GIT_CONFIG_GLOBAL=/dev/null", "GIT_CONFIG_SYSTEM=/dev/null")
	var out, errb bytes.Buffer
	cmd.Stdout, cmd.Stderr = &out, &errb
	if err := cmd.Run(); err != nil {
		return "", fmt.Errorf("git %v: %w: %s", args, err, errb.String())
	}
	return strings.TrimSpace(out.String()), nil
}

func (w *rslWorld) tip() githash.Hash {
	id, err := w.repo.GetReference(rsl.Ref)
	if err != nil {
		if errors.Is(err, rsl.ErrReferenceNotFound) {
			return nil
		}
		w.t.Fatal(err)
	}
	return id
}

// hashOf maps an abstract id (commit index, -1 a target commit, -2 missing) to a hash.
func (w *rslWorld) hashOf(i int) githash.Hash {
	switch {
	case i == -1:
		return w.targets[0]
	case i < 0 || i >= len(w.ids):
		h, _ := githash.NewHash("00000000000000000000000000000000000000ff")
		return h
	default:
		return w.ids[i]
	}
}

func (w *rslWorld) rawMessage(s rslStep) string {
	num := ""
	if s.Num > 0 {
		num = fmt.Sprintf("\nnumber: %d", s.Num)
	}
	switch s.K {
	case "ref":
		return fmt.Sprintf("RSL Reference Entry\n\nref: %s\ntargetID: %s%s", s.Ref, w.targets[s.Target].String(), num)
	case "prop":
		return fmt.Sprintf("RSL Propagation Entry\n\nref: %s\ntargetID: %s\nupstreamRepository: %s\nupstreamEntryID: %s%s", s.Ref, w.targets[s.Target].String(), s.Repo, w.targets[s.UpEntry].String(), num)
	case "ann":
		lines := []string{"RSL Annotation Entry", ""}
		for _, i := range s.IDs {
			lines = append(lines, "entryID: "+w.hashOf(i).String())
		}
		lines = append(lines, fmt.Sprintf("skip: %v", s.Skip))
		msg := strings.Join(lines, "\n") + num
		if s.Msg != "" {
			var b strings.Builder
			_ = pem.Encode(&b, &pem.Block{Type: "MESSAGE", Bytes: []byte(s.Msg)})
			msg += "\n" + strings.TrimSpace(b.String())
		}
		return msg
	default:
		return "this is not an RSL entry " + s.Msg
	}
}

// apply runs one step on the real repository. It returns the error of the operation
// (nil on success); on success exactly one commit must have been added.
func (w *rslWorld) apply(s rslStep) error {
	before := w.cur
	var err error
	var after githash.Hash
	switch {
	case s.Mode == "raw":
		msg := w.rawMessage(s)
		if s.ExtraParent && before != nil {
			var id string
			id, err = w.git("commit-tree", "-p", before.String(), "-p", w.targets[0].String(), "-m", msg, w.tree.String())
			if err == nil {
				_, err = w.git("update-ref", rsl.Ref, id, before.String())
			}
			if err == nil {
				after, err = githash.NewHash(id)
			}
		} else {
			after, err = w.repo.Commit(w.tree, rsl.Ref, msg, false)
		}
		if err != nil {
			w.t.Fatal(err)
		}
	case s.K == "pstage" || s.K == "papply" || s.K == "attest":
		// higher-level recorders; whether they append is up to them (at most one entry)
		switch s.K {
		case "pstage":
			w.policyN++
			spec := &PolicySpec{Root: RootSpec{RootKeys: []int{7}, RootThreshold: 1, TargetsKeys: []int{7}, TargetsThreshold: 1, Signers: []int{7}},
				Files: []RuleFileSpec{{Name: "targets", Signers: []int{7}, Principals: []PrincipalSpec{{ID: 1001, Keys: []int{1}}},
					Rules: []RuleSpec{{Name: fmt.Sprintf("r%d", w.policyN), Patterns: []string{"git:refs/heads/main"}, Principals: []int{1001}, Threshold: 1}}}}}
			err = BuildState(w.t, spec).Commit(w.repo, "policy", true, false)
		case "papply":
			err = policy.Apply(ctx, w.repo, false)
		case "attest":
			var a *attestations.Attestations
			a, err = attestations.LoadCurrentAttestations(w.repo)
			if err == nil {
				err = a.Commit(w.repo, fmt.Sprintf("attest %d", len(w.ids)), true, false)
			}
		}
		if after = w.tip(); (after == nil && before == nil) || (after != nil && after.Equal(before)) {
			return err // nothing appended
		}
		if err != nil {
			w.t.Fatalf("failed operation moved the RSL ref: %+v: %v", s, err)
		}
	case s.K == "skip":
		err = rsl.SkipAllInvalidReferenceEntriesForRef(w.repo, s.Ref, false)
		if err == nil {
			if after = w.tip(); (after == nil && before == nil) || (after != nil && after.Equal(before)) {
				return nil // nothing to skip
			}
		}
	case s.K == "ref" && s.Mode == "api":
		err = rsl.NewReferenceEntry(s.Ref, w.targets[s.Target]).Commit(w.repo, false)
	case s.K == "ref" && s.Mode == "legacy":
		err = rsl.NewReferenceEntry(s.Ref, w.targets[s.Target]).CommitWithoutNumber(w.repo)
	case s.K == "prop" && s.Mode == "api":
		err = rsl.NewPropagationEntry(s.Ref, w.targets[s.Target], s.Repo, w.targets[s.UpEntry]).Commit(w.repo, false)
	case s.K == "ann":
		ids := []githash.Hash{}
		for _, i := range s.IDs {
			ids = append(ids, w.hashOf(i))
		}
		a := rsl.NewAnnotationEntry(ids, s.Skip, s.Msg)
		if s.Mode == "legacy" {
			err = a.CommitWithoutNumber(w.repo)
		} else {
			err = a.Commit(w.repo, false)
		}
	default:
		w.t.Fatalf("bad step %+v", s)
	}
	if after == nil {
		after = w.tip()
	}
	changed := (before == nil) != (after == nil) || (after != nil && !after.Equal(before))
	if err != nil {
		if changed {
			w.t.Fatalf("failed operation moved the RSL ref: %+v", s)
		}
		return err
	}
	if !changed {
		w.t.Fatalf("successful operation did not move the RSL ref: %+v", s)
	}
	w.cur = after
	w.idx[after.String()] = len(w.ids)
	w.ids = append(w.ids, after)
	return nil
}

func (w *rslWorld) index(id githash.Hash) int {
	if id == nil {
		return -99
	}
	if i, ok := w.idx[id.String()]; ok {
		return i
	}
	return -99
}

// ---- independent reader ----

type rawCommit struct {
	Parents []string
	Message string
	IsEntry bool
	Kind    string
	Number  int
}

// load reads the not yet seen commits among ids with one `git cat-file --batch`.
func (w *rslWorld) load(ids []string) {
	var in bytes.Buffer
	n := 0
	for _, id := range ids {
		if _, ok := w.seen[id]; !ok {
			in.WriteString(id + "\n")
			n++
		}
	}
	if n == 0 {
		return
	}
	cmd := exec.Command("git", "--git-dir", w.gitDir, "cat-file", "--batch")
	cmd.Stdin = &in
	out, err := cmd.Output()
	if err != nil {
		w.t.Fatalf("cat-file --batch: %v", err)
	}
	for len(out) > 0 {
		nl := bytes.IndexByte(out, '\n')
		hdr := strings.Fields(string(out[:nl]))
		if len(hdr) != 3 || hdr[1] != "commit" {
			w.t.Fatalf("cat-file --batch: unexpected header %q", string(out[:nl]))
		}
		size, _ := strconv.Atoi(hdr[2])
		w.seen[hdr[0]] = parseRawCommit(string(out[nl+1 : nl+1+size]))
		out = out[nl+1+size+1:]
	}
}

// readCommit: the commit object parsed with a few lines of our own.
func (w *rslWorld) readCommit(id string) *rawCommit {
	w.load([]string{id})
	return w.seen[id]
}

func parseRawCommit(obj string) *rawCommit {
	head, body, _ := strings.Cut(obj, "\n\n")
	c := &rawCommit{Message: strings.TrimRight(body, "\n")}
	for _, l := range strings.Split(head, "\n") {
		if strings.HasPrefix(l, "parent ") {
			c.Parents = append(c.Parents, strings.TrimPrefix(l, "parent "))
		}
	}
	lines := strings.Split(c.Message, "\n")
	switch lines[0] {
	case "RSL Reference Entry":
		c.Kind = "ref"
	case "RSL Annotation Entry":
		c.Kind = "ann"
	case "RSL Propagation Entry":
		c.Kind = "prop"
	}
	if c.Kind != "" && len(lines) >= 2 && strings.TrimSpace(lines[1]) == "" {
		c.IsEntry = true
		nIDs := 0
		for _, l := range lines[2:] {
			if l == "-----BEGIN MESSAGE-----" {
				break
			}
			if v, ok := strings.CutPrefix(l, "number: "); ok {
				n, err := strconv.Atoi(strings.TrimSpace(v))
				if err != nil {
					c.IsEntry = false
				}
				c.Number = n
			}
			if strings.HasPrefix(l, "entryID: ") {
				nIDs++
			}
		}
		if c.Kind == "ann" && nIDs == 0 {
			c.IsEntry = false
		}
	}
	return c
}

type seenCommit struct {
	Idx      int `json:"idx"`
	NParents int `json:"nparents"`
	Number   int `json:"number"` // -1: message is not an entry
}

// chain reads the first-parent chain from the RSL ref (newest first).
func (w *rslWorld) chain() []seenCommit {
	res := []seenCommit{}
	tip, err := w.git("rev-parse", "--verify", "-q", rsl.Ref)
	if err != nil || tip == "" {
		return res
	}
	for id := tip; id != ""; {
		c := w.readCommit(id)
		sc := seenCommit{Idx: -99, NParents: len(c.Parents), Number: -1}
		if i, ok := w.idx[id]; ok {
			sc.Idx = i
		}
		if c.IsEntry {
			sc.Number = c.Number
		}
		res = append(res, sc)
		if len(c.Parents) == 0 {
			break
		}
		id = c.Parents[0]
	}
	return res
}

// nums: the number the independent reader finds in every commit created so far.
func (w *rslWorld) nums() []int {
	res := make([]int, len(w.ids))
	all := make([]string, len(w.ids))
	for i, id := range w.ids {
		all[i] = id.String()
	}
	w.load(all)
	for i, id := range w.ids {
		c := w.readCommit(id.String())
		res[i] = -1
		if c.IsEntry {
			res[i] = c.Number
		}
	}
	return res
}

func rslErrClass(err error) string {
	switch {
	case err == nil:
		return "ok"
	case errors.Is(err, rsl.ErrRSLEntryNotFound):
		return "notFound"
	case errors.Is(err, rsl.ErrRSLBranchDetected):
		return "branch"
	case errors.Is(err, rsl.ErrInvalidRSLEntry):
		return "invalid"
	case errors.Is(err, rsl.ErrInvalidGetLatestReferenceUpdaterEntryOptions), errors.Is(err, rsl.ErrCannotUseEntryNumberFilter), errors.Is(err, rsl.ErrInvalidUntilEntryNumberCondition):
		return "badOptions"
	case errors.Is(err, rsl.ErrNoRecordOfCommit):
		return "noRecord"
	default:
		return "other"
	}
}
