package harness

import (
	"errors"
	"fmt"
	"testing"

	"github.com/gittuf/gittuf/internal/policy"
	"github.com/gittuf/gittuf/pkg/githash"
	"github.com/gittuf/gittuf/pkg/rsl"
)

// ---- queries and results shared by the verification properties ----

type VQuery struct {
	Mode string `json:"mode"` // "full" | "latest" | "from"
	Ref  string `json:"ref"`
	From int    `json:"from"` // log index for mode "from"
}
type VResult struct {
	Class string `json:"class"` // ok | verif | notskipped | lastgoodskipped | nopolicy | notfound | policy | other
	Tip   int    `json:"tip"`   // commit index reported (-1 none)
	Err   string `json:"err,omitempty"`
}
type VCase struct {
	Q VQuery  `json:"q"`
	R VResult `json:"r"`
}
type WorldIn struct {
	World   *World   `json:"world"`
	Queries []VQuery `json:"queries"`
}
type WorldLine struct {
	Prop string    `json:"prop"`
	ID   int       `json:"id"`
	In   WorldIn   `json:"in"`
	Impl []VResult `json:"impl"`
	Meta string    `json:"meta,omitempty"`
}

func classifyVerifyErr(err error) VResult {
	r := VResult{Tip: -1}
	switch {
	case err == nil:
		r.Class = "ok"
	case errors.Is(err, policy.ErrInvalidEntryNotSkipped):
		r.Class = "notskipped"
	case errors.Is(err, policy.ErrLastGoodEntryIsSkipped):
		r.Class = "lastgoodskipped"
	case errors.Is(err, policy.ErrVerificationFailed), errors.Is(err, policy.ErrVerifierConditionsUnmet):
		r.Class = "verif"
	case errors.Is(err, policy.ErrPolicyNotFound):
		r.Class = "nopolicy"
	case errors.Is(err, rsl.ErrRSLEntryNotFound):
		r.Class = "notfound"
	case errors.Is(err, policy.ErrMetadataRollbackDetected), errors.Is(err, policy.ErrDanglingDelegationMetadata):
		r.Class = "policy"
	default:
		r.Class = "other"
	}
	if err != nil {
		r.Err = err.Error()
		if len(r.Err) > 160 {
			r.Err = r.Err[:160]
		}
	}
	return r
}

// RunQuery runs one verification query with the real verifier.
func RunQuery(b *WorldBuilder, q VQuery) VResult {
	v := policy.NewPolicyVerifier(b.Repo)
	var (
		tip githash.Hash
		err error
	)
	switch q.Mode {
	case "full":
		tip, err = v.VerifyRefFull(ctx, q.Ref)
	case "latest":
		tip, err = v.VerifyRef(ctx, q.Ref)
	case "from":
		tip, err = v.VerifyRefFromEntry(ctx, q.Ref, b.EntryIDs[q.From])
	default:
		b.t.Fatalf("unknown mode %s", q.Mode)
	}
	r := classifyVerifyErr(err)
	if err == nil {
		r.Tip = b.CommitIndex(tip)
	}
	return r
}

// ---- generator of policies and histories ----

const (
	kRoot     = 0
	kTargets  = 1
	kDevFirst = 2
	kDevLast  = 7
	kOutsider = 8
	kRoot2    = 9
	kApp      = 10
)

var histRefs = []string{"refs/heads/main", "refs/heads/feature", "refs/heads/free"}

type histGen struct {
	r        *Rng
	b        *WorldBuilder
	pol      PolicySpec
	tipOf    map[string]int // ref -> commit index
	lastGood map[string]int // ref -> commit index of last push by an authorized signer (heuristic)
	opts     histOpts
	nBlob    int
}

type histOpts struct {
	bfpEpisodes bool // C11: frequent "rewrite, revoke, rule starts to cover, push on top" episodes
	globalRules bool
	fileRules   bool
	delegation  bool
	forged      bool
	apps        bool
}

func (g *histGen) devs() []int {
	d := []int{}
	for k := kDevFirst; k <= kDevLast; k++ {
		d = append(d, k)
	}
	return d
}

func (g *histGen) pickSubset(pool []int, min, max int) []int {
	n := min + g.r.Intn(max-min+1)
	if n > len(pool) {
		n = len(pool)
	}
	perm := append([]int{}, pool...)
	for i := len(perm) - 1; i > 0; i-- {
		j := g.r.Intn(i + 1)
		perm[i], perm[j] = perm[j], perm[i]
	}
	return perm[:n]
}

// genPolicy draws a fresh rule file (keeping the current root unless rotateRoot).
func (g *histGen) genPolicy(prev *PolicySpec) PolicySpec {
	r := g.r
	var p PolicySpec
	if prev == nil {
		p.Root = RootSpec{Version: 1, RootKeys: []int{kRoot}, RootThreshold: 1, TargetsKeys: []int{kTargets}, TargetsThreshold: 1, Signers: []int{kRoot}}
	} else {
		p.Root = prev.Root
		p.Root.Version++
		p.Root.GlobalRules = nil
	}
	if g.opts.globalRules && r.Chance(75) {
		ng := 1 + r.Intn(2)
		for k := 0; k < ng; k++ {
			name := fmt.Sprintf("g%d", k)
			kind := r.Intn(5)
			if g.opts.fileRules && r.Chance(35) {
				kind = 5 + r.Intn(2) // a global rule on a file namespace
			}
			switch kind {
			case 5:
				p.Root.GlobalRules = append(p.Root.GlobalRules, GlobalRuleSpec{Name: name, Kind: "threshold", Patterns: []string{"file:src/*"}, Threshold: 1 + r.Intn(2)})
			case 6:
				p.Root.GlobalRules = append(p.Root.GlobalRules, GlobalRuleSpec{Name: name, Kind: "threshold", Patterns: []string{"file:*"}, Threshold: 1})
			case 0:
				p.Root.GlobalRules = append(p.Root.GlobalRules, GlobalRuleSpec{Name: name, Kind: "threshold", Patterns: []string{"git:refs/heads/main"}, Threshold: 1 + r.Intn(2)})
			case 1:
				p.Root.GlobalRules = append(p.Root.GlobalRules, GlobalRuleSpec{Name: name, Kind: "threshold", Patterns: []string{"git:refs/heads/unrelated"}, Threshold: 1})
			case 2:
				p.Root.GlobalRules = append(p.Root.GlobalRules, GlobalRuleSpec{Name: name, Kind: "block-force-pushes", Patterns: []string{"git:refs/heads/*"}})
			case 3:
				p.Root.GlobalRules = append(p.Root.GlobalRules, GlobalRuleSpec{Name: name, Kind: "threshold", Patterns: []string{"git:refs/heads/*"}, Threshold: 1 + r.Intn(3)})
			default:
				p.Root.GlobalRules = append(p.Root.GlobalRules, GlobalRuleSpec{Name: name, Kind: "block-force-pushes", Patterns: []string{"git:refs/heads/free"}})
			}
		}
	}
	// principals: developers as Key or Person principals, disjoint keys
	devs := g.pickSubset(g.devs(), 2, 5)
	file := RuleFileSpec{Name: "targets", Version: 1, Signers: []int{kTargets}}
	if prev != nil && len(prev.Files) > 0 {
		file.Version = prev.Files[0].Version + 1
	}
	ids := []int{}
	for _, k := range devs {
		if r.Chance(40) {
			file.Principals = append(file.Principals, PrincipalSpec{ID: k, Person: true, Keys: []int{k}, Identities: map[string]string{"app": fmt.Sprintf("user%d", k)}})
			ids = append(ids, k)
		} else {
			file.Principals = append(file.Principals, PrincipalSpec{ID: 1000 + k, Keys: []int{k}})
			ids = append(ids, 1000+k)
		}
	}
	mainPs := g.pickSubset(ids, 1, 3)
	file.Rules = append(file.Rules, RuleSpec{Name: "protect-main", Patterns: []string{"git:refs/heads/main"}, Principals: mainPs, Threshold: 1 + r.Intn(min(len(mainPs), 2))})
	if r.Chance(60) {
		fp := g.pickSubset(ids, 1, 2)
		file.Rules = append(file.Rules, RuleSpec{Name: "protect-feature", Patterns: []string{"git:refs/heads/feat*"}, Principals: fp, Threshold: 1})
	}
	if g.opts.fileRules && r.Chance(70) {
		fp := g.pickSubset(ids, 1, 2)
		pats := []string{"file:src/*"}
		if r.Chance(35) {
			// one rule for several directories: the paths of one commit then share a verifier
			pats = [][]string{{"file:src/*", "file:docs/*"}, {"file:*"}}[r.Intn(2)]
		}
		file.Rules = append(file.Rules, RuleSpec{Name: "protect-src", Patterns: pats, Principals: fp, Threshold: 1})
	}
	p.Files = []RuleFileSpec{file}
	if g.opts.delegation && r.Chance(50) {
		// second level: protect-main delegates to a file signed by its principals
		sub := RuleFileSpec{Name: "protect-main", Version: 1}
		byID := map[int]PrincipalSpec{}
		for _, ps := range file.Principals {
			byID[ps.ID] = ps
		}
		for _, pid := range mainPs[:file.Rules[0].Threshold] {
			sub.Signers = append(sub.Signers, byID[pid].Keys[0])
		}
		sp := g.pickSubset(ids, 1, 2)
		sub.Rules = append(sub.Rules, RuleSpec{Name: "sub-main", Patterns: []string{"git:refs/heads/main"}, Principals: sp, Threshold: 1})
		if r.Chance(35) {
			// the delegated file declares a person under an id the primary rule file already uses,
			// with another key: that definition must only matter where the delegated file is consulted
			for _, ps := range file.Principals {
				if ps.Person {
					other := kDevFirst + r.Intn(kDevLast-kDevFirst+1)
					if other != ps.Keys[0] {
						sub.Principals = append(sub.Principals, PrincipalSpec{ID: ps.ID, Person: true, Keys: []int{other}, Identities: ps.Identities})
					}
					break
				}
			}
		}
		p.Files = append(p.Files, sub)
	}
	return p
}

// candidates for signing a push to ref: authorized (per first matching rule), other dev, outsider, unsigned
func (g *histGen) pickSigner(ref string, wantAuthorized bool) *int {
	r := g.r
	auth := []int{}
	if len(g.pol.Files) > 0 {
		byID := g.pol.principalByID()
		for _, rule := range g.pol.Files[0].Rules {
			for _, pat := range rule.Patterns {
				if pat == "git:"+ref || (pat == "git:refs/heads/feat*" && ref == "refs/heads/feature") {
					for _, pid := range rule.Principals {
						auth = append(auth, byID[pid].Keys[0])
					}
				}
			}
		}
	}
	if wantAuthorized && len(auth) > 0 {
		return ip(auth[r.Intn(len(auth))])
	}
	switch x := r.Intn(10); {
	case x < 5:
		return ip(kDevFirst + r.Intn(kDevLast-kDevFirst+1))
	case x < 8:
		return ip(kOutsider)
	default:
		return nil
	}
}

func (g *histGen) newTree(base []WFile, touchSrc bool) []WFile {
	g.nBlob++
	files := append([]WFile{}, base...)
	path := "README"
	if touchSrc {
		path = "src/main.go"
	} else if g.r.Chance(30) {
		path = fmt.Sprintf("docs/d%d", g.r.Intn(3))
	}
	found := false
	for i := range files {
		if files[i].Path == path {
			files[i].Blob = g.nBlob
			found = true
		}
	}
	if !found {
		files = append(files, WFile{Path: path, Blob: g.nBlob})
	}
	// one commit in three changes a second path as well (an unprotected one sorting before or after
	// src/, or another protected one): the per-path loop of a commit is then walked more than once
	if g.opts.fileRules && g.r.Chance(35) {
		second := []string{"LICENSE", "docs/extra", "src/other.go", "tests/t0", "zz"}[g.r.Intn(5)]
		g.nBlob++
		found = false
		for i := range files {
			if files[i].Path == second {
				files[i].Blob = g.nBlob
				found = true
			}
		}
		if !found {
			files = append(files, WFile{Path: second, Blob: g.nBlob})
		}
	}
	return files
}

func (g *histGen) filesOf(c int) []WFile {
	return g.b.W.Trees[g.b.W.Commits[c].Tree]
}

// push a new commit (child of the ref's tip, or a fresh root = force push) to ref
func (g *histGen) stepPush(ref string, authorized bool, force bool, treeSameAs *int) int {
	var parent *int
	var base []WFile
	if tip, ok := g.tipOf[ref]; ok && !force {
		parent = ip(tip)
		base = g.filesOf(tip)
	}
	var tree int
	if treeSameAs != nil {
		tree = g.b.W.Commits[*treeSameAs].Tree
	} else {
		tree = g.b.AddTree(g.newTree(base, g.opts.fileRules && g.r.Chance(40)))
	}
	signer := g.pickSigner(ref, authorized)
	commitSigner := signer
	if g.r.Chance(25) {
		commitSigner = g.pickSigner(ref, g.r.Bool())
	}
	c := g.b.AddCommit(parent, tree, commitSigner)
	g.tipOf[ref] = c
	return g.b.Push(ref, c, signer)
}

func (g *histGen) refEntries(ref string) []int {
	res := []int{}
	for i, e := range g.b.W.Log {
		if e.Kind == "ref" && e.Ref == ref {
			res = append(res, i)
		}
	}
	return res
}

func (g *histGen) run(nEvents int) {
	r := g.r
	g.pol = g.genPolicy(nil)
	if r.Chance(8) {
		// a push before any policy exists
		g.stepPush(histRefs[r.Intn(len(histRefs))], false, false, nil)
	}
	g.b.AddPolicy(g.pol, r.Chance(80))
	for ev := 0; ev < nEvents; ev++ {
		ref := histRefs[r.Intn(len(histRefs))]
		x := r.Intn(100)
		if g.opts.bfpEpisodes && r.Chance(12) {
			x = 95 // the late block-force-pushes episode below
		}
		switch {
		case x < 48:
			g.stepPush(ref, r.Chance(75), r.Chance(8), nil)
		case x < 60:
			g.pol = g.genPolicy(&g.pol)
			g.b.AddPolicy(g.pol, r.Chance(70))
		case x < 72:
			// approval followed by the push it authorizes (or a slightly different one)
			var parent *int
			var base []WFile
			if tip, ok := g.tipOf[ref]; ok {
				parent = ip(tip)
				base = g.filesOf(tip)
			}
			tree := g.b.AddTree(g.newTree(base, false))
			signers := g.pickSubset(g.devs(), 1, 3)
			if r.Chance(15) {
				signers = append(signers, kOutsider)
			}
			auth := WAuth{SRef: ref, SFrom: parent, STo: tree, Ref: ref, From: parent, To: tree, Signers: signers}
			att := WAtt{}
			if len(g.b.W.Atts) > 0 && r.Chance(60) {
				prev := g.b.W.Atts[len(g.b.W.Atts)-1]
				att.Auths = append(att.Auths, prev.Auths...)
			}
			att.Auths = append(att.Auths, auth)
			g.b.AddAtt(att)
			if r.Chance(85) {
				signer := g.pickSigner(ref, r.Chance(70))
				c := g.b.AddCommit(parent, tree, signer)
				g.tipOf[ref] = c
				g.b.Push(ref, c, signer)
			}
		case x < 84:
			// skip annotation on earlier entries for branch refs, optionally followed by a fix
			cands := []int{}
			for i, e := range g.b.W.Log {
				if e.Kind == "ref" && e.Ref != policy.PolicyRef && e.Ref != policy.PolicyStagingRef && e.Ref != "refs/gittuf/attestations" {
					cands = append(cands, i)
				}
			}
			if len(cands) == 0 {
				continue
			}
			// bias towards the most recent entries
			pick := cands[len(cands)-1-r.Intn(min(len(cands), 3))]
			refs := []int{pick}
			if r.Chance(25) && len(cands) > 1 {
				refs = append(refs, cands[r.Intn(len(cands))])
			}
			g.b.Annotate(refs, r.Chance(85), g.pickSigner(g.b.W.Log[pick].Ref, r.Bool()))
			if r.Chance(60) {
				tref := g.b.W.Log[pick].Ref
				// fix: tree-same as the latest earlier entry for that ref
				var same *int
				ents := g.refEntries(tref)
				for k := len(ents) - 1; k >= 0; k-- {
					if ents[k] < pick {
						same = ip(g.b.W.Log[ents[k]].Target.I)
						break
					}
				}
				if same != nil && r.Chance(80) {
					g.stepPush(tref, r.Chance(75), false, same)
				} else {
					g.stepPush(tref, r.Chance(75), false, nil)
				}
			}
		case x < 88:
			if tip, ok := g.tipOf[ref]; ok {
				g.b.Propagation(ref, tip, g.pickSigner(ref, r.Bool()))
			}
		case x < 94:
			// recovery episode with a policy / attestation update INSIDE the window: violation,
			// revocation, state change, fix (tree-same as the previous entry), then a push that
			// depends on the state recorded inside the window
			prevEnts := g.refEntries(ref)
			if len(prevEnts) == 0 {
				g.stepPush(ref, true, false, nil)
				prevEnts = g.refEntries(ref)
			}
			same := ip(g.b.W.Log[prevEnts[len(prevEnts)-1]].Target.I)
			tip := g.tipOf[ref]
			bad := g.b.AddCommit(ip(tip), g.b.AddTree(g.newTree(g.filesOf(tip), false)), ip(kOutsider))
			g.tipOf[ref] = bad
			be := g.b.Push(ref, bad, ip(kOutsider))
			g.b.Annotate([]int{be}, true, g.pickSigner(ref, true))
			if r.Chance(70) {
				g.pol = g.genPolicy(&g.pol)
				g.b.AddPolicy(g.pol, r.Chance(50))
			} else {
				g.b.AddAtt(WAtt{})
			}
			g.stepPush(ref, true, false, same)
			g.stepPush(ref, r.Chance(85), false, nil)
		case x < 97 && g.opts.globalRules:
			// a history rewrite that is later revoked, then a block-force-pushes rule starts to cover
			// the reference, then a push on top of the revoked rewrite
			if _, ok := g.tipOf[ref]; !ok {
				g.stepPush(ref, true, false, nil)
			}
			fe := g.stepPush(ref, true, true, nil) // fresh root: a rewrite
			g.b.Annotate([]int{fe}, true, g.pickSigner(ref, true))
			np := g.genPolicy(&g.pol)
			np.Root.GlobalRules = append(np.Root.GlobalRules, GlobalRuleSpec{Name: "g-late-bfp", Kind: "block-force-pushes", Patterns: []string{"git:" + ref}})
			g.pol = np
			g.b.AddPolicy(g.pol, r.Bool())
			g.stepPush(ref, true, false, nil) // child of the revoked rewrite
		default:
			g.stepPush(ref, false, r.Chance(20), nil)
		}
	}
}

func (g *histGen) queries() []VQuery {
	qs := []VQuery{}
	for _, ref := range histRefs {
		if len(g.refEntries(ref)) == 0 && g.r.Chance(70) {
			continue
		}
		qs = append(qs, VQuery{Mode: "full", Ref: ref}, VQuery{Mode: "latest", Ref: ref})
		ents := g.refEntries(ref)
		if len(ents) > 0 {
			qs = append(qs, VQuery{Mode: "from", Ref: ref, From: ents[g.r.Intn(len(ents))]})
		}
	}
	return qs
}

func runWorldCase(t *testing.T, prop string, id int, seed uint64, opts histOpts, nEvents int, out *Out) {
	b := NewWorldBuilder(t)
	g := &histGen{r: NewRng(seed), b: b, tipOf: map[string]int{}, lastGood: map[string]int{}, opts: opts}
	g.run(nEvents)
	qs := g.queries()
	line := WorldLine{Prop: prop, ID: id, In: WorldIn{World: b.Snapshot(), Queries: qs}, Meta: fmt.Sprintf("seed=%d", seed)}
	for _, q := range qs {
		line.Impl = append(line.Impl, RunQuery(b, q))
	}
	if err := out.Emit(line); err != nil {
		t.Fatal(err)
	}
}

func TestC01(t *testing.T) {
	seed := uint64(envInt("VERIF_SEED", 1))
	n := envInt("VERIF_N", 20)
	shard := envInt("VERIF_SHARD", 0)
	out, err := OpenOut()
	if err != nil {
		t.Fatal(err)
	}
	defer out.Close()
	if replay := ReplayInputs[WorldIn](t); replay != nil {
		for i, w := range replay {
			replayWorld(t, "C01", i+1, w, out)
		}
		return
	}
	rng := NewRng(seed*1000003 + uint64(shard))
	for i := 0; i < n; i++ {
		opts := histOpts{globalRules: rng.Chance(30), fileRules: rng.Chance(35), delegation: rng.Chance(30)}
		nEvents := 3 + rng.Intn(10)
		if envStr("VERIF_TIER", "quick") == "thorough" && rng.Chance(20) {
			nEvents = 12 + rng.Intn(30)
		}
		runWorldCase(t, "C01", shard*1000000+i+1, rng.U64(), opts, nEvents, out)
	}
}
