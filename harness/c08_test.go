package harness

import (
	"fmt"
	"os/exec"
	"sort"
	"strings"
	"testing"

	"github.com/gittuf/gittuf/internal/cache"
	"github.com/gittuf/gittuf/pkg/rsl"
)

type c08Config struct {
	Name     string    `json:"name"`
	K        int       `json:"k"`     // log index the cache was populated at (-1: no cache)
	K2       int       `json:"k2"`    // log index up to which earlier verifications advanced it (-1: none)
	Stale    bool      `json:"stale"` // a policy / attestation entry was recorded after K and not seen by an advancing verification
	Verdicts []VResult `json:"verdicts"`
	Changed  []string  `json:"changed"` // refs (other than the cache ref) whose value changed during verification
}
type c08Line struct {
	Prop    string      `json:"prop"`
	ID      int         `json:"id"`
	In      WorldIn     `json:"in"`
	Impl    []VResult   `json:"impl"` // no cache
	Configs []c08Config `json:"configs"`
	Meta    string      `json:"meta,omitempty"`
}

func listRefs(t *testing.T, b *WorldBuilder) map[string]string {
	out, err := exec.Command("git", "-C", b.Repo.GetGitDir(), "for-each-ref", "--format=%(refname) %(objectname)").Output()
	if err != nil {
		t.Fatal(err)
	}
	m := map[string]string{}
	for _, l := range strings.Split(strings.TrimSpace(string(out)), "\n") {
		parts := strings.SplitN(l, " ", 2)
		if len(parts) == 2 {
			m[parts[0]] = parts[1]
		}
	}
	return m
}

func changedRefs(before, after map[string]string) []string {
	res := []string{}
	for k, v := range after {
		if k == cache.Ref {
			continue
		}
		if before[k] != v {
			res = append(res, k)
		}
	}
	for k := range before {
		if _, ok := after[k]; !ok && k != cache.Ref {
			res = append(res, k)
		}
	}
	sort.Strings(res)
	return res
}

func (b *WorldBuilder) withRSLAt(k int, fn func()) {
	tip := b.EntryIDs[len(b.EntryIDs)-1]
	b.fatal(b.Repo.SetReference(rsl.Ref, b.EntryIDs[k]))
	fn()
	b.fatal(b.Repo.SetReference(rsl.Ref, tip))
}

func dropCache(b *WorldBuilder) {
	_ = cache.DeletePersistentCache(b.Repo)
}

// TestC08: the verdict must not depend on the persistent cache, repetition, order or checkpoint.
func TestC08(t *testing.T) {
	seed := uint64(envInt("VERIF_SEED", 1))
	n := envInt("VERIF_N", 8)
	shard := envInt("VERIF_SHARD", 0)
	out, err := OpenOut()
	if err != nil {
		t.Fatal(err)
	}
	defer out.Close()
	run := func(id int, b *WorldBuilder, qs []VQuery, r *Rng, meta string) {
		if envStr("VERIF_TIER", "quick") != "thorough" && len(qs) > 5 {
			qs = qs[:5] // a verification costs about a second: keep the quick tier short
		}
		line := c08Line{Prop: "C08", ID: id, In: WorldIn{World: b.Snapshot(), Queries: qs}, Meta: meta}
		nlog := len(b.W.Log)
		isState := func(i int) bool {
			ref := b.W.Log[i].Ref
			return b.W.Log[i].Kind == "ref" && (ref == "refs/gittuf/policy" || ref == "refs/gittuf/attestations")
		}
		runAll := func(order []int) ([]VResult, []string) {
			res := make([]VResult, len(qs))
			before := listRefs(t, b)
			for _, qi := range order {
				res[qi] = RunQuery(b, qs[qi])
			}
			return res, changedRefs(before, listRefs(t, b))
		}
		fwd := make([]int, len(qs))
		rev := make([]int, len(qs))
		for i := range qs {
			fwd[i] = i
			rev[i] = len(qs) - 1 - i
		}
		dropCache(b)
		rsl.VerifResetCache()
		var ch []string
		line.Impl, ch = runAll(fwd)
		line.Configs = append(line.Configs, c08Config{Name: "none", K: -1, K2: -1, Verdicts: line.Impl, Changed: ch})
		// repetition and reverse order without cache
		v2, ch2 := runAll(rev)
		line.Configs = append(line.Configs, c08Config{Name: "none-repeat-reversed", K: -1, K2: -1, Verdicts: v2, Changed: ch2})
		// cache populated at the tip
		dropCache(b)
		if err := cache.PopulatePersistentCache(b.Repo); err == nil {
			v, c := runAll(fwd)
			line.Configs = append(line.Configs, c08Config{Name: "fresh", K: nlog - 1, K2: -1, Verdicts: v, Changed: c})
			v, c = runAll(rev)
			line.Configs = append(line.Configs, c08Config{Name: "fresh-repeat", K: nlog - 1, K2: -1, Verdicts: v, Changed: c})
		}
		// cache populated at the tip, then ONLY full verifications, twice: the second pass starts from
		// the checkpoints the first pass wrote (no latest-only / from-entry run in between)
		dropCache(b)
		if err := cache.PopulatePersistentCache(b.Repo); err == nil {
			fullOnly := []int{}
			for qi, q := range qs {
				if q.Mode == "full" {
					fullOnly = append(fullOnly, qi)
				}
			}
			runSome := func() ([]VResult, []string) {
				res := make([]VResult, len(qs))
				for qi := range res {
					res[qi] = VResult{Class: "skip", Tip: -1}
				}
				before := listRefs(t, b)
				for _, qi := range fullOnly {
					res[qi] = RunQuery(b, qs[qi])
				}
				return res, changedRefs(before, listRefs(t, b))
			}
			runSome()
			v, c := runSome()
			line.Configs = append(line.Configs, c08Config{Name: "fresh-full-twice", K: nlog - 1, K2: -1, Verdicts: v, Changed: c})
		}
		// cache populated at earlier points of the log's growth
		ks := []int{}
		nks := 1
		if envStr("VERIF_TIER", "quick") == "thorough" {
			nks = 3
		}
		for tries := 0; tries < nks && nlog > 1; tries++ {
			ks = append(ks, r.Intn(nlog-1))
		}
		for _, k := range ks {
			dropCache(b)
			ok := true
			b.withRSLAt(k, func() {
				if err := cache.PopulatePersistentCache(b.Repo); err != nil {
					ok = false
				}
			})
			if !ok {
				continue
			}
			stale := false
			for i := k + 1; i < nlog; i++ {
				if isState(i) {
					stale = true
				}
			}
			v, c := runAll(fwd)
			line.Configs = append(line.Configs, c08Config{Name: "populated-at", K: k, K2: -1, Stale: stale, Verdicts: v, Changed: c})
			// populated at k, then advanced by verifications at k2, then the tip
			if k+1 < nlog-1 {
				k2 := k + 1 + r.Intn(nlog-1-(k+1))
				dropCache(b)
				b.withRSLAt(k, func() { _ = cache.PopulatePersistentCache(b.Repo) })
				b.withRSLAt(k2, func() {
					for _, q := range qs {
						if q.Mode == "from" && q.From > k2 {
							continue
						}
						RunQuery(b, q)
					}
				})
				v, c := runAll(fwd)
				line.Configs = append(line.Configs, c08Config{Name: "populated-advanced", K: k, K2: k2, Stale: stale, Verdicts: v, Changed: c})
			}
		}
		dropCache(b)
		if err := out.Emit(line); err != nil {
			t.Fatal(err)
		}
	}
	if replay := ReplayInputs[WorldIn](t); replay != nil {
		for i, w := range replay {
			run(i+1, Rebuild(t, w.World), w.Queries, NewRng(uint64(i)), "replay")
		}
		return
	}
	rng := NewRng(seed*1000003 + uint64(shard) + 808)
	for i := 0; i < n; i++ {
		s := rng.U64()
		if rng.Chance(25) {
			// a recovery that is found but must still be rejected: good A, violation B (revoked),
			// violation C (NOT revoked), valid fix D tree-same as A, optionally more pushes; verified
			// repeatedly under every cache configuration
			r2 := NewRng(s)
			b := NewWorldBuilder(t)
			main := "refs/heads/main"
			b.AddPolicy(basePolicy(), r2.Bool())
			t1 := b.AddTree([]WFile{{"README", 1}})
			cA := b.AddCommit(nil, t1, ip(2))
			b.Push(main, cA, ip(2))
			cB := b.AddCommit(ip(cA), b.AddTree([]WFile{{"README", 2}}), ip(kOutsider))
			eB := b.Push(main, cB, ip(kOutsider))
			cC := b.AddCommit(ip(cB), b.AddTree([]WFile{{"README", 3}}), ip(kOutsider))
			eC := b.Push(main, cC, ip(kOutsider))
			covered := []int{eB}
			if r2.Chance(30) {
				covered = append(covered, eC) // complete revocation: the recovery succeeds
			}
			b.Annotate(covered, true, ip(2))
			cD := b.AddCommit(ip(cC), t1, ip(2))
			eD := b.Push(main, cD, ip(2))
			tip := cD
			for k := r2.Intn(3); k > 0; k-- {
				c := b.AddCommit(ip(tip), b.AddTree([]WFile{{"README", 10 + k}}), ip(2))
				b.Push(main, c, ip(2))
				tip = c
			}
			qs := []VQuery{{Mode: "full", Ref: main}, {Mode: "latest", Ref: main}, {Mode: "from", Ref: main, From: eD}}
			run(shard*1000000+i+1, b, qs, rng, fmt.Sprintf("incomplete-revocation seed=%d", s))
			continue
		}
		if rng.Chance(30) {
			// chains of policy states with forged / rolled-back successors inside the verified range:
			// a cache that lists such an entry must not make verification skip it
			b, qs, meta := c02Build(t, s)
			run(shard*1000000+i+1, b, qs, rng, "policy-chain "+meta)
			continue
		}
		if rng.Chance(45) {
			// recovery patterns (revoked violations, incomplete revocations, fixes): the checkpoints
			// written on the way are what the cache configurations then start from
			b, qs := c07Build(t, s)
			run(shard*1000000+i+1, b, qs, rng, fmt.Sprintf("recovery seed=%d", s))
			continue
		}
		b := NewWorldBuilder(t)
		g := &histGen{r: NewRng(s), b: b, tipOf: map[string]int{}, lastGood: map[string]int{}, opts: histOpts{fileRules: rng.Chance(15), delegation: rng.Chance(20)}}
		g.run(4 + rng.Intn(8))
		run(shard*1000000+i+1, b, g.queries(), rng, fmt.Sprintf("seed=%d", s))
	}
}
