package harness

import (
	"errors"
	"fmt"
	"reflect"
	"sort"
	"strconv"
	"strings"
	"testing"
	"unsafe"

	"github.com/gittuf/gittuf/internal/common/set"
	"github.com/gittuf/gittuf/internal/policy"
	policyopts "github.com/gittuf/gittuf/internal/policy/options/policy"
	sslibdsse "github.com/gittuf/gittuf/internal/third_party/go-securesystemslib/dsse"
	"github.com/gittuf/gittuf/internal/tuf"
	tufv02 "github.com/gittuf/gittuf/internal/tuf/v02"
	"github.com/gittuf/gittuf/pkg/gitinterface"
)

// ---- abstract case (mirrors lean/Driver/C06.lean) ----

type c06Principal struct {
	ID   int   `json:"id"` // < 1000: person "p<ID>"; >= 1000: bare key principal of key ID-1000
	Keys []int `json:"keys"`
}
type c06Rule struct {
	Name        string   `json:"name"`
	Patterns    []string `json:"patterns"`
	Pids        []int    `json:"pids"`
	Threshold   int      `json:"threshold"`
	Terminating bool     `json:"terminating"`
}
type c06File struct {
	Name       string         `json:"name"` // Files[0] is the primary rule file "targets"
	Principals []c06Principal `json:"principals"`
	Rules      []c06Rule      `json:"rules"`
	Allow      bool           `json:"allow"` // trailing tufv02.AllowRule() appended
}
type c06Policy struct {
	Files []c06File `json:"files"`
}
type c06In struct {
	Policy c06Policy `json:"policy"`
	Paths  []string  `json:"paths"`
	Loader bool      `json:"loader"` // also go through State.Commit + LoadCurrentState(BypassRSL)
	Mode   string    `json:"mode"`
}
type c06V struct {
	Name       string         `json:"name"`
	Threshold  int            `json:"threshold"`
	Principals []c06Principal `json:"principals"` // non-nil principals, sorted by id, sorted keys
	Nils       int            `json:"nils"`       // nil entries (ids the walk's principal map did not know)
}
type c06Result struct {
	Path      string `json:"path"`
	Err       string `json:"err"` // "" | "notfound" | "other"
	Verifiers []c06V `json:"verifiers"`
}
type c06Impl struct {
	Loader      string      `json:"loader"` // "skipped" | "ok" | "dup" | "other"
	LoaderErr   string      `json:"loader_err,omitempty"`
	RawEqLoaded bool        `json:"raw_eq_loaded"`
	Results     []c06Result `json:"results"`
}
type c06Line struct {
	Prop string  `json:"prop"`
	ID   int     `json:"id"`
	In   c06In   `json:"in"`
	Impl c06Impl `json:"impl"`
}

const c06Keys = 8

var c06Patterns = []string{
	"git:refs/heads/main", "git:refs/heads/*", "git:refs/heads/feature-*", "git:refs/tags/*", "git:*",
	"git:refs/heads/ma?n", "git:refs/*/main", "file:src/*", "file:src/main.go", "file:*", "file:*.go", "*",
}

// every pattern above matches at least one of these paths and misses at least one
var c06Paths = []string{
	"git:refs/heads/main", "git:refs/heads/feature-x", "git:refs/heads/dev", "git:refs/tags/v1", "git:refs/pull/main",
	"file:src/main.go", "file:src/lib/util.go", "file:docs/readme.md", "file:main.go", "other:thing",
}

// patterns that match the two focus paths (deep walks need many rules matching one path)
var c06Focus = [][]string{
	{"git:refs/heads/main", "git:refs/heads/*", "git:*", "*", "git:refs/heads/ma?n", "git:refs/*/main"},
	{"file:src/main.go", "file:src/*", "file:*", "*", "file:*.go"},
}

func c06PrincipalName(t testing.TB, id int) string {
	if id >= 1000 {
		return Keys(t, c06Keys)[id-1000].ID()
	}
	return fmt.Sprintf("p%d", id)
}

func c06Targets(t testing.TB, f c06File) *tufv02.TargetsMetadata {
	tm := tufv02.NewTargetsMetadata()
	tm.SetExpires("2099-01-01T00:00:00Z")
	tm.Delegations = &tufv02.Delegations{Principals: map[string]tuf.Principal{}, Roles: []*tufv02.Delegation{}}
	for _, p := range f.Principals {
		var pr tuf.Principal
		if p.ID >= 1000 {
			pr = Keys(t, c06Keys)[p.Keys[0]].V02Key()
		} else {
			person := &tufv02.Person{PersonID: c06PrincipalName(t, p.ID), PublicKeys: map[string]*tufv02.Key{}}
			for _, ki := range p.Keys {
				k := Keys(t, c06Keys)[ki]
				person.PublicKeys[k.ID()] = k.V02Key()
			}
			pr = person
		}
		tm.Delegations.Principals[pr.ID()] = pr
	}
	for _, r := range f.Rules {
		ids := set.NewSet[string]()
		for _, pid := range r.Pids {
			ids.Add(c06PrincipalName(t, pid))
		}
		tm.Delegations.Roles = append(tm.Delegations.Roles, &tufv02.Delegation{
			Name: r.Name, Paths: r.Patterns, Terminating: r.Terminating,
			Role: tufv02.Role{PrincipalIDs: ids, Threshold: r.Threshold},
		})
	}
	if f.Allow {
		tm.Delegations.Roles = append(tm.Delegations.Roles, tufv02.AllowRule())
	}
	return tm
}

// c06State builds the policy state from envelopes written directly (the rule
// API refuses duplicated names): only Metadata is set, which is all the walk reads.
func c06State(t testing.TB, p c06Policy) *policy.State {
	st := &policy.State{Metadata: &policy.StateMetadata{}}
	st.Metadata.RootEnvelope = signEnv(t, BuildRootMetadata(t, RootSpec{RootKeys: []int{7}, RootThreshold: 1, TargetsKeys: []int{7}, TargetsThreshold: 1}), []int{7})
	for i, f := range p.Files {
		env := signEnv(t, c06Targets(t, f), []int{7})
		if i == 0 {
			st.Metadata.TargetsEnvelope = env
			continue
		}
		if st.Metadata.DelegationEnvelopes == nil {
			st.Metadata.DelegationEnvelopes = map[string]*sslibdsse.Envelope{}
		}
		st.Metadata.DelegationEnvelopes[f.Name] = env
	}
	return st
}

// the verifier's principals are not exported; read them in place
func c06VerifierPrincipals(v *policy.SignatureVerifier) []tuf.Principal {
	f := reflect.ValueOf(v).Elem().FieldByName("principals")
	return *(*[]tuf.Principal)(unsafe.Pointer(f.UnsafeAddr()))
}

func c06Canon(t testing.TB, v *policy.SignatureVerifier) c06V {
	keyIdx := map[string]int{}
	for i, k := range Keys(t, c06Keys) {
		keyIdx[k.ID()] = i
	}
	res := c06V{Name: v.Name(), Threshold: v.Threshold(), Principals: []c06Principal{}}
	for _, p := range c06VerifierPrincipals(v) {
		if p == nil || (reflect.ValueOf(p).Kind() == reflect.Ptr && reflect.ValueOf(p).IsNil()) {
			res.Nils++
			continue
		}
		cp := c06Principal{Keys: []int{}}
		id := p.ID()
		if ki, ok := keyIdx[id]; ok {
			cp.ID = 1000 + ki
		} else if n, err := strconv.Atoi(strings.TrimPrefix(id, "p")); err == nil && strings.HasPrefix(id, "p") {
			cp.ID = n
		} else {
			t.Fatalf("unexpected principal id %q", id)
		}
		for _, k := range p.Keys() {
			ki, ok := keyIdx[k.KeyID]
			if !ok {
				t.Fatalf("unexpected key %q", k.KeyID)
			}
			cp.Keys = append(cp.Keys, ki)
		}
		sort.Ints(cp.Keys)
		res.Principals = append(res.Principals, cp)
	}
	sort.Slice(res.Principals, func(i, j int) bool {
		a, b := res.Principals[i], res.Principals[j]
		if a.ID != b.ID {
			return a.ID < b.ID
		}
		return fmt.Sprint(a.Keys) < fmt.Sprint(b.Keys)
	})
	return res
}

func c06Walk(t testing.TB, st *policy.State, paths []string) []c06Result {
	res := []c06Result{}
	for _, path := range paths {
		r := c06Result{Path: path, Verifiers: []c06V{}}
		vs, err := st.FindVerifiersForPath(path)
		switch {
		case err == nil:
		case errors.Is(err, policy.ErrMetadataNotFound):
			r.Err = "notfound"
		default:
			r.Err = "other"
		}
		for _, v := range vs {
			r.Verifiers = append(r.Verifiers, c06Canon(t, v))
		}
		res = append(res, r)
	}
	return res
}

func c06Run(t *testing.T, repo *gitinterface.Repository, in c06In, id int, out *Out) {
	impl := c06Impl{Loader: "skipped", RawEqLoaded: true}
	// lowest layer: a State holding nothing but the metadata envelopes
	impl.Results = c06Walk(t, c06State(t, in.Policy), in.Paths)

	if in.Loader && len(in.Policy.Files) > 0 {
		// the full path: commit the metadata to the policy staging ref and load it back
		st := c06State(t, in.Policy)
		if err := st.Commit(repo, fmt.Sprintf("policy %d", id), false, false); err != nil {
			t.Fatalf("commit: %v", err)
		}
		loaded, err := policy.LoadCurrentState(ctx, repo, policy.PolicyStagingRef, policyopts.BypassRSL())
		switch {
		case err == nil:
			impl.Loader = "ok"
			viaLoader := c06Walk(t, loaded, in.Paths)
			impl.RawEqLoaded = reflect.DeepEqual(viaLoader, impl.Results)
			// what is reported is what the loaded state answers
			impl.Results = viaLoader
		case errors.Is(err, tuf.ErrDuplicatedRuleName):
			impl.Loader = "dup"
		default:
			impl.Loader = "other"
			impl.LoaderErr = err.Error()
		}
	}
	if err := out.Emit(c06Line{Prop: "C06", ID: id, In: in, Impl: impl}); err != nil {
		t.Fatal(err)
	}
}

// ---- generator ----

func c06GenPatterns(r *Rng, focus int) []string {
	n := 1
	if r.Chance(25) {
		n = 2
	}
	ps := []string{}
	for i := 0; i < n; i++ {
		var p string
		if r.Chance(70) {
			f := c06Focus[focus]
			p = f[r.Intn(len(f))]
		} else {
			p = c06Patterns[r.Intn(len(c06Patterns))]
		}
		ps = append(ps, p)
	}
	return ps
}

// c06GenPrincipals: the definitions of one file. Person i normally has key i;
// with `clash` a file may define the same person with another key.
func c06GenPrincipals(r *Rng, clash bool) []c06Principal {
	ps := []c06Principal{}
	for i := 1; i <= 3; i++ {
		if r.Chance(65) {
			keys := []int{i}
			if clash && r.Chance(50) {
				keys = []int{i + 3}
			} else if r.Chance(20) {
				keys = []int{i, 7}
			}
			ps = append(ps, c06Principal{ID: i, Keys: keys})
		}
	}
	if r.Chance(40) {
		k := r.Intn(2)
		ps = append(ps, c06Principal{ID: 1000 + k, Keys: []int{k}})
	}
	return ps
}

func c06GenRule(r *Rng, name string, own []c06Principal, foreign bool, focus int) c06Rule {
	rule := c06Rule{Name: name, Patterns: c06GenPatterns(r, focus), Pids: []int{}, Terminating: r.Chance(35)}
	for _, p := range own {
		if r.Chance(60) {
			rule.Pids = append(rule.Pids, p.ID)
		}
	}
	if foreign && r.Chance(50) {
		// an id the rule's own file may not define (the rule API refuses this; envelopes can carry it)
		cand := []int{1, 2, 3, 1000, 1001, 9}
		x := cand[r.Intn(len(cand))]
		dup := false
		for _, y := range rule.Pids {
			dup = dup || x == y
		}
		if !dup {
			rule.Pids = append(rule.Pids, x)
		}
	}
	rule.Threshold = 1
	if len(rule.Pids) > 1 && r.Bool() {
		rule.Threshold = 1 + r.Intn(len(rule.Pids))
	}
	if r.Chance(5) {
		rule.Threshold = r.Intn(4) // possibly 0 or above the number of principals
	}
	return rule
}

func genC06(r *Rng) c06In {
	in := c06In{Paths: c06Paths, Loader: r.Chance(20)}
	if r.Chance(2) {
		in.Mode = "empty"
		return in // no primary rule file at all
	}
	if r.Chance(12) {
		// a family the random graphs reach rarely: a matching (often terminating) rule whose delegated
		// rule file holds zero or one rule, followed by further matching rules of the same file
		in.Mode = "unique"
		focus := r.Intn(2)
		prim := c06File{Name: "targets", Principals: c06GenPrincipals(r, false), Rules: []c06Rule{}, Allow: true}
		sub := c06File{Name: "A", Principals: c06GenPrincipals(r, false), Rules: []c06Rule{}, Allow: !r.Chance(10)}
		first := c06GenRule(r, "A", prim.Principals, false, focus)
		first.Terminating = r.Chance(75)
		first.Patterns = []string{c06Focus[focus][r.Intn(len(c06Focus[focus]))]}
		second := c06GenRule(r, "r1", prim.Principals, false, focus)
		second.Patterns = []string{c06Focus[focus][r.Intn(len(c06Focus[focus]))]}
		prim.Rules = append(prim.Rules, first, second)
		if r.Chance(40) {
			third := c06GenRule(r, "r2", prim.Principals, false, focus)
			prim.Rules = append(prim.Rules, third)
		}
		if r.Chance(35) {
			sub.Rules = append(sub.Rules, c06GenRule(r, "r3", sub.Principals, false, focus))
		}
		in.Policy.Files = []c06File{prim, sub}
		return in
	}
	names := []string{"targets", "A", "B", "C"}
	nf := 1 + r.Intn(4)
	if r.Chance(60) {
		nf = 3 + r.Intn(2)
	}
	clash := r.Chance(15)
	foreign := r.Chance(6)
	focus := r.Intn(2)
	files := make([]c06File, nf)
	for i := range files {
		files[i] = c06File{Name: names[i], Principals: c06GenPrincipals(r, clash && i > 0), Rules: []c06Rule{}, Allow: !r.Chance(6)}
	}
	leaf := 0
	newLeaf := func() string { leaf++; return fmt.Sprintf("r%d", leaf) }
	if r.Chance(50) {
		// unique rule names: what the loader accepts (a forest, plus possibly one rule named "targets")
		in.Mode = "unique"
		for i := 1; i < nf; i++ {
			if r.Chance(10) {
				continue // this delegated file is not referenced by any rule
			}
			parent := r.Intn(i) // an earlier file: a tree
			if r.Chance(10) {
				parent = r.Intn(nf) // any file: unreachable loops / self reference
			}
			if len(files[parent].Rules) < 3 {
				files[parent].Rules = append(files[parent].Rules, c06GenRule(r, names[i], files[parent].Principals, foreign, focus))
			}
		}
		usedTargets := false
		for i := range files {
			for len(files[i].Rules) < 3 && r.Chance(55) {
				name := newLeaf()
				if !usedTargets && r.Chance(8) {
					name, usedTargets = "targets", true
				}
				files[i].Rules = append(files[i].Rules, c06GenRule(r, name, files[i].Principals, foreign, focus))
			}
			r.Shuffle(len(files[i].Rules), func(a, b int) {
				files[i].Rules[a], files[i].Rules[b] = files[i].Rules[b], files[i].Rules[a]
			})
		}
	} else {
		// any names: cycles (a rule named like an ancestor file or like its own file),
		// diamonds (the same delegated name in two files), rules named "targets"
		in.Mode = "free"
		for i := range files {
			nr := r.Intn(4)
			for k := 0; k < nr; k++ {
				var name string
				switch x := r.Intn(100); {
				case x < 60:
					name = names[1+r.Intn(3)]
				case x < 68:
					name = "targets"
				case x < 71:
					name = tuf.AllowRuleName
				default:
					name = newLeaf()
				}
				files[i].Rules = append(files[i].Rules, c06GenRule(r, name, files[i].Principals, foreign, focus))
			}
		}
	}
	in.Policy.Files = files
	return in
}

func (r *Rng) Shuffle(n int, swap func(i, j int)) {
	for i := n - 1; i > 0; i-- {
		swap(i, r.Intn(i+1))
	}
}

func TestC06(t *testing.T) {
	seed := uint64(envInt("VERIF_SEED", 1))
	n := envInt("VERIF_N", 200)
	shard := envInt("VERIF_SHARD", 0)
	out, err := OpenOut()
	if err != nil {
		t.Fatal(err)
	}
	defer out.Close()
	repo := NewRepo(t)

	if replay := ReplayInputs[c06In](t); replay != nil {
		for i, c := range replay {
			c06Run(t, repo, c, i+1, out)
		}
		return
	}
	rng := NewRng(seed*1000003 + uint64(shard))
	id := shard*1000000 + 1
	for i := 0; i < n; i++ {
		c06Run(t, repo, genC06(rng), id+i, out)
	}
}
