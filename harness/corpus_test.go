package harness

import (
	"testing"
)

// basePolicy: root key 0, targets key 1, rule protect-main -> Key principal of key 2, threshold 1.
func basePolicy() PolicySpec {
	return PolicySpec{
		Root: RootSpec{Version: 1, RootKeys: []int{kRoot}, RootThreshold: 1, TargetsKeys: []int{kTargets}, TargetsThreshold: 1, Signers: []int{kRoot}},
		Files: []RuleFileSpec{{Name: "targets", Version: 1, Signers: []int{kTargets},
			Principals: []PrincipalSpec{{ID: 1002, Keys: []int{2}}, {ID: 1003, Keys: []int{3}}},
			Rules:      []RuleSpec{{Name: "protect-main", Patterns: []string{"git:refs/heads/main"}, Principals: []int{1002}, Threshold: 1}}}},
	}
}

func emitWitness(t *testing.T, out *Out, prop string, id int, b *WorldBuilder, qs []VQuery, meta string) {
	line := WorldLine{Prop: prop, ID: id, In: WorldIn{World: b.Snapshot(), Queries: qs}, Meta: meta}
	for _, q := range qs {
		line.Impl = append(line.Impl, RunQuery(b, q))
	}
	if err := out.Emit(line); err != nil {
		t.Fatal(err)
	}
}

// TestMkCorpus writes the witness histories of the known findings (VERIF_WITNESS selects one).
func TestMkCorpus(t *testing.T) {
	out, err := OpenOut()
	if err != nil {
		t.Fatal(err)
	}
	defer out.Close()
	main := "refs/heads/main"
	full := []VQuery{{Mode: "full", Ref: main}, {Mode: "latest", Ref: main}}
	switch envStr("VERIF_WITNESS", "") {
	case "F1":
		// unrelated global rule + push by a key outside the policy
		b := NewWorldBuilder(t)
		p := basePolicy()
		p.Root.GlobalRules = []GlobalRuleSpec{{Name: "unrelated", Kind: "threshold", Patterns: []string{"git:refs/heads/unrelated"}, Threshold: 1}}
		b.AddPolicy(p, true)
		c := b.AddCommit(nil, b.AddTree([]WFile{{"README", 1}}), ip(kOutsider))
		b.Push(main, c, ip(kOutsider))
		emitWitness(t, out, "C01", 1, b, full, "F1")
	case "F2":
		b := NewWorldBuilder(t)
		b.AddPolicy(basePolicy(), true)
		c := b.AddCommit(nil, b.AddTree([]WFile{{"README", 1}}), ip(2))
		b.Push(main, c, ip(2))
		c2 := b.AddCommit(ip(c), b.AddTree([]WFile{{"README", 2}}), ip(kOutsider))
		b.Propagation(main, c2, ip(kOutsider))
		emitWitness(t, out, "C01", 1, b, full, "F2")
	case "F3":
		b := NewWorldBuilder(t)
		b.AddPolicy(basePolicy(), true)
		t1 := b.AddTree([]WFile{{"README", 1}})
		cA := b.AddCommit(nil, t1, ip(2))
		b.Push(main, cA, ip(2))
		cB := b.AddCommit(ip(cA), b.AddTree([]WFile{{"README", 2}}), ip(kOutsider))
		eB := b.Push(main, cB, ip(kOutsider))
		b.Annotate([]int{eB}, true, ip(kOutsider))
		cC := b.AddCommit(ip(cB), t1, ip(kOutsider))
		b.Push(main, cC, ip(kOutsider))
		emitWitness(t, out, "C01", 1, b, full, "F3")
	case "F4":
		// in-range policy keeping the old root envelope, rule file signed by an untrusted key authorizing the outsider
		b := NewWorldBuilder(t)
		b.AddPolicy(basePolicy(), true)
		c := b.AddCommit(nil, b.AddTree([]WFile{{"README", 1}}), ip(2))
		b.Push(main, c, ip(2))
		forged := basePolicy()
		forged.Files[0].Version = 2
		forged.Files[0].Signers = []int{kOutsider}
		forged.Files[0].Principals = []PrincipalSpec{{ID: 1000 + kOutsider, Keys: []int{kOutsider}}}
		forged.Files[0].Rules[0].Principals = []int{1000 + kOutsider}
		b.AddPolicy(forged, false)
		c2 := b.AddCommit(ip(c), b.AddTree([]WFile{{"README", 2}}), ip(kOutsider))
		b.Push(main, c2, ip(kOutsider))
		emitWitness(t, out, "C02", 1, b, full, "F4")
	case "F7":
		// threshold-2 rule; an app-signed approval by user3 for ANOTHER change, stored under the path of the change to main
		b := NewWorldBuilder(t)
		p := basePolicy()
		p.Root.Apps = []AppSpec{{Name: "app", Key: kApp, Trusted: true}}
		p.Files[0].Principals = []PrincipalSpec{
			{ID: 2, Person: true, Keys: []int{2}, Identities: map[string]string{"app": "user2"}},
			{ID: 3, Person: true, Keys: []int{3}, Identities: map[string]string{"app": "user3"}}}
		p.Files[0].Rules[0].Principals = []int{2, 3}
		p.Files[0].Rules[0].Threshold = 2
		b.AddPolicy(p, true)
		tree := b.AddTree([]WFile{{"README", 1}})
		other := b.AddTree([]WFile{{"OTHER", 9}})
		b.AddAtt(WAtt{Gh: []WGh{{SRef: main, SFrom: nil, STo: tree, Ref: "refs/heads/other", From: nil, To: other, App: "app", Signers: []int{kApp}, Approvers: []string{"user3"}, Dismissed: []string{}}}})
		c := b.AddCommit(nil, tree, ip(2))
		b.Push(main, c, ip(2))
		emitWitness(t, out, "C09", 1, b, full, "F7")
	case "F63", "F63a", "F63b":
		// file rule on src/* (key 3), unrelated global rule; a commit by key 2 changes README and src/x
		w := envStr("VERIF_WITNESS", "")
		b := NewWorldBuilder(t)
		p := basePolicy()
		if w != "F63a" {
			p.Root.GlobalRules = []GlobalRuleSpec{{Name: "unrelated", Kind: "threshold", Patterns: []string{"git:refs/heads/unrelated"}, Threshold: 1}}
		}
		p.Files[0].Rules = append(p.Files[0].Rules, RuleSpec{Name: "protect-src", Patterns: []string{"file:src/*"}, Principals: []int{1003}, Threshold: 1})
		b.AddPolicy(p, true)
		files := []WFile{{"README", 1}, {"src/x", 2}}
		if w == "F63b" {
			files = []WFile{{"src/x", 2}}
		}
		c := b.AddCommit(nil, b.AddTree(files), ip(2))
		b.Push(main, c, ip(2))
		emitWitness(t, out, "C01", 1, b, full, w)
	case "F64", "F64a":
		// one file rule covers every file (threshold 1); a global threshold rule demands 2 principals for src/*;
		// a commit by key 2 changes docs/x (rule met, global rule not matching) and src/y
		w := envStr("VERIF_WITNESS", "")
		b := NewWorldBuilder(t)
		p := basePolicy()
		p.Root.GlobalRules = []GlobalRuleSpec{{Name: "two-for-src", Kind: "threshold", Patterns: []string{"file:src/*"}, Threshold: 2}}
		p.Files[0].Rules = append(p.Files[0].Rules, RuleSpec{Name: "protect-files", Patterns: []string{"file:*"}, Principals: []int{1002, 1003}, Threshold: 1})
		b.AddPolicy(p, true)
		files := []WFile{{"docs/x", 1}, {"src/y", 2}}
		if w == "F64a" {
			files = []WFile{{"src/y", 2}}
		}
		c := b.AddCommit(nil, b.AddTree(files), ip(2))
		b.Push(main, c, ip(2))
		emitWitness(t, out, "C11", 1, b, full, w)
	case "F65", "F65a":
		// no file rule in any rule file; a global threshold rule demands one authenticated principal for src/*;
		// an unsigned commit changes src/y (F65a: a file rule exists for docs/* only, so files are looked at)
		w := envStr("VERIF_WITNESS", "")
		b := NewWorldBuilder(t)
		p := basePolicy()
		p.Root.GlobalRules = []GlobalRuleSpec{{Name: "one-for-src", Kind: "threshold", Patterns: []string{"file:src/*"}, Threshold: 1}}
		if w == "F65a" {
			p.Files[0].Rules = append(p.Files[0].Rules, RuleSpec{Name: "protect-docs", Patterns: []string{"file:docs/*"}, Principals: []int{1003}, Threshold: 1})
		}
		b.AddPolicy(p, true)
		c := b.AddCommit(nil, b.AddTree([]WFile{{"src/y", 2}}), nil)
		b.Push(main, c, ip(2))
		emitWitness(t, out, "C11", 1, b, full, w)
	default:
		t.Skip("set VERIF_WITNESS")
	}
}
