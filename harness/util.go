package harness

import (
	"bytes"
	"encoding/base64"
	"encoding/json"
	"os"
	"strconv"
)

func encodeB64(b []byte) string { return base64.StdEncoding.EncodeToString(b) }

// Rng is splitmix64; every random choice of a run derives from VERIF_SEED.
type Rng struct{ s uint64 }

func NewRng(seed uint64) *Rng {
	// scramble the seed so that nearby seeds give unrelated streams
	z := seed + 0x632BE59BD9B4E019
	z = (z ^ (z >> 30)) * 0xBF58476D1CE4E5B9
	z = (z ^ (z >> 27)) * 0x94D049BB133111EB
	return &Rng{s: z ^ (z >> 31)}
}
func (r *Rng) U64() uint64 {
	r.s += 0x9E3779B97F4A7C15
	z := r.s
	z = (z ^ (z >> 30)) * 0xBF58476D1CE4E5B9
	z = (z ^ (z >> 27)) * 0x94D049BB133111EB
	return z ^ (z >> 31)
}
func (r *Rng) Intn(n int) int {
	if n <= 0 {
		return 0
	}
	return int(r.U64() % uint64(n))
}
func (r *Rng) Bool() bool           { return r.U64()&1 == 1 }
func (r *Rng) Chance(p int) bool    { return r.Intn(100) < p } // p percent
func (r *Rng) Fork(tag uint64) *Rng { return NewRng(r.U64() ^ tag) }

func envInt(name string, def int) int {
	if v := os.Getenv(name); v != "" {
		if n, err := strconv.Atoi(v); err == nil {
			return n
		}
	}
	return def
}

func envStr(name, def string) string {
	if v := os.Getenv(name); v != "" {
		return v
	}
	return def
}

// Out writes one JSON object per line to VERIF_OUT.
type Out struct {
	f   *os.File
	enc *json.Encoder
}

func OpenOut() (*Out, error) {
	p := envStr("VERIF_OUT", "/dev/stdout")
	f, err := os.OpenFile(p, os.O_CREATE|os.O_WRONLY|os.O_TRUNC, 0o644)
	if err != nil {
		return nil, err
	}
	enc := json.NewEncoder(f)
	enc.SetEscapeHTML(false)
	return &Out{f: f, enc: enc}, nil
}
func (o *Out) Emit(v any) error { return o.enc.Encode(v) }
func (o *Out) Close() error     { return o.f.Sync() }

// ReplayInputs reads the "in" objects of the JSON lines of $VERIF_REPLAY (nil
// when the variable is unset): the same abstract inputs are then re-run on the
// real code.
func ReplayInputs[T any](t interface{ Fatal(...any) }) []T {
	p := os.Getenv("VERIF_REPLAY")
	if p == "" {
		return nil
	}
	data, err := os.ReadFile(p)
	if err != nil {
		t.Fatal(err)
	}
	res := []T{}
	dec := json.NewDecoder(bytesReader(data))
	for dec.More() {
		var line struct {
			In *T `json:"in"`
		}
		if err := dec.Decode(&line); err != nil {
			t.Fatal(err)
		}
		if line.In == nil {
			continue // e.g. the driver's verdict appended to a replay file
		}
		res = append(res, *line.In)
	}
	return res
}

func bytesReader(b []byte) *bytes.Reader { return bytes.NewReader(b) }
