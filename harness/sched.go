package harness

// Storage-call instrumentation shared by C16 (fault / crash at the k-th
// gitstore.Storer call) and C17 (interleavings of Storer calls of several
// goroutines chosen by an explicit schedule).

import (
	"encoding/base64"
	"errors"
	"fmt"
	"os/exec"
	"strconv"
	"strings"
	"sync"
	"time"

	"github.com/gittuf/gittuf/pkg/githash"
	"github.com/gittuf/gittuf/pkg/gitinterface"
	"github.com/gittuf/gittuf/pkg/gitstore"
	"github.com/gittuf/gittuf/pkg/rsl"
)

var errInjected = errors.New("verif: injected storage fault")

type crashSentinel struct{ at int }

// CountingStorer wraps a real repository. EVERY gitstore.Storer method that can
// fail is overridden: it is counted, its kind is appended to Trace, the gate (if
// any) is passed, and then either the injected error is returned WITHOUT
// performing the operation (FaultAt) or the real call is made; after the
// CrashAfter-th call completes the goroutine panics with crashSentinel.
// ZeroHash is a pure constant of the object format (no storage access, no error
// result): it is passed through uncounted.
type CountingStorer struct {
	gitstore.Storer
	N          int
	Trace      []string
	FaultAt    int // 1-based; 0 = never
	CrashAfter int // 1-based; 0 = never
	Gate       func(kind string)
	Names      func(id githash.Hash) string // canonical name of an object id in traces
	// SplitCommit: Commit is performed in its two halves (commit.go:24 read of the tip;
	// commit.go:36-56 object creation + CheckAndSetReference) with a scheduling point in
	// between, as concurrent processes would see it. Needs the concrete repository.
	SplitCommit bool
	Repo        *gitinterface.Repository
	ScratchRef  string
	Fetched     []githash.Hash // ids whose message this wrapper fetched successfully
}

func NewCountingStorer(inner gitstore.Storer) *CountingStorer {
	return &CountingStorer{Storer: inner}
}

func (c *CountingStorer) name(id githash.Hash) string {
	if c.Names == nil {
		return ""
	}
	return c.Names(id)
}

// enter returns true when the call must fail with the injected error.
func (c *CountingStorer) enter(kind string) bool {
	if c.Gate != nil {
		c.Gate(kind)
	}
	c.N++
	c.Trace = append(c.Trace, kind)
	return c.N == c.FaultAt
}

func (c *CountingStorer) leave() {
	if c.CrashAfter != 0 && c.N == c.CrashAfter {
		// only the outermost call of this number crashes (calls are not nested: the
		// inner repository never calls back into the wrapper)
		c.CrashAfter = -1
		panic(crashSentinel{at: c.N})
	}
}

func (c *CountingStorer) GetReference(refName string) (githash.Hash, error) {
	if c.enter("GetReference(" + refName + ")") {
		return nil, errInjected
	}
	defer c.leave()
	return c.Storer.GetReference(refName)
}

func (c *CountingStorer) SetReference(refName string, gitID githash.Hash) error {
	if c.enter("SetReference(" + refName + ")") {
		return errInjected
	}
	defer c.leave()
	return c.Storer.SetReference(refName, gitID)
}

func (c *CountingStorer) DeleteReference(refName string) error {
	if c.enter("DeleteReference(" + refName + ")") {
		return errInjected
	}
	defer c.leave()
	return c.Storer.DeleteReference(refName)
}

func (c *CountingStorer) ReadBlob(blobID githash.Hash) ([]byte, error) {
	if c.enter("ReadBlob") {
		return nil, errInjected
	}
	defer c.leave()
	return c.Storer.ReadBlob(blobID)
}

func (c *CountingStorer) WriteBlob(contents []byte) (githash.Hash, error) {
	if c.enter("WriteBlob") {
		return nil, errInjected
	}
	defer c.leave()
	return c.Storer.WriteBlob(contents)
}

func (c *CountingStorer) EmptyTree() (githash.Hash, error) {
	if c.enter("EmptyTree") {
		return nil, errInjected
	}
	defer c.leave()
	return c.Storer.EmptyTree()
}

func (c *CountingStorer) WriteTree(entries []gitstore.TreeEntry) (githash.Hash, error) {
	if c.enter("WriteTree") {
		return nil, errInjected
	}
	defer c.leave()
	return c.Storer.WriteTree(entries)
}

func (c *CountingStorer) GetAllFilesInTree(treeID githash.Hash) (map[string]githash.Hash, error) {
	if c.enter("GetAllFilesInTree") {
		return nil, errInjected
	}
	defer c.leave()
	return c.Storer.GetAllFilesInTree(treeID)
}

func (c *CountingStorer) GetEntriesInTree(treeID githash.Hash) ([]gitstore.TreeEntry, error) {
	if c.enter("GetEntriesInTree") {
		return nil, errInjected
	}
	defer c.leave()
	return c.Storer.GetEntriesInTree(treeID)
}

func (c *CountingStorer) GetPathIDInTree(treeID githash.Hash, treePath string) (githash.Hash, error) {
	if c.enter("GetPathIDInTree") {
		return nil, errInjected
	}
	defer c.leave()
	return c.Storer.GetPathIDInTree(treeID, treePath)
}

func (c *CountingStorer) GetCommitTreeID(commitID githash.Hash) (githash.Hash, error) {
	if c.enter("GetCommitTreeID") {
		return nil, errInjected
	}
	defer c.leave()
	return c.Storer.GetCommitTreeID(commitID)
}

func (c *CountingStorer) GetCommitMessage(commitID githash.Hash) (string, error) {
	if c.enter("GetCommitMessage" + c.name(commitID)) {
		return "", errInjected
	}
	defer c.leave()
	m, err := c.Storer.GetCommitMessage(commitID)
	if err == nil {
		c.Fetched = append(c.Fetched, commitID)
	}
	return m, err
}

func (c *CountingStorer) GetCommitParentIDs(commitID githash.Hash) ([]githash.Hash, error) {
	if c.enter("GetCommitParentIDs" + c.name(commitID)) {
		return nil, errInjected
	}
	defer c.leave()
	return c.Storer.GetCommitParentIDs(commitID)
}

func (c *CountingStorer) GetCommitsBetweenRange(commitNewID, commitOldID githash.Hash) ([]githash.Hash, error) {
	if c.enter("GetCommitsBetweenRange") {
		return nil, errInjected
	}
	defer c.leave()
	return c.Storer.GetCommitsBetweenRange(commitNewID, commitOldID)
}

func (c *CountingStorer) GetFilePathsChangedByCommit(commitID githash.Hash) ([]string, error) {
	if c.enter("GetFilePathsChangedByCommit") {
		return nil, errInjected
	}
	defer c.leave()
	return c.Storer.GetFilePathsChangedByCommit(commitID)
}

func (c *CountingStorer) KnowsCommit(commitID, ancestorID githash.Hash) (bool, error) {
	if c.enter("KnowsCommit") {
		return false, errInjected
	}
	defer c.leave()
	return c.Storer.KnowsCommit(commitID, ancestorID)
}

func (c *CountingStorer) GetMergeTree(commitAID, commitBID githash.Hash) (githash.Hash, error) {
	if c.enter("GetMergeTree") {
		return nil, errInjected
	}
	defer c.leave()
	return c.Storer.GetMergeTree(commitAID, commitBID)
}

func (c *CountingStorer) GetTagTarget(tagID githash.Hash) (githash.Hash, error) {
	if c.enter("GetTagTarget") {
		return nil, errInjected
	}
	defer c.leave()
	return c.Storer.GetTagTarget(tagID)
}

func (c *CountingStorer) GetObjectSignature(objectID githash.Hash) ([]byte, []byte, error) {
	if c.enter("GetObjectSignature") {
		return nil, nil, errInjected
	}
	defer c.leave()
	return c.Storer.GetObjectSignature(objectID)
}

// splitCommit re-composes Repository.Commit (commit.go:23-57) from its parts: the tip is
// read (step 1); the commit object with that parent is created by the real Commit on a
// private scratch reference and the target reference is moved by the real
// CheckAndSetReference(ref, new, old) (step 2).
func (c *CountingStorer) splitCommit(treeID githash.Hash, targetRef, message string, sign bool) (githash.Hash, error) {
	if c.enter("Commit.read(" + targetRef + ")") {
		return nil, errInjected
	}
	old, err := c.Repo.GetReference(targetRef)
	if err != nil {
		if !errors.Is(err, gitinterface.ErrReferenceNotFound) {
			return nil, err
		}
		old = c.Repo.ZeroHash()
	}
	c.leave()
	if c.enter("Commit.cas(" + targetRef + ")") {
		return nil, errInjected
	}
	defer c.leave()
	if old.IsZero() {
		_ = c.Repo.DeleteReference(c.ScratchRef)
	} else if err := c.Repo.SetReference(c.ScratchRef, old); err != nil {
		return nil, err
	}
	id, err := c.Repo.Commit(treeID, c.ScratchRef, message, sign)
	if err != nil {
		return nil, err
	}
	_ = c.Repo.DeleteReference(c.ScratchRef)
	return id, c.Repo.CheckAndSetReference(targetRef, id, old)
}

func (c *CountingStorer) Commit(treeID githash.Hash, targetRef, message string, sign bool) (githash.Hash, error) {
	if c.SplitCommit {
		return c.splitCommit(treeID, targetRef, message, sign)
	}
	if c.enter("Commit(" + targetRef + ")") {
		return nil, errInjected
	}
	defer c.leave()
	return c.Storer.Commit(treeID, targetRef, message, sign)
}

func (c *CountingStorer) CommitUsingSpecificKey(treeID githash.Hash, targetRef, message string, key []byte) (githash.Hash, error) {
	if c.enter("CommitUsingSpecificKey(" + targetRef + ")") {
		return nil, errInjected
	}
	defer c.leave()
	return c.Storer.CommitUsingSpecificKey(treeID, targetRef, message, key)
}

func (c *CountingStorer) ZeroHash() githash.Hash { return c.Storer.ZeroHash() }

func (c *CountingStorer) LookupConfig(key gitstore.ConfigKey) (string, bool, error) {
	if c.enter("LookupConfig") {
		return "", false, errInjected
	}
	defer c.leave()
	return c.Storer.LookupConfig(key)
}

func (c *CountingStorer) ResetDueToError(cause error, refName string, commitID githash.Hash) error {
	if c.enter("ResetDueToError(" + refName + ")") {
		// the reset itself fails: the contract (gitstore.go:113-115) is to return the cause wrapped
		return fmt.Errorf("unable to reset %s: %w", refName, cause)
	}
	defer c.leave()
	return c.Storer.ResetDueToError(cause, refName, commitID)
}

// runGuarded runs op, converting the crash sentinel into crashed=true and any
// other panic into an error string.
func runGuarded(op func() error) (err error, crashed bool, panicked string) {
	defer func() {
		if r := recover(); r != nil {
			if _, ok := r.(crashSentinel); ok {
				crashed = true
				return
			}
			panicked = fmt.Sprint(r)
		}
	}()
	return op(), false, ""
}

// ---- independent walker: git plumbing only, own parser --------------------

type WalkEntry struct {
	ID       string
	NParents int
	Parent   string
	Kind     string // "ref" | "ann" | "prop" | "?"
	Ref      string
	Target   string
	Number   uint64
	HasNum   bool
	Refs     []string // annotation: referred entry ids
	Body     string   // annotation: decoded message
}

func gitOut(gitDir string, args ...string) (string, error) {
	cmd := exec.Command("git", append([]string{"--git-dir", gitDir}, args...)...)
	out, err := cmd.Output()
	return string(out), err
}

// RefValue returns "" when the reference does not exist.
func RefValue(gitDir, ref string) string {
	out, err := gitOut(gitDir, "rev-parse", "--verify", "--quiet", ref)
	if err != nil {
		return ""
	}
	return strings.TrimSpace(out)
}

func parseEntryMessage(e *WalkEntry, msg string) {
	lines := strings.Split(msg, "\n")
	e.Kind = "?"
	if len(lines) == 0 {
		return
	}
	switch strings.TrimSpace(lines[0]) {
	case "RSL Reference Entry":
		e.Kind = "ref"
	case "RSL Annotation Entry":
		e.Kind = "ann"
	case "RSL Propagation Entry":
		e.Kind = "prop"
	}
	for i, l := range lines[1:] {
		if strings.HasPrefix(l, "-----BEGIN") {
			b64 := ""
			for _, m := range lines[i+2:] {
				if strings.HasPrefix(m, "-----END") {
					break
				}
				b64 += strings.TrimSpace(m)
			}
			if raw, err := base64.StdEncoding.DecodeString(b64); err == nil {
				e.Body = string(raw)
			}
			break
		}
		k, v, ok := strings.Cut(l, ": ")
		if !ok {
			continue
		}
		switch k {
		case "ref":
			e.Ref = v
		case "targetID":
			e.Target = v
		case "entryID":
			e.Refs = append(e.Refs, v)
		case "number":
			if n, err := strconv.ParseUint(strings.TrimSpace(v), 10, 64); err == nil {
				e.Number, e.HasNum = n, true
			}
		}
	}
}

// WalkLog lists the commits reachable from the RSL ref, newest first, each with
// its parents and its parsed message. It follows `git rev-list --parents` (all
// parents), so a merge or a fork shows up as NParents != 1 / extra commits.
func WalkLog(gitDir string) ([]WalkEntry, error) {
	tip := RefValue(gitDir, rsl.Ref)
	if tip == "" {
		return []WalkEntry{}, nil
	}
	// one process: id, parents and raw message of every reachable commit, NUL-separated
	out, err := gitOut(gitDir, "log", "--topo-order", "--format=%H %P%n%B%x00", rsl.Ref)
	if err != nil {
		return nil, err
	}
	res := []WalkEntry{}
	for _, rec := range strings.Split(out, "\x00") {
		rec = strings.TrimLeft(rec, "\n")
		if rec == "" {
			continue
		}
		first, msg, _ := strings.Cut(rec, "\n")
		f := strings.Fields(first)
		if len(f) == 0 {
			continue
		}
		e := WalkEntry{ID: f[0], NParents: len(f) - 1}
		if len(f) > 1 {
			e.Parent = f[1]
		}
		parseEntryMessage(&e, msg)
		res = append(res, e)
	}
	return res, nil
}

// ChainValid: the declarative chain condition on an independently walked log
// (newest first): exactly one root, every other commit has exactly one parent
// which is the next element, numbers are consecutive starting at 1, and every
// message is a recognised entry.
func ChainValid(w []WalkEntry) bool {
	for i, e := range w {
		last := i == len(w)-1
		if e.Kind == "?" || !e.HasNum {
			return false
		}
		if last {
			if e.NParents != 0 || e.Number != 1 {
				return false
			}
		} else {
			if e.NParents != 1 || e.Parent != w[i+1].ID || e.Number != w[i+1].Number+1 {
				return false
			}
		}
	}
	return true
}

// ReadersWalk walks the log with gittuf's own readers from the tip to the root
// and classifies the outcome: "ok" / "empty" / "invalid-entry" / "branch" / "other".
func ReadersWalk(repo *gitinterface.Repository) (string, int) {
	rsl.VerifResetCache()
	e, err := rsl.GetLatestEntry(repo)
	if err != nil {
		if errors.Is(err, rsl.ErrRSLEntryNotFound) {
			return "empty", 0
		}
		return classifyRSLErr(err), 0
	}
	n := 1
	for {
		p, err := rsl.GetParentForEntry(repo, e)
		if err != nil {
			if errors.Is(err, rsl.ErrRSLEntryNotFound) {
				return "ok", n
			}
			return classifyRSLErr(err), n
		}
		e = p
		n++
		if n > 100000 {
			return "other", n
		}
	}
}

func classifyRSLErr(err error) string {
	switch {
	case errors.Is(err, rsl.ErrInvalidRSLEntry):
		return "invalid-entry"
	case errors.Is(err, rsl.ErrRSLBranchDetected):
		return "branch"
	default:
		return "other"
	}
}

// ---- step scheduler (C17) ---------------------------------------------------

type schedEvent struct {
	tid  int
	done bool
}

type schedThread struct {
	id     int
	grant  chan struct{}
	done   bool
	err    error
	panicS string
	cs     *CountingStorer
}

// StepScheduler serialises the Storer calls of several goroutines: a goroutine
// blocks before every call until it is granted a step; between two of its calls
// it runs alone. The order of grants follows an explicit schedule (thread ids);
// entries naming a finished thread are skipped; when the schedule is exhausted
// the remaining threads run to completion one after the other (lowest id first).
type StepScheduler struct {
	threads []*schedThread
	events  chan schedEvent
	timeout time.Duration
	Granted []int // the schedule actually followed (one id per Storer call)
	mu      sync.Mutex
}

var errSchedTimeout = errors.New("verif: schedule deadlocked (timeout)")

func NewStepScheduler(inner gitstore.Storer, nThreads int) *StepScheduler {
	s := &StepScheduler{events: make(chan schedEvent, nThreads*2), timeout: 20 * time.Second}
	for i := 0; i < nThreads; i++ {
		th := &schedThread{id: i, grant: make(chan struct{})}
		th.cs = NewCountingStorer(inner)
		tid := i
		th.cs.Gate = func(string) {
			s.events <- schedEvent{tid: tid}
			<-th.grant
		}
		s.threads = append(s.threads, th)
	}
	return s
}

func (s *StepScheduler) Storer(tid int) *CountingStorer { return s.threads[tid].cs }

// waitFor waits until thread tid arrives at its next Storer call or finishes.
func (s *StepScheduler) waitFor(tid int) error {
	select {
	case ev := <-s.events:
		if ev.tid != tid {
			return fmt.Errorf("verif: event from thread %d while %d runs", ev.tid, tid)
		}
		if ev.done {
			s.threads[tid].done = true
		}
		return nil
	case <-time.After(s.timeout):
		return errSchedTimeout
	}
}

// Run starts ops[i] on thread i and follows the schedule. onSwitch is called
// before a step is granted to a thread different from the previously running one.
func (s *StepScheduler) Run(ops []func(st gitstore.Storer) error, schedule []int, onSwitch func(from, to int)) error {
	for i, op := range ops {
		th := s.threads[i]
		op := op
		go func() {
			defer func() {
				if r := recover(); r != nil {
					th.panicS = fmt.Sprint(r)
				}
				s.events <- schedEvent{tid: th.id, done: true}
			}()
			th.err = op(th.cs)
		}()
		// let it run up to its first Storer call (it touches nothing before that)
		if err := s.waitFor(i); err != nil {
			return err
		}
	}
	last := -1
	step := func(tid int) error {
		th := s.threads[tid]
		if last != tid && onSwitch != nil {
			onSwitch(last, tid)
		}
		last = tid
		s.Granted = append(s.Granted, tid)
		th.grant <- struct{}{}
		return s.waitFor(tid)
	}
	for _, tid := range schedule {
		if tid < 0 || tid >= len(s.threads) || s.threads[tid].done {
			continue
		}
		if err := step(tid); err != nil {
			return err
		}
	}
	for _, th := range s.threads {
		for !th.done {
			if err := step(th.id); err != nil {
				return err
			}
		}
	}
	return nil
}
