package harness

import (
	"os"
	"path/filepath"
	"testing"

	"github.com/gittuf/gittuf/internal/policy"
	policyopts "github.com/gittuf/gittuf/internal/policy/options/policy"
	"github.com/gittuf/gittuf/pkg/githash"
	"github.com/gittuf/gittuf/pkg/gitinterface"
)

// scratchRoot: all repositories live under VERIF_TMP (outside /repo and /verif).
func scratchRoot(t testing.TB) string {
	root := envStr("VERIF_TMP", "")
	if root == "" {
		return t.TempDir()
	}
	d, err := os.MkdirTemp(root, "repo-")
	if err != nil {
		t.Fatal(err)
	}
	t.Cleanup(func() { os.RemoveAll(d) })
	return d
}

func NewRepo(t *testing.T) *gitinterface.Repository {
	t.Helper()
	dir := scratchRoot(t)
	return gitinterface.CreateTestGitRepository(t, filepath.Join(dir, "r"), false)
}

// CommitStaged writes the state to the staging ref (no RSL entry) and loads it
// back bypassing the RSL: a preprocessed State bound to the repository whose
// signatures have NOT been verified.
func CommitStagedAndLoad(t *testing.T, repo *gitinterface.Repository, st *policy.State) *policy.State {
	t.Helper()
	if err := st.Commit(repo, "policy", false, false); err != nil {
		t.Fatal(err)
	}
	loaded, err := policy.LoadCurrentState(ctx, repo, policy.PolicyStagingRef, policyopts.BypassRSL())
	if err != nil {
		t.Fatal(err)
	}
	return loaded
}

func emptyTree(t testing.TB, repo *gitinterface.Repository) githash.Hash {
	id, err := repo.EmptyTree()
	if err != nil {
		t.Fatal(err)
	}
	return id
}
