import Gittuf.Model.Sig
