import Driver.Util
import Gittuf.Spec.C17
open Lean Gittuf Gittuf.Script

namespace Driver.C17

def refName : Ref → String
  | .rsl => "refs/gittuf/reference-state-log"
  | .policy => "refs/gittuf/policy"
  | .staging => "refs/gittuf/policy-staging"
  | .attest => "refs/gittuf/attestations"
  | .pcache => "refs/local/gittuf/persistent-cache"
  | .branch n => s!"refs/heads/t{n}"

/-- the Storer call kind a model call stands for (macro calls: their head call). -/
def kind : Call → String
  | .getRef r => s!"GetReference({refName r})"
  | .setRef r _ => s!"SetReference({refName r})"
  | .delRef r => s!"DeleteReference({refName r})"
  | .getMsg _ => "GetCommitMessage"
  | .emptyTree => "EmptyTree"
  | .writeBlob => "WriteBlob"
  | .writeTree => "WriteTree"
  | .commit r _ => s!"Commit({refName r})"
  | .commitRead r => s!"Commit.read({refName r})"
  | .commitCas r _ _ => s!"Commit.cas({refName r})"
  | .reset r _ => s!"ResetDueToError({refName r})"
  | .knows _ _ => "KnowsCommit"
  | .lookup _ => "GetReference(refs/gittuf/reference-state-log)"
  | .loadVerify => "GetReference(refs/gittuf/reference-state-log)"
  | .loadState _ => "GetCommitTreeID"

/-- starting store: `pre` reference entries numbered 1..pre. -/
def preStore (pre : Nat) : Store :=
  { commits := (List.range pre).map fun i =>
      { parents := if i = 0 then [] else [i - 1], payload := .refEntry (.branch 100) 9999 (i + 1), owner := 0 },
    refs := if pre = 0 then [] else [(.rsl, pre - 1)] }

def resStr : Option Res → String
  | some .ok => "ok"
  | some _ => "error"
  | none => "running"

def nodeJson (n : Node) : Json :=
  Json.mkObj [("npar", n.npar), ("number", n.number), ("owner", n.owner)]

def parseNode (j : Json) : R Node := do
  let o ← intF j "owner"
  return { npar := ← natF j "npar", number := ← natF j "number", owner := if o < 0 then 9999 else o.toNat }

def switches : List Nat → Nat
  | a :: b :: rest => (if a = b then 0 else 1) + switches (b :: rest)
  | _ => 0

def handle (j : Json) : R Json := do
  let inp ← field j "in"
  let pre ← natF inp "pre"
  let split ← boolF inp "split"
  let sched ← natListF inp "schedule"
  let ops ← arrF inp "ops"
  let progs ← ops.toList.zipIdx.mapM fun (o, i) => do
    match (← strF o "kind") with
    | "record" => pure (recordRef (.branch i) (1000 + i) split)
    | "annotate" => pure (annotate [(← natF o "ann") - 1] split)
    | k => throw s!"unknown op {k}"
  let g0 : Global := { store := preStore pre, threads := progs.zipIdx.map fun (p, i) => { owner := i + 1, prog := p } }
  let g1 := g0.run sched
  let g2 := (List.range progs.length).foldl (fun g tid => g.finish tid 32) g1
  let mResults := g2.threads.map (fun t => resStr t.result)
  let mTraces := g2.threads.map (fun t => t.trace.reverse.map kind)
  let mChain := g2.store.nodes
  let impl ← field j "impl"
  let deadlock ← boolF impl "deadlock"
  let iResults ← strListF impl "results"
  let iTraces ← (← arrF impl "traces").toList.mapM strList
  let iChain ← (← arrF impl "chain").toList.mapM parseNode
  let reader ← strF impl "reader"
  let agree := !deadlock && mResults == iResults && mTraces == iTraces && mChain == iChain
  let specImpl := !deadlock && !iResults.contains "panic" &&
    c17HoldsB pre (iResults.map (· == "ok")) iChain (reader == "ok" || reader == "empty")
  -- what the model of the code as it stands predicts for this schedule
  let specModel := c17HoldsB pre (mResults.map (· == "ok")) mChain (chainOKB mChain)
  let base := [
    ("id", (← field j "id")),
    ("agree", Json.bool agree), ("spec_impl", Json.bool specImpl),
    ("model", Json.mkObj [("results", jStrs mResults), ("chain", Json.arr (mChain.map nodeJson).toArray),
                          ("traces", Json.arr (mTraces.map jStrs).toArray), ("spec", Json.bool specModel)]),
    ("class", Json.str (if specImpl then (if iResults.all (· == "ok") then "all-ok" else "some-refused") else "corrupt")),
    ("nontrivial", Json.bool (switches sched ≥ 2))]
  return Json.mkObj (if specModel then base else base ++ [("finding", Json.str "F14")])

end Driver.C17
