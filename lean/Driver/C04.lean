import Driver.Rsl
open Lean Gittuf Gittuf.RSL Driver.Rsl

namespace Driver.C04

/-- canonical observable of one query -/
structure Obs where
  cls : String
  entries : List Int := []          -- returned entry (one) or range entries, as commit indices
  anns : List (List Int) := []      -- per returned entry: annotation indices
  deriving Repr, DecidableEq, Inhabited

def sortInts (l : List Int) : List Int := (l.toArray.qsort (· < ·)).toList
def dedup (l : List Int) : List Int := (sortInts l).eraseDups

def obsOne (nT : Nat) (r : Except RErr (LEntry × List LEntry)) : Obs :=
  match r with
  | .ok (x, anns) => { cls := "ok", entries := [idxOf nT x.id], anns := [sortInts (anns.map (fun a => idxOf nT a.id))] }
  | .error e => { cls := errName e }

def obsRange (nT : Nat) (r : Except RErr (List (LEntry × List LEntry))) : Obs :=
  match r with
  | .ok l => { cls := "ok", entries := l.map (fun p => idxOf nT p.1.id),
               anns := l.map (fun p => p.2.map (fun a => idxOf nT a.id)) }
  | .error e => { cls := errName e }

def Obs.toJson (o : Obs) : Json :=
  Json.mkObj [("class", o.cls), ("entries", Json.arr (o.entries.map (fun (i : Int) => (i : Json))).toArray),
    ("anns", Json.arr (o.anns.map (fun l => Json.arr (l.map (fun (i : Int) => (i : Json))).toArray)).toArray)]

def parseObs (j : Json) : R Obs := do
  let ints (v : Json) : R (List Int) := do
    if v.isNull then return []
    let a ← v.getArr?
    a.toList.mapM (·.getInt?)
  let entries ← match optF j "entries" with | none => pure [] | some v => ints v
  let anns ← match optF j "anns" with
    | none => pure []
    | some v => do let a ← v.getArr?; a.toList.mapM ints
  return { cls := ← strF j "class", entries := entries, anns := anns }

def optId (nT : Nat) (j : Json) (k : String) : Option Id :=
  match optF j k with
  | none => none
  | some v => match v.getInt? with
    | .ok i => if i < 0 then none else some (idOf nT i)
    | .error _ => none

def parseOpts (nT : Nat) (j : Json) : Opts :=
  let getS (k : String) : String := match optF j k with | some v => v.getStr?.toOption.getD "" | none => ""
  let getN (k : String) : Nat := match optF j k with | some v => v.getNat?.toOption.getD 0 | none => 0
  let getB (k : String) : Bool := match optF j k with | some v => v.getBool?.toOption.getD false | none => false
  { ref := getS "ref", beforeId := optId nT j "beforeId", beforeNum := getN "beforeNum",
    untilId := optId nT j "untilId", untilNum := getN "untilNum", unskipped := getB "unskipped",
    nonGittuf := getB "nonGittuf", isRef := getB "isRef", propRepo := getS "propRepo" }

def lentryAt (s : Store) (i : Id) : LEntry :=
  match s.get i with
  | some { entry := some e, .. } => ⟨i, e⟩
  | _ => ⟨i, .reference "" 0 0⟩

/-- is this error class one of the tamper errors? -/
def isTamperCls (c : String) : Bool := c == "branch" || c == "invalid"

/-- The property judged on the implementation's answer.  `spec`: the spec's answer on the
well-formed prefix with `atEnd := e`.  Untampered chain: equality.  Tampered: an answer that
needs to leave the prefix (`spec = error e`) must be a tamper error; otherwise the
implementation may give the spec's answer or (conservatively) a tamper error. -/
def judge (e : RErr) (spec impl : Obs) (setLike : Bool) : Bool :=
  let norm (o : Obs) : Obs := if setLike then { o with anns := o.anns.map dedup } else o
  if e == .notFound then norm spec == norm impl
  else if spec.cls == errName e then isTamperCls impl.cls
  else norm spec == norm impl || isTamperCls impl.cls

structure QRes where
  agree : Bool
  specOk : Bool
  finding : Option String
  cls : String
  detail : Json

def runQuery (nT : Nat) (tp : List Int) (s : Store) (pre : List LEntry) (e : RErr) (q : Json) (impl : Obs) : R QRes := do
  let fn ← strF q "fn"
  let getS (k : String) : String := match optF q k with | some v => v.getStr?.toOption.getD "" | none => ""
  let getI (k : String) : Int := match optF q k with | some v => v.getInt?.toOption.getD (-1) | none => -1
  let mk (model spec : Obs) (setLike : Bool) (finding : Option String := none) : QRes :=
    let specOk := judge e spec impl setLike
    { agree := model == impl, specOk := specOk, finding := if specOk then none else finding, cls := impl.cls,
      detail := Json.mkObj [("q", q), ("model", model.toJson), ("spec", spec.toJson), ("impl", impl.toJson)] }
  match fn with
  | "latest" =>
    let o := parseOpts nT q
    let model := obsOne nT (getLatestReferenceUpdaterEntry {} o s)
    let spec := obsOne nT (latestSpec o pre e)
    -- attribution of a deviation to the known defects: repairing exactly that defect in the model gives the spec's answer
    let m5 := obsOne nT (getLatestReferenceUpdaterEntry { f5 := true } o s)
    let m22 := obsOne nT (getLatestReferenceUpdaterEntry { f24 := true } o s)
    let mAll := obsOne nT (getLatestReferenceUpdaterEntry Fix.all o s)
    let finding : Option String :=
      if model != impl then none
      else if m5 == spec && o.untilId.isSome then some "F5"
      else if m22 == spec && o.untilNum != 0 then some "F24"
      else if mAll == spec && o.untilId.isSome then some "F5"
      else none
    return mk model spec false finding
  | "first" =>
    let ref := getS "ref"
    return mk (obsOne nT (getFirstReferenceUpdaterEntryForRef ref s)) (obsOne nT (firstSpec ref pre e)) false
  | "ngparent" =>
    let i := idOf nT (getI "entry")
    let r := mk (obsOne nT (getNonGittufParent (lentryAt s i) s)) (obsOne nT (nonGittufParentSpec i pre e)) false
    -- the spec speaks about entries of the (well-formed part of the) log; for an entry beyond a
    -- break the only requirement is that no result is produced
    return if pre.any (fun x => x.id == i) then r else { r with specOk := impl.cls != "ok" }
  | "forcommit" =>
    let c := (getI "commit").toNat + 1
    let knows := knowsOf tp
    return mk (obsOne nT (getFirstReferenceUpdaterEntryForCommit knows c s)) (obsOne nT (forCommitSpec knows c pre e)) false
  | "range" =>
    let f := idOf nT (getI "first")
    let l := idOf nT (getI "last")
    let ref := getS "ref"
    return mk (obsRange nT (getReferenceUpdaterEntriesInRangeForRef f l ref s)) (obsRange nT (rangeSpec f l ref pre e)) true
  | "entry" =>
    let i := idOf nT (getI "entry")
    let model : Obs := match getEntry s i with | .ok x => { cls := "ok", entries := [idxOf nT x.id] } | .error er => { cls := errName er }
    return { agree := model == impl, specOk := true, finding := none, cls := impl.cls,
             detail := Json.mkObj [("q", q), ("model", model.toJson), ("impl", impl.toJson)] }
  | "parent" =>
    let i := idOf nT (getI "entry")
    let model : Obs := match getParentForEntry s (lentryAt s i) with
      | .ok x => { cls := "ok", entries := [idxOf nT x.id] } | .error er => { cls := errName er }
    -- spec: the next element of the chain, or the error closing the well-formed prefix
    let spec : Obs := match pre.dropWhile (fun x => x.id != i) with
      | _ :: p :: _ => { cls := "ok", entries := [idxOf nT p.id] }
      | _ => { cls := errName e }
    let inPre := pre.any (fun x => x.id == i)
    let r := mk model spec false
    return if inPre then r else { r with specOk := true }
  | _ => throw s!"unknown query {fn}"

def handle (j : Json) : R Json := do
  let inp ← field j "in"
  let tp ← (← arrF inp "targets").toList.mapM (·.getInt?)
  let nT := tp.length
  let steps ← (← arrF inp "log").toList.mapM parseStep
  let queries := (← arrF inp "queries").toList
  let impl ← field j "impl"
  let implNums ← (← arrF impl "nums").toList.mapM (·.getInt?)
  let implRes ← (← arrF impl "results").toList.mapM parseObs
  -- build the store
  let (s, buildOk) := steps.foldl (fun (acc : Store × Bool) st =>
      let (s', r) := applyStep nT acc.1 st
      (s', acc.2 && (match r with | .ok _ => true | .error _ => false))) (initStore tp, true)
  let modelNums := (List.range steps.length).map (fun i =>
      match s.get (nT + 1 + i) with | some c => numOfCommit c | none => -2)
  let numsAgree := buildOk && modelNums == implNums
  let (pre, e) := wfPrefix s.chain
  if queries.length != implRes.length then throw "queries/results length mismatch"
  let rs ← (queries.zip implRes).mapM (fun (q, r) => runQuery nT tp s pre e q r)
  let agree := numsAgree && rs.all (·.agree)
  let specOk := rs.all (·.specOk) && annBackwardB pre
  let badSpec := rs.filter (fun r => !r.specOk)
  let finding : Option String :=
    if badSpec.isEmpty then none
    else if badSpec.all (fun r => r.finding.isSome) then (badSpec.head?.bind (·.finding)) else none
  let firstBad := (rs.filter (fun r => !r.specOk || !r.agree)).head?
  let hist := rs.foldl (fun (m : List (String × Nat)) r =>
      match m.lookup r.cls with
      | some n => (r.cls, n + 1) :: m.filter (·.1 != r.cls)
      | none => (r.cls, 1) :: m) []
  let base : List (String × Json) := [
    ("id", (← field j "id")), ("agree", agree), ("spec_impl", specOk),
    ("nontrivial", Json.bool (rs.any (fun r => r.cls == "ok") || e != .notFound)),
    ("class", Json.str (if e == .notFound then "wf" else "tampered-" ++ errName e)),
    ("model", Json.mkObj [("nums_agree", numsAgree), ("tamper", errName e), ("prefix_len", pre.length),
      ("hist", Json.mkObj (hist.map (fun (k, n) => (k, (n : Json))))),
      ("findings", jStrs (badSpec.filterMap (·.finding)).eraseDups),
      ("first_bad", match firstBad with | some r => r.detail | none => Json.null)])]
  return Json.mkObj (base ++ (match finding with | some f => [("finding", Json.str f)] | none => []))

end Driver.C04
