import Driver.Rsl
open Lean Gittuf Gittuf.RSL Driver.Rsl

namespace Driver.C03

def parseSeen (j : Json) : R Seen := do
  let idx ← intF j "idx"
  let num ← intF j "number"
  return { idx := if idx < 0 then 1000000 else idx.toNat, nparents := ← natF j "nparents",
           number := if num < 0 then none else some num.toNat }

/-- the model's chain in the harness's terms -/
def modelChain (nT : Nat) (s : Store) : List Seen :=
  s.chain.map (fun (i, c) =>
    { idx := i - (nT + 1), nparents := c.parents.length, number := c.entry.map (·.number) })

structure Acc where
  s : Store
  prev : List Seen := []       -- implementation's chain before the operation
  agree : Bool := true
  specOk : Bool := true
  emptyAnn : Bool := false     -- an annotation without ids has been accepted (F25)
  onlyF25 : Bool := true       -- every spec failure so far is the unparsable tip left by such an annotation
  firstBad : Option Json := none
  nOk : Nat := 0

def handle (j : Json) : R Json := do
  let inp ← field j "in"
  let tp ← (← arrF inp "targets").toList.mapM (·.getInt?)
  let nT := tp.length
  let ops ← (← arrF inp "ops").toList.mapM parseStep
  let impl ← field j "impl"
  let stepsJ := (← arrF impl "steps").toList
  if stepsJ.length != ops.length then throw "ops/steps length mismatch"
  let mut acc : Acc := { s := initStore tp }
  for (op, sj) in ops.zip stepsJ do
    let cls ← strF sj "class"
    let chain ← (← arrF sj "chain").toList.mapM parseSeen
    let grew := chain.length == acc.prev.length + 1
    -- policy staging / apply and attestation commits: whether they record is decided by the
    -- policy layer (not modelled here); when they do, it is one reference entry for their ref
    let highRef : Option String := match op.k with
      | "pstage" => some "refs/gittuf/policy-staging"
      | "papply" => some "refs/gittuf/policy"
      | "attest" => some "refs/gittuf/attestations"
      | _ => none
    let (s', r) := match highRef with
      -- the target of such an entry is a policy / attestation commit: unrelated to every branch commit (id 0)
      | some ref => if cls == "ok" && grew then step acc.s (.reference ref 0) else (acc.s, .ok [])
      | none => applyStep nT acc.s op tp
    let mcls := match r with | .ok _ => "ok" | .error e => errName e
    let mchain := modelChain nT s'
    let agree := (mcls == cls || highRef.isSome) && mchain == chain
    -- the property on the implementation's own chain
    let mayNoop := op.k == "skip" || highRef.isSome
    let exact := if cls == "ok" then (grew && extendsB acc.prev chain) || (mayNoop && chain == acc.prev) else chain == acc.prev
    let namesNonEntry := op.k == "ann" && op.ids.any (fun i => i < 0)
    let refused := !(namesNonEntry && cls == "ok")
    let shape := chainShapeB chain
    let specOk := shape && exact && refused && extendsB acc.prev chain
    let emptyAnn := acc.emptyAnn || (op.k == "ann" && op.ids.isEmpty && cls == "ok")
    -- F25: the only thing wrong is that the newest commit, an accepted annotation without ids, does not parse
    let f25 := emptyAnn && exact && refused &&
      (match chain with
        | x :: rest => x.number.isNone && (rest.isEmpty || chainShapeB rest) && (x.nparents == (if rest.isEmpty then 0 else 1))
        | [] => false)
    let bad : Option Json :=
      if agree && specOk then none else
      some (Json.mkObj [("op_index", (acc.nOk : Json)), ("impl_class", cls), ("model_class", mcls),
        ("shape", shape), ("exact", exact), ("refused", refused),
        ("model_chain", Json.arr (mchain.map (fun x => Json.mkObj [("idx", (x.idx : Json)), ("np", (x.nparents : Json)),
            ("n", match x.number with | some n => (n : Json) | none => Json.null)])).toArray)])
    acc := { s := s', prev := chain, agree := acc.agree && agree, specOk := acc.specOk && specOk,
             emptyAnn := emptyAnn, onlyF25 := acc.onlyF25 && (specOk || f25),
             firstBad := acc.firstBad <|> bad, nOk := acc.nOk + 1 }
  let finding : Option String := if !acc.specOk && acc.onlyF25 then some "F25" else none
  let base : List (String × Json) := [
    ("id", (← field j "id")), ("agree", acc.agree), ("spec_impl", acc.specOk),
    ("nontrivial", Json.bool (acc.prev.length ≥ 2)),
    ("class", Json.str (if acc.emptyAnn then "empty-annotation" else "regular")),
    ("model", Json.mkObj [("final_len", (acc.prev.length : Json)),
      ("first_bad", acc.firstBad.getD Json.null)])]
  return Json.mkObj (base ++ (match finding with | some f => [("finding", Json.str f)] | none => []))

end Driver.C03
