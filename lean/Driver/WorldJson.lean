import Driver.Util
import Gittuf.Model.Verify
open Lean Gittuf

namespace Driver

def optNatF (j : Json) (k : String) : Option Nat :=
  match optF j k with | none => none | some v => v.getNat?.toOption

def parsePrincipalSpec (j : Json) : R PrincipalSpec := do
  let ids := match optF j "identities" with
    | some (.obj kvs) => kvs.toList.filterMap (fun (k, v) => match v.getStr? with | .ok s => some (k, s) | _ => none)
    | _ => []
  return { id := ← natF j "id", person := (boolF j "person").toOption.getD false, keys := ← natListF j "keys", identities := ids }

def parseRule (byId : Nat → Nat) (j : Json) : R Rule := do
  return { name := ← strF j "name", patterns := ← strListF j "patterns",
           principals := (← natListF j "principals").map byId,
           threshold := ← intF j "threshold", terminating := (boolF j "terminating").toOption.getD false }

def parseRuleFile (j : Json) : R RuleFile := do
  let ps ← (← arrF j "principals").toList.mapM parsePrincipalSpec
  let rules ← (← arrF j "rules").toList.mapM (parseRule id)
  let noAllow := (boolF j "no_allow").toOption.getD false
  let v := (natF j "version").toOption.getD 1
  return { name := ← strF j "name", version := if v == 0 then 1 else v, principals := ps,
           rules := if noAllow then rules else rules ++ [allowRule], signers := ← natListF j "signers" }

def parseGlobal (j : Json) : R GlobalRule := do
  return { name := ← strF j "name", isThreshold := (← strF j "kind") == "threshold",
           patterns := ← strListF j "patterns", threshold := (intF j "threshold").toOption.getD 0 }

def parseApp (j : Json) : R App := do
  return { name := ← strF j "name", key := ← natF j "key", trusted := ← boolF j "trusted" }

def parseRoot (j : Json) : R Root := do
  let v := (natF j "version").toOption.getD 1
  return { version := if v == 0 then 1 else v, rootKeys := ← natListF j "root_keys", rootThreshold := ← intF j "root_threshold",
           targetsKeys := ← natListF j "targets_keys", targetsThreshold := ← intF j "targets_threshold",
           globals := ← (match optF j "global_rules" with | none => pure [] | some _ => do (← arrF j "global_rules").toList.mapM parseGlobal),
           apps := ← (match optF j "apps" with | none => pure [] | some _ => do (← arrF j "apps").toList.mapM parseApp),
           signers := ← natListF j "signers" }

def parsePolicy (j : Json) : R Policy := do
  return { root := ← parseRoot (← field j "root"), files := ← (← arrF j "files").toList.mapM parseRuleFile }

def parseTarget (j : Json) : R Target := do
  let i ← natF j "i"
  match (← strF j "kind") with
  | "commit" => pure (.commit i)
  | "policy" => pure (.policy i)
  | "att" => pure (.att i)
  | _ => pure .zero

def parseEntry (j : Json) : R LogEntry := do
  let kind ← match (← strF j "kind") with
    | "ref" => pure EKind.ref | "ann" => pure EKind.ann | "prop" => pure EKind.prop
    | k => throw s!"bad kind {k}"
  return { kind := kind, ref := ← strF j "ref", target := ← parseTarget (← field j "target"),
           signer := optNatF j "signer", refs := ← natListF j "refs", skip := ← boolF j "skip" }

def parseAuth (j : Json) : R Auth := do
  return { sref := ← strF j "sref", sfrom := optNatF j "sfrom", sto := ← natF j "sto",
           ref := ← strF j "ref", frm := optNatF j "from", to := ← natF j "to", signers := ← natListF j "signers" }

def parseGh (j : Json) : R GhApproval := do
  return { sref := ← strF j "sref", sfrom := optNatF j "sfrom", sto := ← natF j "sto",
           ref := ← strF j "ref", frm := optNatF j "from", to := ← natF j "to", app := ← strF j "app",
           signers := ← natListF j "signers", approvers := ← strListF j "approvers", dismissed := ← strListF j "dismissed" }

def parseAtt (j : Json) : R AttState := do
  return { auths := ← (← arrF j "auths").toList.mapM parseAuth, gh := ← (← arrF j "gh").toList.mapM parseGh }

def parseCommit (j : Json) : R CommitSpec := do
  return { parents := ← natListF j "parents", tree := ← natF j "tree", signer := optNatF j "signer" }

def parseFile (j : Json) : R (String × Nat) := do return (← strF j "path", ← natF j "blob")

def parseWorld (j : Json) : R World := do
  let trees ← (← arrF j "trees").toList.mapM (fun t => do
    if t.isNull then pure [] else (← t.getArr?).toList.mapM parseFile)
  return { trees := trees,
           commits := ← (← arrF j "commits").toList.mapM parseCommit,
           policies := ← (← arrF j "policies").toList.mapM parsePolicy,
           atts := ← (← arrF j "atts").toList.mapM parseAtt,
           log := ← (← arrF j "log").toList.mapM parseEntry }

/-- the variant of the code under check: a defect flag is set iff the finding is listed as open -/
def parseVariant (j : Json) : Variant :=
  let open_ : List String := match j.getObjVal? "open" with
    | .ok v => (strList v).toOption.getD []
    | .error _ => ["F1", "F2", "F3", "F4", "F7", "F27", "F63", "F64", "F65"]
  { f1_exhaustiveSatisfies := open_.contains "F1", f2_propagationSkipped := open_.contains "F2",
    f3_fixNotVerified := open_.contains "F3", f4_inRangeNotSelfVerified := open_.contains "F4",
    f7_ghPredicateNotValidated := open_.contains "F7",
    f27_mergeableNeedsThreshold2 := open_.contains "F27",
    f63_trustExhaustive := open_.contains "F63",
    f64_shortcutSkipsGlobals := open_.contains "F64",
    f65_globalFileRuleIgnored := open_.contains "F65" }

structure Query where
  mode : String
  ref  : String
  frm  : Nat
  deriving Repr, Inhabited

def parseQuery (j : Json) : R Query := do
  return { mode := ← strF j "mode", ref := ← strF j "ref", frm := (natF j "from").toOption.getD 0 }

structure QResult where
  cls : String
  tip : Option Nat
  deriving Repr, BEq, Inhabited

def classOf : VE → String
  | .verif => "verif" | .notSkipped => "notskipped" | .lastGoodSkipped => "lastgoodskipped"
  | .noPolicy => "nopolicy" | .notFound => "notfound" | .policy _ => "policy" | .other => "other"

def runQuery (W : World) (v : Variant) (q : Query) : QResult :=
  let r := match q.mode with
    | "full" => W.verifyRefFull v q.ref
    | "latest" => W.verifyRef v q.ref
    | _ => W.verifyRefFromEntry v q.ref q.frm
  match r with
  | .ok tip => { cls := "ok", tip := tip }
  | .error e => { cls := classOf e, tip := none }

def parseImpl (j : Json) : R QResult := do
  let tip ← intF j "tip"
  return { cls := ← strF j "class", tip := if tip < 0 then none else some tip.toNat }

def QResult.toJson (r : QResult) : Json :=
  Json.mkObj [("class", r.cls), ("tip", match r.tip with | some t => (t : Json) | none => Json.num (-1))]

end Driver
