import Driver.Util
import Gittuf.Spec.C14
open Lean Gittuf Gittuf.Codec

namespace Driver.C14

def bytesOf (j : Json) : R Bytes := do
  return (← natList j).map Nat.toUInt8
def bytesF (j : Json) (k : String) : R Bytes :=
  match optF j k with
  | none => pure []
  | some v => bytesOf v
def jBytes (b : Bytes) : Json := jNats (b.map UInt8.toNat)

/-- hex string of the harness (`Hash.String()`) → digits -/
def hashOfStr (s : String) : R Hash :=
  match hexDecode (s.toUTF8.toList) with
  | some h => pure h
  | none => throw s!"bad hex {s}"
def strOfHash (h : Hash) : String := String.ofList ((hexEncode h).map (fun c => Char.ofNat c.toNat))

def strOr (j : Json) (k : String) : String :=
  match optF j k with
  | some (.str s) => s
  | _ => ""

def parseEntry (j : Json) : R Entry := do
  let t ← strF j "t"
  let num := match optF j "num" with | some v => (v.getNat?.toOption.getD 0) | none => 0
  match t with
  | "ref" =>
    return .ref { ref := ← bytesF j "ref", target := ← hashOfStr (strOr j "target"), number := num }
  | "prop" =>
    return .prop { ref := ← bytesF j "ref", target := ← hashOfStr (strOr j "target"),
                   upstream := ← bytesF j "up", upstreamId := ← hashOfStr (strOr j "upid"), number := num }
  | "ann" =>
    let ids ← match optF j "ids" with
      | none => pure []
      | some v => do (← strList v).mapM hashOfStr
    let skip := match optF j "skip" with | some (.bool b) => b | _ => false
    return .ann { ids := ids, skip := skip, message := ← bytesF j "msg", number := num }
  | _ => throw s!"unknown entry type {t}"

def jEntry : Entry → Json
  | .ref e => Json.mkObj [("t", "ref"), ("ref", jBytes e.ref), ("target", strOfHash e.target), ("num", e.number)]
  | .prop e => Json.mkObj [("t", "prop"), ("ref", jBytes e.ref), ("target", strOfHash e.target),
      ("up", jBytes e.upstream), ("upid", strOfHash e.upstreamId), ("num", e.number)]
  | .ann e => Json.mkObj [("t", "ann"), ("ids", jStrs (e.ids.map strOfHash)), ("skip", e.skip),
      ("msg", jBytes e.message), ("num", e.number)]

def errName : Err → String
  | .invalid => "invalid" | .hashLen => "hashlen" | .hashEnc => "hashenc"
  | .numSyntax => "numsyntax" | .numRange => "numrange"

/-- canonical observable of a parse: (class, error kind, entry) -/
def jParse (r : Except Err Entry) : Json :=
  match r with
  | .ok e => Json.mkObj [("class", "ok"), ("e", jEntry e)]
  | .error k => Json.mkObj [("class", "error"), ("err", errName k)]

/-- what the entry looks like after the parser's trimming of ref / upstream (the modelled defect F11) -/
def trimmedValues : Entry → Entry
  | .ref e => .ref { e with ref := trimSpace e.ref }
  | .prop e => .prop { e with ref := trimSpace e.ref, upstream := trimSpace e.upstream }
  | .ann e => .ann e

def hasHeader (t : Bytes) : Bool := hasPrefix hdrRef t || hasPrefix hdrAnn t || hasPrefix hdrProp t

def handle (j : Json) : R Json := do
  let inp ← field j "in"
  let impl ← field j "impl"
  let kind ← strF inp "k"
  let cls ← strF impl "class"
  let implErr := strOr impl "err"
  let implE : Option Entry ← match optF impl "e" with
    | none => pure none
    | some v => some <$> parseEntry v
  let id ← field j "id"
  if cls == "unrecorded" then
    return Json.mkObj [("id", id), ("agree", true), ("spec_impl", true), ("nontrivial", false), ("class", "unrecorded")]
  match kind with
  | "txt" =>
    let text ← bytesF inp "text"
    let m := parse text
    let agree := match m, implE with
      | .ok e, some e' => cls == "ok" && e == e'
      | .error k, _ => cls == "error" && errName k == implErr
      | _, _ => false
    -- the property on the implementation's own output
    let spec := match cls, implE with
      | "ok", some e => acceptedOkB text e
      | "error", _ => true
      | _, _ => false          -- panic, or ok without an entry
    return Json.mkObj [("id", id), ("agree", agree), ("spec_impl", spec), ("model", jParse m),
      ("nontrivial", Json.bool (cls == "ok" || hasHeader text)),
      ("class", Json.str (if cls == "error" then s!"txt-error-{implErr}" else s!"txt-{cls}"))]
  | "rec" =>
    let written ← parseEntry (← field impl "written")
    let text ← bytesF impl "text"
    let mText := render written
    let m := parse text
    let agreeRender := mText == text
    let agreeParse := match m, implE with
      | .ok e, some e' => cls == "ok" && e == e'
      | .error k, _ => cls == "error" && errName k == implErr
      | _, _ => false
    let agree := agreeRender && agreeParse
    -- written = read back, and what was read is canonical for the stored text
    let spec := match cls, implE with
      | "ok", some e => readBackB written e && acceptedOkB text e
      | _, _ => false
    -- PEM contract of the model (assumption of parse_render for annotations)
    let pemOk := match written with
      | .ann a => decide (PemRoundTrip a)
      | _ => true
    -- known defect F11: the only difference is the parser's trimming of a written value
    let f11 := !spec && agree && !decide written.WF && (match implE with
      | some e => e == trimmedValues written && e != written && acceptedOkB text e
      | none => false)
    let base : List (String × Json) := [("id", id), ("agree", Json.bool (agree && pemOk)), ("spec_impl", spec),
      ("model", Json.mkObj [("render_agrees", agreeRender), ("parse", jParse m), ("pem_contract", pemOk),
         ("wf", decide written.WF)]),
      ("nontrivial", true), ("class", Json.str s!"rec-{cls}")]
    return Json.mkObj (if f11 then base ++ [("finding", Json.str "F11")] else base)
  | _ => throw s!"unknown case kind {kind}"

end Driver.C14
