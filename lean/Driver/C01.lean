import Driver.WorldJson
import Gittuf.Spec.C01
open Lean Gittuf

namespace Driver.C01

/-- which single repaired defect changes the model's answer for this query (attribution of a
spec violation that the model-with-known-defects reproduces) -/
def attributeTo (cv : Variant) (W : World) (q : Query) (cur : QResult) : Option String :=
  let flips : List (String × Variant) := [
    ("F1", { cv with f1_exhaustiveSatisfies := false }),
    ("F2", { cv with f2_propagationSkipped := false }),
    ("F3", { cv with f3_fixNotVerified := false }),
    ("F4", { cv with f4_inRangeNotSelfVerified := false }),
    ("F7", { cv with f7_ghPredicateNotValidated := false })]
  match flips.find? (fun (_, v) => (runQuery W v q).cls != cur.cls) with
  | some (n, _) => some n
  | none => if (runQuery W Variant.good q).cls != cur.cls then some "F1+" else none

def handle (j : Json) : R Json := do
  let inp ← field j "in"
  let W ← parseWorld (← field inp "world")
  let qs ← (← arrF inp "queries").toList.mapM parseQuery
  let impls ← (← arrF j "impl").toList.mapM parseImpl
  let cv := parseVariant j
  let mut agree := true
  let mut spec := true
  let mut finding : Option String := none
  let mut models : Array Json := #[]
  let mut nontrivial := false
  let mut notes : Array Json := #[]
  for (q, impl) in qs.zip impls do
    let m := runQuery W cv q
    models := models.push m.toJson
    let same := (m.cls == "ok") == (impl.cls == "ok") && (impl.cls != "ok" || m.tip == impl.tip)
    if !same then
      agree := false
      notes := notes.push (Json.mkObj [("q", q.mode ++ ":" ++ q.ref), ("model", m.cls), ("impl", impl.cls)])
    if impl.cls == "ok" || impl.cls == "verif" || impl.cls == "notskipped" then nontrivial := true
    -- the property on the implementation's answer (full verification only)
    if q.mode == "full" && impl.cls == "ok" then
      if !W.c01Sound q.ref impl.tip then
        spec := false
        if same then
          match attributeTo cv W q m with
          | some f => finding := some f
          | none => finding := none
        notes := notes.push (Json.mkObj [("q", q.mode ++ ":" ++ q.ref), ("c01Sound", false)])
  return Json.mkObj [
    ("id", (← field j "id")), ("agree", agree), ("spec_impl", spec),
    ("finding", match finding with | some f => Json.str f | none => Json.null),
    ("model", Json.arr models), ("notes", Json.arr notes), ("nontrivial", nontrivial)]

end Driver.C01
