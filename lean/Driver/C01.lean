import Driver.WorldCheck
import Gittuf.Spec.C01
open Lean Gittuf

namespace Driver.C01

/-- C01 on the implementation's answer: an accepted full verification must satisfy `c01Sound`. -/
def spec (W : World) (q : Query) (impl : QResult) : Bool :=
  !(q.mode == "full" && impl.cls == "ok") || W.c01Sound q.ref impl.tip

def handle (j : Json) : R Json := handleWorld spec j

end Driver.C01
