import Driver.Util
import Gittuf.Spec.C05
open Lean Gittuf

namespace Driver.C05

def parseSig (j : Json) : R Sig := do
  let hint := match optF j "hint" with | none => none | some h => h.getNat?.toOption
  return { key := ← natF j "key", over := ← natF j "over", hint := hint }

def parsePrincipal (j : Json) : R Principal := do
  return { id := ← natF j "id", keys := ← natListF j "keys" }

structure Case where
  v : Verifier
  g : Option Sig
  gd : Digest
  env : Option Envelope

def parseCase (j : Json) : R Case := do
  let ps ← (← arrF j "principals").toList.mapM parsePrincipal
  let v : Verifier := { principals := ps, threshold := ← intF j "threshold", exhaustive := ← boolF j "exhaustive" }
  let g ← match optF j "git" with | none => pure none | some s => some <$> parseSig s
  let env ← match optF j "env" with
    | none => pure none
    | some e => do
      let sigs ← (← arrF e "sigs").toList.mapM parseSig
      pure (some { digest := ← natF e "digest", sigs := sigs : Envelope })
  return { v := v, g := g, gd := ← natF j "gd", env := env }

/-- canonical observable: (class, sorted principal set) -/
def canon (r : Except VErr (List PId)) : String × List Nat :=
  match r with
  | .ok s => ("ok", sortNats s)
  | .error .invalidVerifier => ("invalid", [])
  | .error .noSignature => ("other", [])
  | .error (.unmet s) => ("unmet", sortNats s)

/-- every iteration order Go's maps may produce: orders of principals × orders of each principal's keys -/
def orders (ps : List Principal) : List (List Principal) :=
  let keyVariants : List (List Principal) :=
    ps.foldr (fun p acc => (perms p.keys).flatMap (fun ks => acc.map (fun rest => { p with keys := ks } :: rest))) [[]]
  keyVariants.flatMap perms

def disjointKeys (ps : List Principal) : Bool :=
  let all := ps.flatMap (·.keys)
  nodupB all && nodupB (ps.map (·.id))

def countSigned (c : Case) : Nat :=
  (c.v.principals.filter (fun P => P.keys.any (fun k => envValidB c.env k || gitValidB c.g c.gd k))).length

def handle (j : Json) : R Json := do
  let inp ← field j "in"
  let c ← parseCase inp
  let impl ← field j "impl"
  let implClass ← strF impl "class"
  let implSet := sortNats (← natListF impl "set")
  let results := (orders c.v.principals).map (fun ps => canon ({ c.v with principals := ps }.verify c.g c.gd c.env))
  let results := results.eraseDups
  let agree := results.contains (implClass, implSet)
  -- the property evaluated on what the implementation returned
  let specImpl : Bool :=
    if c.v.exhaustive then
      (implClass != "ok") || creditedB c.v c.g c.gd c.env implSet
    else if implClass == "ok" then
      decide (1 ≤ c.v.threshold) && !c.v.principals.isEmpty &&
        decide (c.v.threshold ≤ (implSet.length : Int)) && creditedB c.v c.g c.gd c.env implSet
    else
      -- completeness: with key-disjoint principals, enough signers ⇒ satisfied
      !(disjointKeys c.v.principals && decide (1 ≤ c.v.threshold) && !c.v.principals.isEmpty &&
          decide (c.v.threshold ≤ (countSigned c : Int)) && implClass != "other")
  let first := match results with | r :: _ => r | [] => ("none", [])
  return Json.mkObj [
    ("id", (← field j "id")),
    ("agree", agree), ("spec_impl", specImpl),
    ("model", Json.mkObj [("class", first.1), ("set", jNats first.2), ("n_orders", results.length)]),
    ("nontrivial", Json.bool (implClass == "ok" || implClass == "unmet"))]

end Driver.C05
