import Lean.Data.Json
open Lean

namespace Driver

abbrev R := Except String

def field (j : Json) (k : String) : R Json := j.getObjVal? k
def natF (j : Json) (k : String) : R Nat := do (← field j k).getNat?
def intF (j : Json) (k : String) : R Int := do (← field j k).getInt?
def boolF (j : Json) (k : String) : R Bool := do (← field j k).getBool?
def strF (j : Json) (k : String) : R String := do (← field j k).getStr?
def arrF (j : Json) (k : String) : R (Array Json) := do
  match (← field j k) with
  | .null => pure #[]
  | v => v.getArr?
def optF (j : Json) (k : String) : Option Json :=
  match j.getObjVal? k with
  | .ok .null => none
  | .ok v => some v
  | .error _ => none
def natList (j : Json) : R (List Nat) := do
  if j.isNull then return []
  let a ← j.getArr?
  a.toList.mapM (·.getNat?)
def natListF (j : Json) (k : String) : R (List Nat) := do natList (← field j k)
def strList (j : Json) : R (List String) := do
  if j.isNull then return []
  let a ← j.getArr?
  a.toList.mapM (·.getStr?)
def strListF (j : Json) (k : String) : R (List String) := do strList (← field j k)

def jNats (l : List Nat) : Json := Json.arr (l.map (fun (n : Nat) => (n : Json))).toArray
def jStrs (l : List String) : Json := Json.arr (l.map Json.str).toArray

/-- insertion sort on Nat lists (canonical form for sets) -/
def sortNats (l : List Nat) : List Nat := (l.toArray.qsort (· < ·)).toList

/-- all permutations of a list (small lists only) -/
def perms {α} : List α → List (List α)
  | [] => [[]]
  | x :: xs => (perms xs).flatMap (fun p => (List.range (p.length + 1)).map (fun i => p.take i ++ [x] ++ p.drop i))

end Driver
