import Driver.Util
import Gittuf.Spec.C13
open Lean Gittuf Gittuf.Meta

namespace Driver.C13

def idx (a : Array Json) (i : Nat) : R Json :=
  match a[i]? with
  | some v => pure v
  | none => throw s!"array too short: index {i}"

def sortStrs (l : List String) : List String := (l.toArray.qsort (· < ·)).toList

def optStr (j : Json) (k : String) : String :=
  match j.getObjVal? k with
  | .ok (.str s) => s
  | _ => ""
def optStrs (j : Json) (k : String) : R (List String) :=
  match optF j k with
  | none => pure []
  | some v => strList v
def optInt (j : Json) (k : String) : Int :=
  match j.getObjVal? k with
  | .ok v => (v.getInt?.toOption).getD 0
  | _ => 0

def parseKind (s : String) : PKind :=
  if s == "key" then .key else if s == "person" then .person else .bogus

/-- dump form: ["id","kind",["key",..]] -/
def parsePrincipalArr (j : Json) : R Principal := do
  let a ← j.getArr?
  return { id := ← (← idx a 0).getStr?, kind := parseKind (← (← idx a 1).getStr?), keys := ← strList (← idx a 2) }

/-- argument form: {"id","kind","keys"} -/
def parsePrincipalObj (j : Json) : R Principal := do
  return { id := ← strF j "id", kind := parseKind (← strF j "kind"), keys := ← optStrs j "keys" }

def parseRuleArr (j : Json) : R Rule := do
  let a ← j.getArr?
  return { name := ← (← idx a 0).getStr?, patterns := ← strList (← idx a 1), principals := ← strList (← idx a 2),
           threshold := ← (← idx a 3).getInt?, terminating := ← (← idx a 4).getBool? }

def parseT (j : Json) : R TargetsMeta := do
  let pn := match j.getObjVal? "pn" with | .ok (.bool b) => b | _ => false
  let ps ← (← arrF j "ps").toList.mapM parsePrincipalArr
  let rs ← (← arrF j "rs").toList.mapM parseRuleArr
  return { principalsNil := pn, principals := ps, rules := rs }

def sortPrincipals (ps : List Principal) : List Principal :=
  ((ps.map (fun p => { p with keys := sortStrs p.keys })).toArray.qsort (fun a b => a.id < b.id)).toList

def canonT (m : TargetsMeta) : TargetsMeta :=
  { m with principals := sortPrincipals m.principals,
           rules := m.rules.map (fun r => { r with principals := sortStrs r.principals }) }

def parseRole (j : Json) : R (Option Role) := do
  if j.isNull then return none
  let a ← j.getArr?
  return some { principals := ← strList (← idx a 0), threshold := ← (← idx a 1).getInt? }

def parseGKind (s : String) : GKind := if s == "threshold" then .threshold else .blockForcePushes

def parseGlobalArr (j : Json) : R GlobalRule := do
  let a ← j.getArr?
  return { name := ← (← idx a 0).getStr?, kind := parseGKind (← (← idx a 1).getStr?), patterns := ← strList (← idx a 2),
           threshold := ← (← idx a 3).getInt? }

def parseProp (l : List String) : Propagation :=
  let g := fun (i : Nat) => l.getD i ""
  { name := g 0, upstreamRepo := g 1, upstreamRef := g 2, upstreamPath := g 3, downstreamRef := g 4, downstreamPath := g 5 }

def parseRoot (j : Json) : R RootMeta := do
  let ps ← (← arrF j "ps").toList.mapM parsePrincipalArr
  let rr ← parseRole ((j.getObjVal? "rr").toOption.getD Json.null)
  let tr ← parseRole ((j.getObjVal? "tr").toOption.getD Json.null)
  let gs ← (← arrF j "gs").toList.mapM parseGlobalArr
  let pd ← (← arrF j "pd").toList.mapM (fun d => do return parseProp (← strList d))
  return { principals := ps, rootRole := rr, targetsRole := tr, globalRules := gs, propagations := pd }

def canonRole (r : Option Role) : Option Role := r.map (fun r => { r with principals := sortStrs r.principals })

def canonR (m : RootMeta) : RootMeta :=
  { m with principals := sortPrincipals m.principals, rootRole := canonRole m.rootRole, targetsRole := canonRole m.targetsRole }

def errStr : Option Err → String
  | none => "ok"
  | some .reservedPrefix => "reservedPrefix"
  | some .principalNotFound => "principalNotFound"
  | some .invalidThreshold => "invalidThreshold"
  | some .cannotMeetThreshold => "cannotMeetThreshold"
  | some .duplicatedRuleName => "duplicatedRuleName"
  | some .ruleNotFound => "ruleNotFound"
  | some .missingRules => "missingRules"
  | some .invalidPrincipalType => "invalidPrincipalType"
  | some .invalidPrincipalID => "invalidPrincipalID"
  | some .principalStillInUse => "principalStillInUse"
  | some .invalidOperation => "invalidOperation"
  | some .invalidRoot => "invalidRoot"
  | some .noTargetsRole => "noTargetsRole"
  | some .globalRuleExists => "globalRuleExists"
  | some .globalRuleNotFound => "globalRuleNotFound"
  | some .globalRuleType => "globalRuleType"
  | some .propagationExists => "propagationExists"
  | some .propagationNotFound => "propagationNotFound"
  | some .panic => "panic"

def parseOptP (j : Json) : R (Option Principal) :=
  match optF j "p" with
  | none => pure none
  | some p => some <$> parsePrincipalObj p

/-- `none`: an operation outside the model (name starts with X) -/
def parseTOp (j : Json) : R (Option TOp) := do
  let op ← strF j "op"
  match op with
  | "AddRule" => return some (.addRule (optStr j "name") (← optStrs j "ids") (← optStrs j "patterns") (optInt j "thr"))
  | "UpdateRule" => return some (.updateRule (optStr j "name") (← optStrs j "ids") (← optStrs j "patterns") (optInt j "thr"))
  | "RemoveRule" => return some (.removeRule (optStr j "name"))
  | "ReorderRules" => return some (.reorderRules (← optStrs j "names"))
  | "AddPrincipal" => return some (.addPrincipal (← parseOptP j))
  | "UpdatePrincipal" => return some (.updatePrincipal (← parseOptP j))
  | "RemovePrincipal" => return some (.removePrincipal (optStr j "id"))
  | _ => if op.startsWith "X" then return none else throw s!"unknown targets op {op}"

def parseWhich (j : Json) : RoleName := if optStr j "which" == "root" then .root else .targets

def parseG (j : Json) : R GlobalRule := do
  let g ← field j "g"
  return { name := optStr g "name", kind := parseGKind (optStr g "kind"), patterns := ← optStrs g "patterns", threshold := optInt g "thr" }

def parseROp (j : Json) : R (Option ROp) := do
  let op ← strF j "op"
  match op with
  | "AddRolePrincipal" => return some (.addRolePrincipal (parseWhich j) (← parseOptP j))
  | "DeleteRolePrincipal" => return some (.deleteRolePrincipal (parseWhich j) (optStr j "id"))
  | "UpdateRoleThreshold" => return some (.updateRoleThreshold (parseWhich j) (optInt j "thr"))
  | "AddGlobalRule" => return some (.addGlobalRule (← parseG j))
  | "UpdateGlobalRule" => return some (.updateGlobalRule (← parseG j))
  | "DeleteGlobalRule" => return some (.deleteGlobalRule (optStr j "name"))
  | "AddPropagation" => return some (.addPropagation (parseProp (← optStrs j "d")))
  | "UpdatePropagation" => return some (.updatePropagation (parseProp (← optStrs j "d")))
  | "DeletePropagation" => return some (.deletePropagation (optStr j "name"))
  | _ => if op.startsWith "X" then return none else throw s!"unknown root op {op}"

/-- dump without the one internal flag no query can see -/
def visible (d : Json) : String := (d.setObjVal! "pn" Json.null).compress

def versionOf (d : Json) : Int := optInt d "v"

/-- the findings of this property the orchestrator lists as still open (`"open": [...]` is appended
to every line by ./check from KNOWN_FINDINGS.jsonl). A case showing the old signature of F10, F20,
F21 or F22 is attributed to that finding only while it is open; once a finding is marked fixed the
same signature is an ordinary violation (the defect has come back). No list at all = all fixed. -/
def openOf (j : Json) : List String :=
  match j.getObjVal? "open" with
  | .ok v => (strList v).toOption.getD []
  | .error _ => []

structure Acc where
  agree : Bool := true
  firstDisagree : Option Nat := none
  viol : List String := []        -- finding ids; entries starting with '?' are unexplained
  nontrivial : Bool := false

def Acc.disagree (a : Acc) (i : Nat) : Acc :=
  { a with agree := false, firstDisagree := a.firstDisagree <|> some i }
def Acc.add (a : Acc) (v : String) : Acc := if a.viol.contains v then a else { a with viol := a.viol ++ [v] }

/-- round trip and migration: judged on the real objects' queries only -/
def judgeReload (openF : List String) (kind : String) (ver : Nat) (ops : Array Json) (stepErrs : Array String) (impl : Json) (a : Acc) : R Acc := do
  let final ← field impl "final"
  let rtErr := optStr impl "rt_err"
  let mut a := a
  if rtErr != "" then
    -- F22 (while open): an accepted RemoveHook with an invalid stage makes the object unserializable
    let mut explained := false
    for i in [0:ops.size] do
      let o := ops[i]!
      if optStr o "op" == "XRemoveHook" && stepErrs[i]! == "ok" then
        let stages := match optF o "stages" with
          | some (.arr a) => a.toList.map (fun (s : Json) => (s.getInt?.toOption).getD 0)
          | _ => []
        if stages.any (fun s => s != 0 && s != 1) then explained := true
    a := a.add (if openF.contains "F22" && explained && rtErr.startsWith "marshal" then "F22" else "?rt_err")
    return a
  match optF impl "rt" with
  | none => a := a.add "?rt-missing"
  | some rt =>
    if rt.compress != final.compress then
      -- F20 (while open): a reloaded v01 root has lost its version number
      let patched := rt.setObjVal! "v" (final.getObjValD "v")
      if openF.contains "F20" && kind == "root" && ver == 1 && patched.compress == final.compress && versionOf rt == 0 then a := a.add "F20"
      else a := a.add "?roundtrip"
  if ver == 1 then
    for k in ["mig", "mig_rt"] do
      match optF impl k with
      | none => a := a.add s!"?{k}-missing"
      | some m => if m.compress != final.compress then a := a.add s!"?{k}"
  return a

def finish (j : Json) (a : Acc) (nsteps : Nat) : R Json := do
  let unexplained := a.viol.filter (fun v => v.startsWith "?")
  let specImpl := a.viol.isEmpty
  let base := [
    ("id", (← field j "id")),
    ("agree", Json.bool a.agree), ("spec_impl", Json.bool specImpl),
    ("model", Json.mkObj [("steps", (nsteps : Nat)), ("first_disagree", match a.firstDisagree with | none => Json.null | some i => (i : Nat)),
                          ("violations", jStrs a.viol)]),
    ("nontrivial", Json.bool a.nontrivial)]
  -- a case is attributed to a known finding only when every violation in it is explained
  match unexplained, a.viol with
  | [], f :: _ => return Json.mkObj (base ++ [("finding", Json.str f)])
  | _, _ => return Json.mkObj base

def handleTargets (j inp impl : Json) (ver : Ver) (verN : Nat) : R Json := do
  let ops ← arrF inp "ops"
  let steps ← arrF impl "steps"
  if ops.size != steps.size then throw "ops/steps length mismatch"
  let initJ ← field impl "init"
  let init ← parseT initJ
  let openF := openOf j
  -- which code the model describes: the repaired one, unless F10 is still listed as open
  let f10 := openF.contains "F10"
  let mut model := TargetsMeta.new
  let mut prev := init
  let mut prevJ := initJ
  let mut a : Acc := {}
  let mut errs : Array String := #[]
  if canonT model != canonT init then a := a.disagree 0
  if !metaInvB init then a := a.add "?inv-init"
  for i in [0:ops.size] do
    let st := steps[i]!
    let e ← strF st "e"
    errs := errs.push e
    let changed := (optF st "d").isSome
    let curJ := (optF st "d").getD prevJ
    let cur ← if changed then parseT curJ else pure prev
    match ← parseTOp ops[i]! with
    | some op =>
      let res := if f10 then model.applyF10 ver op else model.apply ver op
      model := res.st
      if errStr res.err != e || canonT model != canonT cur then a := a.disagree i
      if e == "ok" && changed then a := { a with nontrivial := true }
    | none =>
      if canonT model != canonT cur then a := a.disagree i
    -- the property on what the implementation produced
    if !metaInvB cur then
      -- F10 (while open): exactly the state the model of the old code (list-length comparison)
      -- predicts, and the only thing wrong is a threshold above the number of distinct principals
      if f10 && metaStructB cur && canonT model == canonT cur then a := a.add "F10" else a := a.add s!"?inv@{i}"
    if e != "ok" && changed && visible curJ != visible prevJ then a := a.add s!"?refused-changed@{i}"
    prev := cur
    prevJ := curJ
  a ← judgeReload openF "targets" verN ops errs impl a
  finish j a ops.size

def handleRoot (j inp impl : Json) (ver : Ver) (verN : Nat) : R Json := do
  let ops ← arrF inp "ops"
  let steps ← arrF impl "steps"
  if ops.size != steps.size then throw "ops/steps length mismatch"
  let initJ ← field impl "init"
  let init ← parseRoot initJ
  let openF := openOf j
  let mut model := RootMeta.new
  let mut prev := init
  let mut prevJ := initJ
  let mut a : Acc := {}
  let mut errs : Array String := #[]
  if canonR model != canonR init then a := a.disagree 0
  if !rootInvB init then a := a.add "?inv-init"
  for i in [0:ops.size] do
    let st := steps[i]!
    let e ← strF st "e"
    errs := errs.push e
    let changed := (optF st "d").isSome
    let curJ := (optF st "d").getD prevJ
    let cur ← if changed then parseRoot curJ else pure prev
    match ← parseROp ops[i]! with
    | some op =>
      let res := model.apply ver op
      model := res.st
      if errStr res.err != e || canonR model != canonR cur then a := a.disagree i
      if e == "ok" && changed then a := { a with nontrivial := true }
    | none =>
      if canonR model != canonR cur then a := a.disagree i
    if !rootInvB cur then a := a.add s!"?inv@{i}"
    if e != "ok" && changed then
      -- F21 (while open): AddHook refused (invalid stage / duplicate name in a later stage) after
      -- the hook was already stored for the earlier stages
      if openF.contains "F21" && optStr ops[i]! "op" == "XAddHook" then a := a.add "F21" else a := a.add s!"?refused-changed@{i}"
    prev := cur
    prevJ := curJ
  a ← judgeReload openF "root" verN ops errs impl a
  finish j a ops.size

def handle (j : Json) : R Json := do
  let inp ← field j "in"
  let impl ← field j "impl"
  let kind ← strF inp "kind"
  let verN ← natF inp "ver"
  let ver : Ver := if verN == 1 then .v01 else .v02
  if kind == "targets" then handleTargets j inp impl ver verN
  else handleRoot j inp impl ver verN

end Driver.C13
