import Driver.Util
import Gittuf.Spec.C06
open Lean Gittuf Gittuf.Walk

namespace Driver.C06

def parsePrincipal (j : Json) : R Principal := do
  return { id := ← natF j "id", keys := ← natListF j "keys" }

def parseRule (j : Json) : R Rule := do
  return { name := ← strF j "name", patterns := ← strListF j "patterns", pids := ← natListF j "pids",
           threshold := ← intF j "threshold", terminating := ← boolF j "terminating" }

/-- `tufv02.AllowRule()` -/
def allowRule : Rule := { name := allowRuleName, patterns := ["*"], pids := [], threshold := 1, terminating := true }

def parseFile (j : Json) : R (String × RuleFile) := do
  let ps ← (← arrF j "principals").toList.mapM parsePrincipal
  let rs ← (← arrF j "rules").toList.mapM parseRule
  let allow ← boolF j "allow"
  return (← strF j "name", { principals := ps, rules := if allow then rs ++ [allowRule] else rs })

def parsePolicy (j : Json) : R Policy := do
  let fs ← (← arrF j "files").toList.mapM parseFile
  match fs with
  | [] => return { primary := none, files := [] }
  | (_, f) :: rest => return { primary := some f, files := rest }

/-- canonical verifier: name, threshold, principals sorted by id with sorted keys, number of nil principals -/
structure CV where
  name : String
  threshold : Int
  principals : List (Nat × List Nat)
  nils : Nat
  deriving BEq, Repr

def ltPair (a b : Nat × List Nat) : Bool := a.1 < b.1 || (a.1 == b.1 && decide (a.2 < b.2))

def canonV (v : WVerifier) : CV :=
  let ps := v.principals.filterMap (fun o => o.map (fun p => (p.id, sortNats p.keys)))
  { name := v.name, threshold := v.threshold,
    principals := (ps.toArray.qsort ltPair).toList,
    nils := (v.principals.filter (·.isNone)).length }

def parseCV (j : Json) : R CV := do
  let ps ← (← arrF j "principals").toList.mapM (fun p => do
    let q ← parsePrincipal p
    pure (q.id, sortNats q.keys))
  return { name := ← strF j "name", threshold := ← intF j "threshold",
           principals := (ps.toArray.qsort ltPair).toList, nils := ← natF j "nils" }

def cvJson (c : CV) : Json :=
  Json.mkObj [("name", c.name), ("threshold", Json.num (JsonNumber.fromInt c.threshold)),
    ("principals", Json.arr (c.principals.map (fun p => Json.mkObj [("id", (p.1 : Nat)), ("keys", jNats p.2)])).toArray),
    ("nils", (c.nils : Nat))]

def cvKey (c : CV) : String := (cvJson c).compress

def sortStrs (l : List String) : List String := (l.toArray.qsort (· < ·)).toList

/-- same multiset -/
def sameBag (a b : List CV) : Bool := sortStrs (a.map cvKey) == sortStrs (b.map cvKey)

/-- ignoring how the trusted ids were resolved: name, threshold, number of trusted ids -/
def stripKeys (c : CV) : CV := { c with principals := [], nils := c.principals.length + c.nils }

structure Verdict where
  agree : Bool
  spec : Bool
  /-- the only deviation from the spec is in the key material of the principals -/
  keysOnly : Bool
  model : Json
  nonEmpty : Bool

def judgePath (P : Policy) (path : String) (r : Json) : R Verdict := do
  let m : Rule → Bool := fun rule => rule.matchesPath path
  let implErr ← strF r "err"
  let implVs ← (← arrF r "verifiers").toList.mapM parseCV
  let modelRes := findVerifiers m P
  let (modelErr, modelVs) := match modelRes with
    | .ok vs => ("", vs.map canonV)
    | .error .metadataNotFound => ("notfound", [])
    | .error .outOfFuel => ("fuel", [])
  -- exact order is compared: the model follows the code
  let agree := modelErr == implErr && modelVs == implVs
  -- the property judged on the implementation's own output
  let expected := (expectedVerifiers m P).map canonV
  let unique := uniqueRuleNamesB P
  let reach := reachB m P
  let reachRules : List (RuleFile × Rule) := reach.flatMap (fun F => (active F.rules).map (fun r => (F, r)))
  let soundFor (strip : Bool) : Bool := implVs.all (fun v =>
    reachRules.any (fun fr => m fr.2 &&
      let own := canonV { name := fr.2.name, pids := fr.2.pids, principals := ownPrincipals fr.1 fr.2, threshold := fr.2.threshold }
      if strip then stripKeys own == stripKeys v else own == v))
  let specFor (strip : Bool) : Bool :=
    if implErr != "" then P.primary.isNone && implErr == "notfound"
    else
      let e := if strip then expected.map stripKeys else expected
      let i := if strip then implVs.map stripKeys else implVs
      -- unprotected ⇔ no consulted rule matches
      (i.isEmpty == e.isEmpty) &&
      -- every verifier comes from a matching rule of a reachable file, with that rule's own data
      soundFor strip &&
      -- under unique rule names: exactly the consulted matching rules, each once
      (!unique || sameBag i e)
  let spec := specFor false
  return { agree := agree, spec := spec, keysOnly := !spec && specFor true,
           model := Json.mkObj [("path", path), ("err", modelErr), ("verifiers", Json.arr (modelVs.map cvJson).toArray)],
           nonEmpty := !implVs.isEmpty }

def handle (j : Json) : R Json := do
  let inp ← field j "in"
  let P ← parsePolicy (← field inp "policy")
  let impl ← field j "impl"
  let results ← arrF impl "results"
  let loader ← strF impl "loader"
  let verdicts ← results.toList.mapM (fun r => do judgePath P (← strF r "path") r)
  -- the loader refuses duplicated rule names (and nothing else the generator produces)
  let loaderAgree := loader == "skipped" || (loader == "ok") == loaderAccepts P && (loader == "ok" || loader == "dup")
  let rawEq ← boolF impl "raw_eq_loaded"
  let agree := verdicts.all (·.agree) && loaderAgree && rawEq
  let spec := verdicts.all (·.spec)
  let keysOnly := !spec && verdicts.all (fun v => v.spec || v.keysOnly)
  let nontrivial := verdicts.any (·.nonEmpty) && P.files.length > 0
  let base := [
    ("id", (← field j "id")),
    ("agree", Json.bool agree), ("spec_impl", Json.bool spec),
    ("model", Json.mkObj [("loader_accepts", loaderAccepts P), ("unique", uniqueRuleNamesB P),
        ("results", Json.arr (verdicts.map (·.model)).toArray)]),
    ("class", Json.str ((if uniqueRuleNamesB P then "unique" else "dup") ++ "/" ++ loader)),
    ("nontrivial", Json.bool nontrivial)]
  return Json.mkObj (if keysOnly then base ++ [("finding", Json.str "F23")] else base)

end Driver.C06
