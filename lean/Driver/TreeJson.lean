import Driver.Util
import Gittuf.Model.Tree
open Lean Gittuf Gittuf.Tree
open Gittuf.Codec (Bytes Hash hexDecode)

/-! JSON helpers shared by Driver.C10 / Driver.C18: paths travel as lists of byte values. -/
namespace Driver.TreeJson

def bytesOf (j : Json) : R Bytes := do
  let l ← natList j
  return l.map (fun n => n.toUInt8)

def bytesF (j : Json) (k : String) : R Bytes := do bytesOf (← field j k)

def jBytes (b : Bytes) : Json := jNats (b.map (·.toNat))

def hashOfStr (s : String) : R Hash :=
  match hexDecode s.toUTF8.toList with
  | some h => pure h
  | none => throw s!"bad hex id {s}"

def hashF (j : Json) (k : String) : R Hash := do hashOfStr (← strF j k)

def modeOf (s : String) : R Mode :=
  if s == "100644" then pure .regular else if s == "100755" then pure .executable
  else if s == "120000" then pure .symlink else throw s!"unsupported mode {s}"

def entryOf (j : Json) : R Entry := do
  return { path := ← bytesF j "p", mode := ← modeOf (← strF j "m"), id := ← hashF j "id" }

def treeOf (j : Json) : R Tree := do
  let a ← if j.isNull then pure #[] else j.getArr?
  a.toList.mapM entryOf

def treeF (j : Json) (k : String) : R Tree := do treeOf (← field j k)

def jTree (t : Tree) : Json :=
  Json.arr (t.map (fun e => Json.mkObj [("p", jBytes e.path), ("m", Json.str (String.fromUTF8! ⟨e.mode.render.toArray⟩))])).toArray

/-- is the expected variant of the code the one with defect `f` still open? -/
def openHas (j : Json) (f : String) : Bool :=
  match j.getObjVal? "open" with
  | .ok (.arr a) => a.any (fun x => x == Json.str f)
  | _ => true

/-- the variant of the code that the list of open findings describes -/
def expectedVariant (j : Json) : Variant :=
  { nul := !openHas j "F8", keepModes := !openHas j "F16", subtreeCheck := !openHas j "F15" }

def oddName (p : Bytes) : Bool := p.any (fun c => mustQuote c || c == 32)

end Driver.TreeJson
