import Driver.WorldCheck
import Gittuf.Spec.C11
open Lean Gittuf

namespace Driver.C11

/-- `impl2`: verdicts of the same queries on the sibling history whose policies carry NO global rules -/
def spec (j : Json) (qi : Nat) (W : World) (q : Query) (impl : QResult) : Bool :=
  if impl.cls != "ok" then true else
  let mono := match (arrF j "impl2") with
    | .ok a => (match a[qi]? with
        | some r => (match parseImpl r with | .ok r2 => r2.cls == "ok" | .error _ => false)
        | none => true)
    | .error _ => true
  let add := match W.latestEntryFor q.ref with
    | none => false
    | some last =>
      let first := match q.mode with
        | "full" => (W.firstFor q.ref).getD 0
        | "latest" => last
        | _ => q.frm
      W.c11Globals q.ref first last
  mono && add

def handle (j : Json) : R Json := handleWorldX spec j

end Driver.C11
