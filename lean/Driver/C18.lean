import Driver.TreeJson
import Gittuf.Spec.C18
open Lean Gittuf Gittuf.Tree Driver.TreeJson
open Gittuf.Codec (Bytes Hash)

namespace Driver.C18

structure Case where
  trees : List Tree
  log : List (UpEntry × Nat)      -- entry, recorded before call `at`
  down : Tree
  dirs : List Directive
  repos : List Nat                -- upstream location index per directive
  reps : Nat

def parseCase (inp : Json) : R Case := do
  let trees ← (← arrF inp "up_trees").toList.mapM treeOf
  let log ← (← arrF inp "up_log").toList.mapM (fun e => do
    pure (({ ref := ← natF e "ref", commit := ← natF e "commit", skipped := ← boolF e "skipped" } : UpEntry), ← natF e "at"))
  let ds ← (← arrF inp "dirs").toList.mapM (fun d => do
    pure (({ upRef := ← natF d "up_ref", upPath := ← bytesF d "up_path", downPath := ← bytesF d "down_path" } : Directive), ← natF d "repo"))
  return { trees := trees, log := log, down := ← treeF inp "down", dirs := ds.map (·.1), repos := ds.map (·.2), reps := ← natF inp "reps" }

def logAt (c : Case) (call : Nat) : List UpEntry := (c.log.filter (fun x => x.2 ≤ call)).map (·.1)

/-- observable outcome of one call -/
structure Out where
  err : Bool
  tree : Tree
  commits : Nat
  entries : List PEntry
  deriving DecidableEq

/-- run the model for all calls -/
def runModel (v : Variant) (c : Case) : List Out :=
  let st0 : Down := { tree := c.down, store := allSubtrees c.down, commits := 0, entries := [] }
  let rec go (call : Nat) (n : Nat) (st : Down) : List Out :=
    match n with
    | 0 => []
    | n + 1 =>
      let (st', err) := propagate v c.trees (logAt c call) c.dirs st
      { err := err, tree := st'.tree, commits := st'.commits, entries := st'.entries } :: go (call + 1) n st'
  go 0 c.reps st0

/-- the outcomes the statement prescribes (`none` from the first call that is outside the statement) -/
def runIdeal (c : Case) : List (Option Expect) :=
  let rec go (call : Nat) (n : Nat) (st : Option Expect) : List (Option Expect) :=
    match n with
    | 0 => []
    | n + 1 =>
      let st' := st.bind (fun s => expectCall c.trees (logAt c call) s (c.dirs.zipIdx.map (fun x => (x.2, x.1))))
      st' :: go (call + 1) n st'
  go 0 c.reps (some { tree := c.down, commits := 0, entries := [] })

def repoOf (c : Case) (e : PEntry) : PEntry := { e with dir := c.repos.getD e.dir 99 }

/-- names (as read) that are both a blob and a directory of another entry in some rebuild: whether
such a blob survives depends on Go's map iteration order (TreeBuilder.populateTree); conservative
over-approximation over all trees involved -/
def uncertain (v : Variant) (c : Case) : List Bytes :=
  let names (t : Tree) := (readFiles v t).map (·.1)
  let confl (l : List Bytes) := l.filter (fun p => l.any (fun q => Codec.hasPrefix (p ++ [47]) q))
  let downNames := names c.down
  let ups := c.trees.flatMap (fun t => c.dirs.map (fun d =>
    let dp := trimSuffixSlash d.downPath
    let s := match upstreamSubtree v t d.upPath with | .ok s => s | .error _ => []
    (names s).map (fun n => pathJoin dp n)))
  (confl downNames ++ ups.flatMap (fun u => confl (u ++ downNames)) ++ confl (ups.flatten ++ downNames)).eraseDups

def handle (j : Json) : R Json := do
  let inp ← field j "in"
  let c ← parseCase inp
  let v := expectedVariant j
  let impl ← field j "impl"
  let before ← treeF impl "before"
  let steps ← (← arrF impl "steps").toList.mapM (fun s => do
    let cls ← strF s "class"
    let es ← (← arrF s "entries").toList.mapM (fun e => do
      let kind ← strF e "kind"
      let refOk ← boolF e "ref_ok"
      let repo ← intF e "repo"
      let upE ← intF e "up_entry"
      let tgt ← intF e "target"
      pure (kind == "propagation" && refOk && repo ≥ 0 && upE ≥ 0 && tgt ≥ 0,
            ({ dir := repo.toNat, upEntry := upE.toNat, target := tgt.toNat } : PEntry)))
    pure (cls, ({ ok := cls == "ok", tree := ← treeF s "tree", commits := ← natF s "commits",
                  entries := es.map (·.2), wellFormed := es.all (·.1) } : Observed)))
  let sane := before == c.down && sortTree c.down == c.down
  let v0 := v
  let obs : List Out := steps.map (fun o => { err := o.1 == "err", tree := o.2.tree, commits := o.2.commits, entries := o.2.entries })
  let strictEq (w : Variant) := (runModel w c).map (fun m => { m with entries := m.entries.map (repoOf c) }) == obs
  -- Go map order oracle: take the resolution that reproduces the observation, if any
  let v := if strictEq v0 then v0 else if strictEq { v0 with keepConflicted := true } then { v0 with keepConflicted := true } else v0
  let model := runModel v c
  let unc := uncertain v c
  let amb := !unc.isEmpty
  let strip (t : Tree) := t.filter (fun e => !unc.contains e.path)
  let agreeStep (m : Out) (o : String × Observed) : Bool :=
    (m.err == (o.1 == "err")) && o.1 != "panic" && o.2.wellFormed &&
    strip m.tree == strip o.2.tree && m.commits == o.2.commits && m.entries.map (repoOf c) == o.2.entries
  let agree := sane && model.length == steps.length && (model.zip steps).all (fun x => agreeStep x.1 x.2)
  -- the statement evaluated on what the implementation did
  let ideal := runIdeal c
  let specStep (e : Option Expect) (o : String × Observed) : Bool :=
    match e with
    | none => true
    | some e => observedMeets o.2 { e with entries := e.entries.map (repoOf c) }
  let spec := (ideal.zip steps).all (fun x => specStep x.1 x.2)
  -- the repaired model must be the statement
  let goodOut := runModel good c
  let goodIsIdeal := (ideal.zip goodOut).all (fun x => match x.1 with
    | none => true
    | some e => !x.2.err && x.2.tree == e.tree && x.2.commits == e.commits && x.2.entries == e.entries)
  -- which open defect explains a violation: the first one whose repair alone changes the outcome
  let involved (w : Variant) : Bool := runModel w c != model
  let cands : List (String × Variant) :=
    [("F16", { v with keepModes := true }), ("F8", { v with nul := true }), ("F15", { v with subtreeCheck := true })]
  let finding : List (String × Json) :=
    if spec then [] else
    if agree then
      match cands.find? (fun x => openHas j x.1 && involved x.2) with
      | some (f, _) => [("finding", Json.str f)]
      | none => []
    -- the statement is violated and the model does not reproduce the outcome exactly (names that
    -- collide after truncation are resolved in Go map order): still F8's territory when reading the
    -- names NUL-delimited - the repair of F8 alone - changes what the model computes for this input
    else if openHas j "F8" && involved { v with nul := true } then [("finding", Json.str "F8")]
    else []
  let last := model.getLast?
  let nontrivial := steps.any (fun s => s.2.commits > 0) || ideal.any (fun e => match e with | some e => e.commits > 0 | none => false)
  return Json.mkObj ([
    ("id", (← field j "id")),
    ("agree", agree && goodIsIdeal), ("spec_impl", spec),
    ("model", Json.mkObj [("sane", sane), ("good_is_ideal", goodIsIdeal), ("ambiguous", amb),
      ("err", Json.arr (model.map (fun m => Json.bool m.err)).toArray),
      ("commits", jNats (model.map (·.commits))),
      ("tree", match last with | some m => jTree m.tree | none => Json.null),
      ("ideal_commits", Json.arr (ideal.map (fun e => match e with | some e => (e.commits : Json) | none => Json.null)).toArray)]),
    ("class", Json.str (if spec then "conforms" else "deviates")),
    ("nontrivial", Json.bool nontrivial)] ++ finding)

end Driver.C18
