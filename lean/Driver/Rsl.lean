import Driver.Util
import Gittuf.Spec.C04
import Gittuf.Spec.C03
open Lean Gittuf Gittuf.RSL

/-! Shared between Driver.C03 and Driver.C04: the abstract description of a log as the
harness emits it (steps, oldest first) and its realisation as a model `Store`.

Ids: target commits (not RSL entries) are commits `1..T` whose message does not parse;
the `i`-th commit created on the RSL ref (0-based) gets id `T+1+i` — which is what
`Store.fresh` allocates, so steps replayed through the model's recording operations and
commits crafted directly line up.  Id `0` is never in the store. -/
namespace Driver.Rsl

structure StepIn where
  k : String              -- ref | ann | prop | garbage
  mode : String           -- api | legacy | raw
  ref : String := ""
  target : Nat := 0       -- index into targets
  ids : List Int := []    -- annotation: commit indices; -1 = a target commit, -2 = a missing object
  skip : Bool := false
  msg : String := ""
  repo : String := ""
  upEntry : Nat := 0     -- index into targets (any object id will do)
  num : Nat := 0          -- raw only
  extraParent : Bool := false
  deriving Repr, Inhabited

def parseStep (j : Json) : R StepIn := do
  let getS (k : String) : String := match optF j k with | some v => v.getStr?.toOption.getD "" | none => ""
  let getN (k : String) : Nat := match optF j k with | some v => v.getNat?.toOption.getD 0 | none => 0
  let getB (k : String) : Bool := match optF j k with | some v => v.getBool?.toOption.getD false | none => false
  let ids ← match optF j "ids" with
    | none => pure []
    | some v => do let a ← v.getArr?; a.toList.mapM (·.getInt?)
  return { k := ← strF j "k", mode := ← strF j "mode", ref := getS "ref", target := getN "target", ids := ids,
           skip := getB "skip", msg := getS "msg", repo := getS "repo", upEntry := getN "upEntry",
           num := getN "num", extraParent := getB "extraParent" }

/-- targets: `parents[i]` = index of the parent target commit, or -1 -/
def initStore (targetParents : List Int) : Store :=
  let n := targetParents.length
  let cs := (List.range n).map (fun i =>
    let p := targetParents.getD i (-1)
    (i + 1, ({ parents := if p < 0 then [] else [p.toNat + 1], entry := none } : Commit)))
  { commits := cs.reverse, tip := none }

/-- `knows a b` over target ids: b is a (reflexive) ancestor of a -/
def knowsOf (targetParents : List Int) (a b : Id) : Bool :=
  let rec go (fuel : Nat) (x : Nat) : Bool :=
    match fuel with
    | 0 => false
    | f + 1 =>
      if x == b then true else
      match targetParents.getD (x - 1) (-1) with
      | .negSucc _ => false
      | .ofNat p => go f (p + 1)
  a != 0 && go (targetParents.length + 1) a

def idOf (nT : Nat) (i : Int) : Id :=
  if i == -1 then 1            -- a target commit: exists, is not an entry
  else if i < 0 then 0         -- missing object
  else nT + 1 + i.toNat

def idxOf (nT : Nat) (i : Id) : Int := (i : Int) - (nT + 1 : Nat)

def entryOf (nT : Nat) (st : StepIn) (num : Nat) : Option Entry :=
  match st.k with
  | "ref" => some (.reference st.ref (st.target + 1) num)
  | "prop" => some (.propagation st.ref (st.target + 1) st.repo (st.upEntry + 1) num)
  | "ann" => some (.annotation (st.ids.map (idOf nT)) st.skip st.msg num)
  | _ => none

def opOf (nT : Nat) (st : StepIn) : Option Op :=
  match st.k, st.mode with
  | "ref", "api" => some (.reference st.ref (st.target + 1))
  | "ref", "legacy" => some (.referenceLegacy st.ref (st.target + 1))
  | "prop", "api" => some (.propagation st.ref (st.target + 1) st.repo (st.upEntry + 1))
  | "ann", "api" => some (.annotation (st.ids.map (idOf nT)) st.skip st.msg)
  | "ann", "legacy" => some (.annotationLegacy (st.ids.map (idOf nT)) st.skip st.msg)
  | _, _ => none

/-- a commit crafted directly on the RSL ref (raw message, possibly an extra parent) -/
def rawCommit (nT : Nat) (s : Store) (st : StepIn) : Store :=
  let i := s.fresh
  let e := match entryOf nT st st.num with
    | some e => parseBack e
    | none => none
  let parents := s.tip.toList ++ (if st.extraParent then [1] else [])
  { commits := (i, { parents := parents, entry := e }) :: s.commits, tip := some i }

/-- apply one step; the Bool says whether the (api) operation succeeded -/
def applyStep (nT : Nat) (s : Store) (st : StepIn) (tp : List Int := []) : Store × Except RErr (List Id) :=
  if st.k == "skip" then skipAllInvalid (knowsOf tp) st.ref s
  else if st.mode == "raw" then
    let s' := rawCommit nT s st
    (s', .ok [s'.tip.getD 0])
  else
    match opOf nT st with
    | some op => step s op
    | none => (s, .error .other)

def errName : RErr → String
  | .notFound => "notFound" | .branch => "branch" | .invalid => "invalid"
  | .badOptions => "badOptions" | .noRecord => "noRecord" | .other => "other"

def numOfCommit (c : Commit) : Int :=
  match c.entry with
  | none => -1
  | some e => e.number

end Driver.Rsl
