import Driver.WorldJson
open Lean Gittuf

namespace Driver

/-- which single repaired defect changes the model's answer for this query (attribution of a
spec violation that the model-with-known-defects reproduces) -/
def attributeTo (cv : Variant) (W : World) (q : Query) (cur : QResult) : Option String :=
  let flips : List (String × Variant) := [
    ("F1", { cv with f1_exhaustiveSatisfies := false }),
    ("F2", { cv with f2_propagationSkipped := false }),
    ("F3", { cv with f3_fixNotVerified := false }),
    ("F4", { cv with f4_inRangeNotSelfVerified := false }),
    ("F7", { cv with f7_ghPredicateNotValidated := false }),
    ("F63", { cv with f63_trustExhaustive := false }),
    ("F64", { cv with f64_shortcutSkipsGlobals := false }),
    ("F65", { cv with f65_globalFileRuleIgnored := false })]
  match flips.find? (fun (_, v) => (runQuery W v q).cls != cur.cls) with
  | some (n, _) => some n
  | none => if (runQuery W Variant.good q).cls != cur.cls then some "F1+" else none

/-- Generic handler for the verification properties: runs every query through the model under
the current variant, compares verdict (ok / not ok) and tip with the implementation, and
evaluates `spec W q impl` (the property, as a decidable predicate) on the implementation's answer. -/
def handleWorldX (spec : Json → Nat → World → Query → QResult → Bool) (j : Json) : R Json := do
  let inp ← field j "in"
  let W ← parseWorld (← field inp "world")
  let qs ← (← arrF inp "queries").toList.mapM parseQuery
  let impls ← (← arrF j "impl").toList.mapM parseImpl
  let cv := parseVariant j
  let mut agree := true
  let mut specOk := true
  let mut finding : Option String := none
  let mut unattributed := false
  let mut models : Array Json := #[]
  let mut nontrivial := false
  let mut notes : Array Json := #[]
  let mut qi := 0
  for (q, impl) in qs.zip impls do
    let m := runQuery W cv q
    models := models.push m.toJson
    let same := (m.cls == "ok") == (impl.cls == "ok") && (impl.cls != "ok" || m.tip == impl.tip)
    if !same then
      agree := false
      notes := notes.push (Json.mkObj [("q", q.mode ++ ":" ++ q.ref), ("model", m.cls), ("impl", impl.cls)])
    if impl.cls == "ok" || impl.cls == "verif" || impl.cls == "notskipped" || impl.cls == "policy" then nontrivial := true
    let specHere := spec j qi W q impl
    qi := qi + 1
    if !specHere then
      specOk := false
      notes := notes.push (Json.mkObj [("q", q.mode ++ ":" ++ q.ref), ("spec", false), ("impl", impl.cls)])
      match (if same then attributeTo cv W q m else none) with
      | some f => finding := some f
      | none => unattributed := true
  return Json.mkObj [
    ("id", (← field j "id")), ("agree", agree), ("spec_impl", specOk),
    ("finding", match finding, unattributed with | some f, false => Json.str f | _, _ => Json.null),
    ("model", Json.arr models), ("notes", Json.arr notes), ("nontrivial", nontrivial)]

def handleWorld (spec : World → Query → QResult → Bool) (j : Json) : R Json :=
  handleWorldX (fun _ _ W q r => spec W q r) j

end Driver
