import Driver.WorldJson
import Gittuf.Spec.C12
open Lean Gittuf Gittuf.PState

namespace Driver.C12

def parseRefSel (s : String) : RefSel := if s == "policy" then .policy else .staging

def parseKind (j : Json) : R EditKind := do
  let key := (natF j "key").toOption.getD 0
  let n := (intF j "n").toOption.getD 0
  let name := (strF j "name").toOption.getD ""
  match (← strF j "kind") with
  | "initRoot" => pure .initRoot
  | "addRootKey" => pure (.addRootKey key)
  | "removeRootKey" => pure (.removeRootKey key)
  | "rootThreshold" => pure (.rootThreshold n)
  | "addTargetsKey" => pure (.addTargetsKey key)
  | "removeTargetsKey" => pure (.removeTargetsKey key)
  | "targetsThreshold" => pure (.targetsThreshold n)
  | "addGlobal" => pure (.addGlobal name n)
  | "removeGlobal" => pure (.removeGlobal name)
  | "signRoot" => pure .signRoot
  | "initTargets" => pure .initTargets
  | "addPrincipal" => pure (.addPrincipal key)
  | "addRule" => pure (.addRule name key)
  | "removeRule" => pure (.removeRule name)
  | "signTargets" => pure .signTargets
  | k => throw s!"unknown edit kind {k}"

def parseOp (j : Json) : R Op := do
  let entry := (boolF j "entry").toOption.getD false
  match (← strF j "op") with
  | "stage" => pure (.stage (← parsePolicy (← field j "policy")) ((strF j "tag").toOption.getD "") entry)
  | "apply" => pure .apply
  | "discard" => pure .discard
  | "tamper" =>
    let t ← intF j "target"
    pure (.tamper (parseRefSel (← strF j "ref")) (if t < 0 then none else some t.toNat))
  | "record" => pure (.record (parseRefSel (← strF j "ref")) ((boolF j "dup").toOption.getD false))
  | "probe" => pure .probe
  | "edit" => pure (.edit (← parseKind j) ((natF j "signer").toOption.getD 0) entry)
  | o => throw s!"unknown op {o}"

def optIdx (j : Json) (k : String) : R (Option Nat) := do
  let i ← intF j k
  pure (if i < 0 then none else some i.toNat)

structure Obs where
  err : String
  pol : Option Nat
  stg : Option Nat
  log : List LogEntry
  news : List (Option Nat × Policy)
  preLoad : String
  preProbe : String
  load : String
  probe : String

def parseLogE (j : Json) : R LogEntry := do
  let i ← intF j "i"
  let target : Target := match (strF j "kind").toOption.getD "" with
    | "policy" => .policy i.toNat
    | "commit" => .commit i.toNat
    | _ => .zero
  pure { kind := .ref, ref := ← strF j "ref", target := target }

def parseObs (j : Json) : R Obs := do
  let news ← (← arrF j "new").toList.mapM (fun n => do
    pure ((← optIdx n "parent"), (← parsePolicy (← field n "policy"))))
  pure { err := ← strF j "err", pol := ← optIdx j "pol", stg := ← optIdx j "stg",
         log := ← (← arrF j "log").toList.mapM parseLogE, news := news,
         preLoad := (strF j "pre_load").toOption.getD "", preProbe := (strF j "pre_probe").toOption.getD "",
         load := (strF j "load").toOption.getD "", probe := (strF j "probe").toOption.getD "" }

/-- the repository state as observed on the real repository after a step -/
def observed (prev : PState) (o : Obs) : PState :=
  { prev with
    W := { prev.W with policies := prev.W.policies ++ o.news.map (·.2), log := o.log },
    parent := prev.parent ++ o.news.map (·.1),
    tags := prev.tags ++ o.news.map (fun _ => ""),
    polRef := o.pol, stgRef := o.stg }

def errClass : Res → String
  | .ok _ => "ok"
  | .error .invalid => "invalid"
  | .error .notAncestor => "notancestor"
  | .error .unauthorized => "unauthorized"
  | .error .panic => "panic"
  | .error .other => "other"

/-- the comparable part of a state: references, log (reference + target), policy commits -/
def sameState (m o : PState) : Bool :=
  m.polRef == o.polRef && m.stgRef == o.stgRef &&
  m.W.log.map (fun e => (e.ref, e.target)) == o.W.log.map (fun e => (e.ref, e.target)) &&
  m.W.policies == o.W.policies && m.parent == o.parent

def loadClass (s : PState) : String :=
  match s.latestIdx policyRef with
  | none => "none"
  | some p => match s.W.loadState p with | .ok _ => "ok" | .error _ => "error"

def probeClass (cv : Variant) (s : PState) : String :=
  match s.W.verifyRefFull cv probeRefName with
  | .ok _ => "ok"
  | .error .notFound => if s.probe.isNone then "none" else "error"
  | .error _ => "error"

def okOrNone (s : String) : Bool := s == "ok" || s == "none"

def describe (m : PState) : Json :=
  Json.mkObj [("pol", match m.polRef with | some i => (i : Json) | none => Json.num (-1)),
              ("stg", match m.stgRef with | some i => (i : Json) | none => Json.num (-1)),
              ("log", Json.arr (m.W.log.map (fun e => Json.str (e.ref ++ "->" ++
                 (match e.target with | .policy i => s!"p{i}" | .commit i => s!"c{i}" | _ => "?")))).toArray),
              ("nstates", (m.W.policies.length : Json))]

def handle (j : Json) : R Json := do
  let inp ← field j "in"
  let ops ← (← arrF inp "ops").toList.mapM parseOp
  let obs ← (← arrF (← field j "impl") "steps").toList.mapM parseObs
  let cv := parseVariant j
  let openF : List String := match j.getObjVal? "open" with
    | .ok v => (strList v).toOption.getD []
    | .error _ => ["F9"]
  let ov : OpsVariant := { f9_noVerifyNewState := openF.contains "F9" }
  let mut m : PState := PState.init          -- the model's state
  let mut o : PState := PState.init          -- the state observed on the real repository
  let mut agree := ops.length == obs.length
  let mut specOk := true
  let mut finding : Option String := none
  let mut unattributed := false
  let mut notes : Array Json := #[]
  let mut errs : Array Json := #[]
  let mut nontrivial := false
  let mut k : Nat := 0
  for (op, ob) in ops.zip obs do
    let (m', r) := m.step ov op
    let o' := observed o ob
    let mut same := errClass r == ob.err && sameState m' o'
    let mut why : List String := []
    if !(errClass r == ob.err && sameState m' o') then
      why := s!"model err={errClass r}" :: why
    -- what later verification makes of the policy, around every apply
    match op with
    | .apply =>
      if ob.preLoad != "" && (loadClass m != ob.preLoad || probeClass cv m != ob.preProbe) then
        same := false
        why := s!"pre: model load={loadClass m} probe={probeClass cv m}" :: why
      if ob.err == "ok" && (loadClass m' != ob.load || probeClass cv m' != ob.probe) then
        same := false
        why := s!"post: model load={loadClass m'} probe={probeClass cv m'}" :: why
    | _ => pure ()
    if !same then
      agree := false
      notes := notes.push (Json.mkObj [("step", k), ("agree", false), ("why", jStrs why), ("model", describe m'), ("impl_err", ob.err)])
    -- the property, on what the implementation did
    let mut bad : List String := []
    if !graphExtendsB o o' then bad := "graph/log shrank" :: bad
    match op with
    | .apply =>
      if ob.err == "ok" then
        nontrivial := true
        if !applyOKB o o' then bad := "ApplyOK" :: bad
        let pubImpl := (!okOrNone ob.preLoad || ob.load == "ok") &&
                       (!(okOrNone ob.preLoad && okOrNone ob.preProbe) || okOrNone ob.probe)
        if !(pubImpl && publishedVerifiesB o o') then
          bad := "PublishedVerifies" :: bad
          -- attribution: the model reproduces the step and the repaired Apply refuses it
          let repaired := (m.step OpsVariant.good op).2
          if same && ov.f9_noVerifyNewState && errClass repaired != "ok" then finding := some "F9" else unattributed := true
      else
        if !policyUntouchedB o o' then bad := "refused Apply touched the policy" :: bad
        if (!refAgreesB o .policy || !refAgreesB o .staging) && !unchangedB o o' then bad := "ApplyRefuses" :: bad
      if (!refAgreesB o .policy || !refAgreesB o .staging) && ob.err == "ok" then bad := "ApplyRefuses" :: bad
    | .discard =>
      if ob.err == "ok" && !discardRestoresB o o' then bad := "DiscardRestores" :: bad
    | .edit kind signer _ =>
      if kind.isRootEdit && !isRootSigner o signer && (ob.err == "ok" || !unchangedB o o') then
        bad := "RootEditRefused" :: bad
    | _ => pure ()
    if !bad.isEmpty then
      specOk := false
      if !(bad == ["PublishedVerifies"]) then unattributed := true
      notes := notes.push (Json.mkObj [("step", k), ("spec", false), ("violated", jStrs bad)])
    errs := errs.push (Json.str (errClass r))
    m := m'
    o := o'
    k := k + 1
  return Json.mkObj [
    ("id", (← field j "id")), ("agree", agree), ("spec_impl", specOk),
    ("finding", match finding, unattributed with | some f, false => Json.str f | _, _ => Json.null),
    ("model", Json.arr errs), ("notes", Json.arr notes), ("nontrivial", nontrivial)]

end Driver.C12
