import Driver.Util
import Gittuf.Spec.C20
import Gittuf.Model.SandboxSnapshot
open Lean Gittuf.Sandbox

/-
C20 driver. Line kinds (in.kind): graph | probe | write | retval | timing | hooksel.
The model predictions for probe / write scripts are computed on the SNAPSHOT graph
(Gittuf/Model/SandboxSnapshot.lean, the unchanged tree); the run-time graph is compared
with the snapshot and judged by `safeB` on every run.
-/
namespace Driver.C20

/-- optional array / number fields (Go omits empty ones) -/
def arrO (j : Json) (k : String) : List Json := match optF j k with | some (.arr a) => a.toList | _ => []
def natO (j : Json) (k : String) : Nat := match optF j k with | some v => v.getNat?.toOption.getD 0 | none => 0
def strListO (j : Json) (k : String) : R (List String) := (arrO j k).mapM (·.getStr?)
def natListO (j : Json) (k : String) : R (List Nat) := (arrO j k).mapM (·.getNat?)

def parseGraph (j : Json) : R Graph := do
  let nodes ← (← arrF j "nodes").toList.mapM (fun n => do
    return ({ id := ← natF n "id", kind := Kind.ofString (← strF n "kind"), name := ← strF n "name",
              impl := ← strF n "impl", prot := ← boolF n "prot" } : Node))
  let edges ← (← arrF j "edges").toList.mapM (fun e => do
    return ({ src := ← natF e "from", label := ← strF e "label", dst := ← natF e "to" } : Edge))
  return { nodes := nodes, edges := edges, roots := ← natListF j "roots", hidden := ← natListF j "hidden" }

def nodeSig (n : Node) : String := s!"{n.id}:{repr n.kind}:{n.name}:{n.impl}:{n.prot}"
def edgeSig (e : Edge) : String := s!"{e.src}-{e.label}->{e.dst}"

def diffList (a b : List String) : List String :=
  (a.filter (fun x => !b.contains x)).map ("+" ++ ·) ++ (b.filter (fun x => !a.contains x)).map ("-" ++ ·)

/-- what a script can enumerate by itself: fields, object keys, and (with getfenv) function
environments — not metatables, upvalues or constants -/
def luaVisible (g : Graph) : List Nat :=
  let hasGetfenv := (resolve g (globalsRoot g) ["getfenv"]).isSome
  let vis : Graph := { g with edges := g.edges.filter (fun e =>
    e.label.startsWith "f:" || e.label.startsWith "i:" || e.label.startsWith "b:" || e.label == "key" ||
    (hasGetfenv && e.label == "env")) }
  (iter vis vis.nodes.length (addNew [] vis.roots)).filter (· != 0)

def handleGraph (j impl : Json) : R Json := do
  let g ← parseGraph (← field impl "graph")
  let luaSeen := sortNats (← natListF impl "lua_seen")
  let luaUnknown ← natF impl "lua_unknown"
  let luaClass ← strF impl "lua_class"
  let S := reach g
  let safe := safeOn g S
  let bad := unsafeNodes g
  let dn := diffList (g.nodes.map nodeSig) (snapshot.nodes.map nodeSig)
  let de := diffList (g.edges.map edgeSig) (snapshot.edges.map edgeSig)
  let sameRoots := g.roots == snapshot.roots
  let vis := sortNats (luaVisible g)
  let luaOk := luaClass == "ok" && luaUnknown == 0 && luaSeen.all S.contains
  let agree := dn.isEmpty && de.isEmpty && sameRoots && luaSeen == vis
  let notable := (S.filterMap g.node?).filter (fun n => n.kind == .gofn &&
    [some Cap.envRead, some Cap.envWrite, some Cap.fresh, some Cap.stdout, some Cap.rawArrayWrite].contains (capOf n.impl))
  return Json.mkObj [
    ("id", (← field j "id")), ("agree", agree), ("spec_impl", safe && luaOk),
    ("class", "graph"),
    ("model", Json.mkObj [
      ("nodes", g.nodes.length), ("edges", g.edges.length), ("reach", S.length),
      ("closed", closedB g S), ("safe", safe),
      ("not_allowed", Json.arr (bad.map (fun n => Json.str s!"{n.name} = {n.impl} [{dangerOf n.impl}]")).toArray),
      ("hidden_danger", hiddenDangerOn g S),
      ("notable", jStrs (notable.map (·.name))),
      ("node_diff", jStrs (dn.take 20)), ("edge_diff", jStrs (de.take 20)), ("same_roots", sameRoots),
      ("lua_visible", vis.length), ("lua_seen", luaSeen.length),
      ("lua_diff", jNats ((vis.filter (fun x => !luaSeen.contains x)) ++ (luaSeen.filter (fun x => !vis.contains x))))]),
    ("nontrivial", Json.bool (g.nodes.length > 10))]

/-! probe -/

def viaNeeds : String → List (List String)
  | "coroutine" => [["coroutine", "wrap"]]
  | "cocreate" => [["coroutine", "create"], ["coroutine", "resume"], ["coroutine", "yield"]]
  | "xpcall" => [["xpcall"]]
  | "getfenv0" | "getfenv1" | "getfenvnoarg" => [["getfenv"]]
  | "getfenvapi" => [["getfenv"], ["gitReadBlob"]]
  | "getfenvlua" => [["getfenv"], ["strSplit"]]
  | "getfenvlib" => [["getfenv"], ["string", "find"]]
  | "setfenvself" => [["getfenv"], ["setfenv"]]
  | "pairs" => [["getfenv"], ["ipairs"], ["pairs"]]
  | "next" => [["getfenv"], ["ipairs"], ["next"]]
  | "select" => [["select"]]
  | "unpack" => [["unpack"]]
  | _ => []

def probeModel (g : Graph) (path : List String) (via : String) : String × Int :=
  let G := globalsRoot g
  if (resolve g G ["pcall"]).isNone then ("error", -1)
  else if !(viaNeeds via).all (fun p => (resolve g G p).isSome) then ("ok", 0)
  else
    let r := if via == "strvalue" || via == "strindex"
      then (stringIndex g).bind (fun s => resolve g s (path.drop 1))
      else resolve g G path
    ("ok", if r.isSome then 7 else 0)

def handleProbe (j inp impl : Json) : R Json := do
  let path ← strListO inp "path"
  let via ← strF inp "via"
  let cls ← strF impl "class"
  let code ← intF impl "code"
  let m := probeModel snapshot path via
  return Json.mkObj [
    ("id", (← field j "id")), ("agree", m == (cls, code)), ("spec_impl", probeOk path cls code),
    ("class", s!"probe-{cls}-{code}"),
    ("model", Json.mkObj [("class", m.1), ("code", m.2), ("forbidden", forbiddenPath path)]),
    ("nontrivial", Json.bool (code == 7 || forbiddenPath path))]

/-! write -/

def writeTarget (g : Graph) (table how : String) : Option Nat :=
  if how == "strmeta" then stringIndex g
  else if table == "_G" then some (globalsRoot g)
  else resolve g (globalsRoot g) [table]

def handleWrite (j inp impl : Json) : R Json := do
  let table ← strF inp "table"
  let key ← strF inp "key"
  let how ← strF inp "how"
  let val ← strF inp "val"
  let cls ← strF impl "class"
  let code ← intF impl "code"
  let g := snapshot
  let G := globalsRoot g
  let needs : List (List String) :=
    (if how == "getfenv" || (table == "_G" && how != "global") then [["getfenv"]] else []) ++
    (if how == "tinsert" then [["table", "insert"]] else [])
  let label := if how == "tinsert" then "i:1" else "f:" ++ key
  let (pre, changed) : Bool × Bool :=
    match writeTarget g table how with
    | none => (false, false)
    | some t =>
      let pre := hasField g.edges t label
      if !needs.all (fun p => (resolve g G p).isSome) then (pre, false)
      else
        let v : Option Nat := if val == "nil" then none else some 0
        let es := writeEdges g g.edges t label v (how == "tinsert")
        -- `T[key] ~= before`: the field was removed, added, or re-pointed
        let after := es.find? (fun e => e.src == t && e.label == label)
        let before := g.edges.find? (fun e => e.src == t && e.label == label)
        (pre, match before, after with
          | none, none => false
          | some _, none => true
          | none, some _ => val != "nil"
          | some _, some _ => es != g.edges)
  -- setfenv(strSplit, {}): works iff setfenv is reachable and the API is a Lua function
  let (pre, changed) := if how == "setfenvapi" then
      (true, (resolve g G ["setfenv"]).isSome &&
        ((resolve g G ["strSplit"]).bind g.node?).any (fun n => n.kind == .luafn))
    else (pre, changed)
  let m : String × Int := if (resolve g G ["pcall"]).isNone then ("error", -1) else ("ok", if changed then 7 else 0)
  -- in the globals table only library / API entries (functions, module tables) count; plain data
  -- globals (hookParameters, hookExitCode, _VERSION) are the script's to change
  let preLib := match writeTarget g table how with
    | some t => (g.edges.find? (fun e => e.src == t && e.label == label)).any (fun e => e.dst != 0)
    | none => false
  let ok := writeOk table (if table == "_G" then preLib else pre) cls code
  let base := [
    ("id", (← field j "id")), ("agree", Json.bool (m == (cls, code))), ("spec_impl", Json.bool ok),
    ("class", Json.str s!"write-{cls}-{code}"),
    ("model", Json.mkObj [("class", m.1), ("code", m.2), ("pre_existing", pre)]),
    ("nontrivial", Json.bool true)]
  let fnd := if ok then [] else if moduleTables.contains table then [("finding", Json.str "F30")]
    else if table == "_G" then [("finding", Json.str "F31")] else []
  return Json.mkObj (base ++ fnd)

/-! retval -/

def retVal (s : String) : Option LVal :=
  if s == "nil" then some .nil
  else if s == "str" || s == "numstr" then some .str
  else if s == "tbl" then some .table
  else if s == "bool" then some (.bool false)
  else if s == "true" then some (.bool true)
  else if s == "fn" then some .func
  else if s == "co" then some .thread
  else if s == "ud" then some .userdata
  else if s.startsWith "num:" then (s.drop 4).toString.toInt?.map LVal.num
  else none

def handleRet (j inp impl : Json) : R Json := do
  let ret ← strListO inp "ret"
  let cls ← strF impl "class"
  let code ← intF impl "code"
  let vals := ret.filterMap retVal
  let m := scriptExit vals
  let lastNum := match (LVal.table :: vals).getLast? with | some (.num _) => true | _ => false
  return Json.mkObj [
    ("id", (← field j "id")), ("agree", cls == "ok" && code == m), ("spec_impl", retOk lastNum cls code),
    ("class", s!"ret-{cls}"),
    ("model", Json.mkObj [("code", m), ("last_is_number", lastNum)]),
    ("nontrivial", Json.bool !lastNum)]

/-! timing -/

def handleTiming (j inp impl : Json) : R Json := do
  let family ← strF inp "family"
  let timeoutS ← natF inp "timeout_s"
  let slack ← natF inp "slack_ms"
  let cls ← strF impl "class"
  let wall := natO impl "wall_ms"
  -- unbounded non-tail recursion overflows the Lua call stack at once; everything else only ends by the deadline
  let mcls := if family == "recursion" then "error" else "deadline"
  let ok := timingOk cls wall (timeoutS * 1000) slack
  let base := [
    ("id", (← field j "id")), ("agree", Json.bool (cls == mcls)), ("spec_impl", Json.bool ok),
    ("class", Json.str s!"timing-{cls}"),
    ("model", Json.mkObj [("class", mcls), ("limit_ms", timeoutS * 1000 + slack), ("wall_ms", wall)]),
    ("nontrivial", Json.bool true)]
  let fnd := if ok then [] else if family.startsWith "pattern_" then [("finding", Json.str "F32")]
    else if family == "tailspin" then [("finding", Json.str "F33")] else []
  return Json.mkObj (base ++ fnd)

/-! hook selection -/

def rootKey : Nat := 7

def handleHookSel (j inp impl : Json) : R Json := do
  let ps ← (arrO inp "principals").mapM (fun p => do
    return ({ id := ← natF p "id", keys := ← natListO p "keys" } : Principal))
  let psIdx := ps.toArray
  let hooks ← (arrO inp "hooks").mapM (fun h => do
    let pis ← natListO h "principals"
    return (({ name := ← strF h "name", stages := ← natListO h "stages",
               principals := pis.filterMap (fun i => psIdx[i]?.map (·.id)) } : Hook), (← intF h "ret")))
  let key := natO inp "signer"
  let stage := natO inp "stage"
  let cls ← strF impl "class"
  let ran ← strListO impl "ran"
  -- the policy's root key is a principal of the root metadata (no hook names it)
  let all := ps ++ [{ id := 1000000 + rootKey, keys := [rootKey] }]
  let hs := hooks.map (·.1)
  let render : SelResult → String × List String
    | .noHooksDefined => ("nohooksdefined", [])
    | .principalNotFound => ("noprincipal", [])
    | .noHooksForPrincipal => ("nohooks", [])
    | .run names => ("ok", (names.map (fun n =>
        match hooks.find? (fun h => h.1.name == n) with
        | some h => s!"{n}={h.2}"
        | none => n)).toArray.qsort (· < ·) |>.toList)
  -- Go map order decides which owner of a shared key is selected: one model result per owner
  let owners := all.filter (fun p => p.keys.contains key)
  let results := if owners.isEmpty then [render (selectHooks hs all key stage)]
    else owners.map (fun o => render (selectHooks hs [o] key stage))
  let ranNames := ran.map (fun s => (s.splitOn "=").headD s)
  -- a "read" hook returns 77 when it can see a global, or a replaced API, that another hook's
  -- script left behind: then a script reached a value that is neither inert data of its own, an
  -- allow-listed library function nor a registered API
  let sawForeign := ran.any (fun s => (s.splitOn "=").getLastD "" == "77")
  let ok := (cls == "ok" || cls == "nohooks" || cls == "noprincipal" || cls == "nohooksdefined") &&
    hookSelOk hs all key stage ranNames && !sawForeign
  let first := results.headD ("none", [])
  return Json.mkObj [
    ("id", (← field j "id")), ("agree", results.contains (cls, ran)), ("spec_impl", ok),
    ("class", s!"hooksel-{cls}"),
    ("model", Json.mkObj [("class", first.1), ("ran", jStrs first.2), ("n_owners", owners.length)]),
    ("nontrivial", Json.bool (cls == "ok" || cls == "nohooks"))]

def handle (j : Json) : R Json := do
  let inp ← field j "in"
  let impl ← field j "impl"
  match (← strF inp "kind") with
  | "graph" => handleGraph j impl
  | "probe" => handleProbe j inp impl
  | "write" => handleWrite j inp impl
  | "retval" => handleRet j inp impl
  | "timing" => handleTiming j inp impl
  | "hooksel" => handleHookSel j inp impl
  | k => .error s!"C20: unknown kind {k}"

end Driver.C20
