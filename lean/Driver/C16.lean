import Driver.Util
import Driver.C17
import Gittuf.Spec.C16
open Lean Gittuf Gittuf.Script

namespace Driver.C16
open Driver.C17 (kind refName)

def parseRef : String → Ref
  | "refs/gittuf/reference-state-log" => .rsl
  | "refs/gittuf/policy" => .policy
  | "refs/gittuf/policy-staging" => .staging
  | "refs/gittuf/attestations" => .attest
  | "refs/heads/feature" => .branch 7
  | "refs/heads/main" => .branch 1
  | _ => .branch 99

def refStr : Ref → String
  | .branch 7 => "refs/heads/feature"
  | .branch 1 => "refs/heads/main"
  | r => refName r

def managed : List String := ["refs/gittuf/policy", "refs/gittuf/policy-staging", "refs/gittuf/attestations"]

def parseEntry (j : Json) : R OEntry := do
  return { kind := ← strF j "kind", ref := ← strF j "ref", target := ← strF j "target", number := ← natF j "number", npar := ← natF j "npar" }

structure Snap where
  obs : Obs
  chain : Bool
  reader : String
  verify : String
  objs : List (String × String)

def parseSnap (j : Json) : R Snap := do
  let refsJ ← field j "refs"
  let refs ← managed.mapM fun r => do pure (r, ← strF refsJ r)
  let log ← (← arrF j "log").toList.mapM parseEntry
  let objs ← match optF j "objs" with
    | some (.obj kvs) => kvs.toList.mapM fun (k, v) => do pure (k, ← v.getStr?)
    | _ => pure []
  return { obs := { refs := refs, log := log }, chain := ← boolF j "chain", reader := ← strF j "reader", verify := ← strF j "verify", objs := objs }

/-- depth suffix of a name "c-<tree>-<depth>" -/
def depthOf (name : String) : Nat := ((name.splitOn "-").getLast?.bind String.toNat?).getD 0
def treeOf (name : String) : String := (name.splitOn "-").getD 1 ""

/-- the abstract starting store built from an observed state: tree commits first (parents
before children), then the log entries; names of objects outside the store (branch commits,
fake ids) become dangling ids ≥ 100000. -/
structure World where
  store : Store
  names : List (String × Cid)       -- object name -> id
  trees : List String               -- known tree strings (tag = position)

def World.id (w : World) (name : String) : Cid := (w.names.lookup name).getD 99999
def World.nameOf (w : World) (c : Cid) : Option String := (w.names.find? (fun x => x.2 == c)).map (·.1)

def buildWorld (sn : Snap) : World := Id.run do
  let objs := sn.objs.toArray.qsort (fun a b => depthOf a.1 < depthOf b.1 || (depthOf a.1 == depthOf b.1 && a.1 < b.1)) |>.toList
  let mut commits : List Commit := []
  let mut names : List (String × Cid) := []
  let mut trees : List String := []
  for (n, par) in objs do
    let t := treeOf n
    if !trees.contains t then trees := trees ++ [t]
    let tag := trees.idxOf t
    let parents := if par == "" then [] else [(names.lookup par).getD 99999]
    names := names ++ [(n, commits.length)]
    commits := commits ++ [{ parents := parents, payload := .tree tag, owner := 0 }]
  -- dangling targets
  names := names ++ [("fake", 99999)]
  let mut dang := 100000
  for e in sn.obs.log do
    if e.kind == "ref" && (names.lookup e.target).isNone then
      names := names ++ [(e.target, dang)]
      dang := dang + 1
  let mut prev : Option Cid := none
  for e in sn.obs.log do
    let payload : Payload :=
      if e.kind == "ann" then .annEntry [] e.number
      else .refEntry (parseRef e.ref) ((names.lookup e.target).getD 99999) e.number
    let id := commits.length
    commits := commits ++ [{ parents := prev.toList, payload := payload, owner := 0 }]
    prev := some id
  let mut refs : List (Ref × Cid) := []
  for (r, v) in sn.obs.refs do
    if v != "" then refs := refs ++ [(parseRef r, (names.lookup v).getD 99999)]
  match prev with
  | some t => refs := refs ++ [(.rsl, t)]
  | none => pure ()
  return { store := { commits := commits, refs := refs }, names := names, trees := trees }

/-- depth (number of ancestors incl. itself) of a model commit -/
def depthIn (s : Store) (c : Cid) : Nat := (s.chainFrom (s.commits.length + 1) c).length

/-- object name of a model id: known objects keep their observed name, new tree commits are
named by (tag, depth) like the harness names real ones by (tree, depth). -/
def nameIn (w : World) (s : Store) (c : Cid) : String :=
  match w.nameOf c with
  | some n => n
  | none =>
    match s.commit? c with
    | some { payload := .tree tag, .. } =>
      match w.trees[tag]? with
      | some t => s!"c-{t}-{depthIn s c}"
      | none => s!"c-NEW{tag}-{depthIn s c}"
    | _ => s!"?{c}"

def obsOf (w : World) (s : Store) : Obs :=
  { refs := managed.map fun r => (r, match s.get (parseRef r) with | some c => nameIn w s c | none => ""),
    log := s.log.reverse.map fun id =>
      match s.commit? id with
      | some cm =>
        match cm.payload with
        | .refEntry r t n => { kind := "ref", ref := refStr r, target := nameIn w s t, number := n, npar := cm.parents.length }
        | .annEntry ids n => { kind := "ann", ref := "", target := s!"ann{ids.length}", number := n, npar := cm.parents.length }
        | .tree _ => { kind := "?", ref := "", target := "", number := 0, npar := cm.parents.length }
      | none => { kind := "?", ref := "", target := "", number := 0, npar := 0 } }

/-- rename the trees an observer did not know before (new content) by first occurrence over a
sequence of observations (before, after the uninterrupted run, after the fault, after the retry). -/
def freshOf (known : List String) (os : List Obs) : List String := Id.run do
  let mut fresh : List String := []
  for o in os do
    for n in o.refs.map (·.2) ++ o.log.map (·.target) do
      if n.startsWith "c-" then
        let t := treeOf n
        if !known.contains t && !fresh.contains t then fresh := fresh ++ [t]
  return fresh

def canonWith (known fresh : List String) (o : Obs) : Obs :=
  let ren (n : String) : String :=
    if n.startsWith "c-" then
      let t := treeOf n
      if known.contains t then n else s!"c-N{fresh.idxOf t}-{depthOf n}"
    else n
  { refs := o.refs.map fun (r, v) => (r, ren v), log := o.log.map fun e => { e with target := ren e.target } }

def canonAll (known : List String) (os : List Obs) : List Obs :=
  let fresh := freshOf known os
  os.map (canonWith known fresh)

def opProg (w : World) (v : Variant) (op : String) : R Prog :=
  match op with
  | "record" => pure (recordEntry v (.branch 7) (w.id "fake") [] (.ret .err) fun _ => .ret .ok)
  | "annotate" =>
    let ids := match w.store.latestFor (.branch 1) with | some (id, _) => [id] | none => [99998]
    pure (annotateFrom { build := fun n => .annEntry ids n } ids [] |> softAdj v)
  | "stage" => pure (stage v 900)
  | "attest" => pure (attest v 950)
  | "discard" => pure discard
  | "reconcile" => pure (reconcile v 901)
  | "apply" => pure (apply v 901)
  | o => throw s!"unknown op {o}"
where
  softAdj (_v : Variant) (p : Prog) : Prog := p

/-- kinds that may follow the head of a macro call -/
def tailKinds : Call → List String
  | .lookup _ => ["GetCommitMessage", "GetCommitParentIDs"]
  | .loadVerify => ["GetReference(refs/gittuf/reference-state-log)", "GetReference(refs/local/gittuf/persistent-cache)",
      "GetCommitMessage", "GetCommitParentIDs", "KnowsCommit", "GetCommitTreeID", "GetEntriesInTree", "ReadBlob",
      "GetAllFilesInTree", "GetPathIDInTree", "GetObjectSignature", "GetFilePathsChangedByCommit", "GetCommitsBetweenRange"]
  | .loadState _ => ["GetEntriesInTree", "ReadBlob", "GetAllFilesInTree", "GetPathIDInTree"]
  | _ => []

/-- align the real call kinds with the model's calls: for every real call its model step and
whether it is a GetCommitMessage inside a look-up (soft failure). `none` = shapes differ. -/
def align (model : List Call) (real : List String) : Option (List (Nat × Flavour)) := Id.run do
  let m := model.toArray
  let mut i : Nat := 0          -- next model call to start
  let mut res : List (Nat × Flavour) := []
  for κ in real do
    let inTail := i > 0 && (tailKinds m[i-1]!).contains κ
    if inTail then
      let soft := (match m[i-1]! with | .lookup _ => true | _ => false) && κ == "GetCommitMessage"
      res := res ++ [(i - 1, if soft then .soft else .hard)]
    else if i < m.size && kind m[i]! == κ then
      res := res ++ [(i, .hard)]
      i := i + 1
    else
      return none
  if i == m.size then return some res else return none

def isMut (k : String) : Bool :=
  k.startsWith "SetReference" || k.startsWith "DeleteReference" || k.startsWith "Commit(" || k.startsWith "ResetDueToError"

def resClass : Option Res → String
  | some .ok => "ok"
  | some .err => "error"
  | some .invalidPolicy => "invalid-policy"
  | none => "crashed"

def implClass : String → String
  | "injected" => "error"
  | s => s

structure Pred where
  result : String
  after : Obs
  retry : String
  afterRetry : Obs
  muts : List String

def predict (w : World) (v : Variant) (op : String) (mode : String) (step : Nat × Flavour) : R Pred := do
  let p ← opProg w v op
  if mode == "fault" then
    let o := runFault 1 (some step) p w.store 0 []
    -- the retry is a new run of the same operation on the resulting store
    let w2 : World := { w with store := o.store }
    let p2 ← opProg w2 v op
    let o2 := run 2 p2 o.store
    return { result := resClass o.res, after := obsOf w o.store, retry := resClass o2.res,
             afterRetry := obsOf w o2.store, muts := (o.trace.map kind).filter isMut }
  else
    let o := runCrash 1 (step.1 + 1) p w.store []
    return { result := "crashed", after := obsOf w o.store, retry := "", afterRetry := obsOf w o.store,
             muts := (o.trace.map kind).filter isMut }

def readerOK (s : Snap) : Bool := s.reader == "ok" || s.reader == "empty"

def handle (j : Json) : R Json := do
  let inp ← field j "in"
  let op ← strF inp "op"
  let mode ← strF inp "mode"
  let k ← natF inp "k"
  let impl ← field j "impl"
  let before ← parseSnap (← field impl "before")
  let after0 ← parseSnap (← field impl "after0")
  let after ← parseSnap (← field impl "after")
  let trace0 ← strListF impl "trace0"
  let trace ← strListF impl "trace"
  let result0 := implClass (← strF impl "result0")
  let result := implClass (← strF impl "result")
  let retry := implClass (← strF impl "retry")
  let w := buildWorld before
  let known := w.trees
  let afterR ← if mode == "fault" then parseSnap (← field impl "after_retry") else pure after
  let (cBefore, cAfter0, cAfter, cAR) := match canonAll known [before.obs, after0.obs, after.obs, afterR.obs] with
    | [a, b, c, d] => (a, b, c, d)
    | _ => (before.obs, after0.obs, after.obs, afterR.obs)
  -- 1. the uninterrupted run: same calls in the same order, same result, same final state
  let p0 ← opProg w .code op
  let o0 := run 1 p0 w.store
  let al := align o0.trace trace0
  let some al := al | return Json.mkObj [("id", (← field j "id")), ("agree", Json.bool false), ("spec_impl", Json.bool true),
      ("model", Json.mkObj [("why", "call traces differ"), ("trace", jStrs (o0.trace.map kind))]), ("nontrivial", Json.bool false)]
  let some step := al[k - 1]? | throw "k out of range"
  -- F67: a failing READ that the code tolerates (the reference of the optional persistent cache, a
  -- commit message looked up on behalf of the cache / of a tolerant look-up) is swallowed: the
  -- operation reports success although a storage call failed.  Identified by its class - success
  -- reported and an outcome identical to the uninterrupted run's; a swallowed fault with any other
  -- outcome is not covered.  (The model has no notion of tolerated reads; it is not consulted here.)
  if mode == "fault" && result == "ok" && result0 == "ok" && cAfter == cAfter0 then
    let isOpen := match j.getObjVal? "open" with
      | .ok o => (match o.getArr? with | .ok a => a.any (fun x => x == Json.str "F67") | .error _ => false)
      | .error _ => true
    return Json.mkObj ([("id", (← field j "id")), ("agree", Json.bool true), ("spec_impl", Json.bool false),
      ("class", s!"{mode}:swallowed"),
      ("model", Json.mkObj [("why", "fault swallowed; outcome identical to the uninterrupted run"),
        ("call", match trace0[k - 1]? with | some c => Json.str c | none => Json.null)]),
      ("nontrivial", Json.bool true)] ++ (if isOpen then [("finding", Json.str "F67")] else []))
  -- 2. the faulted / crashed run, judged on canonical names
  let canonPred (p : Pred) : Obs × Obs × Obs × Obs :=
    match canonAll known [obsOf w w.store, obsOf w o0.store, p.after, p.afterRetry] with
    | [a, b, c, d] => (a, b, c, d)
    | _ => (p.after, p.after, p.after, p.after)
  let pr ← predict w .code op mode step
  let (mBefore, m0, mAfter, mAR) := canonPred pr
  let agree0 := resClass o0.res == result0 && m0 == cAfter0 && mBefore == cBefore
  let mut agree := agree0 && pr.result == result && mAfter == cAfter && pr.muts == trace.filter isMut
  let mut specImpl := true
  let mut specModel := true
  let mut specFix : List (String × Bool) := []
  if mode == "fault" then
    agree := agree && pr.retry == retry && mAR == cAR
    let mk (b a0 : Obs) (reported : Bool) (a : Obs) (rOk : Bool) (aR : Obs) (rd : Bool) : FaultObs :=
      { before := b, after0 := a0, ok0 := result0 == "ok", reported := reported, after := a, retryOk := rOk, afterRetry := aR, readerOK := rd }
    specImpl := faultHoldsB (mk cBefore cAfter0 (result != "ok") cAfter (retry == "ok") cAR (readerOK after)) && result != "panic"
    let judge (p : Pred) : Bool :=
      let (b, a0, a, aR) := canonPred p
      faultHoldsB (mk b a0 (p.result != "ok") a (p.retry == "ok") aR (chainOKB a.nodes))
    specModel := judge pr
    if !specModel then
      for (name, v) in [("F51", { Variant.code with softNotFound := false }), ("F13", { Variant.code with guard := false }),
                        ("F50", { Variant.code with reconcileRollback := true })] do
        specFix := specFix ++ [(name, judge (← predict w v op mode step))]
  else
    let mk (b a0 a : Obs) (rd vd : Bool) : CrashObs := { before := b, after0 := a0, after := a, readerOK := rd, verdictOK := vd }
    specImpl := crashHoldsB (mk cBefore cAfter0 cAfter (readerOK after) (after.verify == before.verify || after.verify == after0.verify))
    specModel := crashHoldsB (mk mBefore m0 mAfter (chainOKB mAfter.nodes) true)
  let finding : Option String :=
    if specModel then none else
      match specFix.find? (·.2) with
      | some (n, _) => some n
      | none => some (if trace0.getD (k - 1) "" == "GetCommitMessage" then "F51" else "F13")
  let base := [
    ("id", (← field j "id")),
    ("agree", Json.bool agree), ("spec_impl", Json.bool specImpl),
    ("model", Json.mkObj [("result", pr.result), ("retry", pr.retry), ("step", step.1), ("soft", Json.bool (step.2 == .soft)),
       ("spec", Json.bool specModel), ("muts", jStrs pr.muts),
       ("after_refs", jStrs (mAfter.refs.map (·.2))), ("after_log", jStrs (mAfter.log.map fun e => s!"{e.ref}:{e.target}:{e.number}")),
       ("retry_refs", jStrs (mAR.refs.map (·.2))), ("retry_log", jStrs (mAR.log.map fun e => s!"{e.ref}:{e.target}:{e.number}"))]),
    ("class", Json.str (mode ++ ":" ++ result)),
    ("nontrivial", Json.bool (isMut (trace0.getD (k - 1) "") || (trace0.drop k).any isMut))]
  return Json.mkObj (match finding with | some f => base ++ [("finding", Json.str f)] | none => base)

end Driver.C16
