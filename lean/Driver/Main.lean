import Driver.C05
import Driver.C01
import Driver.C07
import Driver.C02
import Driver.C11
import Driver.C09
import Driver.C19
import Driver.C04
import Driver.C03
import Driver.C13
import Driver.C06
import Driver.C14
import Driver.C10
import Driver.C18
import Driver.C16
import Driver.C17
import Driver.C20
import Driver.C08
import Driver.C15
import Driver.C12
open Lean

def dispatch (prop : String) (j : Json) : Except String Json :=
  match prop with
  | "C05" => Driver.C05.handle j
  | "C01" => Driver.C01.handle j
  | "C07" => Driver.C07.handle j
  | "C02" => Driver.C02.handle j
  | "C11" => Driver.C11.handle j
  | "C09" => Driver.C09.handle j
  | "C19" => Driver.C19.handle j
  | "C04" => Driver.C04.handle j
  | "C03" => Driver.C03.handle j
  | "C13" => Driver.C13.handle j
  | "C06" => Driver.C06.handle j
  | "C14" => Driver.C14.handle j
  | "C10" => Driver.C10.handle j
  | "C18" => Driver.C18.handle j
  | "C16" => Driver.C16.handle j
  | "C17" => Driver.C17.handle j
  | "C20" => Driver.C20.handle j
  | "C08" => Driver.C08.handle j
  | "C15" => Driver.C15.handle j
  | "C12" => Driver.C12.handle j
  | _ => .error s!"unknown property {prop}"

partial def loop (h : IO.FS.Stream) (out : IO.FS.Stream) : IO Unit := do
  let line ← h.getLine
  if line.isEmpty then return ()
  let line := line.trimAsciiEnd.toString
  if line.isEmpty then loop h out else
  let res : Except String Json := do
    let j ← Json.parse line
    let prop ← (← j.getObjVal? "prop").getStr?
    dispatch prop j
  match res with
  | .ok j => out.putStrLn j.compress
  | .error e => out.putStrLn (Json.mkObj [("error", e)]).compress
  loop h out

def main : IO Unit := do
  loop (← IO.getStdin) (← IO.getStdout)
