import Driver.WorldCheck
import Gittuf.Spec.C02
open Lean Gittuf

namespace Driver.C02

def spec (W : World) (q : Query) (impl : QResult) : Bool :=
  if impl.cls != "ok" then true else
  match W.latestEntryFor q.ref with
  | none => false
  | some last =>
    let first := match q.mode with
      | "full" => (W.firstFor q.ref).getD 0
      | "latest" => last
      | _ => q.frm
    W.c02Sound first last

def handle (j : Json) : R Json := handleWorld spec j

end Driver.C02
