import Driver.TreeJson
import Gittuf.Spec.C10
open Lean Gittuf Gittuf.Tree Driver.TreeJson
open Gittuf.Codec (Bytes Hash)

namespace Driver.C10

def namedOf (j : Json) : R (Bytes × Hash × Bool) := do
  let t := match optF j "tree" with | some (.bool b) => b | _ => false
  return (← bytesF j "p", ← hashF j "id", t)

def dirEntryOf (j : Json) : R DirEntry := do
  return { name := ← bytesF j "p", isTree := ← boolF j "tree", mode := (← strF j "m").toUTF8.toList, id := ← hashF j "id" }

def pathsOf (j : Json) : R (List Bytes) := do
  let a ← if j.isNull then pure #[] else j.getArr?
  a.toList.mapM bytesOf

/-- leaf paths whose (mode, id) differ between two flattened trees, bytewise sorted -/
def diffNames (a b : Tree) : List Path :=
  let look (t : Tree) (p : Path) := (t.find? (fun e => e.path == p)).map (fun e => (e.mode, e.id))
  let all := setOf ((a ++ b).map (·.path))
  all.filter (fun p => look a p != look b p)

def exceptClass {ε α} (r : Except ε α) : String := match r with | .ok _ => "ok" | .error _ => "panic"

def handlePaths (j inp : Json) : R Json := do
  let v := expectedVariant j
  let tree ← treeF inp "tree"
  let parents ← (← arrF inp "parents").toList.mapM treeOf
  let impl ← field j "impl"
  -- the truth as git itself reports it (NUL-delimited)
  let truthFiles ← treeF impl "truth_files"
  let truthDiffs ← (← arrF impl "truth_diffs").toList.mapM pathsOf
  -- sanity of the harness / of the model's notion of "changed": git agrees
  let sane := truthFiles == tree && sortTree tree == tree &&
    truthDiffs.map sortPaths == parents.map (fun p => diffNames p tree)
  let files := tree.map (·.path)
  -- 1. GetFilePathsChangedByCommit
  let changedClass ← strF impl "changed_class"
  let changed ← pathsOf (← field impl "changed")
  let mChanged := changedPaths v files truthDiffs
  let agreeChanged := changedClass == "ok" && changed == mChanged
  let specChanged := changedClass == "ok" && changedVerbatimB changed files truthDiffs
  -- 2. GetAllFilesInTree
  let filesClass ← strF impl "files_class"
  let implFiles := (← (← arrF impl "files").toList.mapM namedOf).map (fun x => (x.1, x.2.1))
  let mFilesText : Except PErr (List (Bytes × Hash)) :=
    if v.nul then .ok (tree.map (fun e => (e.path, e.id))) else getAllFilesInTree (renderLsTreeR tree)
  let mFilesStruct := (readFiles v tree).map (fun x => (x.1, x.2.2))
  let consistent := match mFilesText with | .ok l => l == mFilesStruct | .error _ => false
  let agreeFiles := match mFilesText with
    | .ok l => filesClass == "ok" && implFiles == l
    | .error _ => filesClass == "panic"
  let specFiles := filesClass == "ok" && filesVerbatimB implFiles tree
  -- 3. GetEntriesInTree
  let dirs ← (← arrF impl "dirs").toList.mapM (fun d => do
    let truth ← (← arrF d "truth").toList.mapM dirEntryOf
    let cls ← strF d "class"
    let got ← (← arrF d "impl").toList.mapM namedOf
    let m : Except PErr (List (Bytes × Hash × Bool)) :=
      if v.nul then .ok (truth.map (fun e => (e.name, e.id, e.isTree))) else getEntriesInTree (renderLsTree truth)
    let agree := match m with | .ok l => cls == "ok" && got == l | .error _ => cls == "panic"
    let spec := cls == "ok" && entriesVerbatimB got truth
    pure (agree, spec))
  let agreeDirs := dirs.all (·.1)
  let specDirs := dirs.all (·.2)
  let agree := sane && consistent && agreeChanged && agreeFiles && agreeDirs
  let spec := specChanged && specFiles && specDirs
  let finding : List (String × Json) :=
    if !spec && agree && !v.nul then [("finding", Json.str "F8")] else []
  let odd := files.any oddName || parents.any (fun p => p.any (fun e => oddName e.path))
  return Json.mkObj ([
    ("id", (← field j "id")),
    ("agree", agree), ("spec_impl", spec),
    ("model", Json.mkObj [("changed", Json.arr (mChanged.map jBytes).toArray), ("sane", sane), ("consistent", consistent),
      ("agree_changed", agreeChanged), ("agree_files", agreeFiles), ("agree_dirs", agreeDirs),
      ("spec_changed", specChanged), ("spec_files", specFiles), ("spec_dirs", specDirs)]),
    ("class", Json.str (if spec then "verbatim" else "altered")),
    ("nontrivial", Json.bool odd)] ++ finding)

def handle (j : Json) : R Json := do
  let inp ← field j "in"
  match (← strF inp "kind") with
  | "paths" => handlePaths j inp
  | k => throw s!"C10: unknown kind {k}"

end Driver.C10
