import Driver.WorldJson
import Gittuf.Model.Cache
open Lean Gittuf

namespace Driver.C08

def runC (W : World) (v : Variant) (c : Cache) (q : Query) : QResult × Cache :=
  let r := match q.mode with
    | "full" => W.verifyRefFullC v c q.ref
    | "latest" => W.verifyRefC v c q.ref
    | _ => W.verifyRefFromEntryC v c q.ref q.frm
  (match r.verdict with
   | .ok tip => { cls := "ok", tip := tip }
   | .error e => { cls := classOf e, tip := none }, r.cache)

/-- run the queries in the given order threading the cache; results are stored by query index -/
def runAll (W : World) (v : Variant) (c : Cache) (qs : List Query) (order : List Nat) : List QResult × Cache := Id.run do
  let mut res : Array QResult := Array.replicate qs.length { cls := "none", tip := none }
  let mut c := c
  for qi in order do
    match qs[qi]? with
    | none => pure ()
    | some q =>
      let (r, c') := runC W v c q
      res := res.set! qi r
      c := c'
  return (res.toList, c)

def sameVerdict (a b : QResult) : Bool := (a.cls == "ok") == (b.cls == "ok") && (a.cls != "ok" || a.tip == b.tip)

def handle (j : Json) : R Json := do
  let inp ← field j "in"
  let W ← parseWorld (← field inp "world")
  let qs ← (← arrF inp "queries").toList.mapM parseQuery
  let base ← (← arrF j "impl").toList.mapM parseImpl
  let cv := parseVariant j
  let fwd := List.range qs.length
  let rev := fwd.reverse
  let configs ← arrF j "configs"
  let mut agree := true
  let mut spec := true
  let mut staleDiff := false
  let mut otherDiff := false
  let mut notes : Array Json := #[]
  let mut cacheState : Cache := {}
  for cf in configs do
    let name ← strF cf "name"
    let k := (intF cf "k").toOption.getD (-1)
    let k2 := (intF cf "k2").toOption.getD (-1)
    let stale := (boolF cf "stale").toOption.getD false
    let impl ← (← arrF cf "verdicts").toList.mapM parseImpl
    let changed ← strListF cf "changed"
    -- the model's prediction for this configuration
    let model : List QResult ←
      match name with
      | "none" | "none-repeat-reversed" => pure (qs.map (runQuery W cv))
      | "fresh" =>
        let (r, c) := runAll W cv W.populateCache qs fwd
        cacheState := c
        pure r
      | "fresh-repeat" =>
        let (r, c) := runAll W cv cacheState qs rev
        cacheState := c
        pure r
      | "fresh-full-twice" =>
        let fullOnly := fwd.filter (fun qi => match qs[qi]? with | some q => q.mode == "full" | none => false)
        let (_, c) := runAll W cv W.populateCache qs fullOnly
        let (r, _) := runAll W cv c qs fullOnly
        pure r
      | "populated-at" =>
        let (r, _) := runAll W cv (W.prefixAt k.toNat).populateCache qs fwd
        pure r
      | "populated-advanced" =>
        let W2 := W.prefixAt k2.toNat
        let order2 := fwd.filter (fun qi => match qs[qi]? with
          | some q => !(q.mode == "from" && q.frm > k2.toNat)
          | none => false)
        let (_, c) := runAll W2 cv (W.prefixAt k.toNat).populateCache qs order2
        let (r, _) := runAll W cv c qs fwd
        pure r
      | n => throw s!"unknown config {n}"
    for ((m, i), b) in (model.zip impl).zip base do
      if i.cls == "skip" then continue
      if !sameVerdict m i then
        agree := false
        notes := notes.push (Json.mkObj [("config", name), ("k", k), ("k2", k2), ("model", m.cls), ("impl", i.cls)])
      if !sameVerdict i b then
        spec := false
        if stale then staleDiff := true else otherDiff := true
        notes := notes.push (Json.mkObj [("config", name), ("k", k), ("k2", k2), ("differs_from_no_cache", i.cls), ("no_cache", b.cls)])
    if !changed.isEmpty then
      spec := false
      otherDiff := true
      notes := notes.push (Json.mkObj [("config", name), ("refs_changed", jStrs changed)])
  let finding : Option String :=
    if spec || !agree then none
    else if staleDiff then some "F6" else if otherDiff then some "F29" else none
  return Json.mkObj [
    ("id", (← field j "id")), ("agree", agree), ("spec_impl", spec),
    ("finding", match finding with | some f => Json.str f | none => Json.null),
    ("notes", Json.arr notes), ("nontrivial", Json.bool true)]

end Driver.C08
