import Driver.WorldCheck
import Gittuf.Spec.C07
open Lean Gittuf

namespace Driver.C09

/-- C09 on the implementation's answer: every entry of an accepted range is authorized by
signatures / approvals whose SIGNED STATEMENT names exactly the change, counted once per principal,
from the attestation state recorded before the entry (`entryAuthorized`, Spec/C01). -/
def spec (W : World) (q : Query) (impl : QResult) : Bool :=
  if impl.cls != "ok" then true else
  match W.latestEntryFor q.ref with
  | none => false
  | some last =>
    let first := match q.mode with
      | "full" => (W.firstFor q.ref).getD 0
      | "latest" => last
      | _ => q.frm
    (W.refEntriesIn q.ref first last).all (fun j => W.skipped j || W.entryAuthorized j)

def handle (j : Json) : R Json := handleWorld spec j

end Driver.C09
