import Driver.WorldJson
import Gittuf.Spec.C19
open Lean Gittuf

namespace Driver.C19

def handle (j : Json) : R Json := do
  let inp ← field j "in"
  let W ← parseWorld (← field inp "world")
  let target ← strF inp "target"
  let feature ← strF inp "feature"
  let fc ← natF inp "feature_commit"
  let impl ← field j "impl"
  let implOk := (← strF impl "class") == "ok"
  let implNeed ← boolF impl "need_sig"
  let cands ← (← arrF impl "candidates").toList.mapM (fun c => do
    let v ← parseImpl (← field c "verdict")
    pure (optNatF c "signer", v))
  let cv := parseVariant j
  let predict (v : Variant) : Bool × Bool := match W.verifyMergeable v target feature with
    | .ok need => (true, need)
    | .error _ => (false, false)
  let (mOk, mNeed) := predict cv
  let verdict (v : Variant) (s : Option Nat) : Bool :=
    match (W.withMerge target fc s).verifyRefFull v target with | .ok _ => true | .error _ => false
  let mut agree := (mOk == implOk) && (!implOk || mNeed == implNeed)
  let mut notes : Array Json := #[]
  if !agree then notes := notes.push (Json.mkObj [("prediction_model", Json.arr #[mOk, mNeed]), ("prediction_impl", Json.arr #[implOk, implNeed])])
  -- states used by the prediction
  let P? := (W.latestFor policyRef W.log.length).bind W.policyAt
  let A := (W.latestFor attestationsRef W.log.length).bind W.attAt
  let frm : Option Nat := match W.latestFor target W.log.length (unskipped := true) with
    | none => none
    | some i => (W.log[i]?).bind World.targetCommit
  let tree := W.treeOf fc
  -- the rule the prediction relied on (the one that is one principal short), from the model of the
  -- prediction; none when it cannot be determined (then any consulted rule counts)
  let needRule : Option String := match P? with
    | none => none
    | some P =>
      match World.approvalsFor cv P A target frm tree with
      | .error _ => none
      | .ok ap =>
        match W.verifyObject cv P ("git:" ++ target) none none ap { mergeable := true } with
        | .ok (name, true) => some name
        | _ => none
  let eligibleFor (s : Option Nat) : Bool := match s, P? with
    | some k, some P =>
      (match needRule with
       | some rule => W.recorderEligibleFor P A target frm tree rule k
       | none => W.recorderEligible P A target frm tree k)
    | _, _ => false
  let mut spec := true
  let mut badCands : Array Json := #[]
  for (s, v) in cands do
    let mv := verdict cv s
    let iv := v.cls == "ok"
    if mv != iv then
      agree := false
      notes := notes.push (Json.mkObj [("signer", match s with | some k => (k : Json) | none => Json.null), ("model", mv), ("impl", v.cls)])
    let eligible := eligibleFor s
    let okHere :=
      if !implOk then !iv
      else if !implNeed then iv
      else iv == eligible
    if !okHere then
      spec := false
      badCands := badCands.push (Json.mkObj [("signer", match s with | some k => (k : Json) | none => Json.null), ("verdict", v.cls), ("eligible", eligible)])
  -- attribution: does repairing F1 alone change the prediction or a verdict?
  let mut finding : Option String := none
  if !spec && agree then
    let f1 := { cv with f1_exhaustiveSatisfies := false }
    let f27 := { cv with f27_mergeableNeedsThreshold2 := false }
    if cv.f1_exhaustiveSatisfies && (predict f1 != (mOk, mNeed) || cands.any (fun (s, _) => verdict f1 s != verdict cv s)) then
      finding := some "F1"
    else if cv.f27_mergeableNeedsThreshold2 && predict f27 != (mOk, mNeed) then
      finding := some "F27"
    else if !implOk && (match A with
        | some A => A.auths.any (fun a => a.sref == target && a.sfrom == frm && a.sto == tree && a.signers.isEmpty)
        | none => false) then
      -- F28: an authorization envelope carrying no signature at all makes the prediction fail hard
      finding := some "F28"
    else if implOk && implNeed && verdict cv none &&
        cands.all (fun (s, v) => (v.cls == "ok") || !eligibleFor s) &&
        (match j.getObjVal? "open" with
         | .ok o => (strList o).toOption.getD [] |>.contains "F66"
         | .error _ => true) then
      -- F66: the mergeability loop stops at the first rule that is one principal short although a
      -- later rule consulted for the branch is already met: "signature needed" is reported, yet the
      -- recorded merge verifies whoever records it (the only disagreement is in that direction)
      finding := some "F66"
  return Json.mkObj [
    ("id", (← field j "id")), ("agree", agree), ("spec_impl", spec),
    ("finding", match finding with | some f => Json.str f | none => Json.null),
    ("model", Json.mkObj [("ok", mOk), ("need", mNeed)]),
    ("notes", Json.arr (notes ++ badCands)),
    ("nontrivial", Json.bool true)]

end Driver.C19
