import Driver.Util
import Gittuf.Spec.C15
open Lean Gittuf Gittuf.Sync

/-! C15: pairs of real repositories, reconcile / sync.  Abstract ids as in harness/c15_test.go:
shared entry i ↦ i, local-only j ↦ 1000+j, remote-only j ↦ 2000+j, commits that exist only
after the operation ↦ 3000+k.  Targets are indices into the target DAG. -/
namespace Driver.C15

def unknownId : Nat := 99999
def unknownObj : Nat := 999

def natOrUnknown (j : Json) (k : String) (unk : Nat) : Nat :=
  match optF j k with
  | some v => match v.getInt? with
    | .ok i => if i < 0 then unk else i.toNat
    | .error _ => unk
  | none => 0

def parseBody (j : Json) : R Body := do
  let getS (k : String) : String := match optF j k with | some v => v.getStr?.toOption.getD "" | none => ""
  let getB (k : String) : Bool := match optF j k with | some v => v.getBool?.toOption.getD false | none => false
  let ids ← match optF j "ids" with
    | none => pure []
    | some v => do
      let a ← v.getArr?
      a.toList.mapM (fun x => do let i ← x.getInt?; pure (if i < 0 then unknownId else i.toNat))
  match (← strF j "k") with
  | "ref" => return .reference (getS "ref") (natOrUnknown j "target" unknownObj)
  | "prop" => return .propagation (getS "ref") (natOrUnknown j "target" unknownObj) (getS "repo") (natOrUnknown j "upEntry" unknownObj)
  | "ann" => return .annotation ids (getB "skip") (getS "msg")
  | k => throw s!"bad entry kind {k}"

def parseIn (base : Nat) (js : List Json) : R Log :=
  (List.range js.length |>.zip js).mapM (fun (i, j) => do return { id := base + i, body := ← parseBody j })

def parseSeen (j : Json) : R Entry := do
  let k ← strF j "k"
  if k == "garbage" then return { id := natOrUnknown j "id" unknownId, body := .annotation [] false "<garbage>" }
  return { id := natOrUnknown j "id" unknownId, body := ← parseBody j }

/-- present references, sorted by name -/
def parseRefs (js : List Json) : R Refs := do
  let l ← js.mapM (fun j => do
    let r ← strF j "ref"
    let t ← intF j "target"
    pure (r, t))
  let present := l.filterMap (fun (r, t) => if t == -1 then none else some (r, if t < 0 then unknownObj else t.toNat))
  return (present.toArray.qsort (fun a b => a.1 < b.1)).toList

def canonRefs (r : Refs) : Refs := (r.toArray.qsort (fun a b => a.1 < b.1)).toList

/-- `knows a b`: b is a (reflexive) ancestor of a in the target DAG -/
def knowsOf (parents : List Int) (a b : Nat) : Bool :=
  let rec go (fuel : Nat) (x : Nat) : Bool :=
    match fuel with
    | 0 => false
    | f + 1 =>
      if x == b then true else
      match parents.getD x (-1) with
      | .negSucc _ => false
      | .ofNat p => go f p
  go (parents.length + 1) a

def jEntry (e : Entry) : Json :=
  match e.body with
  | .reference r t => Json.mkObj [("id", (e.id : Json)), ("k", "ref"), ("ref", r), ("target", (t : Json))]
  | .propagation r t u ue => Json.mkObj [("id", (e.id : Json)), ("k", "prop"), ("ref", r), ("target", (t : Json)), ("repo", u), ("upEntry", (ue : Json))]
  | .annotation ids s m => Json.mkObj [("id", (e.id : Json)), ("k", "ann"), ("ids", jNats ids), ("skip", s), ("msg", m)]

def jLog (l : Log) : Json := Json.arr (l.map jEntry).toArray
def jRefs (r : Refs) : Json := Json.arr (r.map (fun p => Json.mkObj [("ref", p.1), ("target", (p.2 : Json))])).toArray

def variantOf (j : Json) : Variant :=
  match j.getObjVal? "open" with
  | .ok v =>
    let o := (strList v).toOption.getD []
    { annOldIds := o.contains "F12", dropProp := o.contains "F12b" }
  | .error _ => Variant.current

def openOf (j : Json) : List String :=
  match j.getObjVal? "open" with
  | .ok v => (strList v).toOption.getD []
  | .error _ => ["F12", "F12b", "F60", "F61", "F62"]

def handle (j : Json) : R Json := do
  let inp ← field j "in"
  let parents ← (← arrF inp "targets").toList.mapM (·.getInt?)
  let knows := knowsOf parents
  let shared ← parseIn 0 (← arrF inp "shared").toList
  let lo ← parseIn 1000 (← arrF inp "local").toList
  let ro ← parseIn 2000 (← arrF inp "remote").toList
  let op ← strF inp "op"
  let overwrite := (boolF inp "overwrite").toOption.getD false
  let lrefs ← parseRefs (← arrF inp "localRefs").toList
  let rrefs ← parseRefs (← arrF inp "remoteRefs").toList
  let refNames := ((← arrF inp "localRefs").toList.filterMap (fun x => (strF x "ref").toOption))
  let impl ← field j "impl"
  let cls ← strF impl "class"
  let newLocal ← (← arrF impl "localLog").toList.mapM parseSeen
  let newRemote ← (← arrF impl "remoteLog").toList.mapM parseSeen
  let lrefs' ← parseRefs (← arrF impl "localRefs").toList
  let rrefs' ← parseRefs (← arrF impl "remoteRefs").toList
  let divergedImpl := match optF impl "diverged" with | some v => (strList v).toOption.getD [] | none => []
  let localLog := shared ++ lo
  let remoteLog := shared ++ ro
  let v := variantOf j
  let open_ := openOf j
  let shapeName :=
    if lo.isEmpty && ro.isEmpty then "equal" else if ro.isEmpty then "ahead" else if lo.isEmpty then "behind"
    else if shared.isEmpty then "unrelated" else "diverged"
  let allNames := (refNames ++ lrefs'.map (·.1) ++ rrefs'.map (·.1)).eraseDups
  if op == "reconcile" then
    let m := reconcile v 3000 localLog remoteLog
    let mcls := match m.res with | .ok _ => "ok" | .error .conflict => "conflict" | .error _ => "other"
    let restUnchanged := newRemote == remoteLog && lrefs' == lrefs && rrefs' == rrefs
    let agree := mcls == cls && m.log == newLocal && restUnchanged
    -- the property on what the implementation left behind
    let judge (lo' : Log) (conf : Bool) : Bool :=
      restUnchanged &&
      (if cls != "ok" then newLocal == localLog
       else if lo.isEmpty then newLocal == remoteLog
       else if ro.isEmpty then newLocal == localLog
       else !conf && reconcileOkB (shared ++ lo') remoteLog lo' newLocal)
    let full := judge lo (conflictB lo ro)
    let sansProp := judge (dropProps lo) (conflicting Variant.current lo ro)
    let finding : Option String :=
      if full || !agree then none
      else if sansProp then some "F12b" else some "F12"
    let finding := match finding with
      | some f => if open_.contains f then some f else none
      | none => none
    let base : List (String × Json) := [
      ("id", (← field j "id")), ("agree", agree), ("spec_impl", full),
      ("nontrivial", Json.bool (!lo.isEmpty && !ro.isEmpty && !shared.isEmpty)),
      ("class", Json.str s!"reconcile/{shapeName}/{cls}"),
      ("model", Json.mkObj [("class", mcls), ("log", jLog m.log), ("map", Json.arr (m.map.map (fun p => jNats [p.1, p.2])).toArray),
         ("spec_without_propagation", sansProp), ("spec_conflict", conflictB lo ro)])]
    return Json.mkObj (base ++ (match finding with | some f => [("finding", Json.str f)] | none => []))
  else
    let (mres, ml, mr) := sync knows overwrite { log := localLog, refs := lrefs } { log := remoteLog, refs := rrefs }
    let (mcls, mdiv) := match mres with
      | .ok => ("ok", [])
      | .diverged d => ("diverged", d)
      | .pushFailed => ("other", [])
      | .other => ("other", [])
    let agree := mcls == cls && mdiv == divergedImpl && ml.log == newLocal && mr.log == newRemote &&
      canonRefs ml.refs == lrefs' && canonRefs mr.refs == rrefs'
    let moves := syncMovesB knows overwrite remoteLog lrefs lrefs' allNames
    let logOk := syncLogB overwrite localLog remoteLog newLocal
    let publishes := syncPublishesB knows localLog remoteLog newRemote lrefs rrefs rrefs' allNames
    let refused := cls == "ok" || cls == "other" || (newLocal == localLog && lrefs' == lrefs && newRemote == remoteLog && rrefs' == rrefs)
    let spec := moves && logOk && publishes && refused
    -- which face: a propagation entry is the latest unskipped entry of a reference the code moved (F62),
    -- published entries without a reference a propagation entry names (F60) or with a rejected reference (F61)
    let finding : Option String :=
      if spec || !agree then none
      else if !moves then some "F62"
      else if !publishes then (if mres == .pushFailed then some "F61" else some "F60")
      else none
    let finding := match finding with
      | some f => if open_.contains f then some f else none
      | none => none
    let base : List (String × Json) := [
      ("id", (← field j "id")), ("agree", agree), ("spec_impl", spec),
      ("nontrivial", Json.bool (!(lo.isEmpty && ro.isEmpty))),
      ("class", Json.str s!"sync/{shapeName}/{if overwrite then "overwrite" else "keep"}/{cls}"),
      ("model", Json.mkObj [("class", mcls), ("diverged", jStrs mdiv), ("localLog", jLog ml.log), ("remoteLog", jLog mr.log),
         ("localRefs", jRefs (canonRefs ml.refs)), ("remoteRefs", jRefs (canonRefs mr.refs)),
         ("moves", moves), ("log_ok", logOk), ("publishes", publishes), ("refused", refused)])]
    return Json.mkObj (base ++ (match finding with | some f => [("finding", Json.str f)] | none => []))

end Driver.C15
