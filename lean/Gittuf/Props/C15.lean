/-
C15 — Reconcile and sync never drop, reorder, un-revoke or invent log entries:
property theorems (helper lemmas are in Proofs/Sync.lean).
-/
import Gittuf.Proofs.Sync
namespace Gittuf.Sync

/-- A pair of diverged logs `shared ++ lo` (local) and `shared ++ ro` (remote) as git can
produce them: a non-empty common history, suffixes that start with different commits, entry ids
unique within a log, annotations that name only entries recorded before them, and `fresh`
beyond every id that occurs anywhere (new commits get ids that did not exist). No bound on the
lengths, on the entry kinds, or on what the annotations of either side name. -/
structure DivergedPair (shared lo ro : Log) (fresh : Nat) : Prop where
  sharedNonempty : shared ≠ []
  loNonempty : lo ≠ []
  roNonempty : ro ≠ []
  diverge : Diverge lo ro
  localNodup : (Log.ids (shared ++ lo)).Nodup
  remoteNodup : (Log.ids (shared ++ ro)).Nodup
  forwardFree : ForwardFree (shared ++ lo)
  freshIds : ∀ e ∈ shared ++ lo ++ ro, e.id < fresh ∧ ∀ i ∈ e.names, i < fresh

theorem DivergedPair.loNodup {shared lo ro : Log} {fresh : Nat} (h : DivergedPair shared lo ro fresh) :
    (Log.ids lo).Nodup := by
  have := h.localNodup
  simp only [Log.ids, List.map_append] at this
  exact (List.nodup_append.1 this).2.1

/-- **reconcile_spec** (repaired variant; all pairs of logs with a common prefix). When the two
sides did not change the same reference, reconciliation succeeds, the renaming it reports maps
the i-th local-only entry to the i-th fresh id, and the new local log is
`remote log ++ rename ρ localOnly`: it extends the remote tip, every local-only entry is there
under its new name with the same kind / reference / target / upstream / skip flag / message,
annotations name the re-recorded counterparts of local-only entries and (unchanged) shared
entries, every id occurs once, and an entry's counterpart is skipped iff the entry was. -/
theorem reconcile_spec (shared lo ro : Log) (fresh : Nat)
    (hw : DivergedPair shared lo ro fresh) (hnc : ¬ Conflict lo ro) :
    (reconcile Variant.repaired fresh (shared ++ lo) (shared ++ ro)).res = .ok () ∧
    (reconcile Variant.repaired fresh (shared ++ lo) (shared ++ ro)).map = freshMap fresh lo ∧
    ReconcileSpec (shared ++ lo) (shared ++ ro) lo
      (reconcile Variant.repaired fresh (shared ++ lo) (shared ++ ro)).log (freshMap fresh lo) := by
  have hlo := hw.loNodup
  have hff := (ForwardFree_append hw.forwardFree)
  have hc : conflicting Variant.repaired lo ro = false := by
    cases h : conflicting Variant.repaired lo ro with
    | false => rfl
    | true => exact absurd ((conflicting_repaired_iff lo ro).1 h) hnc
  have hrep := replay_repaired lo fresh [] hlo (by simp) hff.1
  simp only [List.nil_append] at hrep
  rw [reconcile_diverged _ _ _ _ _ hw.sharedNonempty hw.loNonempty hw.roNonempty hw.diverge, hc]
  simp only [Bool.false_eq_true, if_false, hrep, true_and]
  have hfreshLocal : ∀ e ∈ shared ++ lo, e.id < fresh ∧ ∀ i ∈ e.names, i < fresh := by
    intro e he
    exact hw.freshIds e (by simp only [List.mem_append] at he ⊢; rcases he with h | h <;> simp [h])
  have hfreshRemote : ∀ e ∈ shared ++ ro, e.id < fresh ∧ ∀ i ∈ e.names, i < fresh := by
    intro e he
    exact hw.freshIds e (by simp only [List.mem_append] at he ⊢; rcases he with h | h <;> simp [h])
  refine ⟨rfl, ?_, ?_⟩
  · -- once
    show (Log.ids ((shared ++ ro) ++ rename (freshMap fresh lo) lo)).Nodup
    have hrn := hw.remoteNodup
    have hrl := nodup_ids_rename (f := fresh) hlo
    simp only [Log.ids, List.map_append] at *
    rw [List.nodup_append]
    refine ⟨hrn, hrl, ?_⟩
    intro a ha b hb hab
    have ha' : a < fresh := by
      rw [← List.map_append] at ha
      obtain ⟨e, he, rfl⟩ := List.mem_map.1 ha
      exact (hfreshRemote e he).1
    obtain ⟨x, hx, rfl⟩ := List.mem_map.1 hb
    have := rename_id_ge hx
    omega_ids
  · -- skips
    intro e he
    have heid : e.id ∈ Log.ids lo := mem_ids.2 ⟨e, he, rfl⟩
    constructor
    · rintro ⟨a', ha', ids', msg, hbody, hmem⟩
      rcases List.mem_append.1 ha' with hr | hr
      · -- an annotation of the remote log names only ids below `fresh`
        exfalso
        have h1 := (hfreshRemote a' hr).2 _ (by simpa [Entry.names, hbody] using hmem)
        have h2 := (applyMap_ge (f := fresh) heid).1
        omega_ids
      · obtain ⟨a, ha, rfl⟩ := mem_rename.1 hr
        cases hab : a.body with
        | reference r t => simp [renameEntry, renameBody, hab] at hbody
        | propagation r t u ue => simp [renameEntry, renameBody, hab] at hbody
        | annotation ids s m =>
          simp only [renameEntry, renameBody, hab, Body.annotation.injEq] at hbody
          obtain ⟨hids, hs, hm⟩ := hbody
          rw [← hids] at hmem
          obtain ⟨i, hi, hieq⟩ := List.mem_map.1 hmem
          have hilt : i < fresh :=
            (hfreshLocal a (List.mem_append.2 (Or.inr ha))).2 i (by simp [Entry.names, hab, hi])
          have : i = e.id := applyMap_eq_imp hlo heid hilt hieq
          subst this
          exact ⟨a, List.mem_append.2 (Or.inr ha), ids, m, by rw [hab, hs], hi⟩
    · rintro ⟨a, ha, ids, msg, hbody, hmem⟩
      rcases List.mem_append.1 ha with hsd | hl
      · exact absurd heid (hff.2 a hsd e.id (by simp [Entry.names, hbody, hmem]))
      · refine ⟨renameEntry (freshMap fresh lo) a, ?_, ids.map (applyMap (freshMap fresh lo)), msg, ?_, ?_⟩
        · exact List.mem_append.2 (Or.inr (mem_rename.2 ⟨a, hl, rfl⟩))
        · simp [renameEntry, renameBody, hbody]
        · exact List.mem_map.2 ⟨e.id, hmem, rfl⟩

/-- **reconcile_conflict** (repaired variant). When both sides changed the same reference —
through a reference entry or a propagation entry — reconciliation is refused and the local log
is left as it was. -/
theorem reconcile_conflict (shared lo ro : Log) (fresh : Nat)
    (hs : shared ≠ []) (hd : Diverge lo ro) (hc : Conflict lo ro) :
    (reconcile Variant.repaired fresh (shared ++ lo) (shared ++ ro)).res = .error .conflict ∧
    (reconcile Variant.repaired fresh (shared ++ lo) (shared ++ ro)).log = shared ++ lo := by
  obtain ⟨a, ha, b, hb, _⟩ := hc
  have hlo : lo ≠ [] := List.ne_nil_of_mem ha
  have hro : ro ≠ [] := List.ne_nil_of_mem hb
  rw [reconcile_diverged _ _ _ _ _ hs hlo hro hd, (conflicting_repaired_iff lo ro).2 ⟨a, ha, b, hb, ‹_›⟩]
  simp

/-- The code as it stands refuses (and changes nothing) when both sides carry a *reference
entry* for the same reference — the part of `reconcile_conflict` that survives F12b. -/
theorem reconcile_conflict_current_partial (shared lo ro : Log) (fresh : Nat)
    (hs : shared ≠ []) (hd : Diverge lo ro)
    (hc : ∃ a ∈ lo, ∃ b ∈ ro, ∃ r t t', a.body = .reference r t ∧ b.body = .reference r t') :
    (reconcile Variant.current fresh (shared ++ lo) (shared ++ ro)).res = .error .conflict ∧
    (reconcile Variant.current fresh (shared ++ lo) (shared ++ ro)).log = shared ++ lo := by
  obtain ⟨a, ha, b, hb, r, t, t', hab, hbb⟩ := hc
  have hlo : lo ≠ [] := List.ne_nil_of_mem ha
  have hro : ro ≠ [] := List.ne_nil_of_mem hb
  have : conflicting Variant.current lo ro = true :=
    (conflicting_iff _ _ _).2 ⟨a, ha, b, hb, r, by simp [changedRef, hab], by simp [changedRef, hbb]⟩
  rw [reconcile_diverged _ _ _ _ _ hs hlo hro hd, this]
  simp

/-- In every variant, whatever the logs: a refused reconciliation leaves the local log untouched. -/
theorem reconcile_error_unchanged (v : Variant) (fresh : Nat) (localLog remoteLog : Log) (e : Err)
    (h : (reconcile v fresh localLog remoteLog).res = .error e) :
    (reconcile v fresh localLog remoteLog).log = localLog := by
  have hor : (reconcile v fresh localLog remoteLog).res = .ok () ∨
      (reconcile v fresh localLog remoteLog).log = localLog := by
    unfold reconcile
    simp only []
    repeat' split
    all_goals simp
  rcases hor with hok | hlog
  · rw [hok] at h; cases h
  · exact hlog

/-- meaning of an entry apart from ids: kind, reference, target, upstream, skip flag, message -/
def Entry.shape (e : Entry) : Body :=
  match e.body with
  | .annotation _ s m => .annotation [] s m
  | b => b

/-- **reconcile_keeps_order**: after the remote log, the new log lists the local-only entries in
their original order, each with its original meaning. -/
theorem reconcile_keeps_order (shared lo ro : Log) (fresh : Nat)
    (hw : DivergedPair shared lo ro fresh) (hnc : ¬ Conflict lo ro) :
    ((reconcile Variant.repaired fresh (shared ++ lo) (shared ++ ro)).log.drop (shared ++ ro).length).map Entry.shape
      = lo.map Entry.shape := by
  have h := (reconcile_spec shared lo ro fresh hw hnc).2.2.shape
  rw [h, List.drop_left, rename, List.map_map]
  apply List.map_congr_left
  intro e _
  cases e with
  | mk id body => cases body <;> simp [Entry.shape, renameEntry, renameBody]

/-- **reconcile_exactly_once**: the counterpart of every local-only entry occurs exactly once in
the new log, nothing of the remote log is lost or repeated, and nothing else is there. -/
theorem reconcile_exactly_once (shared lo ro : Log) (fresh : Nat)
    (hw : DivergedPair shared lo ro fresh) (hnc : ¬ Conflict lo ro) :
    let new := (reconcile Variant.repaired fresh (shared ++ lo) (shared ++ ro)).log
    (∀ e ∈ lo, (Log.ids new).count (applyMap (freshMap fresh lo) e.id) = 1) ∧
    (∀ e ∈ shared ++ ro, (Log.ids new).count e.id = 1) ∧
    new.length = (shared ++ ro).length + lo.length := by
  have hs := (reconcile_spec shared lo ro fresh hw hnc).2.2
  intro new
  have hnd : (Log.ids new).Nodup := hs.once
  refine ⟨?_, ?_, ?_⟩
  · intro e he
    rw [List.Nodup.count hnd, if_pos]
    rw [show new = _ from hs.shape]
    simp only [Log.ids, List.map_append, List.mem_append]
    exact Or.inr (List.mem_map.2 ⟨renameEntry (freshMap fresh lo) e, mem_rename.2 ⟨e, he, rfl⟩, rfl⟩)
  · intro e he
    rw [List.Nodup.count hnd, if_pos]
    rw [show new = _ from hs.shape]
    simp only [Log.ids, List.map_append, List.mem_append]
    exact Or.inl (by simpa using List.mem_map.2 ⟨e, he, rfl⟩)
  · rw [show new = _ from hs.shape]
    simp [rename]
    omega

/-! ### the hypotheses are satisfiable; the code as it stands (F12, F12b) -/

deriving instance DecidableEq for Except

def wShared : Log := [⟨0, .reference "refs/heads/main" 0⟩]
/-- a push to `feature`, its revocation, and a propagation into `dev` — all local-only -/
def wLocal : Log :=
  [⟨1000, .reference "refs/heads/feature" 1⟩, ⟨1001, .annotation [1000, 0] true "revoked: bad push"⟩,
   ⟨1002, .propagation "refs/heads/dev" 2 "https://example.com/upA" 1⟩]
def wRemote : Log := [⟨2000, .reference "refs/heads/main" 1⟩, ⟨2001, .annotation [0] false "note"⟩]

/-- a non-trivial pair satisfying every hypothesis of `reconcile_spec` -/
example : DivergedPair wShared wLocal wRemote 3000 ∧ ¬ Conflict wLocal wRemote := by
  refine ⟨⟨by decide, by decide, by decide, by simp [Diverge, wLocal, wRemote], by decide, by decide, ?_, by decide⟩, ?_⟩
  · simp [ForwardFree, wShared, wLocal, Entry.names, Log.ids]
  · rw [← conflicting_repaired_iff]; decide

/-- the repaired variant on that pair: the revocation follows the re-recorded entry, the
propagation entry is kept -/
example :
    (reconcile Variant.repaired 3000 (wShared ++ wLocal) (wShared ++ wRemote)).log =
      wShared ++ wRemote ++
        [⟨3000, .reference "refs/heads/feature" 1⟩, ⟨3001, .annotation [3000, 0] true "revoked: bad push"⟩,
         ⟨3002, .propagation "refs/heads/dev" 2 "https://example.com/upA" 1⟩] := by decide

/-- a pair on which `reconcile_conflict` applies through a propagation entry -/
example : Conflict [⟨1000, .propagation "refs/heads/main" 2 "u" 1⟩] wRemote :=
  ⟨_, List.mem_singleton.2 rfl, ⟨2000, .reference "refs/heads/main" 1⟩, by simp [wRemote], "refs/heads/main", rfl, rfl⟩

/-- **F12 witness** (code as it stands). Reconciling the pair above succeeds, but the entry that
was revoked locally (1000) comes back unrevoked: its re-recorded counterpart 3000 is not skipped
in the new log, because the re-recorded annotation still names the old id 1000 — an entry that
is no longer in the log; and the local-only propagation entry is gone: three entries went in,
two came out. -/
theorem F12_witness :
    let out := reconcile Variant.current 3000 (wShared ++ wLocal) (wShared ++ wRemote)
    out.res = .ok () ∧
    skippedB (wShared ++ wLocal) 1000 = true ∧
    applyMap out.map 1000 = 3000 ∧ skippedB out.log 3000 = false ∧
    out.log = wShared ++ wRemote ++
      [⟨3000, .reference "refs/heads/feature" 1⟩, ⟨3001, .annotation [1000, 0] true "revoked: bad push"⟩] ∧
    ¬ (1000 ∈ Log.ids out.log) := by decide

/-- **F12b witness** (code as it stands): a local propagation into `main` and a remote push to
`main` — both sides changed the same reference — is not refused; the propagation entry is
silently dropped and the log becomes the remote's. -/
theorem F12b_witness :
    let lo : Log := [⟨1000, .propagation "refs/heads/main" 2 "https://example.com/upA" 1⟩]
    let out := reconcile Variant.current 3000 (wShared ++ lo) (wShared ++ wRemote)
    conflictB lo wRemote = true ∧ out.res = .ok () ∧ out.log = wShared ++ wRemote := by decide

/-! ### getLatestRefTipsFromRSLEntries -/

/-- **refTips_honours_skips**: for every reference, the tip the map reports is found by
searching that reference alone, newest entry first, for the first reference entry that no later
entry revokes (the map built across references and the `has` short-cuts change nothing). -/
theorem refTips_honours_skips (es : Log) (r : String) :
    (refTips es).lookup r = firstUnskipped r es.reverse [] := by
  unfold refTips
  rw [refTipsLoop_lookup r es.reverse [] [] [] (fun _ => rfl)]
  simp

/-- … and declaratively: a reported tip is the target of a reference entry `e` of the list for
that reference that no annotation recorded after `e` skips, and every later reference entry for
the reference is skipped by an annotation recorded after it. Skipped entries never supply a tip. -/
theorem refTips_sound (es : Log) (r : String) (t : Obj) (h : (refTips es).lookup r = some t) :
    ∃ older e newer, es = older ++ e :: newer ∧ e.body = .reference r t ∧
      skippedBy newer e.id = false ∧
      ∀ mid x newest t', newer = mid ++ x :: newest → x.body = .reference r t' →
        skippedBy newest x.id = true := by
  rw [refTips_honours_skips] at h
  obtain ⟨pre, e, post, hes, hb, hns, hall⟩ := firstUnskipped_sound r t es.reverse [] h
  refine ⟨post.reverse, e, pre.reverse, ?_, hb, by simpa using hns, ?_⟩
  · have := congrArg List.reverse hes
    simpa using this
  · intro mid x newest t' hnew hx
    have hpre : pre = newest.reverse ++ x :: mid.reverse := by
      have := congrArg List.reverse hnew
      simpa using this
    have := hall newest.reverse x mid.reverse t' hpre hx
    simpa using this

/-- propagation entries never supply a tip, whatever else the list holds (the `case` of
rsl.go:736-739 records nothing) — the source of F60 and F62 -/
example : refTips [⟨0, .reference "refs/heads/main" 1⟩, ⟨1, .propagation "refs/heads/main" 2 "u" 1⟩,
    ⟨2, .propagation "refs/heads/dev" 3 "u" 1⟩] = [("refs/heads/main", 1)] := by decide

example : refTips [⟨0, .reference "m" 1⟩, ⟨1, .reference "m" 2⟩, ⟨2, .reference "f" 5⟩, ⟨3, .annotation [1, 2] true ""⟩]
    = [("m", 1)] := by decide

/-! ### sync on the abstract repositories -/

/-- A sync that reports diverged references changed nothing on either side. -/
theorem sync_diverged_refused (knows : Obj → Obj → Bool) (ow : Bool) (l r : Repo) (d : List String)
    (h : (sync knows ow l r).1 = .diverged d) :
    (sync knows ow l r).2.1 = l ∧ (sync knows ow l r).2.2 = r := by
  unfold sync at h ⊢
  simp only [] at h ⊢
  repeat' split at h
  all_goals (first | (simp at h; done) | skip)
  all_goals simp_all

/-- Without the overwrite flag the local log is never replaced by something it is not a prefix
of: it is unchanged, or the remote log was ahead of it (fast-forward). -/
theorem sync_log_keep (knows : Obj → Obj → Bool) (l r : Repo) :
    (sync knows false l r).2.1.log = l.log ∨
      ((splitCommon l.log r.log).2.1 = [] ∧ (sync knows false l r).2.1.log = r.log) := by
  unfold sync
  simp only []
  repeat' split
  all_goals simp_all

/-- The remote side changes only when the local log is strictly ahead of it, and then its log
becomes the local log; the local side is untouched by a push. -/
theorem sync_publishes_only_when_ahead (knows : Obj → Obj → Bool) (ow : Bool) (l r : Repo)
    (h : (sync knows ow l r).2.2 ≠ r) :
    (splitCommon l.log r.log).2.2 = [] ∧ (sync knows ow l r).2.2.log = l.log ∧ (sync knows ow l r).2.1 = l := by
  unfold sync at h ⊢
  simp only [] at h ⊢
  repeat' split at h
  all_goals (first | (simp at h; done) | skip)
  all_goals simp_all

/-- **sync_moves** (model, every variant — sync has none —, all repositories, all ancestry
oracles). A local reference is either left as it was or set to the tip
getLatestRefTipsFromRSLEntries reports for it among the remote-only entries — by
`refTips_sound` the target of the latest reference entry no later annotation skips — and, unless
overwriting was asked for, only when that is a descendant of (or equal to) the old state of
the reference, which must exist: never backwards, never over a diverged reference, never
creating one. -/
theorem sync_moves (knows : Obj → Obj → Bool) (ow : Bool) (l r : Repo) (x : String) :
    (sync knows ow l r).2.1.refs.lookup x = l.refs.lookup x ∨
      ∃ t, (sync knows ow l r).2.1.refs.lookup x = some t ∧
        (refTips (splitCommon l.log r.log).2.2).lookup x = some t ∧
        (ow = true ∨ ∃ old, l.refs.lookup x = some old ∧ knows t old = true) := by
  rcases sync_moves_mem knows ow l r x with h | ⟨t, h1, h2, h3⟩
  · exact Or.inl h
  · exact Or.inr ⟨t, h1, lookup_of_mem_nodup _ x t (refTips_keys _) h2, h3⟩

/-- The property's own wording of `sync_moves`: the new state is what the latest unskipped
entry of the remote log *of any kind* (reference or propagation) records. -/
def sync_moves_statement : Prop :=
  ∀ (knows : Obj → Obj → Bool) (ow : Bool) (l r : Repo) (x : String),
    (sync knows ow l r).2.1.refs.lookup x = l.refs.lookup x ∨
      ∃ t, (sync knows ow l r).2.1.refs.lookup x = some t ∧ latestUnskipped r.log x = some t ∧
        (ow = true ∨ ∃ old, l.refs.lookup x = some old ∧ knows t old = true)

def wKnows : Obj → Obj → Bool := fun a b => a == b || (a, b) == (1, 0) || (a, b) == (2, 1) || (a, b) == (2, 0)

/-- **F60 witness**: a local-only propagation entry into `feature` is published (the remote log
becomes the local one) but `feature` is not in the push set: the remote ends with an entry for a
reference it does not have. -/
theorem F60_witness :
    let l : Repo := ⟨wShared ++ [⟨1000, .propagation "refs/heads/feature" 2 "u" 1⟩], [("refs/heads/main", 0), ("refs/heads/feature", 2)]⟩
    let r : Repo := ⟨wShared, [("refs/heads/main", 0)]⟩
    let out := sync wKnows false l r
    out.1 = .ok ∧ out.2.2.log = l.log ∧ out.2.2.refs.lookup "refs/heads/feature" = none := by decide

/-- **F61 witness**: the push is decided reference by reference: the log is published although
`main` (recorded as moved to the unrelated commit 3) is rejected as a non-fast-forward. -/
theorem F61_witness :
    let l : Repo := ⟨[⟨0, .reference "refs/heads/main" 2⟩, ⟨1000, .reference "refs/heads/main" 3⟩], [("refs/heads/main", 3)]⟩
    let r : Repo := ⟨[⟨0, .reference "refs/heads/main" 2⟩], [("refs/heads/main", 2)]⟩
    let out := sync wKnows false l r
    out.1 = .pushFailed ∧ out.2.2.log = l.log ∧ out.2.2.refs.lookup "refs/heads/main" = some 2 := by decide

/-- **F62 witness**: the latest unskipped remote entry for `main` is a propagation entry
recording commit 2; the local `main` is moved to 1, the target of the older reference entry. -/
theorem F62_witness :
    let l : Repo := ⟨wShared, [("refs/heads/main", 0)]⟩
    let r : Repo := ⟨wShared ++ [⟨2000, .reference "refs/heads/main" 1⟩, ⟨2001, .propagation "refs/heads/main" 2 "u" 1⟩], [("refs/heads/main", 2)]⟩
    let out := sync wKnows false l r
    out.1 = .ok ∧ out.2.1.refs.lookup "refs/heads/main" = some 1 ∧ latestUnskipped r.log "refs/heads/main" = some 2 := by decide

/-- … so the property's wording does not hold of sync as it stands (F62): propagation entries
are entries of the log, but getLatestRefTipsFromRSLEntries records nothing for them. -/
theorem sync_moves_statement_false : ¬ sync_moves_statement := by
  intro h
  let l : Repo := ⟨wShared, [("refs/heads/main", 0)]⟩
  let r : Repo := ⟨wShared ++ [⟨2000, .reference "refs/heads/main" 1⟩, ⟨2001, .propagation "refs/heads/main" 2 "u" 1⟩], [("refs/heads/main", 2)]⟩
  have h1 : (sync wKnows false l r).2.1.refs.lookup "refs/heads/main" = some 1 := by decide
  have h2 : latestUnskipped r.log "refs/heads/main" = some 2 := by decide
  have h3 : l.refs.lookup "refs/heads/main" = some 0 := by decide
  rcases h wKnows false l r "refs/heads/main" with ha | ⟨t, hb, hc, _⟩
  · rw [h1, h3] at ha; cases ha
  · rw [h1] at hb; rw [h2] at hc; cases hb; cases hc

end Gittuf.Sync
