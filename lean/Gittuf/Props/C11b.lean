/-
C11 — monotonicity at the level of one change: whatever verification accepts under a policy that
declares global rules, it accepts under the same policy without them.  Global rules only add.
-/
import Gittuf.Props.C11
import Gittuf.Props.Witness
namespace Gittuf

/-- the policy without its global rules -/
def stripG (P : Policy) : Policy := { P with root := { P.root with globals := [] } }

theorem walkGroup_strip (P : Policy) (path : String) :
    ∀ (rs : List Rule) (defs : List PrincipalSpec) (seen : List String) (acc : List VerifierN)
      (pre : List (List Rule)),
      walkGroup (stripG P) path rs defs seen acc pre = walkGroup P path rs defs seen acc pre := by
  intro rs
  induction rs with
  | nil => intro defs seen acc pre; rfl
  | cons d rest ih =>
    intro defs seen acc pre
    cases rest with
    | nil => rfl
    | cons d2 rest2 =>
      unfold walkGroup
      simp only [ih]
      rfl

theorem walkGroups_strip (P : Policy) (path : String) :
    ∀ (fuel : Nat) (gs : List (List Rule)) (defs : List PrincipalSpec) (seen : List String)
      (acc : List VerifierN),
      walkGroups (stripG P) path fuel gs defs seen acc = walkGroups P path fuel gs defs seen acc := by
  intro fuel
  induction fuel with
  | zero => intro gs defs seen acc; rfl
  | succ n ih =>
    intro gs defs seen acc
    cases gs with
    | nil => rfl
    | cons g gs =>
      unfold walkGroups
      simp only [walkGroup_strip, ih]

theorem findSpecific_strip (P : Policy) (path : String) :
    (stripG P).findSpecific path = P.findSpecific path := by
  unfold Policy.findSpecific
  show (match P.primary with
    | none => none
    | some tf => some (walkGroups (stripG P) path (P.files.length + 2) [tf.rules] tf.principals ["targets"] [])) = _
  simp only [walkGroups_strip]
  cases P.primary <;> rfl

theorem findVerifiers_strip (P : Policy) (path : String) :
    (stripG P).findVerifiers path = P.findSpecific path := by
  unfold Policy.findVerifiers
  rw [findSpecific_strip]
  cases P.findSpecific path <;> simp [stripG]

theorem hasFileRule_strip (P : Policy) : (stripG P).hasFileRule = P.hasFileRule := rfl
theorem allPrincipals_strip (P : Policy) : (stripG P).allPrincipals = P.allPrincipals := rfl

namespace World

/-- the names the walk yields are rule names, never the reserved name of the exhaustive verifier,
and the verifiers it builds are not exhaustive -/
def WalkSane (P : Policy) (path : String) : Prop :=
  ∀ vs, P.findSpecific path = some vs → ∀ vn ∈ vs, vn.name ≠ exhaustiveName ∧ vn.v.exhaustive = false

theorem approvalsFor_strip (v : Variant) (P : Policy) (A : Option AttState) (ref : String)
    (frm : Option Nat) (to : Nat) :
    approvalsFor v (stripG P) A ref frm to = approvalsFor v P A ref frm to := rfl

theorem usingVerifiers_strip (v : Variant) (P : Policy) (vs : List VerifierN) (g : Option Sig)
    (auth : Option Envelope) (ap : Option (List String)) (m : Bool) :
    usingVerifiers v (stripG P) vs g auth ap m = usingVerifiers v P vs g auth ap m := rfl

/-- on delegation verifiers only (none exhaustive), `usingVerifiers` is the plain loop -/
theorem usingVerifiers_plain (v : Variant) (P : Policy) (vs : List VerifierN) (g : Option Sig)
    (auth : Option Envelope) (ap : Option (List String)) (m : Bool) (hne : vs ≠ [])
    (hx : ∀ vn ∈ vs, vn.v.exhaustive = false) :
    usingVerifiers v P vs g auth ap m =
      usingVerifiers.go v g auth ap m ((P.root.apps.filter (·.trusted)).map (·.name)) P.allPrincipals vs := by
  unfold usingVerifiers
  cases vs with
  | nil => exact absurd rfl hne
  | cons a rest =>
    have := hx a List.mem_cons_self
    simp [this]

/-- **Global rules only add, for one object**: if `verifyGitObjectAndAttestations` accepts an
object for a path under a policy, it accepts it under the same policy without its global rules —
with the repaired verifier loop (F1) and the repaired trusted-verifier shortcut (F64: not taken
while global rules exist), for every policy, path, signature, approvals and options.  The two runs
may hold different "already verified with" names once global rules exist; acceptance does not
depend on it. -/
theorem verifyObject_mono (W : World) (v : Variant) (hf1 : v.f1_exhaustiveSatisfies = false)
    (hf64 : v.f64_shortcutSkipsGlobals = false) (P : Policy) (path : String) (g : Option Sig)
    (ei : Option Nat) (ap : Approvals) (o o' : GOpts) (hm : o'.mergeable = o.mergeable)
    (hsane : WalkSane P path) (hrel : P.root.globals = [] → o'.trusted = o.trusted)
    (u : String) (need : Bool)
    (h : W.verifyObject v P path g ei ap o = .ok (u, need)) :
    ∃ u' need', W.verifyObject v (stripG P) path g ei ap o' = .ok (u', need') ∧
      (P.root.globals = [] → u' = u) ∧ (o'.trusted = "" → need' = need) := by
  unfold verifyObject at h ⊢
  rw [findVerifiers_strip]
  cases hspec : P.findSpecific path with
  | none => simp [Policy.findVerifiers, hspec] at h
  | some spec =>
    have hs := hsane spec hspec
    simp only [Policy.findVerifiers, hspec] at h
    simp only
    have hsg : (stripG P).root.globals.isEmpty = true := rfl
    simp only [hsg, Bool.or_true, Bool.and_true]
    have stripped_globals : ∀ r : UVResult,
        verifyObject.globals W path ei o' r (r.accepted.length : Int) (stripG P).root.globals = .ok () := by
      intro r; simp [stripG, verifyObject.globals]
    cases spec with
    | nil =>
      simp only [List.isEmpty_nil, if_true]
      by_cases hg : P.root.globals.isEmpty = true
      · simp only [hg, if_true, List.isEmpty_nil] at h
        cases h
        exact ⟨"", false, rfl, fun _ => rfl, fun _ => rfl⟩
      · have hgne : P.root.globals ≠ [] := by intro h0; rw [h0] at hg; exact hg rfl
        simp only [hg, Bool.false_eq_true, if_false, List.isEmpty_cons, hf64, Bool.or_self, Bool.and_false,
          Bool.false_and] at h
        unfold usingVerifiers at h
        simp only [List.isEmpty_cons, Bool.false_eq_true, if_false, hf1, Bool.not_false, Bool.and_self, if_true,
          List.isEmpty_nil] at h
        split at h
        · cases h
        · rename_i r hr
          split at h
          · cases h
          · cases h
            split at hr
            · cases hr
            · cases hr
              exact ⟨"", false, rfl, fun h0 => absurd h0 hgne, fun _ => rfl⟩
    | cons s0 srest =>
      have hne : (s0 :: srest) ≠ [] := by simp
      have hx : ∀ vn ∈ s0 :: srest, vn.v.exhaustive = false := fun vn hvn => (hs vn hvn).2
      simp only [List.isEmpty_cons, Bool.false_eq_true, if_false]
      by_cases hg : P.root.globals.isEmpty = true
      · have hgl : P.root.globals = [] := by simpa using hg
        have ht := hrel hgl
        simp only [hg, if_true, List.isEmpty_cons, Bool.false_eq_true, if_false, Bool.or_true, Bool.and_true] at h
        rw [ht]
        split at h
        · rename_i hC
          simp only [hC, if_true]
          cases h
          exact ⟨o.trusted, false, rfl, fun _ => rfl, fun _ => rfl⟩
        · rename_i hC
          simp only [hC]
          rw [usingVerifiers_strip, hm]
          split at h
          · cases h
          · rename_i r hr
            rw [hgl] at h
            simp only [verifyObject.globals] at h
            cases h
            rw [stripped_globals r]
            exact ⟨r.usedName, r.rslNeeded, rfl, fun _ => rfl, fun _ => rfl⟩
      · have hgne : P.root.globals ≠ [] := by intro h0; rw [h0] at hg; exact hg rfl
        simp only [hg, Bool.false_eq_true, if_false, List.isEmpty_cons, hf64, Bool.or_self, Bool.and_false,
          Bool.false_and] at h
        split at h
        · cases h
        · rename_i r hr
          obtain ⟨r', hr', hn1, hn2, _⟩ := C11_exhaustive_adds_only v P _ (s0 :: srest) g ap.auth ap.approvers o.mergeable r rfl hf1 hne hr
          split at h
          · cases h
          · cases h
            split
            · rename_i hC'
              refine ⟨o'.trusted, false, rfl, fun h0 => absurd h0 hgne, ?_⟩
              intro ht
              rw [ht] at hC'
              simp at hC'
            · rw [usingVerifiers_strip, hm, usingVerifiers_plain v P (s0 :: srest) g ap.auth ap.approvers o.mergeable hne hx, hr']
              simp only
              rw [stripped_globals r']
              exact ⟨r'.usedName, r'.rslNeeded, rfl, fun h0 => absurd h0 hgne, fun _ => hn2⟩

theorem verifyPaths_mono (W : World) (v : Variant) (hf1 : v.f1_exhaustiveSatisfies = false)
    (hf64 : v.f64_shortcutSkipsGlobals = false) (P : Policy) (ap : Approvals) (g : Option Sig)
    (hsane : ∀ path, WalkSane P path) :
    ∀ (paths : List String) (used used' : String), (P.root.globals = [] → used' = used) →
      W.verifyPaths v P ap g paths used = .ok () → W.verifyPaths v (stripG P) ap g paths used' = .ok () := by
  intro paths
  induction paths with
  | nil => intro _ _ _ _; rfl
  | cons p rest ih =>
    intro used used' hrel h
    unfold verifyPaths at h ⊢
    split at h
    · cases h
    · rename_i u b hres
      obtain ⟨u', b', hres', hrel', _⟩ := verifyObject_mono W v hf1 hf64 P ("file:" ++ p) g none ap
        { trusted := used } { trusted := used' } rfl (hsane _) hrel u b hres
      rw [hres']
      exact ih u u' hrel' h

theorem verifyFiles_mono (W : World) (v : Variant) (hf1 : v.f1_exhaustiveSatisfies = false)
    (hf64 : v.f64_shortcutSkipsGlobals = false) (P : Policy) (ap : Approvals)
    (hsane : ∀ path, WalkSane P path) :
    ∀ (cs : List Nat), W.verifyFiles v P ap cs = .ok () → W.verifyFiles v (stripG P) ap cs = .ok () := by
  intro cs
  induction cs with
  | nil => intro _; rfl
  | cons c rest ih =>
    intro h
    unfold verifyFiles at h ⊢
    split at h
    · cases h
    · rename_i hp
      rw [verifyPaths_mono W v hf1 hf64 P ap _ hsane _ "" "" (fun _ => rfl) hp]
      exact ih h

theorem hasFileRuleV_strip (v : Variant) (P : Policy) :
    hasFileRuleV v (stripG P) = P.hasFileRule := by
  unfold hasFileRuleV
  rw [hasFileRule_strip]
  simp [stripG]

/-- **C11 monotonicity for one change** (every history, policy, attestation state and entry; F1
and F64 repaired): if `verifyEntry` accepts an entry under a policy that declares global rules, it
accepts the same entry under the same policy without them.  Declaring a global rule never makes
verification accept a change that the delegation rules alone reject. -/
theorem C11_entry_monotone (W : World) (v : Variant) (hf1 : v.f1_exhaustiveSatisfies = false)
    (hf64 : v.f64_shortcutSkipsGlobals = false) (P : Policy) (A : Option AttState) (i : Nat) (e : LogEntry)
    (hsane : ∀ path, WalkSane P path)
    (h : W.verifyEntry v P A i e = .ok ()) : W.verifyEntry v (stripG P) A i e = .ok () := by
  unfold verifyEntry at h ⊢
  split at h
  · rename_i hc; simp only [hc, if_true]
  · rename_i hc
    simp only [hc, Bool.false_eq_true, if_false]
    split at h
    · cases h
    · rename_i tc htc
      simp only [bind, Except.bind, approvalsFor_strip] at h ⊢
      split at h
      · cases h
      · rename_i ap hap
        split at h
        · cases h
        · rename_i res hres
          obtain ⟨u', b', hres', _, _⟩ := verifyObject_mono W v hf1 hf64 P _ _ (some i) ap {} {} rfl (hsane _)
            (fun _ => rfl) res.1 res.2 hres
          rw [hres']
          simp only [hasFileRuleV_strip]
          cases hfr : P.hasFileRule with
          | false => simp
          | true =>
            have : hasFileRuleV v P = true := by simp [hasFileRuleV, hfr]
            simp only [this, Bool.not_true, Bool.false_eq_true, if_false] at h
            simp only [Bool.not_true, Bool.false_eq_true, if_false]
            exact verifyFiles_mono W v hf1 hf64 P ap hsane _ h

end World

/-! ### `WalkSane` follows from a decidable condition on the policy -/

/-- no rule of the policy carries the reserved name of the exhaustive verifier -/
def noReservedNameB (P : Policy) : Bool :=
  P.files.all (fun f => f.rules.all (fun r => r.name != exhaustiveName))

def GoodV (vn : VerifierN) : Prop := vn.name ≠ exhaustiveName ∧ vn.v.exhaustive = false
def GoodRules (rs : List Rule) : Prop := ∀ r ∈ rs, r.name ≠ exhaustiveName

theorem file?_mem (P : Policy) (n : String) (f : RuleFile) (h : P.file? n = some f) : f ∈ P.files := by
  unfold Policy.file? at h
  split at h
  · unfold Policy.primary at h
    exact List.mem_of_mem_head? h
  · unfold Policy.delegated at h
    exact List.mem_of_mem_tail (List.mem_of_find?_eq_some h)

theorem walkGroup_good (P : Policy) (hP : noReservedNameB P = true) (path : String) :
    ∀ (rs : List Rule) (defs : List PrincipalSpec) (seen : List String) (acc : List VerifierN)
      (pre : List (List Rule)),
      GoodRules rs → (∀ vn ∈ acc, GoodV vn) → (∀ g ∈ pre, GoodRules g) →
      (∀ vn ∈ (walkGroup P path rs defs seen acc pre).1, GoodV vn) ∧
      (∀ g ∈ (walkGroup P path rs defs seen acc pre).2.1, GoodRules g) := by
  have hfile : ∀ n f, P.file? n = some f → GoodRules f.rules := by
    intro n f hf r hr
    have := List.all_eq_true.mp hP f (file?_mem P n f hf)
    have := List.all_eq_true.mp this r hr
    simpa using this
  intro rs
  induction rs with
  | nil => intro defs seen acc pre _ ha hp; exact ⟨ha, hp⟩
  | cons d rest ih =>
    intro defs seen acc pre hrs ha hp
    cases rest with
    | nil => exact ⟨ha, hp⟩
    | cons d2 rest2 =>
      have hrest : GoodRules (d2 :: rest2) := fun r hr => hrs r (List.mem_cons_of_mem _ hr)
      have hd : d.name ≠ exhaustiveName := hrs d List.mem_cons_self
      have hacc' : ∀ vn ∈ acc ++ [(⟨d.name, { principals := lookupPrincipals defs d.principals, threshold := d.threshold }⟩ : VerifierN)], GoodV vn := by
        intro vn hvn
        rcases List.mem_append.mp hvn with h | h
        · exact ha vn h
        · simp only [List.mem_singleton] at h; subst h; exact ⟨hd, rfl⟩
      unfold walkGroup
      split
      · simp only
        split
        · exact ih _ _ _ _ hrest hacc' hp
        · split
          · split
            · exact ih _ _ _ _ hrest hacc' hp
            · rename_i f hf
              have hpre' : ∀ g ∈ f.rules :: pre, GoodRules g := by
                intro g hg
                rcases List.mem_cons.mp hg with h | h
                · subst h; exact hfile _ _ hf
                · exact hp g h
              split
              · exact ⟨hacc', hpre'⟩
              · exact ih _ _ _ _ hrest hacc' hpre'
          · exact ih _ _ _ _ hrest hacc' hp
      · exact ih _ _ _ _ hrest ha hp

theorem walkGroups_good (P : Policy) (hP : noReservedNameB P = true) (path : String) :
    ∀ (fuel : Nat) (gs : List (List Rule)) (defs : List PrincipalSpec) (seen : List String)
      (acc : List VerifierN),
      (∀ g ∈ gs, GoodRules g) → (∀ vn ∈ acc, GoodV vn) →
      ∀ vn ∈ walkGroups P path fuel gs defs seen acc, GoodV vn := by
  intro fuel
  induction fuel with
  | zero => intro gs defs seen acc _ ha; exact ha
  | succ n ih =>
    intro gs defs seen acc hg ha
    cases gs with
    | nil => exact ha
    | cons g gs =>
      unfold walkGroups
      have hw := walkGroup_good P hP path g defs seen acc [] (hg g List.mem_cons_self) ha (by simp)
      generalize walkGroup P path g defs seen acc [] = res at hw
      obtain ⟨acc', pre', defs', seen'⟩ := res
      simp only
      apply ih
      · intro g' hg'
        rcases List.mem_append.mp hg' with h | h
        · exact hw.2 g' h
        · exact hg g' (List.mem_cons_of_mem _ h)
      · exact hw.1

/-- the decidable condition implies the sanity hypothesis of the monotonicity theorems, for every path -/
theorem walkSane_of_B (P : Policy) (hP : noReservedNameB P = true) : ∀ path, World.WalkSane P path := by
  intro path vs hvs vn hvn
  unfold Policy.findSpecific at hvs
  split at hvs
  · cases hvs
  · rename_i tf htf
    cases hvs
    refine walkGroups_good P hP path _ _ _ _ _ ?_ (by simp) vn hvn
    intro g hg
    simp only [List.mem_singleton] at hg
    subst hg
    intro r hr
    have hmem : tf ∈ P.files := by
      unfold Policy.primary at htf
      exact List.mem_of_mem_head? htf
    have := List.all_eq_true.mp hP tf hmem
    have := List.all_eq_true.mp this r hr
    simpa using this

namespace World

/-- `C11_entry_monotone` under the decidable hypothesis -/
theorem C11_entry_monotone_B (W : World) (v : Variant) (hf1 : v.f1_exhaustiveSatisfies = false)
    (hf64 : v.f64_shortcutSkipsGlobals = false) (P : Policy) (hP : noReservedNameB P = true)
    (A : Option AttState) (i : Nat) (e : LogEntry)
    (h : W.verifyEntry v P A i e = .ok ()) : W.verifyEntry v (stripG P) A i e = .ok () :=
  C11_entry_monotone W v hf1 hf64 P A i e (walkSane_of_B P hP) h

/-- non-vacuity, and necessity of the F63 repair: on the F63 witness the hypothesis holds; with the
defect present the entry is accepted WITH the (unrelated) global rule and rejected without it —
monotonicity fails; with the repair both are rejected.  An authorized change is accepted both ways. -/
example :
    let P63 : Policy := ⟨{ wRoot with globals := [⟨"unrelated", true, ["git:refs/heads/unrelated"], 1⟩] }, [wFile63]⟩
    noReservedNameB P63 = true ∧
    wF63.verifyEntry { Variant.good with f63_trustExhaustive := true, f64_shortcutSkipsGlobals := true } P63 none 1 (push 0 2) = .ok () ∧
    (wF63.verifyEntry { Variant.good with f63_trustExhaustive := true, f64_shortcutSkipsGlobals := true } (stripG P63) none 1 (push 0 2)).isOk = false ∧
    (wF63.verifyEntry Variant.good P63 none 1 (push 0 2)).isOk = false ∧
    ({ wF63 with commits := [⟨[], 0, some 3⟩] } : World).verifyEntry Variant.good P63 none 1 (push 0 2) = .ok () ∧
    ({ wF63 with commits := [⟨[], 0, some 3⟩] } : World).verifyEntry Variant.good (stripG P63) none 1 (push 0 2) = .ok () := by
  decide

end World

namespace World

/-- F64: one file rule covers every file (threshold 1), a global rule demands two principals for
`src/*`; a commit by key 2 changes `docs/x` (rule met; global rule does not match) and `src/y`.
The shortcut accepts `src/y` before the global rule is looked at. -/
def wFile64 : RuleFile := ⟨"targets", 1, [⟨1002, false, [2], []⟩, ⟨1003, false, [3], []⟩],
  [⟨"protect-main", ["git:refs/heads/main"], [1002], 1, false⟩, ⟨"protect-files", ["file:*"], [1002, 1003], 1, false⟩, allowRule], [1]⟩
def wF64 : World := {
  trees := [[("docs/x", 1), ("src/y", 2)]], commits := [⟨[], 0, some 2⟩],
  policies := [⟨{ wRoot with globals := [⟨"two-for-src", true, ["file:src/*"], 2⟩] }, [wFile64]⟩], atts := [],
  log := [polEntry 0, push 0 2] }

theorem F64_witness :
    wF64.verifyRefFull { Variant.good with f64_shortcutSkipsGlobals := true } mainRef = .ok (some 0) ∧
    wF64.c11Globals mainRef 1 1 = false ∧
    (wF64.verifyRefFull Variant.good mainRef).isOk = false ∧
    -- the same commit changing `src/y` only is rejected either way
    (({ wF64 with trees := [[("src/y", 2)]] } : World).verifyRefFull
        { Variant.good with f64_shortcutSkipsGlobals := true } mainRef).isOk = false := by decide

/-- F65: no delegation rule has a `file:` pattern; a global rule demands one authenticated principal
for `src/*`; an unsigned commit changes `src/y`.  The files of the commit are never looked at. -/
def wF65 : World := {
  trees := [[("src/y", 2)]], commits := [⟨[], 0, none⟩],
  policies := [⟨{ wRoot with globals := [⟨"one-for-src", true, ["file:src/*"], 1⟩] }, [wFile]⟩], atts := [],
  log := [polEntry 0, push 0 2] }

theorem F65_witness :
    wF65.verifyRefFull { Variant.good with f65_globalFileRuleIgnored := true } mainRef = .ok (some 0) ∧
    wF65.c11Globals mainRef 1 1 = false ∧
    (wF65.verifyRefFull Variant.good mainRef).isOk = false ∧
    -- signed by any principal of the policy, the commit is accepted by the repaired variant
    ({ wF65 with commits := [⟨[], 0, some 3⟩] } : World).verifyRefFull Variant.good mainRef = .ok (some 0) := by decide

end World

end Gittuf
