/-
C13 — policy metadata stays well formed under edits: property theorems
(helper lemmas are in Proofs/Meta.lean, the model in Model/Meta.lean, the
declarative statements in Spec/C13.lean).

What is proved here is about the model of the mutators of
internal/tuf/v01 and internal/tuf/v02; the correspondence run (harness/c13_test.go,
Driver/C13.lean) ties the model to the real code after every single edit and
checks JSON round trip and v01→v02 migration on the real objects.
-/
import Gittuf.Proofs.Meta
namespace Gittuf
open Gittuf.Meta

/-- Freshly created rule-file and root metadata are well formed. -/
theorem C13_new_wellformed : MetaInv TargetsMeta.new ∧ RootInv RootMeta.new := by
  refine ⟨⟨[], rfl, by simp⟩, ?_⟩
  refine ⟨by simp [RootMeta.new], by simp [RootMeta.new], by simp [RootMeta.new], by simp [RootMeta.new]⟩

/-- The `Bool` check the driver runs on the implementation's objects is the declarative invariant. -/
theorem C13_metaInvB_iff (m : TargetsMeta) : metaInvB m = true ↔ MetaInv m := by
  unfold metaInvB MetaInv
  rw [show (∃ init, m.rules = init ++ [allowRule] ∧ ∀ r ∈ init, RuleOK m.ids r) = GenInv RuleOK m from rfl,
    genInv_iff_last]
  simp [List.all_eq_true, ruleOKB_iff]

/-- Same for the structural part. -/
theorem C13_metaStructB_iff (m : TargetsMeta) : metaStructB m = true ↔ MetaStruct m := by
  unfold metaStructB MetaStruct
  rw [show (∃ init, m.rules = init ++ [allowRule] ∧ ∀ r ∈ init, RuleStruct m.ids r) = GenInv RuleStruct m from rfl,
    genInv_iff_last]
  simp [List.all_eq_true, ruleStructB_iff]

/-- The `Bool` check the driver runs on the implementation's root objects is `RootInv`. -/
theorem C13_rootInvB_iff (m : RootMeta) : rootInvB m = true ↔ RootInv m := by
  have hg : (m.globalRules.all (fun g => g.kind != .threshold || decide (1 ≤ g.threshold))) = true ↔
      ∀ g ∈ m.globalRules, g.kind = .threshold → 1 ≤ g.threshold := by
    simp [List.all_eq_true, Decidable.imp_iff_not_or]
  have hr : ∀ o : Option Role, (match o with | none => true | some r => roleOKB m.ids r) = true ↔
      ∀ r, o = some r → RoleOK m.ids r := by
    intro o; cases o <;> simp [roleOKB_iff]
  unfold rootInvB RootInv
  simp only [Bool.and_eq_true, hg, nodupB_iff, and_assoc]
  exact and_congr (hr m.rootRole) (and_congr (hr m.targetsRole) Iff.rfl)

/-- For ARBITRARY arguments (invalid names, undefined or repeated principals, any threshold,
any principal type, both schema versions), every rule-file mutator keeps: the allow rule last and
nowhere else, no user rule with the reserved prefix, every threshold at least one, every rule's
principal set duplicate-free and made of defined principals. -/
theorem C13_struct_preserved (v : Ver) (m : TargetsMeta) (op : TOp) (h : MetaStruct m) :
    MetaStruct (m.apply v op).st :=
  apply_gen qok_struct v m op h (argsOK_struct m op)

/-- The property as stated. For ARBITRARY arguments (invalid names, undefined or REPEATED principal
ids, any threshold, any principal type, both schema versions) every rule-file mutator keeps the full
invariant: allow rule last and only there, no user rule with the reserved prefix, every threshold at
least one and at most the number of DISTINCT principals the rule lists, every listed principal
defined. (Before commit 43f8e67 this needed the proviso "no repeated ids in the argument list":
finding F10, repaired.) -/
theorem C13_inv_preserved (v : Ver) (m : TargetsMeta) (op : TOp) (h : MetaInv m) :
    MetaInv (m.apply v op).st :=
  apply_gen qok_ok v m op h (argsOK_ok m op)

/-- The same statement in closed form (it used to be a `def … : Prop` that `C13_F10_witness` refuted). -/
theorem C13_inv_preserved_full :
    ∀ (v : Ver) (m : TargetsMeta) (op : TOp), MetaInv m → MetaInv (m.apply v op).st :=
  fun v m op h => C13_inv_preserved v m op h

/-- a rule file with one key principal `k` and no user rule -/
def f10Start : TargetsMeta :=
  { principalsNil := false, principals := [{ id := "k", kind := .key, keys := [] }], rules := [allowRule] }

/-- The old F10 witness, on the repaired code: `AddRule("r", ["k","k"], _, 2)` with one defined
principal is REFUSED with `ErrCannotMeetThreshold` and the metadata is left as it was (both schema
versions). -/
theorem C13_F10_repaired :
    ∀ v : Ver,
      (f10Start.apply v (.addRule "r" ["k", "k"] ["git:refs/heads/main"] 2)).err = some .cannotMeetThreshold ∧
      (f10Start.apply v (.addRule "r" ["k", "k"] ["git:refs/heads/main"] 2)).st = f10Start := by
  intro v; cases v <;> decide

/-- The same through UpdateRule: after `AddRule("r", ["k"], _, 1)`, `UpdateRule("r", ["k","k","k"], _, 3)`
is refused with `ErrCannotMeetThreshold`, the rule file is unchanged and still well formed. -/
theorem C13_F10_repaired_update :
    ∀ v : Ver,
      let m := (f10Start.apply v (.addRule "r" ["k"] ["p"] 1)).st
      (m.apply v (.updateRule "r" ["k", "k", "k"] ["p"] 3)).err = some .cannotMeetThreshold ∧
      (m.apply v (.updateRule "r" ["k", "k", "k"] ["p"] 3)).st = m ∧
      metaInvB (m.apply v (.updateRule "r" ["k", "k", "k"] ["p"] 3)).st = true := by
  intro v; cases v <;> decide

/-- A refused edit leaves everything any query can see (rules, principals) unchanged. -/
theorem C13_refused_unchanged (v : Ver) (m : TargetsMeta) (op : TOp) (e : Err) :
    (m.apply v op).err = some e → TargetsMeta.SameContent (m.apply v op).st m := by
  cases op with
  | addRule n ids pats t =>
    simp only [TargetsMeta.apply, TargetsMeta.addRule]
    repeat' split
    all_goals simp [TargetsMeta.fail, TargetsMeta.done, TargetsMeta.SameContent]
  | updateRule n ids pats t =>
    simp only [TargetsMeta.apply, TargetsMeta.updateRule]
    repeat' split
    all_goals simp [TargetsMeta.fail, TargetsMeta.done, TargetsMeta.SameContent]
  | removeRule n =>
    simp only [TargetsMeta.apply, TargetsMeta.removeRule]
    repeat' split
    all_goals simp [TargetsMeta.fail, TargetsMeta.done, TargetsMeta.SameContent]
  | reorderRules ns =>
    simp only [TargetsMeta.apply, TargetsMeta.reorderRules]
    repeat' split
    all_goals simp [TargetsMeta.fail, TargetsMeta.done, TargetsMeta.SameContent]
  | addPrincipal p =>
    simp only [TargetsMeta.apply, TargetsMeta.addPrincipal]
    repeat' split
    all_goals simp [TargetsMeta.fail, TargetsMeta.done, TargetsMeta.SameContent]
  | updatePrincipal p =>
    simp only [TargetsMeta.apply, TargetsMeta.updatePrincipal]
    repeat' split
    all_goals simp [TargetsMeta.fail, TargetsMeta.done, TargetsMeta.SameContent]
  | removePrincipal id =>
    simp only [TargetsMeta.apply, TargetsMeta.removePrincipal]
    repeat' split
    all_goals simp [TargetsMeta.fail, TargetsMeta.done, TargetsMeta.SameContent]

/-- Exactly what a refused edit may leave behind, for ARBITRARY arguments: nothing at all, or the
(empty) principal map of `AddPrincipal` allocated before its type check — which no query except
`RemovePrincipal`'s error kind can see.  Sharper than `C13_refused_unchanged`: rules, principals
AND every other bit of the object are accounted for. -/
theorem C13_refused_trace_exact (v : Ver) (m : TargetsMeta) (op : TOp) (e : Err) :
    (m.apply v op).err = some e →
      (m.apply v op).st = m ∨ (m.apply v op).st = { m with principalsNil := false } := by
  cases op <;>
    simp only [TargetsMeta.apply, TargetsMeta.addRule, TargetsMeta.updateRule, TargetsMeta.removeRule,
      TargetsMeta.reorderRules, TargetsMeta.addPrincipal, TargetsMeta.updatePrincipal, TargetsMeta.removePrincipal] <;>
    (repeat' split) <;> simp [TargetsMeta.fail, TargetsMeta.done]

/-- The second alternative is real (so `C13_refused_unchanged` cannot be strengthened to equality):
a refused `AddPrincipal(nil)` on new metadata does change the object. -/
theorem C13_refused_trace_witness :
    ∀ v, (TargetsMeta.new.apply v (.addPrincipal none)).err.isSome = true ∧
      (TargetsMeta.new.apply v (.addPrincipal none)).st ≠ TargetsMeta.new := by
  intro v; cases v <;> decide

/-- On well-formed metadata no mutator reaches the slice expression of `AddRule` that would panic. -/
theorem C13_no_panic (v : Ver) (m : TargetsMeta) (op : TOp) (h : MetaStruct m) :
    (m.apply v op).err ≠ some .panic := by
  obtain ⟨init, hr, _⟩ := h
  cases op with
  | addRule n ids pats t =>
    simp only [TargetsMeta.apply, TargetsMeta.addRule]
    have hne : m.rules.isEmpty = false := by simp [hr]
    cases hc : m.checkRuleArgs n ids t with
    | some e =>
      simp only [TargetsMeta.fail]
      intro h
      cases h
      exact checkRuleArgs_ne_panic m n ids t hc
    | none => simp [hne, TargetsMeta.done]
  | updateRule n ids pats t =>
    simp only [TargetsMeta.apply, TargetsMeta.updateRule]
    cases hc : m.checkRuleArgs n ids t with
    | some e =>
      simp only [TargetsMeta.fail]
      intro h
      cases h
      exact checkRuleArgs_ne_panic m n ids t hc
    | none => simp [TargetsMeta.done]
  | removeRule n =>
    simp only [TargetsMeta.apply, TargetsMeta.removeRule]
    repeat' split
    all_goals simp [TargetsMeta.fail, TargetsMeta.done]
  | reorderRules ns =>
    simp only [TargetsMeta.apply, TargetsMeta.reorderRules]
    repeat' split
    all_goals simp [TargetsMeta.fail, TargetsMeta.done]
  | addPrincipal p =>
    simp only [TargetsMeta.apply, TargetsMeta.addPrincipal]
    repeat' split
    all_goals simp [TargetsMeta.fail, TargetsMeta.done]
  | updatePrincipal p =>
    simp only [TargetsMeta.apply, TargetsMeta.updatePrincipal]
    repeat' split
    all_goals simp [TargetsMeta.fail, TargetsMeta.done]
  | removePrincipal id =>
    simp only [TargetsMeta.apply, TargetsMeta.removePrincipal]
    repeat' split
    all_goals simp [TargetsMeta.fail, TargetsMeta.done]

/-- Lifted to any finite sequence of edits (accepted or refused, arbitrary arguments). -/
theorem C13_run_struct (v : Ver) (ops : List TOp) : ∀ (m : TargetsMeta), MetaStruct m → MetaStruct (m.run v ops) := by
  induction ops with
  | nil => intro m h; exact h
  | cons op ops ih =>
    intro m h
    exact ih _ (C13_struct_preserved v m op h)

/-- Any sequence of edits starting from new metadata. -/
theorem C13_run_struct_from_new (v : Ver) (ops : List TOp) : MetaStruct (TargetsMeta.new.run v ops) :=
  C13_run_struct v ops _ ⟨[], rfl, by simp⟩

/-- Lifted to sequences: the full invariant holds after ANY finite sequence of edits (accepted or
refused, arbitrary arguments) from any well-formed rule file. -/
theorem C13_run_inv (v : Ver) (ops : List TOp) : ∀ (m : TargetsMeta), MetaInv m → MetaInv (m.run v ops) := by
  induction ops with
  | nil => intro m h; exact h
  | cons op ops ih =>
    intro m h
    exact ih _ (C13_inv_preserved v m op h)

/-- Any sequence of edits starting from new metadata yields a well-formed rule file. -/
theorem C13_run_inv_from_new (v : Ver) (ops : List TOp) : MetaInv (TargetsMeta.new.run v ops) :=
  C13_run_inv v ops _ C13_new_wellformed.1

/-- Root metadata: for ARBITRARY arguments every mutator of the roles and global rules keeps each
role's threshold between one and the number of its distinct principals, every role principal
defined, threshold global rules at threshold ≥ 1 and global rule names unique. -/
theorem C13_root_inv_preserved (v : Ver) (m : RootMeta) (op : ROp) (h : RootInv m) : RootInv (m.apply v op).st :=
  root_apply_inv v m op h

/-- Lifted to any sequence of root edits, from any well-formed root. -/
theorem C13_root_run_inv (v : Ver) (ops : List ROp) : ∀ (m : RootMeta), RootInv m → RootInv (m.run v ops) := by
  induction ops with
  | nil => intro m h; exact h
  | cons op ops ih =>
    intro m h
    exact ih _ (C13_root_inv_preserved v m op h)

/-- A refused root edit (roles, global rules, propagation directives) leaves the root unchanged. -/
theorem C13_root_refused_unchanged (v : Ver) (m : RootMeta) (op : ROp) (e : Err) :
    (m.apply v op).err = some e → (m.apply v op).st = m := by
  cases op with
  | addRolePrincipal w p =>
    simp only [RootMeta.apply, RootMeta.addRolePrincipal]
    repeat' split
    all_goals simp [RootMeta.fail, RootMeta.done]
  | deleteRolePrincipal w id =>
    simp only [RootMeta.apply, RootMeta.deleteRolePrincipal]
    repeat' split
    all_goals simp [RootMeta.fail, RootMeta.done]
  | updateRoleThreshold w t =>
    simp only [RootMeta.apply, RootMeta.updateRoleThreshold]
    repeat' split
    all_goals simp [RootMeta.fail, RootMeta.done]
  | addGlobalRule g =>
    simp only [RootMeta.apply, RootMeta.addGlobalRule]
    repeat' split
    all_goals simp [RootMeta.fail, RootMeta.done]
  | updateGlobalRule g =>
    simp only [RootMeta.apply, RootMeta.updateGlobalRule]
    repeat' split
    all_goals simp [RootMeta.fail, RootMeta.done]
  | deleteGlobalRule n =>
    simp only [RootMeta.apply, RootMeta.deleteGlobalRule]
    repeat' split
    all_goals simp [RootMeta.fail, RootMeta.done]
  | addPropagation d =>
    simp only [RootMeta.apply, RootMeta.addPropagation]
    repeat' split
    all_goals simp [RootMeta.fail, RootMeta.done]
  | updatePropagation d =>
    simp only [RootMeta.apply, RootMeta.updatePropagation]
    repeat' split
    all_goals simp [RootMeta.fail, RootMeta.done]
  | deletePropagation n =>
    simp only [RootMeta.apply, RootMeta.deletePropagation]
    repeat' split
    all_goals simp [RootMeta.fail, RootMeta.done]

/-! ### the hypotheses are satisfiable, the conclusions are not vacuous -/

/-- a rule file with two principals and an accepted two-of-two rule is well formed … -/
example : MetaInv ((f10Start.apply .v02 (.addPrincipal (some { id := "p", kind := .person, keys := ["k"] }))).st.apply .v02
    (.addRule "r" ["k", "p"] ["git:refs/heads/main"] 2)).st :=
  (C13_metaInvB_iff _).1 (by decide)

/-- … the edit was accepted and did add the rule before the allow rule. -/
example : ((f10Start.apply .v02 (.addPrincipal (some { id := "p", kind := .person, keys := ["k"] }))).st.apply .v02
    (.addRule "r" ["k", "p"] ["git:refs/heads/main"] 2)).st.rules.map (·.name) = ["r", allowName] := by decide

/-- repeated ids are not refused as such: `["k","p","k"]` with threshold 2 is accepted and stores the set {k,p} -/
example : ((f10Start.apply .v02 (.addPrincipal (some { id := "p", kind := .person, keys := ["k"] }))).st.apply .v02
    (.addRule "r" ["k", "p", "k"] ["git:refs/heads/main"] 2)).st.rules.map (fun r => (r.principals, r.threshold))
      = [(["p", "k"], 2), ([], 1)] := by decide

/-- refused edits exist (reserved name), and they are refused with the state unchanged -/
example : (f10Start.apply .v02 (.addRule "gittuf-x" ["k"] ["p"] 1)).err = some .reservedPrefix ∧
    (f10Start.apply .v02 (.addRule "gittuf-x" ["k"] ["p"] 1)).st = f10Start := by decide

/-- removing a principal that a rule still lists is refused -/
example : ((f10Start.apply .v02 (.addRule "r" ["k"] ["p"] 1)).st.apply .v02 (.removePrincipal "k")).err
    = some .principalStillInUse := by decide

/-- a root with two root principals accepts threshold 2, refuses threshold 3 and refuses to drop below it -/
example :
    let k : Principal := { id := "k", kind := .key, keys := [] }
    let p : Principal := { id := "p", kind := .person, keys := ["k"] }
    let m := RootMeta.new.run .v02 [.addRolePrincipal .root (some k), .addRolePrincipal .root (some p), .updateRoleThreshold .root 2]
    rootInvB m = true ∧ m.rootRole = some { principals := ["k", "p"], threshold := 2 } ∧
    (m.apply .v02 (.updateRoleThreshold .root 3)).err = some .cannotMeetThreshold ∧
    (m.apply .v02 (.deleteRolePrincipal .root "k")).err = some .cannotMeetThreshold := by decide

/-! ## refused root edits can be deleted from any history of edits -/
/-- the accepted sub-sequence of a run of root edits -/
def RootMeta.accepted (v : Ver) : RootMeta → List ROp → List ROp
  | _, [] => []
  | m, o :: os =>
    if (m.apply v o).err.isNone then o :: RootMeta.accepted v (m.apply v o).st os
    else RootMeta.accepted v (m.apply v o).st os

/-- every edit of the sequence is accepted when applied in turn -/
def RootMeta.allAccepted (v : Ver) : RootMeta → List ROp → Bool
  | _, [] => true
  | m, o :: os => (m.apply v o).err.isNone && RootMeta.allAccepted v (m.apply v o).st os

/-- Root metadata, any finite sequence of edits with arbitrary arguments: the object reached is
EXACTLY the one reached by the accepted edits alone (which are all accepted again when replayed
without the refused ones).  A refused root edit therefore leaves no trace at all, not even one a
later edit could observe. -/
theorem C13_root_run_eq_accepted (v : Ver) (ops : List ROp) : ∀ m : RootMeta,
    m.run v ops = m.run v (RootMeta.accepted v m ops) ∧
      RootMeta.allAccepted v m (RootMeta.accepted v m ops) = true := by
  induction ops with
  | nil => intro m; exact ⟨rfl, rfl⟩
  | cons o os ih =>
    intro m
    unfold RootMeta.accepted
    split
    · rename_i h
      refine ⟨?_, ?_⟩
      · simp only [RootMeta.run, List.foldl_cons]; exact (ih _).1
      · simp only [RootMeta.allAccepted, h, Bool.true_and]; exact (ih _).2
    · rename_i h
      cases he : (m.apply v o).err with
      | none => simp [he] at h
      | some e =>
        have := C13_root_refused_unchanged v m o e he
        simp only [RootMeta.run, List.foldl_cons]
        rw [this]; exact ih m

/-- non-vacuity: a sequence whose third and fifth edits are refused; the accepted sub-sequence has the other three -/
example :
    let k : Principal := { id := "k", kind := .key, keys := [] }
    let p : Principal := { id := "p", kind := .person, keys := ["k"] }
    let ops : List ROp := [.addRolePrincipal .root (some k), .addRolePrincipal .root (some p),
      .updateRoleThreshold .root 3, .updateRoleThreshold .root 2, .deleteRolePrincipal .root "k"]
    RootMeta.accepted .v02 RootMeta.new ops =
      [.addRolePrincipal .root (some k), .addRolePrincipal .root (some p), .updateRoleThreshold .root 2] := by decide

end Gittuf
