/-
C18 - "Propagation copies exactly the upstream subtree and is idempotent".

Proved for all trees, directories and directives, on the list model of the tree operations:
* `prop_subtree`  - the prescribed result restricted to the downstream path is the upstream subtree;
* `prop_frame`    - every entry outside the downstream path keeps name, blob and mode, nothing is added;
* `under_self`, `under_sibling`, `under_iff'` - prefix lemmas (`foo` vs `foo`, `foobar/x`, `foo bar`);
* `prop_idempotent` - with the repaired check (compare with the upstream *subtree*) a second run of a
  directive creates no commit and no entry, however often it is repeated (`prop_idempotent_n`);
* `prop_entry`    - in every variant of the code, a recorded propagation entry names the directive
  and the index of the upstream entry returned by `latestUnskipped`, and targets the new commit;
* `F15_witness`   - the check as coded, with an upstream path, re-propagates on every call;
  `F15_repaired` - the same input with the repaired check: one commit, one entry;
* `F16_witness`, `F8_witness` - modes are lost, `keep me` is rewritten as `keep` (model as coded).
The tie between the repaired model (`createSubtree good`, which goes through the tree builder) and
`replaceAt` is checked by the driver on every generated case (`good_is_ideal`), not proved.
-/
import Gittuf.Proofs.Tree
namespace Gittuf
open Tree
open Gittuf.Codec (Bytes hasPrefix)

/-- After propagation the downstream tree restricted to the downstream path is exactly the
upstream subtree (names, blobs, modes, order) - whatever the names are. -/
theorem prop_subtree (before sub : Tree) (dir : Bytes) :
    SubtreeCopied sub (replaceAt before sub dir) dir := by
  unfold SubtreeCopied replaceAt
  rw [subtreeAt_append, subtreeAt_append, subtreeAt_reroot]
  rw [subtreeAt_nil_of_not_under, subtreeAt_nil_of_not_under]
  · simp
  · intro e he; simp only [List.mem_filter, Bool.and_eq_true, Bool.not_eq_true'] at he; exact he.2.1
  · intro e he; simp only [List.mem_filter, Bool.and_eq_true, Bool.not_eq_true'] at he; exact he.2.1

/-- Every path outside the downstream path - whatever its name - keeps its name, blob and mode,
and no path outside the downstream path appears. -/
theorem prop_frame (before sub : Tree) (dir : Bytes) :
    FramePreserved before (replaceAt before sub dir) dir := by
  intro e hu
  unfold replaceAt
  simp only [List.mem_append, List.mem_filter, List.mem_map, Bool.and_eq_true, Bool.not_eq_true']
  constructor
  · rintro ((h | ⟨x, _, rfl⟩) | h)
    · exact h.1
    · rw [under_reroot] at hu; exact absurd hu (by simp)
    · exact h.1
  · intro he
    cases hlt : bytesLt e.path (dir ++ [47])
    · exact Or.inr ⟨he, hu, rfl⟩
    · exact Or.inl (Or.inl ⟨he, hu, rfl⟩)

/-- a directory is not below itself -/
theorem under_self (dir : Bytes) : under dir dir = false := by
  cases h : under dir dir with
  | false => rfl
  | true =>
    obtain ⟨r, hr⟩ := (under_iff dir dir).mp h
    have := congrArg List.length hr
    simp at this

/-- `foobar/x`, `foo bar`, `foo.txt` are not below `foo`: a path continuing the directory name
with anything but "/" is outside -/
theorem under_sibling (dir : Bytes) (c : UInt8) (rest : Bytes) (hc : c ≠ 47) :
    under dir (dir ++ c :: rest) = false := by
  cases h : under dir (dir ++ c :: rest) with
  | false => rfl
  | true =>
    obtain ⟨r, hr⟩ := (under_iff dir _).mp h
    have := List.append_cancel_left hr
    simp at this
    exact absurd this.1 hc

/-- exactly the paths `dir/…` are below `dir` (trailing slash of the directive already removed) -/
theorem under_iff' (dir : Bytes) (p : Path) : under dir p = true ↔ ∃ r, p = dir ++ 47 :: r := under_iff dir p

theorem usable_replaceAt (before sub : Tree) (dir : Bytes) (h : downPathUsable before dir = true) :
    downPathUsable (replaceAt before sub dir) dir = true := by
  unfold downPathUsable at h ⊢
  simp only [Bool.and_eq_true, Bool.not_eq_true', List.any_eq_false, Bool.or_eq_true, beq_iff_eq, not_or] at h ⊢
  refine ⟨h.1, ?_⟩
  intro e he
  unfold replaceAt at he
  simp only [List.mem_append, List.mem_filter, List.mem_map] at he
  rcases he with (he | ⟨x, _, rfl⟩) | he
  · exact h.2 e he.1
  · constructor
    · intro heq
      have := congrArg List.length heq
      simp [reroot] at this
    · intro hu
      obtain ⟨r, hr⟩ := (under_iff _ _).mp hu
      have := congrArg List.length hr
      simp [reroot] at this
  · exact h.2 e he.1

/-- Idempotence with the repaired check: once a directive has been carried out, carrying it out
again (same upstream log) changes nothing - no commit, no entry, same tree. -/
theorem prop_idempotent (trees : List Tree) (log : List UpEntry) (st st' : Expect) (i : Nat) (d : Directive)
    (h : expectStep trees log st i d = some st') : expectStep trees log st' i d = some st' := by
  unfold expectStep at h ⊢
  cases hl : latestUnskipped log d.upRef with
  | none => simp [hl] at h ⊢
  | some ke =>
    obtain ⟨k, e⟩ := ke
    simp only [hl] at h ⊢
    generalize wantedSubtree _ d.upPath = w at h ⊢
    cases w with
    | none => simp at h
    | some s =>
      simp only at h ⊢
      by_cases hu : downPathUsable st.tree (trimSuffixSlash d.downPath) = true
      · simp only [hu, Bool.not_true, Bool.false_eq_true, ↓reduceIte] at h
        by_cases heq : (subtreeAt st.tree (trimSuffixSlash d.downPath) == s) = true
        · simp only [heq, ↓reduceIte, Option.some.injEq] at h
          subst h
          simp [hu, heq]
        · simp only [heq, Bool.false_eq_true, ↓reduceIte, Option.some.injEq] at h
          subst h
          have h1 := usable_replaceAt st.tree s _ hu
          have h2 : subtreeAt (replaceAt st.tree s (trimSuffixSlash d.downPath)) (trimSuffixSlash d.downPath) = s :=
            prop_subtree st.tree s _
          simp [h1, h2]
      · simp [hu] at h

/-- `n`-fold application -/
def iter {α} (f : α → α) : Nat → α → α
  | 0, x => x
  | n + 1, x => f (iter f n x)

/-- ... however often it is repeated -/
theorem prop_idempotent_n (trees : List Tree) (log : List UpEntry) (st st' : Expect) (i : Nat) (d : Directive)
    (h : expectStep trees log st i d = some st') (n : Nat) :
    iter (fun s => (expectStep trees log s i d).getD s) n st' = st' := by
  induction n with
  | zero => rfl
  | succ n ih =>
    show (expectStep trees log (iter _ n st') i d).getD (iter _ n st') = st'
    rw [ih, prop_idempotent trees log st st' i d h]
    rfl

/-- In every variant of the code: one directive either records nothing, or exactly one propagation
entry that names this directive (hence its downstream reference and upstream location), the
upstream entry `latestUnskipped` returned, and the commit it just created. -/
theorem prop_entry (v : Variant) (trees : List Tree) (log : List UpEntry) (st st' : Down) (i : Nat) (d : Directive)
    (h : stepDirective v trees log st i d = .ok st') :
    (st'.entries = st.entries ∧ st'.commits = st.commits ∧ st'.tree = st.tree) ∨
    ∃ k e, latestUnskipped log d.upRef = some (k, e) ∧
      st'.entries = st.entries ++ [⟨i, k, st.commits⟩] ∧ st'.commits = st.commits + 1 := by
  unfold stepDirective at h
  split at h
  · cases h; exact Or.inl ⟨rfl, rfl, rfl⟩
  · rename_i k e hl
    dsimp only at h
    split at h
    · cases h
    · cases h; exact Or.inl ⟨rfl, rfl, rfl⟩
    · split at h
      · cases h
      · cases h
        exact Or.inr ⟨k, e, hl, rfl, rfl⟩

/-! ### the code as it stands: witnesses (ids are abstract, short lists suffice) -/

def idA : Codec.Hash := [1]
def idB : Codec.Hash := [2]
def idC : Codec.Hash := [3]
/-- `metadata` / `vendor` -/
def pMetadata : Bytes := [109, 101, 116, 97, 100, 97, 116, 97]
def pVendor : Bytes := [118, 101, 110, 100, 111, 114]
/-- upstream tree: `README`, `metadata/a` -/
def upTree : Tree := [⟨[82, 69, 65, 68, 77, 69], .regular, idB⟩, ⟨pMetadata ++ [47, 97], .regular, idA⟩]
/-- downstream tree: `x` -/
def downTree : Tree := [⟨[120], .regular, idC⟩]
def dirMeta : Directive := { upRef := 0, upPath := pMetadata, downPath := pVendor }
def logOne : List UpEntry := [⟨0, 0, false⟩]
def start (t : Tree) : Down := { tree := t, store := allSubtrees t, commits := 0, entries := [] }

def runs (v : Variant) (n : Nat) : Down :=
  iter (fun s => (propagate v [upTree] logOne [dirMeta] s).1) n (start downTree)

set_option maxRecDepth 100000 in
/-- F15: with an upstream path the check as coded compares the downstream subtree with the whole
upstream tree: three calls create three commits and three propagation entries (same tree). -/
theorem F15_witness :
    (runs asCoded 1).commits = 1 ∧ (runs asCoded 3).commits = 3 ∧ (runs asCoded 3).entries.length = 3
    ∧ (runs asCoded 3).tree = (runs asCoded 1).tree := by
  decide

set_option maxRecDepth 100000 in
/-- the repaired check on the same input: one commit, one entry, however often it is called -/
theorem F15_repaired :
    (runs { asCoded with subtreeCheck := true } 3).commits = 1
    ∧ (runs { asCoded with subtreeCheck := true } 3).entries = [⟨0, 0, 0⟩]
    ∧ (runs good 3).commits = 1 := by
  decide

/-- `keep me` (downstream, outside the downstream path), an executable `run` upstream -/
def downOdd : Tree := [⟨[107, 101, 101, 112, 32, 109, 101], .executable, idC⟩]
def upExec : Tree := [⟨[114, 117, 110], .executable, idA⟩]
def dirWhole : Directive := { upRef := 0, upPath := [], downPath := pVendor }

set_option maxRecDepth 100000 in
/-- F8 and F16 on the model as coded: `keep me` is rewritten as `keep` (and loses its mode), the
upstream executable arrives as a regular file; the repaired model keeps both. -/
theorem F8_F16_witness :
    (propagate asCoded [upExec] logOne [dirWhole] (start downOdd)).1.tree
      = [⟨[107, 101, 101, 112], .regular, idC⟩, ⟨pVendor ++ [47, 114, 117, 110], .regular, idA⟩]
    ∧ (propagate good [upExec] logOne [dirWhole] (start downOdd)).1.tree
      = [⟨[107, 101, 101, 112, 32, 109, 101], .executable, idC⟩, ⟨pVendor ++ [47, 114, 117, 110], .executable, idA⟩]
    ∧ (propagate good [upExec] logOne [dirWhole] (start downOdd)).1.tree = replaceAt downOdd upExec pVendor := by
  decide

/-! ### the hypotheses are satisfiable by non-trivial inputs -/

example : under [102, 111, 111] [102, 111, 111, 47, 120] = true ∧
    under [102, 111, 111] [102, 111, 111, 98, 97, 114, 47, 120] = false ∧
    under [102, 111, 111] [102, 111, 111, 32, 98, 97, 114] = false ∧
    under [102, 111, 111] [102, 111, 111] = false := by decide
example : expectStep [upTree] logOne ⟨downTree, 0, []⟩ 0 dirMeta
    = some ⟨[⟨pVendor ++ [47, 97], .regular, idA⟩, ⟨[120], .regular, idC⟩], 1, [⟨0, 0, 0⟩]⟩ := by decide
example : (stepDirective asCoded [upTree] logOne (start downTree) 0 dirMeta).toOption.map (·.entries) = some [⟨0, 0, 0⟩] := by decide

end Gittuf
