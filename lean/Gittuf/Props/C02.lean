/-
C02 — theorems tying the model's policy-chain checks (algorithmic: SignatureVerifier over the
root envelope, version comparisons) to the declarative conditions of the property.
-/
import Gittuf.Proofs.Chain
import Gittuf.Props.Witness
namespace Gittuf

/-- Full statement (repaired variant): a successful verification of a range implies the chain
conditions for every policy entry it depends on.  Evaluated by the driver on the REAL verifier's
answers; proved below for its building blocks (`VerifyNewState`, `LoadState`'s chain). -/
def World.C02_sound_statement : Prop :=
  ∀ (W : World) (ref : String) (first last : Nat),
    W.verifyRelative Variant.good first last ref = .ok () → W.c02Sound first last = true

/-- `VerifyNewState` accepts a successor only if its root is signed by a threshold of DISTINCT
root keys of the predecessor — for all key sets, signer sets and thresholds. -/
theorem C02_newState_root_signed (cur new : Policy) (h : cur.verifyNewState new = .ok ()) :
    rootSignedBy cur.root new.root = true := by
  unfold Policy.verifyNewState at h
  simp only [bind, Except.bind] at h
  split at h
  · cases h
  · rename_i u hu
    unfold liftV at hu
    split at hu
    · rename_i S hS
      exact keyVerifier_sound _ _ _ S hS
    · cases hu
    · cases hu

/-- `VerifyNewState` accepts a successor only if no version number decreases and no rule file disappears. -/
theorem C02_newState_versions (cur new : Policy) (h : cur.verifyNewState new = .ok ()) :
    versionsOK cur new = true := by
  unfold Policy.verifyNewState at h
  simp only [bind, Except.bind] at h
  split at h
  · cases h
  · unfold Policy.verifyNewMetadata at h
    unfold versionsOK
    split at h
    · cases h
    · rename_i hv
      have hv' : cur.root.version ≤ new.root.version := by omega
      split at h
      · rename_i hc; simp [hc, hv']
      · rename_i ct hc
        split at h
        · cases h
        · rename_i nt hn
          split at h
          · cases h
          · rename_i hver
            split at h
            · rename_i hall
              have hver' : ct.version ≤ nt.version := by omega
              simp only [hc, hn, hv', hver', decide_true, Bool.true_and]
              exact hall
            · cases h

/-- The chain built by `LoadState` (policy.go:327-346): if chaining succeeds, every consecutive
pair of policy states along the chain satisfies both conditions — by induction over the log. -/
theorem C02_chain_sound (W : World) (js : List Nat) (cur last : Policy)
    (h : W.chainStates js cur = .ok last) :
    ∀ j ∈ js, ∀ e, W.log[j]? = some e → e.ref = policyRef →
      ∃ prev nxt, W.loadRaw j = .ok nxt ∧ rootSignedBy prev.root nxt.root = true ∧ versionsOK prev nxt = true := by
  induction js generalizing cur with
  | nil => intro j hj; cases hj
  | cons a as ih =>
    intro j hj e he href
    unfold World.chainStates at h
    split at h
    · cases h
    · rename_i ea hea
      split at h
      · rename_i hne
        rcases List.mem_cons.mp hj with hj | hj
        · subst hj
          rw [hea] at he; cases he
          simp [href] at hne
        · exact ih cur h j hj e he href
      · split at h
        · cases h
        · rename_i nxt hnxt
          split at h
          · cases h
          · rename_i hvn
            have hvn' : cur.verifyNewState nxt = .ok () := by
              unfold World.liftP at hvn
              split at hvn
              · rename_i u hu; cases u; exact hu
              · cases hvn
            rcases List.mem_cons.mp hj with hj | hj
            · subst hj
              exact ⟨cur, nxt, hnxt, C02_newState_root_signed _ _ hvn', C02_newState_versions _ _ hvn'⟩
            · exact ih nxt h j hj e he href

/-- non-vacuity: a rotation signed by the old root key is accepted, one signed only by the new key is not -/
example :
    let r0 : Root := { rootKeys := [0], rootThreshold := 1, targetsKeys := [1], targetsThreshold := 1, signers := [0] }
    let r1 : Root := { version := 2, rootKeys := [0, 9], rootThreshold := 1, targetsKeys := [1], targetsThreshold := 1, signers := [0] }
    let r2 : Root := { r1 with signers := [9] }
    (Policy.verifyNewState ⟨r0, []⟩ ⟨r1, []⟩ = .ok ()) ∧ (Policy.verifyNewState ⟨r0, []⟩ ⟨r2, []⟩ = .error .unmet) := by
  decide

end Gittuf
