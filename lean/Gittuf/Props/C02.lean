/-
C02 — theorems tying the model's policy-chain checks (algorithmic: SignatureVerifier over the
root envelope, version comparisons) to the declarative conditions of the property.
-/
import Gittuf.Proofs.Chain
import Gittuf.Props.Witness
namespace Gittuf

/-- Full statement (repaired variant): a successful verification of a range implies the chain
conditions for every policy entry it depends on.  Evaluated by the driver on the REAL verifier's
answers; proved below for its building blocks (`VerifyNewState`, `LoadState`'s chain). -/
def World.C02_sound_statement : Prop :=
  ∀ (W : World) (ref : String) (first last : Nat),
    W.verifyRelative Variant.good first last ref = .ok () → W.c02Sound first last = true

/-- `VerifyNewState` accepts a successor only if its root is signed by a threshold of DISTINCT
root keys of the predecessor — for all key sets, signer sets and thresholds. -/
theorem C02_newState_root_signed (cur new : Policy) (h : cur.verifyNewState new = .ok ()) :
    rootSignedBy cur.root new.root = true := by
  unfold Policy.verifyNewState at h
  simp only [bind, Except.bind] at h
  split at h
  · cases h
  · rename_i u hu
    unfold liftV at hu
    split at hu
    · rename_i S hS
      exact keyVerifier_sound _ _ _ S hS
    · cases hu
    · cases hu

/-- `VerifyNewState` accepts a successor only if no version number decreases and no rule file disappears. -/
theorem C02_newState_versions (cur new : Policy) (h : cur.verifyNewState new = .ok ()) :
    versionsOK cur new = true := by
  unfold Policy.verifyNewState at h
  simp only [bind, Except.bind] at h
  split at h
  · cases h
  · unfold Policy.verifyNewMetadata at h
    unfold versionsOK
    split at h
    · cases h
    · rename_i hv
      have hv' : cur.root.version ≤ new.root.version := by omega
      split at h
      · rename_i hc; simp [hc, hv']
      · rename_i ct hc
        split at h
        · cases h
        · rename_i nt hn
          split at h
          · cases h
          · rename_i hver
            split at h
            · rename_i hall
              have hver' : ct.version ≤ nt.version := by omega
              simp only [hc, hn, hv', hver', decide_true, Bool.true_and]
              exact hall
            · cases h

/-- The chain built by `LoadState` (policy.go:327-346): if chaining succeeds, every consecutive
pair of policy states along the chain satisfies both conditions — by induction over the log. -/
theorem C02_chain_sound (W : World) (js : List Nat) (cur last : Policy)
    (h : W.chainStates js cur = .ok last) :
    ∀ j ∈ js, ∀ e, W.log[j]? = some e → e.ref = policyRef →
      ∃ prev nxt, W.loadRaw j = .ok nxt ∧ rootSignedBy prev.root nxt.root = true ∧ versionsOK prev nxt = true := by
  induction js generalizing cur with
  | nil => intro j hj; cases hj
  | cons a as ih =>
    intro j hj e he href
    unfold World.chainStates at h
    split at h
    · cases h
    · rename_i ea hea
      split at h
      · rename_i hne
        rcases List.mem_cons.mp hj with hj | hj
        · subst hj
          rw [hea] at he; cases he
          simp [href] at hne
        · exact ih cur h j hj e he href
      · split at h
        · cases h
        · rename_i nxt hnxt
          split at h
          · cases h
          · rename_i hvn
            have hvn' : cur.verifyNewState nxt = .ok () := by
              unfold World.liftP at hvn
              split at hvn
              · rename_i u hu; cases u; exact hu
              · cases hvn
            rcases List.mem_cons.mp hj with hj | hj
            · subst hj
              exact ⟨cur, nxt, hnxt, C02_newState_root_signed _ _ hvn', C02_newState_versions _ _ hvn'⟩
            · exact ih nxt h j hj e he href

/-- non-vacuity: a rotation signed by the old root key is accepted, one signed only by the new key is not -/
example :
    let r0 : Root := { rootKeys := [0], rootThreshold := 1, targetsKeys := [1], targetsThreshold := 1, signers := [0] }
    let r1 : Root := { version := 2, rootKeys := [0, 9], rootThreshold := 1, targetsKeys := [1], targetsThreshold := 1, signers := [0] }
    let r2 : Root := { r1 with signers := [9] }
    (Policy.verifyNewState ⟨r0, []⟩ ⟨r1, []⟩ = .ok ()) ∧ (Policy.verifyNewState ⟨r0, []⟩ ⟨r2, []⟩ = .error .unmet) := by
  decide

end Gittuf

namespace Gittuf

/-- `State.Verify` accepts a state only if its primary rule file is signed by a threshold of
DISTINCT keys of the primary-rule-file role its own root names. -/
theorem C02_verify_primary_signed (P : Policy) (h : P.verify = .ok ()) : primarySigned P = true := by
  unfold Policy.verify at h
  simp only [bind, Except.bind] at h
  split at h
  · cases h
  · unfold primarySigned
    split at h
    · rename_i hp; simp [hp]
    · rename_i tf hp
      simp only [hp]
      split at h
      · cases h
      · split at h
        · cases h
        · rename_i u hu
          unfold liftV at hu
          split at hu
          · rename_i S hS
            exact keyVerifier_sound _ _ _ S hS
          · cases hu
          · cases hu

/-- every delegated rule file the delegation pass records as reached had its envelope accepted by the
verifier built from a rule of that name (its principals looked up in the definitions seen so far, its
threshold) -/
theorem verifyDelegations_reached (P : Policy) (fuel : Nat) (queue : List Rule) (defs : List PrincipalSpec)
    (reached out : List String) (h : verifyDelegations P fuel queue defs reached = .ok out) :
    ∀ n ∈ out, n ∈ reached ∨ ∃ (d : Rule) (defs' : List PrincipalSpec) (f : RuleFile) (S : List PId),
      d.name = n ∧ P.file? n = some f ∧
      Verifier.verify { principals := lookupPrincipals defs' d.principals, threshold := d.threshold }
        none 0 (some (envelopeOf f.signers)) = .ok S := by
  induction fuel generalizing queue defs reached with
  | zero => simp [verifyDelegations] at h
  | succ fuel ih =>
    unfold verifyDelegations at h
    split at h
    · cases h; intro n hn; exact Or.inl hn
    · cases h; intro n hn; exact Or.inl hn
    · rename_i d rest hne
      split at h
      · split at h
        · cases h
        · rename_i f hf
          dsimp only at h
          split at h
          · cases h
          · rename_i hv
            intro n hn
            rcases ih _ _ _ h n hn with h1 | h1
            · rcases List.mem_cons.mp h1 with h2 | h2
              · subst h2
                right
                unfold liftV at hv
                split at hv
                · rename_i S hS
                  exact ⟨d, defs, f, S, rfl, hf, hS⟩
                · cases hv
                · cases hv
              · exact Or.inl h2
            · exact Or.inr h1
      · exact ih _ _ _ h

/-- `State.Verify` accepts a state only if every delegated rule file it contains was reached through a
rule of that name and its envelope was accepted by that rule's verifier: no dangling rule file, no
delegated file taken on trust. -/
theorem C02_verify_delegations (P : Policy) (h : P.verify = .ok ()) :
    ∀ f ∈ P.delegated, ∃ (d : Rule) (defs' : List PrincipalSpec) (f' : RuleFile) (S : List PId),
      d.name = f.name ∧ P.file? f.name = some f' ∧
      Verifier.verify { principals := lookupPrincipals defs' d.principals, threshold := d.threshold }
        none 0 (some (envelopeOf f'.signers)) = .ok S := by
  unfold Policy.verify at h
  simp only [bind, Except.bind] at h
  split at h
  · cases h
  · split at h
    · -- no primary rule file: then there must be no delegated file either?  (files.head? = none ⇒ files = [])
      rename_i hp
      intro f hf
      unfold Policy.delegated at hf
      unfold Policy.primary at hp
      cases hfiles : P.files with
      | nil => rw [hfiles] at hf; cases hf
      | cons a as => rw [hfiles] at hp; cases hp
    · rename_i tf hp
      split at h
      · cases h
      · split at h
        · cases h
        · split at h
          · cases h
          · rename_i reached hreached
            split at h
            · rename_i hall
              intro f hf
              have hin : f.name ∈ reached := by
                have := List.all_eq_true.mp hall f hf
                simpa using this
              rcases verifyDelegations_reached P _ _ _ _ _ hreached f.name hin with h1 | h1
              · cases h1
              · exact h1
            · cases h

end Gittuf
