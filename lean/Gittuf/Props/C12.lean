/-
C12 — Policy ref advances only to verified descendants that verification accepts.

Theorems about the model of `Apply` / `Discard` / `ReconcileStaging` / the API-layer root edits
(Model/PolicyOps.lean) against the declarative statements of Spec/C12.lean.  Every theorem is for
an ARBITRARY repository state `s` (not only reachable ones) and both variants of `Apply` unless
stated otherwise, hence holds after every sequence of operations (`C12_all_sequences`).
-/
import Gittuf.Props.C02
import Gittuf.Spec.C12
namespace Gittuf
open PState

/-! ### helper facts -/

theorem refLog_mismatch_of_not_agrees_policy (s : PState) (h : ¬ RefAgrees s .policy) :
    s.policyRefLog = .mismatch := by
  unfold RefAgrees at h
  unfold policyRefLog refLog
  simp only [getRef, RefSel.name] at h
  cases hp : s.polRef <;> cases hl : s.latestTarget policyRef <;> simp_all

theorem refLog_mismatch_of_not_agrees_staging (s : PState) (h : ¬ RefAgrees s .staging) :
    s.stagingRefLog = .mismatch := by
  unfold RefAgrees at h
  unfold stagingRefLog refLog
  simp only [getRef, RefSel.name] at h
  cases hp : s.stgRef <;> cases hl : s.latestTarget policyStagingRef <;> simp_all

theorem staging_ne_policy : (policyStagingRef == policyRef) = false := by decide

/-! ### Apply refuses when a reference disagrees with its latest log entry -/

/-- `apply_refuses`: if the policy reference or the staging reference disagrees with its latest
log entry (only one of the two exists, or they name different commits), `Apply` fails with
`ErrInvalidPolicy` and the repository state is exactly what it was. -/
theorem C12_apply_refuses (v : OpsVariant) (s : PState)
    (h : ¬ RefAgrees s .policy ∨ ¬ RefAgrees s .staging) :
    s.apply v = (s, .error .invalid) := by
  unfold PState.apply PState.reconcile
  rcases h with h | h
  · rw [refLog_mismatch_of_not_agrees_policy s h]
  · rw [refLog_mismatch_of_not_agrees_staging s h]
    cases s.policyRefLog <;> rfl

/-! ### Discard -/

/-- `discard_restores`: Discard succeeds and puts staging back on the policy reference (deletes it
when no policy reference exists); the policy reference and the log do not move. -/
theorem C12_discard_restores (s : PState) :
    (s.discard).2 = .ok () ∧ DiscardRestores s (s.discard).1 := by
  simp [PState.discard, DiscardRestores]

/-! ### root-of-trust edits by signers outside the root role -/

/-- `root_edit_refused`: every root-of-trust mutator of the API (root keys, root threshold,
primary-rule-file keys and threshold, global rules), called by a signer whose key is not a root
principal of the state being edited (the tip of staging), fails and leaves the state untouched. -/
theorem C12_root_edit_refused (s : PState) (kind : EditKind) (signer : KeyId) (entry : Bool)
    (hk : kind.isRootEdit = true) (hs : isRootSigner s signer = false) :
    (s.edit kind signer entry).1 = s ∧ (s.edit kind signer entry).2 ≠ .ok () := by
  unfold isRootSigner at hs
  cases hc : s.stgRef.bind s.content with
  | none =>
    cases kind <;> simp [EditKind.isRootEdit] at hk <;> simp [PState.edit, hc]
  | some cur =>
    rw [hc] at hs
    have hs' : signer ∉ cur.root.rootKeys := by simpa using hs
    cases kind <;> simp [EditKind.isRootEdit] at hk <;> simp [PState.edit, hc, EditKind.isRootEdit, hs']

/-- with a state on staging, the refusal is `ErrUnauthorizedKey` -/
theorem C12_root_edit_unauthorized (s : PState) (kind : EditKind) (signer : KeyId) (entry : Bool)
    (cur : Policy) (hc : s.stgRef.bind s.content = some cur)
    (hk : kind.isRootEdit = true) (hs : cur.root.rootKeys.contains signer = false) :
    s.edit kind signer entry = (s, .error .unauthorized) := by
  have hs' : signer ∉ cur.root.rootKeys := by simpa using hs
  cases kind <;> simp [EditKind.isRootEdit] at hk <;> simp [PState.edit, hc, EditKind.isRootEdit, hs']

/-! ### what a successful Apply does -/

theorem refLog_consistent (r : Option Nat) (e : Option Target) (t : Nat)
    (h : refLog r e = .consistent t) : r = some t := by
  unfold refLog at h
  cases r <;> cases e <;> simp at h
  rename_i t' e'
  by_cases hc : e' = Target.policy t'
  · simp [hc] at h; rw [h]
  · simp [hc] at h

theorem commitStaging_polRef (s : PState) (P : Policy) (tag : String) (entry : Bool) :
    (s.commitStaging P tag entry).polRef = s.polRef := by
  unfold commitStaging addState
  cases hf : s.findState s.stgRef P tag <;> cases entry <;> simp [appendLog]

theorem commitStaging_log (s : PState) (P : Policy) (tag : String) :
    ∃ i, (s.commitStaging P tag true).W.log = s.W.log ++ [refEntry policyStagingRef i] := by
  unfold commitStaging addState
  cases hf : s.findState s.stgRef P tag
  · exact ⟨s.W.policies.length, by simp [appendLog]⟩
  · rename_i j; exact ⟨j, by simp [appendLog]⟩

/-- what `ReconcileStaging` may do: the policy reference stays, the log gains only staging entries -/
theorem reconcile_spec (s s1 : PState) (h : s.reconcile = .ok s1) :
    s1.polRef = s.polRef ∧
    (∃ l, s1.W.log = s.W.log ++ l ∧ ∀ e ∈ l, e.ref = policyStagingRef) ∧
    (stagingAhead s = true → s1 = s) := by
  unfold PState.reconcile at h
  cases hpl : s.policyRefLog <;> cases hsl : s.stagingRefLog <;> simp only [hpl, hsl] at h <;>
    try (cases h; done)
  · cases h; exact ⟨rfl, ⟨[], by simp, by simp⟩, fun _ => rfl⟩
  · cases h; exact ⟨rfl, ⟨[], by simp, by simp⟩, fun _ => rfl⟩
  · rename_i pt st
    have hp : s.polRef = some pt := refLog_consistent _ _ _ hpl
    have hs : s.stgRef = some st := refLog_consistent _ _ _ hsl
    split at h
    · cases h; exact ⟨rfl, ⟨[], by simp, by simp⟩, fun _ => rfl⟩
    · split at h
      · cases h; exact ⟨rfl, ⟨[], by simp, by simp⟩, fun _ => rfl⟩
      · rename_i hne hnk
        have hnot : stagingAhead s = false := by
          unfold stagingAhead
          simp [hp, hs, hnk]
        split at h
        · cases h
          refine ⟨rfl, ⟨[refEntry policyStagingRef pt], by simp [appendLog], by simp [refEntry]⟩, ?_⟩
          intro ha; rw [hnot] at ha; cases ha
        · split at h
          · rename_i staged _ _
            cases h
            obtain ⟨i, hi⟩ := commitStaging_log ({ s with stgRef := some pt }.appendLog (refEntry policyStagingRef pt)) staged rebaseTag
            refine ⟨by rw [commitStaging_polRef]; rfl, ⟨[refEntry policyStagingRef pt, refEntry policyStagingRef i], ?_, by simp [refEntry]⟩, ?_⟩
            · rw [hi]; simp [appendLog]
            · intro ha; rw [hnot] at ha; cases ha
          · cases h

/-- what the checks of `Apply` establish about the state they let through -/
theorem applyChecks_spec (v : OpsVariant) (s : PState) (st : Nat) (h : s.applyChecks v = .ok st) :
    s.stgRef = some st ∧ (∀ o, s.polRef = some o → s.knows st o = true) ∧
    ∃ e P, s.latestIdx policyStagingRef = some e ∧ s.W.loadState e = .ok P ∧ P.verify = .ok () := by
  unfold PState.applyChecks at h
  cases hpl : s.policyRefLog <;> simp only [hpl] at h <;> try (cases h; done)
  all_goals
    cases hst : s.stgRef <;> simp only [hst] at h <;> try (cases h; done)
    rename_i st'
    by_cases hanc : s.notDescends st' = true
    · rw [if_pos hanc] at h; cases h
    · rw [if_neg hanc] at h
      cases he : s.latestIdx policyStagingRef <;> simp only [he] at h <;> try (cases h; done)
      rename_i e
      cases hP : s.W.loadState e <;> simp only [hP] at h <;> try (cases h; done)
      rename_i P
      cases hv : P.verify <;> simp only [hv] at h <;> try (cases h; done)
      have hst_eq : st' = st := by
        by_cases hf : v.f9_noVerifyNewState = true
        · rw [if_pos hf] at h; cases h; rfl
        · rw [if_neg hf] at h
          cases hp : s.latestIdx policyRef <;> simp only [hp] at h
          · cases h; rfl
          · rename_i p
            cases hc : s.W.loadState p <;> simp only [hc] at h <;> try (cases h; done)
            rename_i cur
            cases hn : cur.verifyNewState P <;> simp only [hn] at h <;> try (cases h; done)
            cases h; rfl
      subst hst_eq
      refine ⟨rfl, ?_, e, P, rfl, hP, hv⟩
      intro o ho
      unfold notDescends at hanc
      rw [ho] at hanc
      simpa using hanc

/-- `knows` only reads the parent table -/
theorem knows_congr (s s' : PState) (h : s'.parent = s.parent) (a b : Nat) : s'.knows a b = s.knows a b := by
  have aux : ∀ fuel a, s'.knowsAux fuel a b = s.knowsAux fuel a b := by
    intro fuel
    induction fuel with
    | zero => intro a; rfl
    | succ n ih =>
      intro a
      simp only [knowsAux, parentOf, h]
      cases hp : (s.parent[a]?).join with
      | none => rfl
      | some p => simp [ih p]
  simp [PState.knows, h, aux]

theorem filter_staging_nil (l : List LogEntry) (hlref : ∀ e ∈ l, e.ref = policyStagingRef) :
    l.filter (fun e => e.ref == policyRef) = [] := by
  apply List.filter_eq_nil_iff.mpr
  intro e he
  rw [hlref e he]
  simp [staging_ne_policy]

/-- `apply_ok` (all but the content clause): a successful Apply moves the policy reference to the
staging tip `t` left by reconciliation, `t` descends from the old policy tip, the log gains exactly
one policy entry and that entry names `t`; when staging was a fast-forward of the policy, `t` is
the old staging tip. -/
theorem C12_apply_ok_partial (v : OpsVariant) (s s' : PState) (h : s.apply v = (s', .ok ())) :
    s.W.log <+: s'.W.log ∧
    ∃ t, s'.polRef = some t ∧ s'.stgRef = some t ∧
      (∀ o, s.polRef = some o → s'.knows t o = true) ∧
      policyEntriesOf (gained s s') = [refEntry policyRef t] ∧
      (stagingAhead s = true → s.stgRef = some t) := by
  unfold PState.apply at h
  cases hrec : s.reconcile <;> simp only [hrec] at h
  · cases h
  · rename_i s1
    cases hchk : s1.applyChecks v <;> simp only [hchk] at h
    · cases h
    · rename_i st
      cases h
      obtain ⟨hpol, ⟨l, hl, hlref⟩, hahead⟩ := reconcile_spec s s1 hrec
      obtain ⟨hstg, hanc, _⟩ := applyChecks_spec v s1 st hchk
      refine ⟨?_, st, rfl, ?_, ?_, ?_, ?_⟩
      · simp [appendLog, hl, List.append_assoc]
      · simpa [appendLog] using hstg
      · intro o ho
        rw [← hpol] at ho
        have := hanc o ho
        rw [← this]
        exact knows_congr s1 ({ s1 with polRef := some st }.appendLog (refEntry policyRef st)) rfl st o
      · simp [gained, policyEntriesOf, appendLog, hl, filter_staging_nil l hlref, refEntry]
      · intro ha
        rw [hahead ha] at hstg
        exact hstg

/-! #### the content clause: the published commit carries the metadata that passed `State.Verify` -/

/-- the reader finds an entry that was just appended -/
theorem latestTarget_appendLog (s : PState) (ref : String) (i : Nat) :
    (s.appendLog (refEntry ref i)).latestTarget ref = some (.policy i) := by
  unfold latestTarget latestIdx World.latestFor World.below
  simp only [appendLog, List.length_append, List.length_cons, List.length_nil, Nat.zero_add]
  rw [List.range_succ, List.reverse_append]
  simp [List.find?, refEntry, World.isUpdater]

/-- `LoadState` of an entry that is not a policy entry returns that entry's own state -/
theorem loadState_nonpolicy (W : World) (req : Nat) (e : LogEntry) (P : Policy)
    (he : W.log[req]? = some e) (hne : (e.ref == policyRef) = false) (h : W.loadState req = .ok P) :
    W.loadRaw req = .ok P := by
  unfold World.loadState at h
  cases hf : W.firstFor policyRef <;> simp only [hf] at h
  · exact h
  · rename_i first
    by_cases h1 : (first == req) = true
    · simp only [h1, if_true] at h
      cases hr : W.loadRaw req <;> simp only [hr, bind, Except.bind] at h
      · cases h
      · rename_i P'
        cases hv : World.liftP P'.verify <;> simp only [hv] at h
        · cases h
        · simp only [pure, Except.pure] at h
          cases h; rfl
    · simp only [h1] at h
      by_cases h2 : req < first
      · simp only [h2, if_true] at h; exact h
      · simp only [h2, if_false, Bool.false_eq_true] at h
        cases hi : W.loadRaw first <;> simp only [hi, bind, Except.bind] at h
        · cases h
        · rename_i init
          cases hc : W.chainStates (List.drop 1 (W.range first req policyRef)) init <;> simp only [hc] at h
          · cases h
          · simp only [he, hne, Bool.false_eq_true, if_false] at h
            exact h

theorem refLog_consistent_entry (r : Option Nat) (e : Option Target) (t : Nat)
    (h : refLog r e = .consistent t) : e = some (.policy t) := by
  unfold refLog at h
  cases r <;> cases e <;> simp at h
  rename_i t' e'
  by_cases hc : e' = Target.policy t'
  · simp [hc] at h; rw [hc, h]
  · simp [hc] at h

theorem commitStaging_true_consistent (s : PState) (P : Policy) (tag : String) :
    ∃ i, (s.commitStaging P tag true).stgRef = some i ∧
      (s.commitStaging P tag true).latestTarget policyStagingRef = some (.policy i) := by
  unfold commitStaging addState
  cases hf : s.findState s.stgRef P tag
  · exact ⟨s.W.policies.length, by simp [appendLog], by simpa using latestTarget_appendLog _ policyStagingRef _⟩
  · rename_i j
    exact ⟨j, by simp [appendLog], by simpa using latestTarget_appendLog _ policyStagingRef _⟩

/-- after `ReconcileStaging` the staging reference is what its latest log entry names -/
theorem reconcile_staging_consistent (s s1 : PState) (h : s.reconcile = .ok s1) (st : Nat)
    (hst : s1.stgRef = some st) : s1.latestTarget policyStagingRef = some (.policy st) := by
  unfold PState.reconcile at h
  cases hpl : s.policyRefLog <;> cases hsl : s.stagingRefLog <;> simp only [hpl, hsl] at h <;>
    try (cases h; done)
  · cases h
    have : s.stgRef = none := by
      unfold stagingRefLog refLog at hsl
      cases hr : s.stgRef <;> cases hl : s.latestTarget policyStagingRef <;> simp_all
      split at hsl <;> simp_all
    rw [this] at hst; cases hst
  · cases h
    rename_i t
    have h1 := refLog_consistent _ _ _ hsl
    have h2 := refLog_consistent_entry _ _ _ hsl
    rw [h1] at hst; cases hst; exact h2
  · rename_i pt t
    have h1 := refLog_consistent _ _ _ hsl
    have h2 := refLog_consistent_entry _ _ _ hsl
    split at h
    · cases h; rw [h1] at hst; cases hst; exact h2
    · split at h
      · cases h; rw [h1] at hst; cases hst; exact h2
      · split at h
        · cases h
          simp only [appendLog] at hst
          cases hst
          exact latestTarget_appendLog _ policyStagingRef _
        · split at h
          · rename_i staged _ _
            cases h
            obtain ⟨i, hi1, hi2⟩ := commitStaging_true_consistent
              ({ s with stgRef := some pt }.appendLog (refEntry policyStagingRef pt)) staged rebaseTag
            rw [hi1] at hst; cases hst; exact hi2
          · cases h

theorem content_of_latest (s : PState) (ref : String) (e0 st : Nat) (P : Policy)
    (hne : (ref == policyRef) = false)
    (hi : s.latestIdx ref = some e0) (ht : s.latestTarget ref = some (.policy st))
    (hl : s.W.loadState e0 = .ok P) : s.content st = some P := by
  have hpred := List.find?_some (by unfold latestIdx World.latestFor at hi; exact hi)
  cases hlog : s.W.log[e0]? with
  | none => simp [hlog] at hpred
  | some e =>
    simp only [hlog, Bool.and_eq_true, beq_iff_eq] at hpred
    have href : e.ref = ref := hpred.1.1.2
    unfold latestTarget at ht
    rw [hi] at ht
    simp only [Option.bind_some, hlog, Option.map_some, Option.some.injEq] at ht
    have hraw := loadState_nonpolicy s.W e0 e P hlog (by rw [href]; exact hne) hl
    unfold World.loadRaw World.policyAt at hraw
    simp only [hlog, ht] at hraw
    unfold content
    cases hp : s.W.policies[st]? <;> simp only [hp] at hraw
    · cases hraw
    · split at hraw
      · cases hraw
      · cases hraw; rfl

/-- `apply_ok`: a successful Apply publishes the staging tip `t` left by reconciliation (the old
staging tip whenever staging was a fast-forward of the policy); `t` descends from the old policy
tip; the metadata stored in `t` passed `State.Verify`; the log gained exactly one policy entry and
it names `t`. -/
theorem C12_apply_ok (v : OpsVariant) (s s' : PState) (h : s.apply v = (s', .ok ())) : ApplyOK s s' := by
  obtain ⟨hgrow, t, h1, h2, h3, h4, h5⟩ := C12_apply_ok_partial v s s' h
  refine ⟨hgrow, t, h1, h2, h3, ?_, h4, h5⟩
  unfold PState.apply at h
  cases hrec : s.reconcile <;> simp only [hrec] at h
  · cases h
  · rename_i s1
    cases hchk : s1.applyChecks v <;> simp only [hchk] at h
    · cases h
    · rename_i st
      cases h
      obtain ⟨hstg, _, e, P, he, hP, hv⟩ := applyChecks_spec v s1 st hchk
      have hcons := reconcile_staging_consistent s s1 hrec st hstg
      have hc := content_of_latest s1 policyStagingRef e st P staging_ne_policy he hcons hP
      simp only [appendLog] at h1
      cases h1
      exact ⟨P, by simpa [content, appendLog] using hc, hv⟩

/-- a refused Apply never moves the policy reference and never records a policy entry (it may have
rebuilt staging: `ReconcileStaging` runs first and is not rolled back) -/
theorem C12_refused_apply_policy_untouched (v : OpsVariant) (s s' : PState) (e : OErr)
    (h : s.apply v = (s', .error e)) : PolicyUntouched s s' := by
  unfold PState.apply at h
  cases hrec : s.reconcile <;> simp only [hrec] at h
  · cases h; simp [PolicyUntouched, gained, policyEntriesOf]
  · rename_i s1
    obtain ⟨hpol, ⟨l, hl, hlref⟩, _⟩ := reconcile_spec s s1 hrec
    cases hchk : s1.applyChecks v <;> simp only [hchk] at h
    · cases h
      refine ⟨hpol, by simp [hl], ?_⟩
      simp [gained, policyEntriesOf, hl, filter_staging_nil l hlref]
    · cases h

/-! ### what Apply publishes is accepted by later verification -/

/-- `C12_published_verifies` for the repaired `Apply` (first half): whatever the repaired Apply
publishes on top of an existing policy entry passes `State.Verify`, and the state that full chain
verification (`LoadState`) yields for the previously published entry accepts it as successor
(`VerifyNewState`): its root is signed by a threshold of the predecessor's root keys and no
version number decreases (C02's chain conditions). -/
theorem C12_published_chain_partial (s : PState) (st : Nat)
    (h : s.applyChecks OpsVariant.good = .ok st) :
    ∃ e P, s.latestIdx policyStagingRef = some e ∧ s.W.loadState e = .ok P ∧ P.verify = .ok () ∧
      ∀ p, s.latestIdx policyRef = some p →
        ∃ cur, s.W.loadState p = .ok cur ∧ cur.verifyNewState P = .ok () ∧
          rootSignedBy cur.root P.root = true ∧ versionsOK cur P = true := by
  obtain ⟨_, _, e, P, he, hP, hv⟩ := applyChecks_spec _ s st h
  refine ⟨e, P, he, hP, hv, ?_⟩
  intro p hp
  unfold PState.applyChecks at h
  cases hpl : s.policyRefLog <;> simp only [hpl] at h <;> try (cases h; done)
  all_goals
    cases hst : s.stgRef <;> simp only [hst] at h <;> try (cases h; done)
    rename_i st'
    by_cases hanc : s.notDescends st' = true
    · rw [if_pos hanc] at h; cases h
    · rw [if_neg hanc] at h
      simp only [he, hP, hv, hp, OpsVariant.good, Bool.false_eq_true, if_false] at h
      cases hc : s.W.loadState p <;> simp only [hc] at h <;> try (cases h; done)
      rename_i cur
      cases hn : cur.verifyNewState P <;> simp only [hn] at h <;> try (cases h; done)
      exact ⟨cur, rfl, hn, C02_newState_root_signed _ _ hn, C02_newState_versions _ _ hn⟩

/-- the full statement: after a successful repaired Apply the latest policy entry loads, i.e.
every later verification of the repository accepts the published policy. -/
def C12_published_verifies_statement : Prop :=
  ∀ (s s' : PState), s.apply OpsVariant.good = (s', .ok ()) → policyLoads s' = true

/-! ### F9: the statement is false for Apply as it stands -/

def f9v1 : Policy :=
  { root := { version := 1, rootKeys := [0], rootThreshold := 1, targetsKeys := [1], targetsThreshold := 1, signers := [0] },
    files := [{ name := "targets", version := 1, principals := [], rules := [allowRule], signers := [1] }] }
def f9v2 : Policy := { f9v1 with root := { f9v1.root with version := 2, rootKeys := [0, 9] } }
def f9v3 : Policy := { f9v1 with root := { f9v1.root with version := 3, rootKeys := [9], signers := [9] } }

deriving instance DecidableEq for Except

/-- root key 0 adds root key 9 (signed by 0); key 9 removes key 0 (signed by 9); both staged, applied once -/
def f9Ops : List Op :=
  [.stage f9v1 "v1" true, .apply, .stage f9v2 "v2" true, .stage f9v3 "v3" true, .apply]

/-- F9 witness: on the code as it stands the last Apply succeeds and publishes a state that later
verification rejects, although everything published before was accepted … -/
theorem C12_F9_witness :
    let s := PState.run OpsVariant.current PState.init (f9Ops.take 4)
    policyLoads s = true ∧ (s.apply OpsVariant.current).2 = .ok () ∧
    policyLoads (s.apply OpsVariant.current).1 = false := by
  decide +kernel

/-- … so the unrestricted statement fails for the current variant … -/
theorem C12_F9_statement_false :
    ¬ (∀ (s s' : PState), s.apply OpsVariant.current = (s', .ok ()) → PublishedVerifies s s') := by
  intro h
  have w := C12_F9_witness
  simp only at w
  have := h _ _ (Prod.ext rfl w.2.1) w.1
  rw [w.2.2] at this
  cases this

/-- … while the repaired Apply refuses the same request, and accepts the rotation step by step. -/
theorem C12_F9_repaired :
    let s := PState.run OpsVariant.good PState.init (f9Ops.take 4)
    (s.apply OpsVariant.good).2 = .error .other ∧
    policyLoads (PState.run OpsVariant.good PState.init
      [.stage f9v1 "v1" true, .apply, .stage f9v2 "v2" true, .apply, .stage f9v3 "v3" true, .apply]) = true := by
  decide +kernel

/-! ### all operation sequences -/

/-- The per-state theorems above hold in particular in every state reached by any sequence of
operations (initialize, root / rule-file edits by any signer, sign, stage, apply, discard, direct
tampering of either reference, recording) from the empty repository. -/
theorem C12_all_sequences (v : OpsVariant) (ops : List Op) :
    let s := PState.run v PState.init ops
    ((¬ RefAgrees s .policy ∨ ¬ RefAgrees s .staging) → s.apply v = (s, .error .invalid)) ∧
    (∀ s', s.apply v = (s', .ok ()) → ApplyOK s s') ∧
    (∀ s' e, s.apply v = (s', .error e) → PolicyUntouched s s') ∧
    DiscardRestores s (s.discard).1 ∧
    (∀ kind signer entry, kind.isRootEdit = true → isRootSigner s signer = false →
       (s.edit kind signer entry).1 = s ∧ (s.edit kind signer entry).2 ≠ .ok ()) := by
  intro s
  exact ⟨C12_apply_refuses v s, fun s' h => C12_apply_ok v s s' h,
    fun s' e h => C12_refused_apply_policy_untouched v s s' e h,
    (C12_discard_restores s).2, fun kind signer entry hk hs => C12_root_edit_refused s kind signer entry hk hs⟩

/-! ### non-vacuity -/

/-- a successful Apply exists (first policy), and satisfies the declarative `applyOKB` -/
example :
    let s := PState.run OpsVariant.current PState.init [.stage f9v1 "v1" true]
    (s.apply OpsVariant.current).2 = .ok () ∧ applyOKB s (s.apply OpsVariant.current).1 = true := by
  decide +kernel

/-- a reference that disagrees with its log entry exists: staging tampered back to the first state -/
example :
    let s := PState.run OpsVariant.current PState.init
      [.stage f9v1 "v1" true, .apply, .stage f9v2 "v2" true, .tamper .staging (some 0)]
    refAgreesB s .staging = false ∧ (s.apply OpsVariant.current).2 = .error .invalid := by
  decide +kernel

/-- a root edit by an outsider is refused, by a root key it is accepted -/
example :
    let s := PState.run OpsVariant.current PState.init [.edit .initRoot 0 true]
    (s.edit (.addRootKey 9) 8 true).2 = .error .unauthorized ∧ (s.edit (.addRootKey 9) 0 true).2 = .ok () := by
  decide +kernel

end Gittuf
