/-
C11 — theorems about the global-rule part of the verification model
(`verifyObject.globals`, `usingVerifiers`; Go: verify.go:1195-1297, 1300-1392).
-/
import Gittuf.Spec.C11
namespace Gittuf
namespace World

/-- Full statement (repaired variant), monotonicity: removing all global rules never turns a
rejection into an acceptance.  Evaluated by the driver on the REAL verifier: every generated history
is verified under P+G and under P (sibling repository). -/
def C11_monotone_statement : Prop :=
  ∀ (W W' : World) (ref : String) (tip : Option Nat),
    W'.log = W.log → W'.commits = W.commits → W'.trees = W.trees → W'.atts = W.atts →
    W'.policies = W.policies.map (fun P => { P with root := { P.root with globals := [] } }) →
    W.verifyRefFull Variant.good ref = .ok tip → W'.verifyRefFull Variant.good ref = .ok tip

/-- **Threshold global rules are enforced on top of whatever satisfied the delegation rules**: if
the global-rule pass succeeds with `n` accepted principals, every matching threshold rule requires
at most `n` (non-mergeable mode) — for every list of global rules. -/
theorem C11_threshold_enforced (W : World) (path : String) (ei : Option Nat) (o : GOpts) (r : UVResult)
    (n : Int) (gs : List GlobalRule) (hm : o.mergeable = false)
    (h : verifyObject.globals W path ei o r n gs = .ok ()) :
    ∀ g ∈ gs, g.isThreshold = true → g.matches path = true → g.threshold ≤ n := by
  induction gs with
  | nil => intro g hg; cases hg
  | cons a rest ih =>
    intro g hg hthr hmatch
    unfold verifyObject.globals at h
    split at h
    · -- `a` does not match
      rename_i hna
      rcases List.mem_cons.mp hg with hg | hg
      · subst hg; simp [hmatch] at hna
      · exact ih h g hg hthr hmatch
    · split at h
      · -- threshold rule
        rename_i hathr
        simp only [hm, Bool.and_false, Bool.false_eq_true, if_false] at h
        split at h
        · cases h
        · rename_i hlt
          rcases List.mem_cons.mp hg with hg | hg
          · subst hg; omega
          · exact ih h g hg hthr hmatch
      · -- block-force-pushes rule
        rename_i hnthr
        rcases List.mem_cons.mp hg with hg | hg
        · subst hg; simp [hthr] at hnthr
        · simp only [hm, Bool.false_eq_true, if_false] at h
          split at h
          · cases h
          · split at h
            · cases h
            · split at h
              · cases h
              · split at h
                · exact ih h g hg hthr hmatch
                · split at h
                  · split at h
                    · exact ih h g hg hthr hmatch
                    · cases h
                  · cases h

/-- **Block-force-pushes is enforced**: if the global-rule pass succeeds for an RSL entry `i` whose
reference has an earlier unskipped entry, every matching block-force-pushes rule saw the new target
descend from that entry's target. -/
theorem C11_ff_enforced (W : World) (path : String) (i : Nat) (o : GOpts) (r : UVResult)
    (n : Int) (gs : List GlobalRule) (hm : o.mergeable = false)
    (h : verifyObject.globals W path (some i) o r n gs = .ok ()) :
    ∀ g ∈ gs, g.isThreshold = false → g.matches path = true →
      ∀ e j, W.log[i]? = some e → W.latestFor e.ref i (unskipped := true) = some j →
        ∃ cur prev, targetCommit e = some cur ∧ (W.log[j]?).bind targetCommit = some prev ∧ W.knows cur prev = true := by
  induction gs with
  | nil => intro g hg; cases hg
  | cons a rest ih =>
    intro g hg hthr hmatch e j he hj
    unfold verifyObject.globals at h
    split at h
    · rename_i hna
      rcases List.mem_cons.mp hg with hg | hg
      · subst hg; simp [hmatch] at hna
      · exact ih h g hg hthr hmatch e j he hj
    · split at h
      · rename_i hathr
        simp only [hm, Bool.and_false, Bool.false_eq_true, if_false] at h
        split at h
        · cases h
        · rcases List.mem_cons.mp hg with hg | hg
          · subst hg; simp [hthr] at hathr
          · exact ih h g hg hthr hmatch e j he hj
      · simp only [hm, Bool.false_eq_true, if_false, he] at h
        split at h
        · cases h
        · rw [hj] at h
          simp only at h
          split at h
          · rename_i cur prev hc hp
            split at h
            · rename_i hk
              exact ⟨cur, prev, hc, hp, hk⟩
            · cases h
          · cases h

/-- **Repaired verifier loop never lets the exhaustive verifier replace the delegation rules**:
with the F1 repair, acceptance by a verifier list that starts with the exhaustive verifier and has
delegation verifiers behind it implies acceptance by those delegation verifiers alone. -/
theorem C11_exhaustive_adds_only (v : Variant) (P : Policy) (ex : VerifierN) (rest : List VerifierN)
    (g : Option Sig) (auth : Option Envelope) (ap : Option (List String)) (m : Bool) (r : UVResult)
    (hex : ex.v.exhaustive = true) (hv : v.f1_exhaustiveSatisfies = false) (hne : rest ≠ [])
    (h : usingVerifiers v P (ex :: rest) g auth ap m = .ok r) :
    ∃ r', usingVerifiers.go v g auth ap m ((P.root.apps.filter (·.trusted)).map (·.name)) P.allPrincipals rest = .ok r'
      ∧ r'.usedName = r.usedName ∧ r'.rslNeeded = r.rslNeeded ∧ ∀ p ∈ r'.accepted, p ∈ r.accepted := by
  unfold usingVerifiers at h
  simp only [List.isEmpty_cons, Bool.false_eq_true, if_false, hex, hv, Bool.not_false, Bool.and_self, if_true] at h
  split at h
  · cases h
  · rename_i exUsed hexu
    have hre : rest.isEmpty = false := by cases rest with | nil => exact absurd rfl hne | cons _ _ => rfl
    simp only [hre, Bool.false_eq_true, if_false] at h
    split at h
    · cases h
    · rename_i r' hr'
      cases h
      refine ⟨r', hr', rfl, rfl, ?_⟩
      intro p hp
      simp only [List.mem_append, List.mem_filter]
      apply Decidable.or_iff_not_imp_left.mpr
      intro hnot
      exact ⟨hp, by simpa using hnot⟩

end World
end Gittuf
