/-
C09 — theorems about approval lookup and approver counting in the verification model
(`approvalsFor`, `creditApprovers`; Go: verify.go:940-1062, 1323-1373; attestations/authorization.go:98-138).
-/
import Gittuf.Spec.C07
namespace Gittuf
namespace World

/-- Full statement: an accepted range has every unrevoked entry authorized by approvals whose signed
statement names exactly the change (Spec/C01 `entryAuthorized`).  Evaluated by the driver on the REAL
verifier's answers over generated attestation trees (relocated / mismatching / late approvals). -/
def C09_sound_statement : Prop :=
  ∀ (W : World) (ref : String) (first last : Nat),
    W.verifyRelative Variant.good first last ref = .ok () →
    (W.refEntriesIn ref first last).all (fun j => W.skipped j || W.entryAuthorized j) = true

/-- **An authorization is used only if its signed statement names exactly the change**: whatever the
attestation tree contains and wherever blobs are stored, the envelope handed to the verifiers comes
from an authorization stored under the key of (ref, from, to) whose STATEMENT is (ref, from, to). -/
theorem C09_auth_exact (A : AttState) (ref : String) (frm : Option Nat) (to : Nat) (env : Envelope)
    (h : authFor A ref frm to = .ok (some env)) :
    ∃ a ∈ A.auths, a.sref = ref ∧ a.sfrom = frm ∧ a.sto = to ∧
      a.ref = ref ∧ a.frm = frm ∧ a.to = to ∧ env = envelopeOf a.signers := by
  unfold authFor at h
  split at h
  · cases h
  · rename_i a ha
    have hmem := List.mem_of_find?_eq_some ha
    have hprop := List.find?_some (p := fun (a : Auth) => a.sref == ref && a.sfrom == frm && a.sto == to) ha
    simp only [Bool.and_eq_true, beq_iff_eq] at hprop
    split at h
    · rename_i hstmt
      simp only [Except.ok.injEq, Option.some.injEq] at h
      simp only [Bool.and_eq_true, beq_iff_eq] at hstmt
      exact ⟨a, List.mem_reverse.mp hmem, hprop.1.1, hprop.1.2, hprop.2, hstmt.1.1, hstmt.1.2, hstmt.2, h.symm⟩
    · cases h

/-- the envelope handed to the verifiers by `approvalsFor` is exactly the result of `authFor` -/
theorem C09_approvals_auth (v : Variant) (P : Policy) (A : AttState) (ref : String) (frm : Option Nat) (to : Nat)
    (r : Approvals) (h : approvalsFor v P (some A) ref frm to = .ok r) :
    authFor A ref frm to = .ok r.auth := by
  unfold approvalsFor at h
  simp only at h
  split at h
  · cases h
  · rename_i auth hauth
    split at h
    · cases h
    · cases h; exact hauth

/-- **No principal is counted twice through code review**: merging approver identities into the
set of already counted principals keeps it duplicate-free. -/
theorem C09_approvers_nodup (defs : List PrincipalSpec) (apps : List String) (vp : List Principal)
    (approvers : List String) (used : List PId) (h : used.Nodup) :
    (creditApprovers defs apps vp approvers used).Nodup := by
  unfold creditApprovers
  induction approvers generalizing used with
  | nil => simpa
  | cons a as ih =>
    simp only [List.foldl_cons]
    apply ih
    split
    · rename_i p hp
      have hpp := List.find?_some (p := approverMatches defs apps used a) hp
      unfold approverMatches at hpp
      simp only [Bool.and_eq_true, Bool.not_eq_true', List.contains_eq_mem, decide_eq_false_iff_not] at hpp
      rw [List.nodup_append]
      refine ⟨h, by simp, ?_⟩
      intro x hx y hy
      simp only [List.mem_singleton] at hy
      subst hy
      intro hxy; subst hxy; exact hpp.1 hx
    · exact h

/-- **Only principals of the rule are counted through code review**, each matched by an identity it
registered: every principal added is a principal of the verifier whose definition is a person with
an associated identity equal to some approver. -/
theorem C09_approvers_sound (defs : List PrincipalSpec) (apps : List String) (vp : List Principal)
    (approvers : List String) (used : List PId) :
    ∀ p ∈ creditApprovers defs apps vp approvers used, p ∈ used ∨
      (∃ P ∈ vp, P.id = p ∧ ∃ d ∈ defs, d.id = p ∧ d.person = true ∧
        ∃ a ∈ approvers, ∃ app ∈ apps, (app, a) ∈ d.identities) := by
  unfold creditApprovers
  induction approvers generalizing used with
  | nil => intro p hp; exact Or.inl hp
  | cons a as ih =>
    intro p hp
    simp only [List.foldl_cons] at hp
    have := ih _ p hp
    rcases this with h | ⟨P, hP, hid, d, hd, hdid, hper, a', ha', app, happ, hmem⟩
    · split at h
      · rename_i q hq
        simp only [List.mem_append, List.mem_singleton] at h
        rcases h with h | h
        · exact Or.inl h
        · subst h
          have hqm := List.mem_of_find?_eq_some hq
          have hqp := List.find?_some (p := approverMatches defs apps used a) hq
          unfold approverMatches at hqp
          simp only [Bool.and_eq_true] at hqp
          obtain ⟨_, hmatch⟩ := hqp
          split at hmatch
          · rename_i d hd
            simp only [Bool.and_eq_true, List.any_eq_true] at hmatch
            obtain ⟨hper, ⟨app, idn⟩, hmem, hcond⟩ := hmatch
            simp only [Bool.and_eq_true, List.contains_eq_mem, decide_eq_true_eq, beq_iff_eq] at hcond
            have hdm := List.mem_of_find?_eq_some hd
            have hdid := List.find?_some (p := fun (d : PrincipalSpec) => d.id == q.id) hd
            simp only [beq_iff_eq] at hdid
            refine Or.inr ⟨q, hqm, rfl, d, hdm, hdid, hper, a, List.mem_cons_self, app, hcond.1, ?_⟩
            rw [← hcond.2]; exact hmem
          · cases hmatch
      · exact Or.inl h
    · exact Or.inr ⟨P, hP, hid, d, hd, hdid, hper, a', List.mem_cons_of_mem _ ha', app, happ, hmem⟩

/-- non-vacuity: a relocated authorization (stored under this change's key, statement about another
change) is refused, an exact one is used -/
example :
    let A : AttState := { auths := [{ sref := "r", sfrom := none, sto := 1, ref := "other", frm := none, to := 2, signers := [3] }] }
    let B : AttState := { auths := [{ sref := "r", sfrom := none, sto := 1, ref := "r", frm := none, to := 1, signers := [3] }] }
    let P : Policy := { root := { rootKeys := [0], rootThreshold := 1, targetsKeys := [1], targetsThreshold := 1, signers := [0] }, files := [] }
    authFor A "r" none 1 = .error .other ∧ authFor B "r" none 1 = .ok (some (envelopeOf [3])) ∧
    (approvalsFor Variant.good P (some B) "r" none 1).toOption.map (·.approvers) = some (some []) := by
  decide

end World
end Gittuf
