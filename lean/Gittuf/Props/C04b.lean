/-
C04 (with C03) — the hypotheses of the reading theorems are discharged by recording.

`Props/C04.lean` proves that the readers refine the list specification on a store `s` that
denotes a log `l` (`IsLog s l`) whose annotations name only older entries (`AnnBackward l`).
`Props/C03.lean` proves that recording maintains exactly these facts, one operation at a time.
This file lifts the latter to every operation sequence and composes the two, so that the reading
theorem holds on every log that can be recorded, with no assumption left about the repository.
-/
import Gittuf.Props.C03
import Gittuf.Props.C04
namespace Gittuf.RSL

/-- the three facts about a store that recording maintains and reading relies on -/
def ReadyLog (s : Store) (l : List LEntry) : Prop := IsLog s l ∧ AnnBackward l ∧ AnnClosed s l

theorem readyLog_step (s : Store) (l : List LEntry) (op : Op) (h : ReadyLog s l)
    (hadm : op.Admissible l) : ∃ l', ReadyLog (step s op).1 l' := by
  cases hr : (step s op).2 with
  | error e =>
    have := C03_failed_unchanged s op e hr
    rw [this]; exact ⟨l, h⟩
  | ok ids =>
    have hst : step s op = ((step s op).1, .ok ids) := by rw [← hr]
    obtain ⟨x, h1, h2, h3⟩ := C03_step_annBackward s l op h.1 hadm h.2.1 h.2.2 _ ids hst
    exact ⟨x :: l, h1, h2, h3⟩

theorem readyLog_run (ops : List Op) : ∀ (s : Store) (l : List LEntry), ReadyLog s l →
    AdmissibleRun s ops → ∃ l', ReadyLog (run s ops) l' := by
  induction ops with
  | nil => intro s l h _; exact ⟨l, h⟩
  | cons op ops ih =>
    intro s l h hadm
    obtain ⟨l1, h1⟩ := readyLog_step s l op h (hadm.1 l h.1)
    simp only [run]
    exact ih _ l1 h1 hadm.2

theorem readyLog_empty : ReadyLog {} [] := by
  refine ⟨rfl, trivial, ?_⟩
  intro a ha; cases ha

/-- **Reading refines the list specification on every reachable log.**  For every finite sequence
of numbered recording operations whose annotations name at least one entry (the API gittuf itself
uses), from the empty repository, with any arguments, failures included: the store denotes a log
`l` and `GetLatestReferenceUpdaterEntry` with any options returns exactly what the declarative
specification says about `l`.  The hypotheses `IsLog` / `AnnBackward` of `C04_latest_refines` are
discharged by the C03 theorems, so no assumption about the repository remains. -/
theorem C04_latest_refines_reachable (ops : List Op) (hops : ∀ op ∈ ops, op.Named ∧ op.isLegacy = false)
    (o : Opts) :
    ∃ l, IsLog (run {} ops) l ∧ getLatestReferenceUpdaterEntry Fix.all o (run {} ops) = latestSpec o l := by
  obtain ⟨l, hl, hb, _⟩ := readyLog_run ops {} [] readyLog_empty (C03_numbered_admissible ops hops {})
  exact ⟨l, hl, C04_latest_refines o _ l hl hb⟩
/-- The same for `GetFirstReferenceUpdaterEntryForRef` / `GetFirstEntry`: on every non-empty log
recordable by numbered operations from the empty repository, the reader returns what the list
specification says (the oldest matching entry with every annotation of the log on it). -/
theorem C04_first_refines_reachable (ops : List Op) (hops : ∀ op ∈ ops, op.Named ∧ op.isLegacy = false)
    (ref : String) :
    ∃ l, IsLog (run {} ops) l ∧ ∀ x rest, l = x :: rest →
      getFirstReferenceUpdaterEntryForRef ref (run {} ops) = firstSpec ref (x :: rest) .notFound := by
  obtain ⟨l, hl, _, _⟩ := readyLog_run ops {} [] readyLog_empty (C03_numbered_admissible ops hops {})
  refine ⟨l, hl, fun x rest hx => ?_⟩
  subst hx
  have hl' := hl
  unfold IsLog at hl'
  cases ht : (run {} ops).tip with
  | none => rw [ht] at hl'; simp only at hl'; cases hl'
  | some t =>
    rw [ht] at hl'
    simp only at hl'
    obtain ⟨y, rest', hxl, hge, hst⟩ := hl'.steps
    cases hxl
    exact C04_first_refines ref (run {} ops) x rest .notFound (by simp [getLatestEntry, ht, hge]) hst
/-- non-vacuity: a two-operation history meets the hypothesis and its log is not empty -/
example : (∀ op ∈ [Op.reference "refs/heads/main" 8, Op.reference "refs/heads/feature" 9],
    op.Named ∧ op.isLegacy = false) ∧
    (run {} [Op.reference "refs/heads/main" 8, Op.reference "refs/heads/feature" 9]).tip ≠ none := by
  refine ⟨?_, by decide⟩
  intro op hop
  simp only [List.mem_cons, List.mem_nil_iff, or_false] at hop
  rcases hop with h | h <;> subst h <;> exact ⟨by simp [Op.Named], rfl⟩

end Gittuf.RSL
