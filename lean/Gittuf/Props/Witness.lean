/-
Kernel-evaluated witnesses: the concrete histories of the open findings F1-F4 and F7, on the
verification model.  For each: under the variant of the unchanged tree the model accepts a history
that violates the declarative property (`c01Sound` / `c02Sound`); under the repaired variant it
rejects it.  The same histories are replayed on the REAL code on every run (corpus/).
-/
import Gittuf.Spec.C02
import Gittuf.Spec.C07
namespace Gittuf
namespace World

def wRoot : Root := { rootKeys := [0], rootThreshold := 1, targetsKeys := [1], targetsThreshold := 1, signers := [0] }
def wFile : RuleFile := ⟨"targets", 1, [⟨1002, false, [2], []⟩, ⟨1003, false, [3], []⟩], [⟨"protect-main", ["git:refs/heads/main"], [1002], 1, false⟩, allowRule], [1]⟩
def wPol : Policy := ⟨wRoot, [wFile]⟩
def mainRef : String := "refs/heads/main"
def polEntry (i : Nat) : LogEntry := { kind := .ref, ref := policyRef, target := .policy i }
def push (c : Nat) (k : Nat) : LogEntry := { kind := .ref, ref := mainRef, target := .commit c, signer := some k }

/-- F1: an unrelated global rule + a push by a key outside the policy -/
def wF1 : World := {
  trees := [[("README", 1)]], commits := [⟨[], 0, some 8⟩],
  policies := [⟨{ wRoot with globals := [⟨"unrelated", true, ["git:refs/heads/unrelated"], 1⟩] }, [wFile]⟩], atts := [],
  log := [polEntry 0, push 0 8] }

theorem F1_witness :
    wF1.verifyRefFull Variant.current mainRef = .ok (some 0) ∧ wF1.c01Sound mainRef (some 0) = false ∧
    (wF1.verifyRefFull { Variant.current with f1_exhaustiveSatisfies := false } mainRef).isOk = false := by decide

/-- F2: a propagation entry for the protected branch recorded by an outsider -/
def wF2 : World := {
  trees := [[("README", 1)], [("README", 2)]], commits := [⟨[], 0, some 2⟩, ⟨[0], 1, some 8⟩],
  policies := [wPol], atts := [],
  log := [polEntry 0, push 0 2, { kind := .prop, ref := mainRef, target := .commit 1, signer := some 8 }] }

theorem F2_witness :
    wF2.verifyRefFull Variant.current mainRef = .ok (some 1) ∧ wF2.c01Sound mainRef (some 1) = false ∧
    (wF2.verifyRefFull { Variant.current with f2_propagationSkipped := false } mainRef).isOk = false := by decide

/-- F3: good A; bad B by an outsider; skip annotation; "fix" C by the outsider with A's tree -/
def wF3 : World := {
  trees := [[("README", 1)], [("README", 2)]],
  commits := [⟨[], 0, some 2⟩, ⟨[0], 1, some 8⟩, ⟨[1], 0, some 8⟩],
  policies := [wPol], atts := [],
  log := [polEntry 0, push 0 2, push 1 8, { kind := .ann, refs := [2], skip := true, signer := some 8 }, push 2 8] }

theorem F3_witness :
    wF3.verifyRefFull Variant.current mainRef = .ok (some 2) ∧ wF3.c01Sound mainRef (some 2) = false ∧
    wF3.c07Sound mainRef 1 4 = false ∧
    (wF3.verifyRefFull { Variant.current with f3_fixNotVerified := false } mainRef).isOk = false := by decide

/-- F4: a policy entry in range keeps the old root envelope, its rule file is signed by an outsider
and authorizes the outsider -/
def wFileForged : RuleFile := ⟨"targets", 2, [⟨1008, false, [8], []⟩], [⟨"protect-main", ["git:refs/heads/main"], [1008], 1, false⟩, allowRule], [8]⟩
def wF4 : World := {
  trees := [[("README", 1)], [("README", 2)]], commits := [⟨[], 0, some 2⟩, ⟨[0], 1, some 8⟩],
  policies := [wPol, ⟨wRoot, [wFileForged]⟩], atts := [],
  log := [polEntry 0, push 0 2, polEntry 1, push 1 8] }

theorem F4_witness :
    wF4.verifyRefFull Variant.current mainRef = .ok (some 1) ∧ wF4.c02Sound 1 3 = false ∧
    (wF4.verifyRef Variant.current mainRef).isOk = false ∧
    (wF4.verifyRefFull { Variant.current with f4_inRangeNotSelfVerified := false } mainRef).isOk = false := by decide

/-- F63: a file rule protects `src/*` (key 3), an unrelated global rule exists; one commit by key 2
changes `README` (unprotected, checked first) and `src/x`.  The exhaustive verifier "verifies" the
unprotected path, becomes the trusted verifier of the commit, and the protected path is waved through. -/
def wFile63 : RuleFile := ⟨"targets", 1, [⟨1002, false, [2], []⟩, ⟨1003, false, [3], []⟩],
  [⟨"protect-main", ["git:refs/heads/main"], [1002], 1, false⟩, ⟨"protect-src", ["file:src/*"], [1003], 1, false⟩, allowRule], [1]⟩
def wF63 : World := {
  trees := [[("README", 1), ("src/x", 2)]], commits := [⟨[], 0, some 2⟩],
  policies := [⟨{ wRoot with globals := [⟨"unrelated", true, ["git:refs/heads/unrelated"], 1⟩] }, [wFile63]⟩], atts := [],
  log := [polEntry 0, push 0 2] }

theorem F63_witness :
    wF63.verifyRefFull { Variant.good with f63_trustExhaustive := true, f64_shortcutSkipsGlobals := true } mainRef = .ok (some 0) ∧
    wF63.c01Sound mainRef (some 0) = false ∧
    (wF63.verifyRefFull Variant.good mainRef).isOk = false ∧
    -- without the global rule the defect does not arise
    (({ wF63 with policies := [⟨wRoot, [wFile63]⟩] } : World).verifyRefFull
        { Variant.good with f63_trustExhaustive := true, f64_shortcutSkipsGlobals := true } mainRef).isOk = false := by decide

/-- a history produced only by authorized actors verifies, and the property holds of it (non-vacuity) -/
def wGood : World := {
  trees := [[("README", 1)], [("README", 2)]], commits := [⟨[], 0, some 2⟩, ⟨[0], 1, some 2⟩],
  policies := [wPol], atts := [],
  log := [polEntry 0, push 0 2, push 1 2] }

theorem good_history_verifies :
    wGood.verifyRefFull Variant.good mainRef = .ok (some 1) ∧ wGood.c01Sound mainRef (some 1) = true ∧
    wGood.verifyRefFull Variant.current mainRef = .ok (some 1) ∧ wGood.c02Sound 1 2 = true := by decide

end World
end Gittuf
