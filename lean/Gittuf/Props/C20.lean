/-
C20 — property theorems: hook scripts stay inside the sandbox API and stop within their
timeout. Helper lemmas in Proofs/Sandbox.lean.
-/
import Gittuf.Proofs.Sandbox
namespace Gittuf
open Sandbox

/-- The executable check is sound for the declarative property: if `safeB g` holds, every node
reachable from the script-visible roots by any path of edges is inert data, a table, an
allow-listed library function or a registered API. For every finite graph. -/
theorem C20_safeB_sound (g : Graph) (h : safeB g = true) : Safe g := by
  intro i hi
  have hS := safeB_parts g h
  have hin : i ∈ reach g := reachable_in_closed g (reach g) hS.1 i hi
  have := hS.2 i hin
  unfold nodeAllowedB at this
  split at this
  · rename_i n hn; exact ⟨n, hn, this⟩
  · cases this

/-- `reach_closed`: for EVERY script, as a finite sequence of the abstract actions {follow an edge
out of a held value (read a global, index, metatable, `__index`, function environment, upvalue),
call a held allow-listed function on held arguments (result per capability summary), write into a
held table, setfenv}, every value the script ever holds lies in the closure `reach g` — provided
the computed closure is a closure (`closedB`, checked by `safeB`). Induction over the action
sequence; writes and setfenv only add edges between members of the closure. -/
theorem C20_reach_closed (g : Graph) (h : closedB g (reach g) = true) (as : List Action) :
    ∀ x ∈ (run g as).held, x ∈ reach g :=
  (run_inv g (reach g) h as).2.1

/-- Hence, if the check passes, every script only ever holds safe values. -/
theorem C20_script_holds_only_safe (g : Graph) (h : safeB g = true) (as : List Action) :
    ∀ x ∈ (run g as).held, ∃ n, g.node? x = some n ∧ allowedNode n = true := by
  intro x hx
  have hS := safeB_parts g h
  have := hS.2 x (C20_reach_closed g hS.1 as x hx)
  unfold nodeAllowedB at this
  split at this
  · rename_i n hn; exact ⟨n, hn, this⟩
  · cases this

/-- `closure_safe_snapshot`: on the environment graph extracted from the unchanged tree the check
passes (kernel evaluation of the closure over the 103-node graph), and the graph does contain
functions outside the allow-list (the module loaders kept in the registry) which the closure
excludes: the check is not vacuous. -/
theorem C20_closure_safe_snapshot : safeB snapshot = true ∧ hiddenDangerB snapshot = true := by
  have := snapshot_checks
  simp only [snapChecks, Bool.and_eq_true] at this
  exact ⟨this.1, this.2⟩

/-- The declarative property for the unchanged tree's environment. -/
theorem C20_snapshot_safe : Safe snapshot := C20_safeB_sound snapshot C20_closure_safe_snapshot.1

/-- ... and for every script run in it. -/
theorem C20_snapshot_scripts_safe (as : List Action) :
    ∀ x ∈ (run snapshot as).held, ∃ n, snapshot.node? x = some n ∧ allowedNode n = true :=
  C20_script_holds_only_safe snapshot C20_closure_safe_snapshot.1 as

/-- `tables_protected`, the part the code delivers: a non-raw write of an ABSENT key to a table
guarded by protectModule changes nothing. -/
theorem C20_tables_protected_partial (g : Graph) (es : List Edge) (t : Nat) (label : String)
    (v : Option Nat) (hp : isProt g t = true) (habs : hasField es t label = false) :
    writeEdges g es t label v false = es := by
  simp [writeEdges, hp, habs]

/-- The full statement `TablesProtected` is FALSE for the model of the code as it stands (finding
F30): `string.find = nil` is a raw overwrite of an existing key — `__newindex` is only consulted
for absent keys — so the edge `string --find--> strFind` of the unchanged tree's graph disappears. -/
theorem C20_F30_witness : ¬ TablesProtected snapshot := by
  intro h
  have := (h [f30Action] f30Edge (by decide)).mpr (by decide)
  revert this
  decide

/-- `timeout` in the interpreter-loop abstraction (context checked before every instruction, each
library call one atomic step): if no step lasts longer than `D`, the VM returns no later than
`deadline + D`. PARTIAL: the real duration of one Go library call (pattern matching: F32) and of
building the error after the stop (F33) is not bounded by any model; the harness measures it. -/
theorem C20_timeout_partial (deadline D : Nat) (prog : List Nat) (start : Nat)
    (hs : start ≤ deadline + D) (hd : ∀ d ∈ prog, d ≤ D) :
    (runVM deadline start prog).time ≤ deadline + D := by
  induction prog generalizing start with
  | nil => simpa [runVM] using hs
  | cons d rest ih =>
    unfold runVM
    split
    · exact hs
    · rename_i hlt
      apply ih
      · have := hd d (by simp); omega
      · intro x hx; exact hd x (by simp [hx])

/-- A script that runs to completion used exactly the sum of its steps ... -/
theorem C20_completed_time (deadline : Nat) (prog : List Nat) (start : Nat)
    (h : (runVM deadline start prog).completed = true) :
    (runVM deadline start prog).time = start + prog.sum := by
  induction prog generalizing start with
  | nil => simp [runVM]
  | cons d rest ih =>
    unfold runVM at h ⊢
    split
    · rename_i hle; simp [hle] at h
    · rename_i hlt
      simp only [hlt, if_false] at h
      rw [ih _ h]; simp [List.sum_cons]; omega

/-- ... so every script whose steps add up to more than `deadline + D` — in particular every
prefix of a non-terminating one — is cut by the deadline check. -/
theorem C20_long_script_is_stopped (deadline D : Nat) (prog : List Nat) (start : Nat)
    (hs : start ≤ deadline + D) (hd : ∀ d ∈ prog, d ≤ D) (hlong : deadline + D < start + prog.sum) :
    (runVM deadline start prog).completed = false := by
  cases hc : (runVM deadline start prog).completed with
  | false => rfl
  | true =>
    have h1 := C20_completed_time deadline prog start hc
    have h2 := C20_timeout_partial deadline D prog start hs hd
    omega

/-- The unconditional statement is false already in the abstraction: one long library call. -/
theorem C20_not_stopped_by_deadline : ¬ StoppedByDeadline := by
  intro h
  have := h 1 0 [10] (by decide)
  revert this
  decide

/-- `non_number_fails`: a script whose last result is not a number (or that returns nothing: the
parameters table is then on top of the stack) gets exit code 1. -/
theorem C20_non_number_fails (rets : List LVal)
    (h : ∀ n, (LVal.table :: rets).getLast? ≠ some (.num n)) : scriptExit rets = 1 := by
  unfold scriptExit
  split
  · rename_i n hn; exact absurd hn (h n)
  · rfl

/-- `hook_selection`: every hook that is run is a hook of the requested stage whose principal set
contains a principal of the applied policy owning the signer's key. -/
theorem C20_hooks_run_assigned (hooks : List Hook) (ps : List Principal) (key stage : Nat)
    (names : List String) (h : selectHooks hooks ps key stage = .run names) :
    ∀ name ∈ names, ∃ hk ∈ hooks, hk.name = name ∧ stage ∈ hk.stages ∧
      ∃ p ∈ ps, key ∈ p.keys ∧ p.id ∈ hk.principals := by
  unfold selectHooks at h
  split at h
  · cases h
  · split at h
    · cases h
    · rename_i p hp
      dsimp only at h
      split at h
      · cases h
      · injection h with h
        subst h
        intro name hname
        simp only [List.mem_map, List.mem_filter, Bool.and_eq_true, List.contains_iff_mem] at hname
        obtain ⟨hk, ⟨hmem, hst, hpr⟩, rfl⟩ := hname
        obtain ⟨hpm, hpk⟩ := selectPrincipal_some ps key p hp
        exact ⟨hk, hmem, rfl, hst, p, hpm, hpk, hpr⟩

/-- No hook runs for a signer whose key no principal of the policy owns. -/
theorem C20_unknown_signer_runs_nothing (hooks : List Hook) (ps : List Principal) (key stage : Nat)
    (h : ∀ p ∈ ps, key ∉ p.keys) : ∀ names, selectHooks hooks ps key stage ≠ .run names := by
  intro names hr
  have := C20_hooks_run_assigned hooks ps key stage names hr
  unfold selectHooks at hr
  split at hr
  · cases hr
  · split at hr
    · cases hr
    · rename_i p hp
      obtain ⟨hpm, hpk⟩ := selectPrincipal_some ps key p hp
      exact h p hpm hpk

/-! Non-vacuity -/

example : -- a script walks _G -> string -> find, calls getfenv(strSplit), holds only closure members
    (run snapshot [.follow ⟨1, "f:getfenv", (resolve snapshot 1 ["getfenv"]).getD 0⟩,
                   .follow ⟨1, "f:strSplit", (resolve snapshot 1 ["strSplit"]).getD 0⟩,
                   .call ((resolve snapshot 1 ["getfenv"]).getD 0) [(resolve snapshot 1 ["strSplit"]).getD 0] 1]).held.length = 5 := by
  decide

example : selectHooks [⟨"lint", [0], [1]⟩, ⟨"scan", [0, 1], [2]⟩, ⟨"push", [1], [1]⟩] [⟨1, [10]⟩, ⟨2, [11]⟩] 10 0
    = .run ["lint"] := by decide

example : scriptExit [.num 0, .str] = 1 ∧ scriptExit [] = 1 ∧ scriptExit [.str, .num 3] = 3 := by decide

example : (runVM 100 0 [30, 30, 30, 30, 30]).time = 120 ∧ (runVM 100 0 [30, 30, 30, 30, 30]).completed = false := by
  decide

end Gittuf
