/-
C08 — theorems about the persistent-cache model (Model/Cache.lean).
-/
import Gittuf.Model.Cache
namespace Gittuf

/-- Full statement: with a cache that lists every policy / attestation entry of the log and whose
checkpoints were written by successful FULL verifications, cached verification returns the verdict of
cache-less verification.  On the unchanged tree nothing establishes the hypothesis (F6, F29), so the
property is checked on the REAL code across cache configurations. -/
def World.C08_cached_eq_statement : Prop :=
  ∀ (W : World) (ref : String),
    (W.verifyRefFullC Variant.good W.populateCache ref).verdict = W.verifyRefFull Variant.good ref

namespace Cache

/-- inserting keeps exactly the old members plus the new one -/
theorem C08_insert_mem (l : List Nat) (i j : Nat) : j ∈ insertIdx l i ↔ j = i ∨ j ∈ l := by
  unfold insertIdx
  split
  · rename_i h
    constructor
    · intro hj; exact Or.inr hj
    · intro hj
      rcases hj with hj | hj
      · subst hj; simpa using h
      · exact hj
  · simp only [List.mem_append, List.mem_filter, List.mem_singleton, decide_eq_true_eq]
    constructor
    · rintro ((⟨h, _⟩ | h) | ⟨h, _⟩)
      · exact Or.inr h
      · exact Or.inl h
      · exact Or.inr h
    · rintro (h | h)
      · exact Or.inl (Or.inr h)
      · rcases Nat.lt_trichotomy j i with hlt | heq | hgt
        · exact Or.inl (Or.inl ⟨h, hlt⟩)
        · exact Or.inl (Or.inr heq)
        · exact Or.inr ⟨h, hgt⟩

/-- inserting keeps the index strictly ascending -/
theorem C08_insert_sorted (l : List Nat) (i : Nat) (h : l.Pairwise (· < ·)) :
    (insertIdx l i).Pairwise (· < ·) := by
  unfold insertIdx
  split
  · exact h
  · rw [List.pairwise_append, List.pairwise_append]
    refine ⟨⟨h.filter _, List.pairwise_singleton _ _, ?_⟩, h.filter _, ?_⟩
    · intro a ha b hb
      simp only [List.mem_filter, decide_eq_true_eq] at ha
      simp only [List.mem_singleton] at hb
      subst hb; exact ha.2
    · intro a ha b hb
      simp only [List.mem_filter, decide_eq_true_eq] at hb
      simp only [List.mem_append, List.mem_filter, List.mem_singleton, decide_eq_true_eq] at ha
      rcases ha with ⟨_, ha⟩ | ha
      · omega
      · subst ha; exact hb.2

/-- the lookup returns the greatest listed index not above the requested one (on an ascending index) -/
theorem C08_findFor_greatest (l : List Nat) (i j : Nat) (hs : l.Pairwise (· < ·))
    (h : findFor l i = some j) : j ∈ l ∧ j ≤ i ∧ ∀ k ∈ l, k ≤ i → k ≤ j := by
  unfold findFor at h
  split at h
  · rename_i hc
    cases h
    exact ⟨by simpa using hc, Nat.le_refl _, fun k _ hk => hk⟩
  · rename_i hc
    have hmem : j ∈ l.filter (· < i) := List.mem_of_getLast? h
    simp only [List.mem_filter, decide_eq_true_eq] at hmem
    refine ⟨hmem.1, Nat.le_of_lt hmem.2, ?_⟩
    intro k hk hki
    have hki' : k < i := by
      rcases Nat.lt_or_eq_of_le hki with h1 | h1
      · exact h1
      · subst h1; exact absurd (by simpa using hk) hc
    have hkf : k ∈ l.filter (· < i) := by simp [hk, hki']
    -- in an ascending list every member is ≤ the last one
    have hsf : (l.filter (· < i)).Pairwise (· < ·) := hs.filter _
    obtain ⟨pre, hpre⟩ : ∃ pre, l.filter (· < i) = pre ++ [j] := by
      have := List.getLast?_eq_some_iff.mp h
      exact this
    rw [hpre] at hkf hsf
    rcases List.mem_append.mp hkf with hkp | hkl
    · have := (List.pairwise_append.mp hsf).2.2 k hkp j (by simp)
      omega
    · simp at hkl; omega

/-! ### lifted to every insertion history (round 2) -/

theorem inserts_gen (is : List Nat) : ∀ l : List Nat, l.Pairwise (· < ·) →
    (is.foldl insertIdx l).Pairwise (· < ·) ∧ ∀ j, j ∈ is.foldl insertIdx l ↔ j ∈ is ∨ j ∈ l := by
  induction is with
  | nil => intro l h; exact ⟨h, fun j => by simp⟩
  | cons i is ih =>
    intro l h
    have := ih (insertIdx l i) (C08_insert_sorted l i h)
    refine ⟨this.1, fun j => ?_⟩
    simp only [List.foldl_cons, List.mem_cons]
    rw [this.2 j, C08_insert_mem]
    constructor
    · rintro (h | h | h)
      · exact .inl (.inr h)
      · exact .inl (.inl h)
      · exact .inr h
    · rintro ((h | h) | h)
      · exact .inr (.inl h)
      · exact .inl h
      · exact .inr (.inr h)

/-- After ANY sequence of insertions (any order, repetitions allowed) the index is strictly
ascending and lists exactly the inserted numbers. -/
theorem C08_inserts_sorted (is : List Nat) :
    (is.foldl insertIdx []).Pairwise (· < ·) ∧ ∀ j, j ∈ is.foldl insertIdx [] ↔ j ∈ is := by
  have := inserts_gen is [] List.Pairwise.nil
  exact ⟨this.1, fun j => by rw [this.2 j]; simp⟩

/-- Hence after any sequence of insertions a lookup returns the greatest inserted number not above
the requested one — never a later policy, never a stale one when a newer applicable one was inserted. -/
theorem C08_lookup_after_inserts (is : List Nat) (i j : Nat)
    (h : findFor (is.foldl insertIdx []) i = some j) : j ∈ is ∧ j ≤ i ∧ ∀ k ∈ is, k ≤ i → k ≤ j := by
  obtain ⟨hs, hm⟩ := C08_inserts_sorted is
  obtain ⟨h1, h2, h3⟩ := C08_findFor_greatest _ i j hs h
  exact ⟨(hm j).1 h1, h2, fun k hk hki => h3 k ((hm k).2 hk) hki⟩

theorem sorted_ext : ∀ (a b : List Nat), a.Pairwise (· < ·) → b.Pairwise (· < ·) →
    (∀ j, j ∈ a ↔ j ∈ b) → a = b := by
  intro a
  induction a with
  | nil =>
    intro b _ _ h
    cases b with
    | nil => rfl
    | cons y bs => exact absurd ((h y).2 List.mem_cons_self) (by simp)
  | cons x as ih =>
    intro b ha hb h
    cases b with
    | nil => exact absurd ((h x).1 List.mem_cons_self) (by simp)
    | cons y bs =>
      rw [List.pairwise_cons] at ha hb
      have hxy : x = y := by
        have h1 := (h x).1 List.mem_cons_self
        have h2 := (h y).2 List.mem_cons_self
        rw [List.mem_cons] at h1 h2
        rcases h1 with h1 | h1
        · exact h1
        · rcases h2 with h2 | h2
          · exact h2.symm
          · have := hb.1 x h1; have := ha.1 y h2; omega
      subst hxy
      congr 1
      refine ih bs ha.2 hb.2 (fun j => ⟨fun hj => ?_, fun hj => ?_⟩)
      · have := (h j).1 (List.mem_cons_of_mem _ hj)
        rw [List.mem_cons] at this
        rcases this with e | e
        · have := ha.1 j hj; omega
        · exact e
      · have := (h j).2 (List.mem_cons_of_mem _ hj)
        rw [List.mem_cons] at this
        rcases this with e | e
        · have := hb.1 j hj; omega
        · exact e

/-- The index does not depend on the order (or multiplicity) in which entries were inserted. -/
theorem C08_inserts_order_independent (is js : List Nat) (h : ∀ j, j ∈ is ↔ j ∈ js) :
    is.foldl insertIdx [] = js.foldl insertIdx [] := by
  obtain ⟨s1, m1⟩ := C08_inserts_sorted is
  obtain ⟨s2, m2⟩ := C08_inserts_sorted js
  exact sorted_ext _ _ s1 s2 (fun j => by rw [m1 j, m2 j, h j])

example : [7, 3, 7, 5].foldl insertIdx [] = [3, 5, 7] ∧ findFor ([7, 3, 7, 5].foldl insertIdx []) 6 = some 5 := by decide

end Cache

namespace World

/-- `PopulatePersistentCache` lists exactly the reference entries recorded for the policy ref -/
theorem C08_populate_policy (W : World) (j : Nat) :
    j ∈ W.populateCache.policy ↔ j < W.log.length ∧ W.isRefEntryFor policyRef j = true := by
  simp [populateCache, List.mem_filter, List.mem_range]

theorem C08_populate_sorted (W : World) : W.populateCache.policy.Pairwise (· < ·) := by
  unfold populateCache
  exact (List.pairwise_lt_range).filter _

/-! ### the two cache defects of the unchanged tree, on concrete histories -/

private def r0 : Root := { rootKeys := [0], rootThreshold := 1, targetsKeys := [1], targetsThreshold := 1, signers := [0] }
private def fileA : RuleFile := ⟨"targets", 1, [⟨1002, false, [2], []⟩], [⟨"protect-main", ["git:refs/heads/main"], [1002], 1, false⟩, allowRule], [1]⟩
private def fileB : RuleFile := ⟨"targets", 2, [⟨1003, false, [3], []⟩], [⟨"protect-main", ["git:refs/heads/main"], [1003], 1, false⟩, allowRule], [1]⟩
private def polA : Policy := ⟨r0, [fileA]⟩
private def polB : Policy := ⟨{ r0 with version := 2 }, [fileB]⟩

/-- policy A (key 2 may push), push by 2, policy B (only key 3), push by the de-authorized key 2 -/
private def wF6 : World := {
  trees := [[("a", 1)], [("a", 2)]], commits := [⟨[], 0, some 2⟩, ⟨[0], 1, some 2⟩],
  policies := [polA, polB], atts := [],
  log := [ { kind := .ref, ref := policyRef, target := .policy 0 },
           { kind := .ref, ref := "refs/heads/main", target := .commit 0, signer := some 2 },
           { kind := .ref, ref := policyRef, target := .policy 1 },
           { kind := .ref, ref := "refs/heads/main", target := .commit 1, signer := some 2 } ] }

/-- F6: a cache populated before the policy change makes latest-only verification accept the push
by the de-authorized key, which cache-less verification rejects. -/
theorem C08_F6_witness :
    (wF6.verifyRef Variant.current "refs/heads/main").isOk = false ∧
    (wF6.verifyRefC Variant.current (wF6.prefixAt 1).populateCache "refs/heads/main").verdict.isOk = true := by
  decide

/-- a violating first push by an outsider (key 8), then an authorized push -/
private def wF29 : World := {
  trees := [[("a", 1)], [("a", 2)]], commits := [⟨[], 0, some 8⟩, ⟨[0], 1, some 2⟩],
  policies := [polA], atts := [],
  log := [ { kind := .ref, ref := policyRef, target := .policy 0 },
           { kind := .ref, ref := "refs/heads/main", target := .commit 0, signer := some 8 },
           { kind := .ref, ref := "refs/heads/main", target := .commit 1, signer := some 2 } ] }

/-- F29: after a successful LATEST-ONLY verification has written its checkpoint, full verification
starts from that checkpoint and no longer sees the earlier violation. -/
theorem C08_F29_witness :
    (wF29.verifyRefFull Variant.current "refs/heads/main").isOk = false ∧
    (let c0 := wF29.populateCache
     let c1 := (wF29.verifyRefC Variant.current c0 "refs/heads/main").cache
     (wF29.verifyRefFullC Variant.current c1 "refs/heads/main").verdict.isOk) = true := by
  decide

end World
end Gittuf
