/-
C01 — property theorems about the verification model (Model/Verify.lean).
Status: the per-entry and whole-log soundness statements are kept at full strength as
`def … : Prop` (`C01_sound_statement`); what is proved so far is listed below.
-/
import Gittuf.Spec.C01
import Gittuf.Props.Witness
import Gittuf.Proofs.Loop
import Gittuf.Proofs.Entry
import Gittuf.Proofs.Authorized
import Gittuf.Proofs.InForce
namespace Gittuf
namespace World

/-- Full statement of C01 (soundness half) for the repaired variant: kept visible; it is
evaluated on every explored history by the driver (`c01Sound` on the implementation's answer). -/
def C01_sound_statement : Prop :=
  ∀ (W : World) (ref : String) (tip : Option Nat),
    W.verifyRefFull Variant.good ref = .ok tip → W.c01Sound ref tip = true

/-- The tip reported by a successful full verification is the target of the latest entry
recorded for the reference — for every history and every variant of the verifier. -/
theorem C01_tip_full (W : World) (v : Variant) (ref : String) (tip : Option Nat)
    (h : W.verifyRefFull v ref = .ok tip) :
    ∃ l, W.latestEntryFor ref = some l ∧ tip = (W.log[l]?).bind targetCommit := by
  unfold verifyRefFull at h
  split at h
  · rename_i f l hf hl
    refine ⟨l, hl, ?_⟩
    simp only [bind, Except.bind] at h
    split at h
    · cases h
    · simp only [pure, Except.pure] at h; cases h; rfl
  · cases h

theorem C01_tip_latest (W : World) (v : Variant) (ref : String) (tip : Option Nat)
    (h : W.verifyRef v ref = .ok tip) :
    ∃ l, W.latestEntryFor ref = some l ∧ tip = (W.log[l]?).bind targetCommit := by
  unfold verifyRef at h
  split at h
  · rename_i l hl
    refine ⟨l, hl, ?_⟩
    simp only [bind, Except.bind] at h
    split at h
    · cases h
    · simp only [pure, Except.pure] at h; cases h; rfl
  · cases h

/-- A reference without any entry never verifies. -/
theorem C01_no_entry (W : World) (v : Variant) (ref : String)
    (h : W.latestEntryFor ref = none) : ∃ e, W.verifyRefFull v ref = .error e := by
  unfold verifyRefFull
  split
  · rename_i f l hf hl; rw [h] at hl; cases hl
  · exact ⟨_, rfl⟩

/-- **What `verifyEntry`'s acceptance means** (every policy, attestation state, entry, variant): for
an entry of a branch, the approvals were looked up for exactly the change (reference, previous
target, tree of the new target) and the Git rule decision is the one of `verifyObject_accept`: the
reference is unprotected, or a consulted verifier is satisfied — a delegation rule met by at least
`threshold` distinct principals of its own, injectively credited through valid signatures over this
entry / this authorization or matched to code-review approvers (`RuleMet`), or, only while F1 is open
or when no delegation rule matches, the exhaustive verifier. -/
theorem C01_entry_accept (W : World) (v : Variant) (P : Policy) (A : Option AttState) (i : Nat) (e : LogEntry)
    (hne : (e.ref == policyRef || e.ref == attestationsRef) = false)
    (h : W.verifyEntry v P A i e = .ok ()) :
    ∃ tc ap vs, targetCommit e = some tc ∧
      approvalsFor v P A e.ref (W.fromId e.ref i) (W.treeOf tc) = .ok ap ∧
      P.findVerifiers ("git:" ++ e.ref) = some vs ∧
      (vs = [] ∨ ∃ vn ∈ vs, vn.v.exhaustive = true ∨
        ∃ acc, RuleMet P.allPrincipals ((P.root.apps.filter (·.trusted)).map (·.name)) ap.approvers vn
          (sigOf e.signer) ap.auth acc) := by
  unfold verifyEntry at h
  simp only [hne, Bool.false_eq_true, if_false] at h
  split at h
  · cases h
  · rename_i tc htc
    simp only [bind, Except.bind] at h
    split at h
    · cases h
    · rename_i ap hap
      split at h
      · cases h
      · rename_i res hres
        obtain ⟨vs, hvs, hmet⟩ := verifyObject_accept W v P _ _ _ ap res hres
        exact ⟨tc, ap, vs, htc, hap, hvs, hmet⟩

/-- **Acceptance of an entry implies the declarative authorization of Spec/C01 for its Git rule**
(F7 repaired; policy without global rules, so that no exhaustive verifier is involved; principals
well defined - unique ids, keys as defined, at most one trusted app): the rules consulted for
`git:<ref>` are empty, or some consulted rule has at least `threshold ≥ 1` principals that
*contributed* to exactly this change. Together with `C01_relative_sound` this is the soundness half of
C01 for the Git rule: every unrevoked entry of an accepted range is authorized, in the declarative
sense, by a policy state and an attestation state in force during the walk. -/
theorem C01_entry_authorized_git (W : World) (v : Variant) (hf7 : v.f7_ghPredicateNotValidated = false)
    (P : Policy) (At : AttState) (i : Nat) (e : LogEntry) (tc : Nat)
    (hne : (e.ref == policyRef || e.ref == attestationsRef) = false)
    (htc : targetCommit e = some tc) (hg : P.root.globals = [])
    (hwd : ∀ vs, P.findSpecific ("git:" ++ e.ref) = some vs → ∀ vn ∈ vs, vn.v.exhaustive = false ∧ WellDefined P vn)
    (h : W.verifyEntry v P (some At) i e = .ok ()) :
    pathAuthorized P (some At) ("git:" ++ e.ref) e.ref (W.fromId e.ref i) (W.treeOf tc) e.signer = true := by
  obtain ⟨tc', ap, vs, htc', hap, hvs, hmet⟩ := C01_entry_accept W v P (some At) i e hne h
  rw [htc] at htc'; cases htc'
  have hspec : P.findSpecific ("git:" ++ e.ref) = some vs := by
    unfold Policy.findVerifiers at hvs
    split at hvs
    · cases hvs
    · rename_i vs' hvs'
      simp only [hg, List.isEmpty_nil, if_true, Option.some.injEq] at hvs
      rw [hvs'] ; rw [hvs]
  unfold pathAuthorized
  simp only [hspec]
  rcases hmet with hemp | ⟨vn, hvn, hmet⟩
  · simp [hemp]
  · obtain ⟨hnex, hwdvn⟩ := hwd vs hspec vn hvn
    rcases hmet with hex | ⟨acc, hacc⟩
    · rw [hnex] at hex; cases hex
    · have hcount := ruleMet_count v hf7 P At e.ref (W.fromId e.ref i) (W.treeOf tc) e.signer ap hap vn hwdvn acc hacc
      have h1 : 1 ≤ vn.v.threshold := hacc.1
      simp only [Bool.or_eq_true, List.any_eq_true, Bool.and_eq_true, decide_eq_true_eq]
      right
      exact ⟨vn, hvn, h1, hcount⟩

/-- non-vacuity of the side conditions of `C01_entry_authorized_git`: the policy of the witness
histories satisfies them, and its authorized push is accepted -/
example : WellDefined wPol ⟨"protect-main", { principals := [⟨1002, [2]⟩], threshold := 1 }⟩ ∧
    wPol.findSpecific "git:refs/heads/main" = some [⟨"protect-main", { principals := [⟨1002, [2]⟩], threshold := 1 }⟩] ∧
    wGood.verifyEntry Variant.good wPol (some {}) 1 (push 0 2) = .ok () := by
  refine ⟨⟨by decide, by decide, by decide, by decide⟩, by decide, by decide⟩

/-- membership in the verified range: every reference-updater entry for `ref` recorded between the
first and the last entry of the range is in the queue the loop walks -/
theorem range_mem (W : World) (first last : Nat) (ref : String) (j : Nat) (e : LogEntry)
    (h1 : first ≤ j) (h2 : j ≤ last) (he : W.log[j]? = some e) (hu : isUpdater e = true) (hr : e.ref = ref) :
    j ∈ W.range first last ref := by
  unfold range
  rw [List.mem_filter]
  constructor
  · rw [List.mem_drop_iff_getElem]
    refine ⟨j - first, ?_, ?_⟩
    · simp only [List.length_range]; omega
    · simp only [List.getElem_range]; omega
  · simp [he, hu, hr]

/-- **C01 soundness of relative verification** (every history, range and variant): if
`VerifyRelativeForRef` accepts, every entry recorded for the (non-gittuf) reference between the first
and the last entry of the range is either revoked or was accepted by `verifyEntry` under a policy and
an attestation state that were in force during the walk.  Side conditions make the statement apply to
the unchanged tree as well: propagation entries verified (F2 repaired) or none in range; fix entry
verified (F3 repaired) or nothing revoked in range. -/
theorem C01_relative_sound (W : World) (v : Variant) (first last : Nat) (ref : String)
    (h2 : v.f2_propagationSkipped = false ∨ NoBranchProp W (W.range first last ref))
    (h3 : v.f3_fixNotVerified = false ∨ NoneSkipped W (W.range first last ref))
    (h : W.verifyRelative v first last ref = .ok ()) :
    ∃ st, ∀ j e, first ≤ j → j ≤ last → W.log[j]? = some e → isUpdater e = true → e.ref = ref →
      hasPrefix ref gittufPrefix = false → EntryOK W v st (W.range first last ref) j e := by
  unfold verifyRelative at h
  split at h
  · cases h
  · rename_i pol hpol
    split at h
    · cases h
    · rename_i att hatt
      refine ⟨{ policy := pol, att := att }, ?_⟩
      intro j e hj1 hj2 he hu hr hb
      have hmem := range_mem W first last ref j e hj1 hj2 he hu hr
      exact relLoop_sound_gen W v first _ _ _ h2 h3 h j hmem e he (hr ▸ hb)

/-- the same for full verification: the range is [first entry for ref, latest entry for ref] -/
theorem C01_full_sound (W : World) (v : Variant) (ref : String) (tip : Option Nat)
    (h : W.verifyRefFull v ref = .ok tip) :
    ∃ f l, W.firstFor ref = some f ∧ W.latestEntryFor ref = some l ∧
      ((v.f2_propagationSkipped = false ∨ NoBranchProp W (W.range f l ref)) →
       (v.f3_fixNotVerified = false ∨ NoneSkipped W (W.range f l ref)) →
       ∃ st, ∀ j e, f ≤ j → j ≤ l → W.log[j]? = some e → isUpdater e = true → e.ref = ref →
         hasPrefix ref gittufPrefix = false → EntryOK W v st (W.range f l ref) j e) := by
  unfold verifyRefFull at h
  split at h
  · rename_i f l hf hl
    refine ⟨f, l, hf, hl, ?_⟩
    intro h2 h3
    simp only [bind, Except.bind] at h
    split at h
    · cases h
    · rename_i hrel
      have : W.verifyRelative v f l ref = .ok () := by
        rename_i u
        cases u; exact hrel
      exact C01_relative_sound W v f l ref h2 h3 this
  · cases h

/-! ## The states in force are the ones recorded last before the entry -/

theorem range_mem_gittuf (W : World) (first last : Nat) (ref : String) (j : Nat) (e : LogEntry)
    (h1 : first ≤ j) (h2 : j ≤ last) (he : W.log[j]? = some e) (hu : isUpdater e = true)
    (hr : isRelevantGittufRef e.ref = true) :
    j ∈ W.range first last ref := by
  unfold range
  rw [List.mem_filter]
  constructor
  · rw [List.mem_drop_iff_getElem]
    refine ⟨j - first, ?_, ?_⟩
    · simp only [List.length_range]; omega
    · simp only [List.getElem_range]; omega
  · simp [he, hu, hr]

theorem range_sorted (W : World) (first last : Nat) (ref : String) :
    (W.range first last ref).Pairwise (· < ·) := by
  unfold range
  exact List.Pairwise.sublist (List.filter_sublist.trans (List.drop_sublist _ _)) List.pairwise_lt_range

theorem range_mem_spec (W : World) (first last : Nat) (ref : String) (j : Nat)
    (h : j ∈ W.range first last ref) :
    first ≤ j ∧ j ≤ last ∧ ∃ e, W.log[j]? = some e ∧ isUpdater e = true := by
  unfold range at h
  obtain ⟨hd, hp⟩ := List.mem_filter.mp h
  rw [List.mem_drop_iff_getElem] at hd
  obtain ⟨i, hi, hget⟩ := hd
  simp only [List.getElem_range] at hget
  simp only [List.length_range] at hi
  refine ⟨by omega, by omega, ?_⟩
  split at hp
  · cases hp
  · rename_i e he
    simp only [Bool.and_eq_true] at hp
    exact ⟨e, he, hp.1⟩

/-- the queue of `VerifyRelativeForRef` with the states it starts from satisfies the invariant of
the exact-state loop theorem -/
theorem range_SInv (W : World) (first last : Nat) (ref : String) (p0 : Option Policy)
    (a0 : Option AttState) :
    SInv W first last p0 a0 first (W.range first last ref) { policy := p0, att := a0 } := by
  refine ⟨Nat.le_refl _, range_sorted W first last ref, ?_, ?_, ?_, ?_, ?_⟩
  · intro k hk
    obtain ⟨h1, h2, _⟩ := range_mem_spec W first last ref k hk
    exact ⟨h1, h2⟩
  · intro k hk e he
    obtain ⟨_, _, e', he', hu⟩ := range_mem_spec W first last ref k hk
    rw [he] at he'; cases he'
    simpa [isUpdater] using hu
  · intro k hk1 hk2 hk3
    rcases hk3 with hk3 | hk3
    · unfold isPolK at hk3
      split at hk3
      · rename_i e he
        simp only [Bool.and_eq_true, beq_iff_eq] at hk3
        refine range_mem_gittuf W first last ref k e hk1 hk2 he (by simp [isUpdater, hk3.1.1]) ?_
        rw [hk3.1.2]; decide
      · cases hk3
    · unfold isAttK at hk3
      split at hk3
      · rename_i e he
        simp only [Bool.and_eq_true, beq_iff_eq] at hk3
        refine range_mem_gittuf W first last ref k e hk1 hk2 he (by simp [isUpdater, hk3.1.1]) ?_
        rw [hk3.1.2]; decide
      · cases hk3
  · show p0 = _
    unfold polInForce
    rw [lastBelow_none]
    intro k hk
    unfold isPolK
    split
    · have : ¬ first < k := by omega
      simp [this]
    · rfl
  · show a0 = _
    unfold attInForce
    rw [lastBelow_none]
    intro k hk
    unfold isAttK
    split
    · have : ¬ first ≤ k := by omega
      simp [this]
    · rfl

/-- **C01, "the policy state immediately preceding the entry"** (every history, range and
variant): if `VerifyRelativeForRef` accepts, every entry recorded for the (non-gittuf) reference in
the range was accepted by `verifyEntry` under exactly the policy state and the attestation state
recorded last before it in the log (inside the range; otherwise the states loaded for the first
entry of the range) — later or earlier states never legitimize it — or it is revoked, or it is the
fix of a revoked entry (verified under the states in force at that entry; not verified with defect
F3), or it is a propagation entry (defect F2). -/
theorem C01_relative_exact (W : World) (v : Variant) (first last : Nat) (ref : String)
    (hr : hasPrefix ref gittufPrefix = false)
    (h : W.verifyRelative v first last ref = .ok ()) :
    ∃ p0 a0, W.initialPolicy first = .ok p0 ∧ W.initialAtt first = .ok a0 ∧
      ∀ j e, first ≤ j → j ≤ last → W.log[j]? = some e → isUpdater e = true → e.ref = ref →
        ExactOK W v first p0 a0 j e := by
  unfold verifyRelative at h
  split at h
  · cases h
  · rename_i pol hpol
    split at h
    · cases h
    · rename_i att hatt
      refine ⟨pol, att, hpol, hatt, ?_⟩
      intro j e hj1 hj2 he hu href
      exact relLoop_exact_gen W v first last pol att _ _ _ first
        (range_SInv W first last ref pol att) h j
        (range_mem W first last ref j e hj1 hj2 he hu href) e he (href ▸ hr)

theorem lastBelow_spec (p : Nat → Bool) :
    ∀ (j k : Nat), lastBelow p j = some k → k < j ∧ p k = true ∧ ∀ x, k < x → x < j → p x = false := by
  intro j
  induction j with
  | zero => intro k h; simp [lastBelow, below] at h
  | succ j ih =>
    intro k h
    cases hp : p j with
    | true =>
      rw [lastBelow_step_pos p j hp] at h
      cases h
      exact ⟨by omega, hp, fun x h1 h2 => by omega⟩
    | false =>
      rw [lastBelow_step_neg p j hp] at h
      obtain ⟨h1, h2, h3⟩ := ih k h
      refine ⟨by omega, h2, ?_⟩
      intro x hx1 hx2
      by_cases hxj : x = j
      · subst hxj; exact hp
      · exact h3 x hx1 (by omega)

theorem lastBelow_of (p : Nat → Bool) (j k : Nat) (hk : k < j) (hpk : p k = true)
    (hb : ∀ x, k < x → x < j → p x = false) : lastBelow p j = some k := by
  rw [lastBelow_run' p (k + 1) j (by omega) (fun x h1 h2 => hb x (by omega) h2)]
  exact lastBelow_step_pos p k hpk

/-- inside the range, the policy state the walk holds at `j` is the declarative "policy state
recorded by the latest policy entry strictly before `j`" of Spec/C01 -/
theorem polInForce_eq_policyBefore (W : World) (first : Nat) (p0 : Option Policy) (j k : Nat) (P : Policy)
    (hpo : W.PolicyRefOnly)
    (hk : lastBelow (W.isPolK first) j = some k)
    (hP : W.polInForce first p0 j = some P) : W.policyBefore j = some P := by
  obtain ⟨hkj, hpk, hbetween⟩ := lastBelow_spec _ j k hk
  -- the unrestricted look-up of the spec finds the same entry
  have hlat : W.latestFor policyRef j = some k := by
    unfold latestFor
    refine lastBelow_of _ j k hkj ?_ ?_
    · unfold isPolK at hpk
      split at hpk
      · rename_i e he
        simp only [Bool.and_eq_true, beq_iff_eq] at hpk
        simp [he, isUpdater, hpk.1.1, hpk.1.2]
      · cases hpk
    · intro x hx1 hx2
      have hnot := hbetween x hx1 hx2
      obtain ⟨hfk, _⟩ : first < k ∧ True := by
        unfold isPolK at hpk
        split at hpk
        · simp only [Bool.and_eq_true, decide_eq_true_eq] at hpk; exact ⟨hpk.2, trivial⟩
        · cases hpk
      have hfx : first < x := by omega
      unfold isPolK at hnot
      cases he : W.log[x]? with
      | none => simp
      | some e =>
        rw [he] at hnot
        cases href : (e.ref == policyRef) with
        | false => simp [href]
        | true =>
          cases hux : isUpdater e with
          | false => simp [hux]
          | true =>
            have hkind := hpo x e he (by simpa using href) hux
            simp [hkind, href, hfx] at hnot
  unfold policyBefore
  rw [hlat]
  simp only [polInForce, hk] at hP
  cases hl : W.loadRaw k with
  | error x => rw [hl] at hP; simp at hP
  | ok Q =>
    rw [hl] at hP
    simp only [Option.some.injEq] at hP
    subst hP
    unfold loadRaw at hl
    split at hl
    · cases hl
    · rename_i Q' hQ'
      split at hl
      · cases hl
      · cases hl
        simp [hQ']

/-- inside the range, the attestation state the walk holds at `j` is the declarative "attestation
state recorded by the latest attestation entry strictly before `j`" of Spec/C01 -/
theorem attInForce_eq_attBefore (W : World) (first : Nat) (a0 : Option AttState) (j k : Nat)
    (hao : W.AttRefOnly)
    (hk : lastBelow (W.isAttK first) j = some k) :
    W.attInForce first a0 j = W.attBefore j := by
  obtain ⟨hkj, hpk, hbetween⟩ := lastBelow_spec _ j k hk
  have hlat : W.latestFor attestationsRef j = some k := by
    unfold latestFor
    refine lastBelow_of _ j k hkj ?_ ?_
    · unfold isAttK at hpk
      split at hpk
      · rename_i e he
        simp only [Bool.and_eq_true, beq_iff_eq] at hpk
        simp [he, isUpdater, hpk.1.1, hpk.1.2]
      · cases hpk
    · intro x hx1 hx2
      have hnot := hbetween x hx1 hx2
      obtain ⟨hfk, _⟩ : first ≤ k ∧ True := by
        unfold isAttK at hpk
        split at hpk
        · simp only [Bool.and_eq_true, decide_eq_true_eq] at hpk; exact ⟨hpk.2, trivial⟩
        · cases hpk
      have hfx : first ≤ x := by omega
      unfold isAttK at hnot
      cases he : W.log[x]? with
      | none => simp
      | some e =>
        rw [he] at hnot
        cases href : (e.ref == attestationsRef) with
        | false => simp [href]
        | true =>
          cases hux : isUpdater e with
          | false => simp [hux]
          | true =>
            have hkind := hao x e he (by simpa using href) hux
            simp [hkind, href, hfx] at hnot
  unfold attBefore
  rw [hlat]
  simp only [attInForce, hk, Option.bind_some]

/-- non-vacuity and exactness on a concrete history: policy 0 authorizes key 2, the in-range update
(entry 2) hands the branch to key 3.  The push by key 3 after the update is accepted, under the
state recorded by entry 2 and not under the earlier one; the same push by key 2 (authorized only
by the earlier state) is rejected. -/
def wFile2 : RuleFile := ⟨"targets", 2, [⟨1002, false, [2], []⟩, ⟨1003, false, [3], []⟩], [⟨"protect-main", ["git:refs/heads/main"], [1003], 1, false⟩, allowRule], [1]⟩
def wSwap : World := {
  trees := [[("README", 1)], [("README", 2)]], commits := [⟨[], 0, some 2⟩, ⟨[0], 1, some 3⟩],
  policies := [wPol, ⟨wRoot, [wFile2]⟩], atts := [],
  log := [polEntry 0, push 0 2, polEntry 1, push 1 3] }

example :
    wSwap.verifyRefFull Variant.good mainRef = .ok (some 1) ∧
    wSwap.polInForce 1 (some wPol) 3 = some ⟨wRoot, [wFile2]⟩ ∧
    wSwap.policyBefore 3 = some ⟨wRoot, [wFile2]⟩ ∧
    wSwap.verifyEntry Variant.good ⟨wRoot, [wFile2]⟩ none 3 (push 1 3) = .ok () ∧
    (wSwap.verifyEntry Variant.good wPol none 3 (push 1 3)).isOk = false ∧
    ({ wSwap with log := [polEntry 0, push 0 2, polEntry 1, push 1 2] } : World).verifyRefFull Variant.good mainRef
      = .error .verif := by decide

/-- the same for full verification: the range is [first entry for ref, latest entry for ref] -/
theorem C01_full_exact (W : World) (v : Variant) (ref : String) (tip : Option Nat)
    (hr : hasPrefix ref gittufPrefix = false)
    (h : W.verifyRefFull v ref = .ok tip) :
    ∃ f l p0 a0, W.firstFor ref = some f ∧ W.latestEntryFor ref = some l ∧
      W.initialPolicy f = .ok p0 ∧ W.initialAtt f = .ok a0 ∧
      ∀ j e, f ≤ j → j ≤ l → W.log[j]? = some e → isUpdater e = true → e.ref = ref →
        ExactOK W v f p0 a0 j e := by
  unfold verifyRefFull at h
  split at h
  · rename_i f l hf hl
    simp only [bind, Except.bind] at h
    split at h
    · cases h
    · rename_i u hrel
      have hrel' : W.verifyRelative v f l ref = .ok () := by cases u; exact hrel
      obtain ⟨p0, a0, h1, h2, h3⟩ := C01_relative_exact W v f l ref hr hrel'
      exact ⟨f, l, p0, a0, hf, hl, h1, h2, h3⟩
  · cases h

end World
end Gittuf
