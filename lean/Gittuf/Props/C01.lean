/-
C01 — property theorems about the verification model (Model/Verify.lean).
Status: the per-entry and whole-log soundness statements are kept at full strength as
`def … : Prop` (`C01_sound_statement`); what is proved so far is listed below.
-/
import Gittuf.Spec.C01
import Gittuf.Props.Witness
import Gittuf.Proofs.Loop
import Gittuf.Proofs.Entry
import Gittuf.Proofs.Authorized
namespace Gittuf
namespace World

/-- Full statement of C01 (soundness half) for the repaired variant: kept visible; it is
evaluated on every explored history by the driver (`c01Sound` on the implementation's answer). -/
def C01_sound_statement : Prop :=
  ∀ (W : World) (ref : String) (tip : Option Nat),
    W.verifyRefFull Variant.good ref = .ok tip → W.c01Sound ref tip = true

/-- The tip reported by a successful full verification is the target of the latest entry
recorded for the reference — for every history and every variant of the verifier. -/
theorem C01_tip_full (W : World) (v : Variant) (ref : String) (tip : Option Nat)
    (h : W.verifyRefFull v ref = .ok tip) :
    ∃ l, W.latestEntryFor ref = some l ∧ tip = (W.log[l]?).bind targetCommit := by
  unfold verifyRefFull at h
  split at h
  · rename_i f l hf hl
    refine ⟨l, hl, ?_⟩
    simp only [bind, Except.bind] at h
    split at h
    · cases h
    · simp only [pure, Except.pure] at h; cases h; rfl
  · cases h

theorem C01_tip_latest (W : World) (v : Variant) (ref : String) (tip : Option Nat)
    (h : W.verifyRef v ref = .ok tip) :
    ∃ l, W.latestEntryFor ref = some l ∧ tip = (W.log[l]?).bind targetCommit := by
  unfold verifyRef at h
  split at h
  · rename_i l hl
    refine ⟨l, hl, ?_⟩
    simp only [bind, Except.bind] at h
    split at h
    · cases h
    · simp only [pure, Except.pure] at h; cases h; rfl
  · cases h

/-- A reference without any entry never verifies. -/
theorem C01_no_entry (W : World) (v : Variant) (ref : String)
    (h : W.latestEntryFor ref = none) : ∃ e, W.verifyRefFull v ref = .error e := by
  unfold verifyRefFull
  split
  · rename_i f l hf hl; rw [h] at hl; cases hl
  · exact ⟨_, rfl⟩

/-- **What `verifyEntry`'s acceptance means** (every policy, attestation state, entry, variant): for
an entry of a branch, the approvals were looked up for exactly the change (reference, previous
target, tree of the new target) and the Git rule decision is the one of `verifyObject_accept`: the
reference is unprotected, or a consulted verifier is satisfied — a delegation rule met by at least
`threshold` distinct principals of its own, injectively credited through valid signatures over this
entry / this authorization or matched to code-review approvers (`RuleMet`), or, only while F1 is open
or when no delegation rule matches, the exhaustive verifier. -/
theorem C01_entry_accept (W : World) (v : Variant) (P : Policy) (A : Option AttState) (i : Nat) (e : LogEntry)
    (hne : (e.ref == policyRef || e.ref == attestationsRef) = false)
    (h : W.verifyEntry v P A i e = .ok ()) :
    ∃ tc ap vs, targetCommit e = some tc ∧
      approvalsFor v P A e.ref (W.fromId e.ref i) (W.treeOf tc) = .ok ap ∧
      P.findVerifiers ("git:" ++ e.ref) = some vs ∧
      (vs = [] ∨ ∃ vn ∈ vs, vn.v.exhaustive = true ∨
        ∃ acc, RuleMet P.allPrincipals ((P.root.apps.filter (·.trusted)).map (·.name)) ap.approvers vn
          (sigOf e.signer) ap.auth acc) := by
  unfold verifyEntry at h
  simp only [hne, Bool.false_eq_true, if_false] at h
  split at h
  · cases h
  · rename_i tc htc
    simp only [bind, Except.bind] at h
    split at h
    · cases h
    · rename_i ap hap
      split at h
      · cases h
      · rename_i res hres
        obtain ⟨vs, hvs, hmet⟩ := verifyObject_accept W v P _ _ _ ap res hres
        exact ⟨tc, ap, vs, htc, hap, hvs, hmet⟩

/-- **Acceptance of an entry implies the declarative authorization of Spec/C01 for its Git rule**
(F7 repaired; policy without global rules, so that no exhaustive verifier is involved; principals
well defined - unique ids, keys as defined, at most one trusted app): the rules consulted for
`git:<ref>` are empty, or some consulted rule has at least `threshold ≥ 1` principals that
*contributed* to exactly this change. Together with `C01_relative_sound` this is the soundness half of
C01 for the Git rule: every unrevoked entry of an accepted range is authorized, in the declarative
sense, by a policy state and an attestation state in force during the walk. -/
theorem C01_entry_authorized_git (W : World) (v : Variant) (hf7 : v.f7_ghPredicateNotValidated = false)
    (P : Policy) (At : AttState) (i : Nat) (e : LogEntry) (tc : Nat)
    (hne : (e.ref == policyRef || e.ref == attestationsRef) = false)
    (htc : targetCommit e = some tc) (hg : P.root.globals = [])
    (hwd : ∀ vs, P.findSpecific ("git:" ++ e.ref) = some vs → ∀ vn ∈ vs, vn.v.exhaustive = false ∧ WellDefined P vn)
    (h : W.verifyEntry v P (some At) i e = .ok ()) :
    pathAuthorized P (some At) ("git:" ++ e.ref) e.ref (W.fromId e.ref i) (W.treeOf tc) e.signer = true := by
  obtain ⟨tc', ap, vs, htc', hap, hvs, hmet⟩ := C01_entry_accept W v P (some At) i e hne h
  rw [htc] at htc'; cases htc'
  have hspec : P.findSpecific ("git:" ++ e.ref) = some vs := by
    unfold Policy.findVerifiers at hvs
    split at hvs
    · cases hvs
    · rename_i vs' hvs'
      simp only [hg, List.isEmpty_nil, if_true, Option.some.injEq] at hvs
      rw [hvs'] ; rw [hvs]
  unfold pathAuthorized
  simp only [hspec]
  rcases hmet with hemp | ⟨vn, hvn, hmet⟩
  · simp [hemp]
  · obtain ⟨hnex, hwdvn⟩ := hwd vs hspec vn hvn
    rcases hmet with hex | ⟨acc, hacc⟩
    · rw [hnex] at hex; cases hex
    · have hcount := ruleMet_count v hf7 P At e.ref (W.fromId e.ref i) (W.treeOf tc) e.signer ap hap vn hwdvn acc hacc
      have h1 : 1 ≤ vn.v.threshold := hacc.1
      simp only [Bool.or_eq_true, List.any_eq_true, Bool.and_eq_true, decide_eq_true_eq]
      right
      exact ⟨vn, hvn, h1, hcount⟩

/-- non-vacuity of the side conditions of `C01_entry_authorized_git`: the policy of the witness
histories satisfies them, and its authorized push is accepted -/
example : WellDefined wPol ⟨"protect-main", { principals := [⟨1002, [2]⟩], threshold := 1 }⟩ ∧
    wPol.findSpecific "git:refs/heads/main" = some [⟨"protect-main", { principals := [⟨1002, [2]⟩], threshold := 1 }⟩] ∧
    wGood.verifyEntry Variant.good wPol (some {}) 1 (push 0 2) = .ok () := by
  refine ⟨⟨by decide, by decide, by decide, by decide⟩, by decide, by decide⟩

/-- membership in the verified range: every reference-updater entry for `ref` recorded between the
first and the last entry of the range is in the queue the loop walks -/
theorem range_mem (W : World) (first last : Nat) (ref : String) (j : Nat) (e : LogEntry)
    (h1 : first ≤ j) (h2 : j ≤ last) (he : W.log[j]? = some e) (hu : isUpdater e = true) (hr : e.ref = ref) :
    j ∈ W.range first last ref := by
  unfold range
  rw [List.mem_filter]
  constructor
  · rw [List.mem_drop_iff_getElem]
    refine ⟨j - first, ?_, ?_⟩
    · simp only [List.length_range]; omega
    · simp only [List.getElem_range]; omega
  · simp [he, hu, hr]

/-- **C01 soundness of relative verification** (every history, range and variant): if
`VerifyRelativeForRef` accepts, every entry recorded for the (non-gittuf) reference between the first
and the last entry of the range is either revoked or was accepted by `verifyEntry` under a policy and
an attestation state that were in force during the walk.  Side conditions make the statement apply to
the unchanged tree as well: propagation entries verified (F2 repaired) or none in range; fix entry
verified (F3 repaired) or nothing revoked in range. -/
theorem C01_relative_sound (W : World) (v : Variant) (first last : Nat) (ref : String)
    (h2 : v.f2_propagationSkipped = false ∨ NoBranchProp W (W.range first last ref))
    (h3 : v.f3_fixNotVerified = false ∨ NoneSkipped W (W.range first last ref))
    (h : W.verifyRelative v first last ref = .ok ()) :
    ∃ st, ∀ j e, first ≤ j → j ≤ last → W.log[j]? = some e → isUpdater e = true → e.ref = ref →
      hasPrefix ref gittufPrefix = false → EntryOK W v st (W.range first last ref) j e := by
  unfold verifyRelative at h
  split at h
  · cases h
  · rename_i pol hpol
    split at h
    · cases h
    · rename_i att hatt
      refine ⟨{ policy := pol, att := att }, ?_⟩
      intro j e hj1 hj2 he hu hr hb
      have hmem := range_mem W first last ref j e hj1 hj2 he hu hr
      exact relLoop_sound_gen W v first _ _ _ h2 h3 h j hmem e he (hr ▸ hb)

/-- the same for full verification: the range is [first entry for ref, latest entry for ref] -/
theorem C01_full_sound (W : World) (v : Variant) (ref : String) (tip : Option Nat)
    (h : W.verifyRefFull v ref = .ok tip) :
    ∃ f l, W.firstFor ref = some f ∧ W.latestEntryFor ref = some l ∧
      ((v.f2_propagationSkipped = false ∨ NoBranchProp W (W.range f l ref)) →
       (v.f3_fixNotVerified = false ∨ NoneSkipped W (W.range f l ref)) →
       ∃ st, ∀ j e, f ≤ j → j ≤ l → W.log[j]? = some e → isUpdater e = true → e.ref = ref →
         hasPrefix ref gittufPrefix = false → EntryOK W v st (W.range f l ref) j e) := by
  unfold verifyRefFull at h
  split at h
  · rename_i f l hf hl
    refine ⟨f, l, hf, hl, ?_⟩
    intro h2 h3
    simp only [bind, Except.bind] at h
    split at h
    · cases h
    · rename_i hrel
      have : W.verifyRelative v f l ref = .ok () := by
        rename_i u
        cases u; exact hrel
      exact C01_relative_sound W v f l ref h2 h3 this
  · cases h

end World
end Gittuf
