/-
C01 — property theorems about the verification model (Model/Verify.lean).
Status: the per-entry and whole-log soundness statements are kept at full strength as
`def … : Prop` (`C01_sound_statement`); what is proved so far is listed below.
-/
import Gittuf.Spec.C01
import Gittuf.Props.Witness
namespace Gittuf
namespace World

/-- Full statement of C01 (soundness half) for the repaired variant: kept visible; it is
evaluated on every explored history by the driver (`c01Sound` on the implementation's answer). -/
def C01_sound_statement : Prop :=
  ∀ (W : World) (ref : String) (tip : Option Nat),
    W.verifyRefFull Variant.good ref = .ok tip → W.c01Sound ref tip = true

/-- The tip reported by a successful full verification is the target of the latest entry
recorded for the reference — for every history and every variant of the verifier. -/
theorem C01_tip_full (W : World) (v : Variant) (ref : String) (tip : Option Nat)
    (h : W.verifyRefFull v ref = .ok tip) :
    ∃ l, W.latestEntryFor ref = some l ∧ tip = (W.log[l]?).bind targetCommit := by
  unfold verifyRefFull at h
  split at h
  · rename_i f l hf hl
    refine ⟨l, hl, ?_⟩
    simp only [bind, Except.bind] at h
    split at h
    · cases h
    · simp only [pure, Except.pure] at h; cases h; rfl
  · cases h

theorem C01_tip_latest (W : World) (v : Variant) (ref : String) (tip : Option Nat)
    (h : W.verifyRef v ref = .ok tip) :
    ∃ l, W.latestEntryFor ref = some l ∧ tip = (W.log[l]?).bind targetCommit := by
  unfold verifyRef at h
  split at h
  · rename_i l hl
    refine ⟨l, hl, ?_⟩
    simp only [bind, Except.bind] at h
    split at h
    · cases h
    · simp only [pure, Except.pure] at h; cases h; rfl
  · cases h

/-- A reference without any entry never verifies. -/
theorem C01_no_entry (W : World) (v : Variant) (ref : String)
    (h : W.latestEntryFor ref = none) : ∃ e, W.verifyRefFull v ref = .error e := by
  unfold verifyRefFull
  split
  · rename_i f l hf hl; rw [h] at hl; cases hl
  · exact ⟨_, rfl⟩

end World
end Gittuf
