/-
C16 — a storage failure at any step leaves the log valid and the managed references
consistent.  Model: Gittuf/Model/Script.lean (`runFault`, `runCrash`); store-level
predicates: Gittuf/Spec/C16.lean.
-/
import Gittuf.Spec.C16
namespace Gittuf.Script

-- ---- starting stores -------------------------------------------------------------------

/-- empty repository. -/
def s0 : Store := Store.empty

/-- first-ever: two branch entries in the log, nothing under refs/gittuf/ except the log. -/
def s1 : Store :=
  { commits := [ { parents := [], payload := .refEntry (.branch 1) 100001 1, owner := 0 },
                 { parents := [0], payload := .refEntry (.branch 1) 100002 2, owner := 0 } ],
    refs := [(.rsl, 1)] }

/-- first-ever Apply: s1 + a staged policy (object 2) with its entry (3). -/
def s2 : Store :=
  { commits := s1.commits ++
      [ { parents := [], payload := .tree 1, owner := 0 },
        { parents := [1], payload := .refEntry .staging 2 3, owner := 0 } ],
    refs := [(.rsl, 3), (.staging, 2)] }

/-- established: policy applied (entry 4), attestations (object 5, entry 6). -/
def s3 : Store :=
  { commits := s2.commits ++
      [ { parents := [3], payload := .refEntry .policy 2 4, owner := 0 },
        { parents := [], payload := .tree 7, owner := 0 },
        { parents := [4], payload := .refEntry .attest 5 5, owner := 0 } ],
    refs := [(.rsl, 6), (.staging, 2), (.policy, 2), (.attest, 5)] }

/-- policy ahead of staging: object 7 (child of 2) published on the policy ref (entry 8). -/
def s4 : Store :=
  { commits := s3.commits ++
      [ { parents := [2], payload := .tree 2, owner := 0 },
        { parents := [6], payload := .refEntry .policy 7 6, owner := 0 } ],
    refs := [(.rsl, 8), (.staging, 2), (.policy, 7), (.attest, 5)] }

example : s0.consistent = true ∧ s1.consistent = true ∧ s2.consistent = true ∧ s3.consistent = true ∧ s4.consistent = true := by
  decide

/-- the operations under test, by name. -/
def ops (v : Variant) : List Prog :=
  [ recordEntry v (.branch 7) 99999 [] (.ret .err) (fun _ => .ret .ok),
    stage v 900, attest v 950, discard, reconcile v 901, apply v 901 ]

/-- number of calls of the uninterrupted run. -/
def nCalls (p : Prog) (s : Store) : Nat := (run 1 p s).trace.length

/-- judgement of one faulted run (call `k` fails with flavour `fl`) on the model:
error reported, log a valid chain extending the old one, references unchanged or matching
their latest entry, and the retry reaches the state of the uninterrupted run. -/
def faultOK (p : Prog) (s : Store) (k : Nat) (fl : Flavour) : Bool :=
  let o := runFault 1 (some (k, fl)) p s 0 []
  let o0 := run 1 p s
  let o2 := run 1 p o.store
  (o.res != some .ok) && chainOKB o.store.nodes && s.nodes.isSuffixOf o.store.nodes &&
  Store.refsVs s o.store &&
  (o2.res == o0.res && o2.store.nodes == o0.store.nodes &&
    [Ref.policy, Ref.staging, Ref.attest].all fun r =>
      (o2.store.get r).map (fun c => (o2.store.commit? c).map (·.payload)) ==
      (o0.store.get r).map (fun c => (o0.store.commit? c).map (·.payload)) &&
      (o2.store.get r).map (fun c => (o2.store.chainFrom 99 c).length) ==
      (o0.store.get r).map (fun c => (o0.store.chainFrom 99 c).length))

def crashOK (p : Prog) (s : Store) (n : Nat) : Bool :=
  let o := runCrash 1 n p s []
  let o0 := run 1 p s
  chainOKB o.store.nodes && s.nodes.isSuffixOf o.store.nodes && o.store.nodes.isSuffixOf o0.store.nodes

/-- the fault points of an operation from a store: every call index of the uninterrupted run,
failing plainly; look-up macro calls also failing at one of their GetCommitMessage reads. -/
def faultPoints (p : Prog) (s : Store) : List (Nat × Flavour) :=
  (run 1 p s).trace.zipIdx.flatMap fun (c, i) =>
    match c with
    | .lookup _ => [(i, .hard), (i, .soft)]
    | _ => [(i, .hard)]

/-- the same without the reads of the tip's message by setEntryNumber (F51). -/
def faultPointsNoMsg (p : Prog) (s : Store) : List (Nat × Flavour) :=
  (run 1 p s).trace.zipIdx.flatMap fun (c, i) =>
    match c with
    | .getMsg _ => []
    | _ => [(i, .hard)]

/-- **C16 full statement (fault part)**: for the repaired variant, every operation, every
consistent starting store, every call index and failure flavour. -/
def fault_statement : Prop :=
  ∀ (s : Store) (p : Prog) (k : Nat) (fl : Flavour), s.consistent = true → p ∈ ops Variant.fixed →
    (k, fl) ∈ faultPoints p s → faultOK p s k fl = true

/-- **C16 full statement (crash part)**, either variant. -/
def crash_statement : Prop :=
  ∀ (s : Store) (v : Variant) (p : Prog) (n : Nat), s.consistent = true → p ∈ ops v → crashOK p s n = true

/-- **fault_reports / fault_chain / fault_refs / fault_retry (partial: the five starting stores
empty / first-ever / first-ever Apply / established / policy-ahead, every operation, EVERY call
index k and both failure flavours), repaired variant** (rollback also when there was no previous
tip; ReconcileStaging rolls back; a failing GetCommitMessage is an error). -/
theorem fault_all_partial :
    ∀ s ∈ [s0, s1, s2, s3, s4], ∀ p ∈ ops Variant.fixed, ∀ x ∈ faultPoints p s, faultOK p s x.1 x.2 = true := by
  decide +kernel

/-- **fault_* for the code as it stands, where it is true**: on the ESTABLISHED store (previous
tips non-zero) every failure of every call other than setEntryNumber's GetCommitMessage (F51) of record / State.Commit / Attestations.Commit /
Discard / Apply is reported, leaves a valid chain and consistent references, and the retry
reaches the state of the uninterrupted run. -/
theorem fault_established_code :
    ∀ p ∈ [ recordEntry .code (.branch 7) 99999 [] (.ret .err) (fun _ => .ret .ok), stage .code 900, attest .code 950, discard, apply .code 901 ],
      ∀ x ∈ faultPointsNoMsg p s3, faultOK p s3 x.1 x.2 = true := by
  decide +kernel

/-- **crash_chain (partial: the five starting stores, every operation, every stopping point),
the code as it stands**: the log is a valid chain, extends the old log and is a prefix of the
log of the uninterrupted run. -/
theorem crash_chain_partial :
    ∀ s ∈ [s0, s1, s2, s3, s4], ∀ p ∈ ops Variant.code, ∀ n ∈ List.range (nCalls p s + 1), crashOK p s n = true := by
  decide +kernel

/-- **F13 witnesses** (code as it stands): the log write fails (last call) during the first-ever
State.Commit on an empty repository / first-ever Attestations.Commit / first-ever Apply: the
error is reported but the reference stays set with no entry. -/
theorem fault_F13_witness :
    (let o := runFault 1 (some (nCalls (stage .code 900) s0 - 1, .hard)) (stage .code 900) s0 0 []
     o.res = some .err ∧ o.store.get .staging ≠ none ∧ o.store.latestFor .staging = none) ∧
    (let o := runFault 1 (some (nCalls (attest .code 950) s1 - 1, .hard)) (attest .code 950) s1 0 []
     o.res = some .err ∧ o.store.get .attest ≠ none ∧ o.store.latestFor .attest = none) ∧
    (let o := runFault 1 (some (nCalls (apply .code 901) s2 - 1, .hard)) (apply .code 901) s2 0 []
     o.res = some .err ∧ o.store.get .policy ≠ none ∧ o.store.latestFor .policy = none ∧
     -- and the retried Apply refuses (ErrInvalidPolicy)
     (run 1 (apply .code 901) o.store).res = some .invalidPolicy) := by
  decide

/-- **F50 witness**: ReconcileStaging with policy ahead of staging; the log write fails: staging
has moved, no entry, and the retry refuses. -/
theorem fault_F50_witness :
    let o := runFault 1 (some (nCalls (reconcile .code 901) s4 - 1, .hard)) (reconcile .code 901) s4 0 []
    o.res = some .err ∧ o.store.get .staging = some 7 ∧ (o.store.latestFor .staging).map (·.2) = some 2 ∧
    (run 1 (reconcile .code 901) o.store).res = some .invalidPolicy := by
  decide

/-- **F51 witness**: recording on a log of two entries; GetCommitMessage of the tip fails (call
index 1): the operation reports SUCCESS and the new entry carries number 1: the chain is invalid. -/
theorem fault_F51_witness :
    let p := recordEntry .code (.branch 7) 99999 [] (.ret .err) (fun _ => .ret .ok)
    let o := runFault 1 (some (1, .hard)) p s1 0 []
    o.res = some .ok ∧ o.store.nodes.map (·.number) = [1, 2, 1] ∧ chainOKB o.store.nodes = false := by
  decide

end Gittuf.Script
