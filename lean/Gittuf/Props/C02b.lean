/-
C02 — whole-loop theorem: every policy entry inside a range that verification accepts extends the
chain of trust from exactly the policy state in force before it.
-/
import Gittuf.Props.C02
import Gittuf.Props.C01
import Gittuf.Proofs.ChainLoop
namespace Gittuf
namespace World

/-- **C02 for relative verification** (every history, range, reference and variant; every
verification mode is a call of `VerifyRelativeForRef`): if verification accepts, every policy
entry recorded inside the range — also one the recovery branch set aside and re-queued — loads, its
root is signed by a threshold of distinct root keys of the policy state in force immediately before
it, no version number decreases and no rule file disappears with respect to that state, and (F4
repaired) its primary rule file is signed by the threshold its own root names and every delegated
rule file was reached through, and accepted by the verifier of, a rule of that name. -/
theorem C02_relative_chain (W : World) (v : Variant) (first last : Nat) (ref : String)
    (h : W.verifyRelative v first last ref = .ok ()) :
    ∃ p0, W.initialPolicy first = .ok p0 ∧
      ∀ k e, first < k → k ≤ last → W.log[k]? = some e → e.kind = .ref → e.ref = policyRef →
        ∃ newP, W.loadRaw k = .ok newP ∧
          (∀ cur, W.polInForce first p0 k = some cur →
            rootSignedBy cur.root newP.root = true ∧ versionsOK cur newP = true) ∧
          (v.f4_inRangeNotSelfVerified = false →
            primarySigned newP = true ∧
            ∀ f ∈ newP.delegated, ∃ (d : Rule) (defs' : List PrincipalSpec) (f' : RuleFile) (S : List PId),
              d.name = f.name ∧ newP.file? f.name = some f' ∧
              Verifier.verify { principals := lookupPrincipals defs' d.principals, threshold := d.threshold }
                none 0 (some (envelopeOf f'.signers)) = .ok S) := by
  unfold verifyRelative at h
  split at h
  · cases h
  · rename_i pol hpol
    split at h
    · cases h
    · rename_i att hatt
      refine ⟨pol, hpol, ?_⟩
      intro k e hk1 hk2 he hkind href
      have hmem : k ∈ W.range first last ref :=
        range_mem_gittuf W first last ref k e (by omega) hk2 he (by simp [isUpdater, hkind])
          (by rw [href]; decide)
      have hpk : W.isPolK first k = true := by
        simp [isPolK, he, hkind, href, hk1]
      obtain ⟨newP, hload, hchain, hself⟩ := relLoop_chain_gen W v first last pol att _ _ _ first
        (range_SInv W first last ref pol att) h k hmem hpk
      refine ⟨newP, hload, ?_, ?_⟩
      · intro cur hcur
        have := hchain cur hcur
        exact ⟨C02_newState_root_signed _ _ this, C02_newState_versions _ _ this⟩
      · intro hf4
        have := hself hf4
        exact ⟨C02_verify_primary_signed _ this, C02_verify_delegations _ this⟩

/-- non-vacuity: the F4 witness history.  With F4 repaired the forged in-range policy entry makes
verification fail; a properly signed hand-over (`wSwap` of Props/C01) is accepted. -/
example :
    (wF4.verifyRefFull Variant.good mainRef).isOk = false ∧
    wSwap.verifyRefFull Variant.good mainRef = .ok (some 1) ∧
    wSwap.isPolK 1 2 = true ∧ wSwap.polInForce 1 (some wPol) 2 = some wPol := by decide

end World
end Gittuf
