/-
C02 — whole-loop theorem: every policy entry inside a range that verification accepts extends the
chain of trust from exactly the policy state in force before it.
-/
import Gittuf.Props.C02
import Gittuf.Props.C01
import Gittuf.Proofs.ChainLoop
namespace Gittuf
namespace World

/-- **C02 for relative verification** (every history, range, reference and variant; every
verification mode is a call of `VerifyRelativeForRef`): if verification accepts, every policy
entry recorded inside the range — also one the recovery branch set aside and re-queued — loads, its
root is signed by a threshold of distinct root keys of the policy state in force immediately before
it, no version number decreases and no rule file disappears with respect to that state, and (F4
repaired) its primary rule file is signed by the threshold its own root names and every delegated
rule file was reached through, and accepted by the verifier of, a rule of that name. -/
theorem C02_relative_chain (W : World) (v : Variant) (first last : Nat) (ref : String)
    (h : W.verifyRelative v first last ref = .ok ()) :
    ∃ p0, W.initialPolicy first = .ok p0 ∧
      ∀ k e, first < k → k ≤ last → W.log[k]? = some e → e.kind = .ref → e.ref = policyRef →
        ∃ newP, W.loadRaw k = .ok newP ∧
          (∀ cur, W.polInForce first p0 k = some cur →
            rootSignedBy cur.root newP.root = true ∧ versionsOK cur newP = true) ∧
          (v.f4_inRangeNotSelfVerified = false →
            primarySigned newP = true ∧
            ∀ f ∈ newP.delegated, ∃ (d : Rule) (defs' : List PrincipalSpec) (f' : RuleFile) (S : List PId),
              d.name = f.name ∧ newP.file? f.name = some f' ∧
              Verifier.verify { principals := lookupPrincipals defs' d.principals, threshold := d.threshold }
                none 0 (some (envelopeOf f'.signers)) = .ok S) := by
  unfold verifyRelative at h
  split at h
  · cases h
  · rename_i pol hpol
    split at h
    · cases h
    · rename_i att hatt
      refine ⟨pol, hpol, ?_⟩
      intro k e hk1 hk2 he hkind href
      have hmem : k ∈ W.range first last ref :=
        range_mem_gittuf W first last ref k e (by omega) hk2 he (by simp [isUpdater, hkind])
          (by rw [href]; decide)
      have hpk : W.isPolK first k = true := by
        simp [isPolK, he, hkind, href, hk1]
      obtain ⟨newP, hload, hchain, hself⟩ := relLoop_chain_gen W v first last pol att _ _ _ first
        (range_SInv W first last ref pol att) h k hmem hpk
      refine ⟨newP, hload, ?_, ?_⟩
      · intro cur hcur
        have := hchain cur hcur
        exact ⟨C02_newState_root_signed _ _ this, C02_newState_versions _ _ this⟩
      · intro hf4
        have := hself hf4
        exact ⟨C02_verify_primary_signed _ this, C02_verify_delegations _ this⟩

/-- non-vacuity: the F4 witness history.  With F4 repaired the forged in-range policy entry makes
verification fail; a properly signed hand-over (`wSwap` of Props/C01) is accepted. -/
example :
    (wF4.verifyRefFull Variant.good mainRef).isOk = false ∧
    wSwap.verifyRefFull Variant.good mainRef = .ok (some 1) ∧
    wSwap.isPolK 1 2 = true ∧ wSwap.polInForce 1 (some wPol) 2 = some wPol := by decide

/-- the list `LoadState` chains over after its first element -/
theorem range_drop_one (W : World) (f0 req : Nat) (hle : f0 ≤ req)
    (hf0 : ∃ e, W.log[f0]? = some e ∧ isUpdater e = true ∧ e.ref = policyRef) :
    (W.range f0 req policyRef).drop 1 = W.range (f0 + 1) req policyRef := by
  obtain ⟨e, he, hu, hr⟩ := hf0
  unfold range
  have hlen : f0 < (List.range (req + 1)).length := by simp; omega
  rw [List.drop_eq_getElem_cons hlen]
  simp only [List.getElem_range]
  rw [List.filter_cons_of_pos (by simp [he, hu, hr])]
  rfl

/-- **`LoadState` returns the state its entry records, reached through an unbroken chain from the
first policy entry of the log**: if `LoadState` succeeds for a policy entry after the first one,
the result is the state that entry records, it passed `State.Verify`, and every policy entry up to
it was accepted by `VerifyNewState` of the state recorded by the policy entry immediately before it. -/
theorem loadState_chain (W : World) (hpo : W.PolicyRefOnly) (f0 req : Nat) (P : Policy) (e : LogEntry)
    (hf : W.firstFor policyRef = some f0) (hlt : f0 < req)
    (he : W.log[req]? = some e) (hr : e.ref = policyRef) (hu : isUpdater e = true)
    (h : W.loadState req = .ok P) :
    ∃ P0, W.loadRaw f0 = .ok P0 ∧ W.loadRaw req = .ok P ∧ P.verify = .ok () ∧
      ∀ k, f0 < k → k ≤ req → W.isPolK f0 k = true → ∃ nxt, W.loadRaw k = .ok nxt ∧
        ∀ c, W.polInForce f0 (some P0) k = some c → c.verifyNewState nxt = .ok () := by
  -- the first policy entry is a reference updater for the policy reference
  have hf0 : ∃ e0, W.log[f0]? = some e0 ∧ isUpdater e0 = true ∧ e0.ref = policyRef := by
    unfold firstFor at hf
    have hp := List.find?_some hf
    split at hp
    · cases hp
    · rename_i e0 he0
      simp only [Bool.and_eq_true, beq_iff_eq] at hp
      exact ⟨e0, he0, hp.1, hp.2⟩
  unfold loadState at h
  rw [hf] at h
  have hne : (f0 == req) = false := by simp; omega
  have hnl : ¬ req < f0 := by omega
  simp only [hne, Bool.false_eq_true, if_false, hnl, bind, Except.bind] at h
  split at h
  · cases h
  · rename_i P0 hP0
    split at h
    · cases h
    · rename_i last hlast
      simp only [he, hr, beq_self_eq_true, if_true] at h
      split at h
      · cases h
      · rename_i u hver
        simp only [pure, Except.pure, Except.ok.injEq] at h
        subst h
        rw [range_drop_one W f0 req (by omega) hf0] at hlast
        have hinv : CInv W f0 req P0 (f0 + 1) (W.range (f0 + 1) req policyRef) P0 := by
          refine ⟨by omega, by omega, range_sorted W _ _ _, ?_, ?_, ?_, ?_⟩
          · intro k hk
            obtain ⟨h1, h2, _⟩ := range_mem_spec W _ _ _ k hk
            exact ⟨h1, h2⟩
          · intro k hk e' he'
            obtain ⟨_, _, e'', he'', hu''⟩ := range_mem_spec W _ _ _ k hk
            rw [he'] at he''; cases he''
            exact hu''
          · intro k hk1 hk2 hk3
            unfold isPolK at hk3
            split at hk3
            · rename_i e' he'
              simp only [Bool.and_eq_true, beq_iff_eq] at hk3
              exact range_mem W _ _ _ k e' hk1 hk2 he' (by simp [isUpdater, hk3.1.1]) hk3.1.2
            · cases hk3
          · unfold polInForce
            rw [lastBelow_none]
            intro k hk
            unfold isPolK
            split
            · have : ¬ f0 < k := by omega
              simp [this]
            · rfl
        obtain ⟨h1, h2⟩ := chainStates_exact W hpo f0 req P0 _ _ _ _ hinv hlast
        have hkind : e.kind = .ref := hpo req e he hr hu
        have hpreq : W.isPolK f0 req = true := by simp [isPolK, he, hkind, hr, hlt]
        have hreq : W.loadRaw req = .ok last := by
          simp only [polInForce, lastBelow_step_pos _ req hpreq] at h2
          cases hl : W.loadRaw req with
          | ok Q => rw [hl] at h2; simp at h2; rw [h2]
          | error x => rw [hl] at h2; simp at h2
        refine ⟨P0, hP0, hreq, ?_, ?_⟩
        · cases u; exact liftP_ok _ _ hver
        · intro k hk1 hk2 hk3
          have hmem : k ∈ W.range (f0 + 1) req policyRef := hinv.complete k (by omega) hk2 hk3
          exact h1 k hmem hk3

theorem lastBelow_eq_none (p : Nat → Bool) (m : Nat) (h : lastBelow p m = none) :
    ∀ k, k < m → p k = false := by
  intro k hk
  unfold lastBelow at h
  have := List.find?_eq_none.mp h k (by simp [below, hk])
  simpa using this

theorem loadRaw_policyAt (W : World) (p : Nat) (P : Policy) (h : W.loadRaw p = .ok P) :
    W.policyAt p = some P := by
  unfold loadRaw at h
  split at h
  · cases h
  · rename_i Q hQ
    split at h
    · cases h
    · cases h; exact hQ

/-- the predicate of the unrestricted look-up `latestFor policyRef` -/
def polUpd (W : World) (x : Nat) : Bool :=
  match W.log[x]? with
  | none => false
  | some e => isUpdater e && e.ref == policyRef

theorem latestFor_policy_eq (W : World) (m : Nat) :
    W.latestFor policyRef m = lastBelow W.polUpd m := by
  unfold latestFor lastBelow
  congr 1
  funext x
  cases h : W.log[x]? <;> simp [polUpd, h]

/-- **The state the walk starts from is the one its policy entry records**: whatever
`LoadState` returns for the policy entry applicable to the first entry of the range is the state
that entry records (reached, by `loadState_chain`, through an unbroken chain). -/
theorem initialPolicy_records (W : World) (hpo : W.PolicyRefOnly) (first : Nat) (P : Policy)
    (h : W.initialPolicy first = .ok (some P)) :
    ∃ p fe, W.log[first]? = some fe ∧
      (if isUpdater fe && fe.ref == policyRef then some first else W.latestFor policyRef first) = some p ∧
      W.loadRaw p = .ok P := by
  unfold initialPolicy at h
  split at h
  · cases h
  · rename_i fe hfe
    split at h
    · cases h
    · rename_i p hp
      split at h
      · rename_i Q hQ
        cases h
        refine ⟨p, fe, hfe, hp, ?_⟩
        -- `p` is an updater entry of the policy reference
        have hpe : ∃ e, W.log[p]? = some e ∧ isUpdater e = true ∧ e.ref = policyRef := by
          split at hp
          · rename_i hc
            cases hp
            simp only [Bool.and_eq_true, beq_iff_eq] at hc
            exact ⟨fe, hfe, hc.1, hc.2⟩
          · rw [latestFor_policy_eq] at hp
            have hs := List.find?_some hp
            unfold polUpd at hs
            split at hs
            · cases hs
            · rename_i e he
              simp only [Bool.and_eq_true, beq_iff_eq] at hs
              exact ⟨e, he, hs.1, hs.2⟩
        obtain ⟨e, he, hu, hr⟩ := hpe
        unfold loadState at hQ
        split at hQ
        · exact hQ
        · rename_i f0 hf0
          split at hQ
          · simp only [bind, Except.bind] at hQ
            split at hQ
            · cases hQ
            · rename_i Q' hQ'
              split at hQ
              · cases hQ
              · simp only [pure, Except.pure, Except.ok.injEq] at hQ
                subst hQ; exact hQ'
          · rename_i hne
            split at hQ
            · exact hQ
            · rename_i hnl
              have hlt : f0 < p := by
                have : f0 ≠ p := by simpa using hne
                omega
              have hload : W.loadState p = .ok P := by
                unfold loadState
                rw [hf0]
                simp only [hne, Bool.false_eq_true, if_false, hnl]
                exact hQ
              obtain ⟨_, _, h2, _⟩ := loadState_chain W hpo f0 p P e hf0 hlt he hr hu hload
              exact h2
      · cases h

/-- **C01, the declarative "policy state immediately preceding the entry"**: for an entry of the
range that is not itself a policy entry, the policy state under which the accepted walk judged it
(`polInForce`, see `C01_relative_exact`) is the state recorded by the latest policy entry strictly
before it in the whole log — Spec/C01's `policyBefore` — whether that entry lies inside the range
or before it. -/
theorem C01_policy_in_force_is_policyBefore (W : World) (hpo : W.PolicyRefOnly) (first : Nat)
    (p0 : Option Policy) (hinit : W.initialPolicy first = .ok p0)
    (j : Nat) (e : LogEntry) (hj : first ≤ j) (he : W.log[j]? = some e) (hne : e.ref ≠ policyRef)
    (P : Policy) (hP : W.polInForce first p0 j = some P) :
    W.policyBefore j = some P := by
  cases hk : lastBelow (W.isPolK first) j with
  | some k => exact polInForce_eq_policyBefore W first p0 j k P hpo hk hP
  | none =>
    simp only [polInForce, hk] at hP
    subst hP
    obtain ⟨p, fe, hfe, hsel, hload⟩ := initialPolicy_records W hpo first P hinit
    have hnone := lastBelow_eq_none _ _ hk
    -- no policy updater strictly between `first` and `j`
    have hgap : ∀ x, first < x → x < j → W.polUpd x = false := by
      intro x hx1 hx2
      have hnx := hnone x hx2
      unfold polUpd
      cases hex : W.log[x]? with
      | none => rfl
      | some ex =>
        simp only
        cases hux : isUpdater ex with
        | false => simp
        | true =>
          cases hrx : (ex.ref == policyRef) with
          | false => simp
          | true =>
            have hkind := hpo x ex hex (by simpa using hrx) hux
            simp [isPolK, hex, hkind, hrx, hx1] at hnx
    have hlat : W.latestFor policyRef j = some p := by
      rw [latestFor_policy_eq]
      rcases Nat.lt_or_ge first j with hlt | hge
      · rw [lastBelow_run' W.polUpd (first + 1) j (by omega) (fun x h1 h2 => hgap x (by omega) h2)]
        cases hpf : W.polUpd first with
        | true =>
          rw [lastBelow_step_pos _ first hpf]
          have : (isUpdater fe && fe.ref == policyRef) = true := by simpa [polUpd, hfe] using hpf
          simp only [this, if_true] at hsel
          exact hsel
        | false =>
          rw [lastBelow_step_neg _ first hpf, ← latestFor_policy_eq]
          have : (isUpdater fe && fe.ref == policyRef) = false := by simpa [polUpd, hfe] using hpf
          simp only [this, Bool.false_eq_true, if_false] at hsel
          exact hsel
      · have hjf : j = first := by omega
        subst hjf
        rw [hfe] at he; cases he
        have : (isUpdater e && e.ref == policyRef) = false := by
          have : (e.ref == policyRef) = false := by simpa using hne
          simp [this]
        simp only [this, Bool.false_eq_true, if_false] at hsel
        rw [← latestFor_policy_eq]; exact hsel
    unfold policyBefore
    rw [hlat]
    simp only [Option.bind_some]
    exact loadRaw_policyAt W p P hload

/-- the predicate of the unrestricted look-up `latestFor attestationsRef` -/
def attUpd (W : World) (x : Nat) : Bool :=
  match W.log[x]? with
  | none => false
  | some e => isUpdater e && e.ref == attestationsRef

theorem latestFor_att_eq (W : World) (m : Nat) :
    W.latestFor attestationsRef m = lastBelow W.attUpd m := by
  unfold latestFor lastBelow
  congr 1
  funext x
  cases h : W.log[x]? <;> simp [attUpd, h]

/-- **C01, the declarative "attestation state immediately preceding the entry"**: the attestation
state under which the accepted walk judged an entry of the range (`attInForce`) is Spec/C01's
`attBefore` — the state recorded by the latest attestation entry strictly before it in the whole
log, inside the range or before it. -/
theorem C01_att_in_force_is_attBefore (W : World) (hao : W.AttRefOnly) (first : Nat)
    (a0 : Option AttState) (hinit : W.initialAtt first = .ok a0)
    (j : Nat) (e : LogEntry) (hj : first ≤ j) (he : W.log[j]? = some e) (hne : e.ref ≠ attestationsRef) :
    W.attInForce first a0 j = W.attBefore j := by
  cases hk : lastBelow (W.isAttK first) j with
  | some k => exact attInForce_eq_attBefore W first a0 j k hao hk
  | none =>
    simp only [attInForce, hk]
    have hnone := lastBelow_eq_none _ _ hk
    have hgap : ∀ x, first ≤ x → x < j → W.attUpd x = false := by
      intro x hx1 hx2
      have hnx := hnone x hx2
      unfold attUpd
      cases hex : W.log[x]? with
      | none => rfl
      | some ex =>
        simp only
        cases hux : isUpdater ex with
        | false => simp
        | true =>
          cases hrx : (ex.ref == attestationsRef) with
          | false => simp
          | true =>
            have hkind := hao x ex hex (by simpa using hrx) hux
            simp [isAttK, hex, hkind, hrx, hx1] at hnx
    unfold initialAtt at hinit
    split at hinit
    · cases hinit
    · rename_i fe hfe
      -- the first entry of the range is not an attestation updater
      have hfe_not : (isUpdater fe && fe.ref == attestationsRef) = false := by
        rcases Nat.lt_or_ge first j with hlt | hge
        · have := hgap first (Nat.le_refl _) hlt
          simpa [attUpd, hfe] using this
        · have hjf : j = first := by omega
          subst hjf
          rw [hfe] at he; cases he
          have : (e.ref == attestationsRef) = false := by simpa using hne
          simp [this]
      simp only [hfe_not, Bool.false_eq_true, if_false] at hinit
      have hlat : W.latestFor attestationsRef j = W.latestFor attestationsRef first := by
        rw [latestFor_att_eq, latestFor_att_eq]
        exact lastBelow_run' W.attUpd first j hj (fun x h1 h2 => hgap x h1 h2)
      unfold attBefore
      rw [hlat]
      split at hinit
      · rename_i hsel
        cases hinit
        simp [hsel]
      · rename_i a hsel
        split at hinit
        · rename_i s hs
          cases hinit
          simp [hsel, hs]
        · cases hinit

/-- executable form of `PolicyRefOnly` -/
def policyRefOnlyB (W : World) : Bool :=
  W.log.all (fun e => !(e.ref == policyRef && isUpdater e) || e.kind == .ref)

theorem policyRefOnly_of_B (W : World) (h : W.policyRefOnlyB = true) : W.PolicyRefOnly := by
  intro j e he hr hu
  have := List.all_eq_true.mp h e (List.mem_of_getElem? he)
  simpa [hr, hu] using this

/-- non-vacuity of `loadState_chain`, `initialPolicy_records` and
`C01_policy_in_force_is_policyBefore` on the hand-over history `wSwap`: the hypotheses hold, the
second policy entry loads through the chain, the walk starts from the state entry 0 records, and
for the push after the hand-over the state in force is `policyBefore`. -/
example :
    wSwap.policyRefOnlyB = true ∧
    wSwap.firstFor policyRef = some 0 ∧
    wSwap.loadState 2 = .ok ⟨wRoot, [wFile2]⟩ ∧
    wSwap.initialPolicy 1 = .ok (some wPol) ∧
    wSwap.polInForce 1 (some wPol) 1 = some wPol ∧ wSwap.policyBefore 1 = some wPol ∧
    wSwap.polInForce 1 (some wPol) 3 = some ⟨wRoot, [wFile2]⟩ ∧
    wSwap.policyBefore 3 = some ⟨wRoot, [wFile2]⟩ := by decide

end World
end Gittuf
