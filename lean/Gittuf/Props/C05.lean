/-
C05 — property theorems (kept apart from helper lemmas in Proofs/).
-/
import Gittuf.Proofs.Sig
namespace Gittuf

/-- Soundness, for every rule shape, every principal/key iteration order, every Git
signature and every envelope: a successful (non-exhaustive) verification returns at
least `threshold` distinct principals of the rule, each credited through a different
key of its own with a valid signature over exactly this object / envelope, at most
one of them through the Git object's signature. -/
theorem C05_sound (v : Verifier) (g : Option Sig) (gd : Digest) (env : Option Envelope)
    (S : List PId) (hx : v.exhaustive = false) (h : v.verify g gd env = .ok S) :
    1 ≤ v.threshold ∧ v.principals ≠ [] ∧ v.threshold ≤ (S.length : Int) ∧
    CreditedInjectively v g gd env S := by
  unfold Verifier.verify at h
  split at h
  · cases h
  · rename_i hguard
    have hth : 1 ≤ v.threshold := by
      simp only [Bool.or_eq_true, decide_eq_true_eq, not_or, Int.not_lt] at hguard
      exact hguard.1
    have hne : v.principals ≠ [] := by
      simp only [Bool.or_eq_true, decide_eq_true_eq, not_or] at hguard
      intro h0; exact hguard.2 (by simp [h0])
    refine ⟨hth, hne, ?_⟩
    -- the state after the Git phase satisfies the invariant
    have hst0 : ∀ env', ∃ f pg, EnvInv v g gd env'
        (match gitPhase v.principals g gd with
          | some (p, k) => ([p], [k])
          | none => ([], [])) f pg := by
      intro env'
      cases hg : gitPhase v.principals g gd with
      | none =>
        exact ⟨fun _ => 0, none, ⟨List.nodup_nil, by simp, by simp, by simp⟩⟩
      | some pk =>
        obtain ⟨p, k⟩ := pk
        obtain ⟨P, hP, hid, hk, hval⟩ := gitPhase_some _ _ _ _ _ hg
        refine ⟨fun _ => k, some p, ⟨by simp, ?_, by simp, ?_⟩⟩
        · intro q hq
          simp only [List.mem_singleton] at hq
          subst hq
          exact ⟨P, hP, hid, hk, Or.inl ⟨rfl, hval⟩⟩
        · intro a ha b hb _
          simp only [List.mem_singleton] at ha hb
          rw [ha, hb]
    have hfin : ∀ (st : VState) f pg, EnvInv v g gd env st f pg → v.finish st = .ok S →
        v.threshold ≤ (S.length : Int) ∧ CreditedInjectively v g gd env S := by
      intro st f pg hinv hf
      unfold Verifier.finish at hf
      split at hf
      · rename_i hc
        cases hf
        simp only [hx, Bool.false_or, decide_eq_true_eq] at hc
        exact ⟨hc, hinv.nodup, f, pg, hinv.cred, hinv.inj⟩
      · cases hf
    simp only at h
    split at h
    · -- early return: threshold 1 and Git signature verified
      rename_i hearly
      cases h
      simp only [hx, Bool.not_false, Bool.true_and, Bool.and_eq_true, beq_iff_eq] at hearly
      obtain ⟨f, pg, hinv⟩ := hst0 env
      cases hg : gitPhase v.principals g gd with
      | none => simp [hg] at hearly
      | some pk =>
        obtain ⟨p, k⟩ := pk
        simp only [hg] at hinv ⊢
        refine ⟨by simp [hearly.1], hinv.nodup, f, pg, hinv.cred, hinv.inj⟩
    · split at h
      · obtain ⟨f, pg, hinv⟩ := hst0 none
        exact hfin _ f pg hinv h
      · rename_i e
        split at h
        · cases h
        · rename_i st hst
          obtain ⟨f, pg, hinv⟩ := hst0 (some e)
          obtain ⟨f', hinv'⟩ := envPhase_inv v g gd e v.principals (fun _ h => h) _ st f pg hinv hst
          exact hfin st f' pg hinv' h

/-- The same bookkeeping holds when the threshold is NOT met: the principals reported with
`ErrVerifierConditionsUnmet` are distinct principals of the rule, injectively credited through valid
signatures (they are what the caller merges code-review approvers into). -/
theorem C05_unmet_credited (v : Verifier) (g : Option Sig) (gd : Digest) (env : Option Envelope)
    (S : List PId) (h : v.verify g gd env = .error (.unmet S)) :
    CreditedInjectively v g gd env S := by
  unfold Verifier.verify at h
  split at h
  · cases h
  · have hst0 : ∀ env', ∃ f pg, EnvInv v g gd env'
        (match gitPhase v.principals g gd with
          | some (p, k) => ([p], [k])
          | none => ([], [])) f pg := by
      intro env'
      cases hg : gitPhase v.principals g gd with
      | none =>
        exact ⟨fun _ => 0, none, ⟨List.nodup_nil, by simp, by simp, by simp⟩⟩
      | some pk =>
        obtain ⟨p, k⟩ := pk
        obtain ⟨P, hP, hid, hk, hval⟩ := gitPhase_some _ _ _ _ _ hg
        refine ⟨fun _ => k, some p, ⟨by simp, ?_, by simp, ?_⟩⟩
        · intro q hq
          simp only [List.mem_singleton] at hq
          subst hq
          exact ⟨P, hP, hid, hk, Or.inl ⟨rfl, hval⟩⟩
        · intro a ha b hb _
          simp only [List.mem_singleton] at ha hb
          rw [ha, hb]
    have hfin : ∀ (st : VState) f pg, EnvInv v g gd env st f pg → v.finish st = .error (.unmet S) →
        CreditedInjectively v g gd env S := by
      intro st f pg hinv hf
      unfold Verifier.finish at hf
      split at hf
      · cases hf
      · cases hf
        exact ⟨hinv.nodup, f, pg, hinv.cred, hinv.inj⟩
    simp only at h
    split at h
    · cases h
    · split at h
      · obtain ⟨f, pg, hinv⟩ := hst0 none
        exact hfin _ f pg hinv h
      · rename_i e
        split at h
        · rename_i x hx
          -- an error of the envelope phase is never `unmet`
          exfalso
          have : ∀ (ps : List Principal) (st : VState) x, envPhase e ps st = .error x → x = .noSignature := by
            intro ps
            induction ps with
            | nil => intro st x hx; simp [envPhase] at hx
            | cons P ps ih =>
              intro st x hx
              unfold envPhase at hx
              split at hx
              · rename_i y hy
                cases hx
                unfold envStep at hy
                split at hy
                · cases hy
                · simp only at hy
                  split at hy
                  · cases hy
                  · split at hy
                    · cases hy; rfl
                    · split at hy <;> cases hy
              · exact ih _ _ hx
          have hx' := this _ _ _ hx
          subst hx'
          cases h
        · rename_i st hst
          obtain ⟨f, pg, hinv⟩ := hst0 (some e)
          obtain ⟨f', hinv'⟩ := envPhase_inv v g gd e v.principals (fun _ h => h) _ st f pg hinv hst
          exact hfin st f' pg hinv' h

/-- A rule with a threshold below one or with no principals is never satisfied. -/
theorem C05_invalid (v : Verifier) (g : Option Sig) (gd : Digest) (env : Option Envelope)
    (h : v.threshold < 1 ∨ v.principals = []) :
    v.verify g gd env = .error .invalidVerifier := by
  unfold Verifier.verify
  have : (decide (v.threshold < 1) || v.principals.isEmpty) = true := by
    rcases h with h | h
    · simp [h]
    · simp [h]
  simp [this]

/-- Corollary in the property's words: acceptance implies the rule is satisfied. -/
theorem C05_accept_satisfies (v : Verifier) (g : Option Sig) (gd : Digest) (env : Option Envelope)
    (S : List PId) (hx : v.exhaustive = false) (h : v.verify g gd env = .ok S) :
    Satisfies v g gd env := by
  obtain ⟨h1, h2, h3, h4⟩ := C05_sound v g gd env S hx h
  exact ⟨h1, h2, S, h3, h4⟩

/-! Non-vacuity and the situations the property names, on concrete inputs. -/

-- a key shared by two principals credits one of them only
example : Verifier.verify ⟨0, [⟨1, [10, 11]⟩, ⟨2, [11]⟩], 2, false⟩ none 0
    (some ⟨77, [⟨11, 77, some 11⟩]⟩) = .error (.unmet [1]) := by decide
-- several keys of one person count once
example : Verifier.verify ⟨0, [⟨1, [10, 11]⟩, ⟨2, [12]⟩], 2, false⟩ none 0
    (some ⟨77, [⟨10, 77, none⟩, ⟨11, 77, none⟩]⟩) = .error (.unmet [1]) := by decide
-- a signature lifted from another payload never counts
example : Verifier.verify ⟨0, [⟨1, [10]⟩, ⟨2, [12]⟩], 2, false⟩ none 0
    (some ⟨77, [⟨10, 77, none⟩, ⟨12, 78, none⟩]⟩) = .error (.unmet [1]) := by decide
-- hypotheses of C05_sound are satisfiable with a non-trivial result (Git + envelope)
example : Verifier.verify ⟨0, [⟨1, [10]⟩, ⟨2, [12]⟩], 2, false⟩ (some ⟨10, 5, none⟩) 5
    (some ⟨77, [⟨12, 77, none⟩]⟩) = .ok [1, 2] := by decide

end Gittuf
