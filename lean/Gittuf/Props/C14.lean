/-
C14 — RSL entry text and its parsed form determine each other: property theorems.
Texts are arbitrary byte strings (`Bytes = List UInt8`), no bound on any length.
-/
import Gittuf.Proofs.Codec
namespace Gittuf
open Gittuf.Codec

/-! ## (a) writing then reading -/

/-- Every reference entry whose reference name has no line break and no white-space rune at
either end (in the sense of `strings.TrimSpace`), with a 40/64-digit target and a uint64 number
(0 = unnumbered), is read back from its commit message exactly. -/
theorem C14_parse_render_ref (e : RefEntry) (hw : e.WF) : parse (render (.ref e)) = .ok (.ref e) :=
  parse_renderRef e hw

/-- The same for propagation entries; the upstream location may contain `:` anywhere. -/
theorem C14_parse_render_prop (e : PropEntry) (hw : e.WF) : parse (render (.prop e)) = .ok (.prop e) :=
  parse_renderProp e hw

/-- Full statement for annotations: every annotation with 1..n referenced 40/64-digit ids, any
skip flag, any message bytes and a uint64 number is read back exactly.  What is proved
(`C14_parse_render_ann_partial`) assumes the contract of encoding/pem + base64 for this message,
`PemRoundTrip e` (decidable; the driver evaluates it on every recorded annotation and compares the
modelled `pem.Decode` with the real one on every text). -/
def C14_parse_render_ann : Prop :=
  ∀ e : AnnEntry, e.WF → parse (render (.ann e)) = .ok (.ann e)

/-- Annotations: all fields (ids, skip, number, message) are read back, for arbitrary message
bytes, given that the PEM armour of the message decodes to the message (`PemRoundTrip`). The
state machine part is unconditional: the message block never disturbs the fields. -/
theorem C14_parse_render_ann_partial (e : AnnEntry) (hw : e.WF) (hpem : PemRoundTrip e) :
    parse (render (.ann e)) = .ok (.ann e) :=
  parse_renderAnn e hw hpem

/-! ## (b) accepted texts are canonical up to re-rendering -/

/-- Full statement: for every byte string, an accepted entry is a fixed point of
render-then-parse.  Proved below for reference entries under the side condition that the accepted
reference name is clean (true of every `strings.TrimSpace` result; not yet proved in Lean), and
evaluated by the driver on every text the implementation accepts (`acceptedOkB`). -/
def C14_parse_canonical : Prop := ∀ t : Bytes, ParseCanonical t

/-- Every text whatsoever that is accepted as a reference entry yields an entry with a 40/64-digit
target and a uint64 number, and that entry re-renders to a text that parses to the same entry,
provided its reference name has no white space at the ends. -/
theorem C14_parse_canonical_ref_partial (t : Bytes) (e : RefEntry) (h : parse t = .ok (.ref e))
    (hc : CleanValue e.ref) : parse (render (.ref e)) = .ok (.ref e) :=
  parse_canonical_ref t e h hc

/-! ## (c) one text, one value per field; order, repetition, omission -/

/-- Whatever byte string is accepted as a reference entry: every body line has a `:`, and the
lines whose key is `ref` / `targetID` / `number` are, in text order, exactly `ref`, `targetID`
and at most one `number`, with the values of the returned entry.  Hence a text with a known field
missing, repeated or out of order is rejected, and no text yields two values for one field. -/
theorem C14_fields_ref (t : Bytes) (e : RefEntry) (h : parse t = .ok (.ref e)) :
    fieldsCanonicalB t (.ref e) = true := by
  unfold parse at h
  split at h
  · split at h
    · rename_i e' hp
      cases h
      obtain ⟨h1, h2⟩ := parseRefLines_fields _ _ hp
      simp [fieldsCanonicalB, bodyOf, h1, h2]
    · cases h
  · split at h
    · split at h <;> cases h
    · split at h
      · split at h <;> cases h
      · cases h

/-- The same for propagation entries (`ref`, `targetID`, `upstreamRepository`, `upstreamEntryID`,
optional `number`). -/
theorem C14_fields_prop (t : Bytes) (e : PropEntry) (h : parse t = .ok (.prop e)) :
    fieldsCanonicalB t (.prop e) = true := by
  unfold parse at h
  split at h
  · split at h <;> cases h
  · split at h
    · split at h <;> cases h
    · split at h
      · split at h
        · rename_i e' hp
          cases h
          obtain ⟨h1, h2⟩ := parsePropLines_fields _ _ hp
          simp [fieldsCanonicalB, bodyOf, h1, h2]
        · cases h
      · cases h

/-! ## (d) the text determines the entry: writing is injective -/

/-- Recordable entries of any kind (the hypotheses of the round-trip theorems above). -/
def Recordable : Entry → Prop
  | .ref e => e.WF
  | .prop e => e.WF
  | .ann e => e.WF ∧ PemRoundTrip e

/-- Every recordable entry is read back exactly, whatever its kind. -/
theorem C14_parse_render_any (a : Entry) (ha : Recordable a) : parse (render a) = .ok a := by
  cases a with
  | ref e => exact parse_renderRef e ha
  | prop e => exact parse_renderProp e ha
  | ann e => exact parse_renderAnn e ha.1 ha.2

/-- Two recordable entries with the same commit-message text are the same entry: same kind
(a reference entry is never read as a propagation entry or an annotation, nor conversely) and the
same value in every field.  So the log's text never conflates two different recorded facts. -/
theorem C14_render_injective (a b : Entry) (ha : Recordable a) (hb : Recordable b)
    (h : render a = render b) : a = b := by
  have h1 := C14_parse_render_any a ha
  rw [h, C14_parse_render_any b hb] at h1
  exact (Except.ok.inj h1).symm

/-- In particular a reference entry's text is never the text of a propagation entry. -/
theorem C14_ref_text_ne_prop_text (e : RefEntry) (p : PropEntry) (he : e.WF) (hp : p.WF) :
    render (.ref e) ≠ render (.prop p) := by
  intro h
  have := C14_render_injective (.ref e) (.prop p) he hp h
  cases this

/-! ## the known defect F11 -/

/-- `refs/heads/x` followed by U+00A0 (a branch name git accepts) -/
def f11Written : RefEntry :=
  { ref := [114, 101, 102, 115, 47, 104, 101, 97, 100, 115, 47, 120, 0xC2, 0xA0],
    target := List.replicate 40 (1 : Fin 16), number := 1 }
/-- `refs/heads/x` -/
def f11Read : RefEntry :=
  { ref := [114, 101, 102, 115, 47, 104, 101, 97, 100, 115, 47, 120],
    target := List.replicate 40 (1 : Fin 16), number := 1 }

set_option maxRecDepth 100000 in
/-- F11: the entry written for branch `x<U+00A0>` is read back as an entry for branch `x`. -/
theorem C14_F11_witness : parse (render (.ref f11Written)) = .ok (.ref f11Read) ∧ f11Written ≠ f11Read := by
  decide

/-! ## non-vacuity -/

/-- `refs/heads/main` -/
def exRef : RefEntry :=
  { ref := [114, 101, 102, 115, 47, 104, 101, 97, 100, 115, 47, 109, 97, 105, 110],
    target := List.replicate 40 (10 : Fin 16), number := 18446744073709551615 }
/-- upstream `https://h:1/a b` -/
def exProp : PropEntry :=
  { ref := [114, 101, 102, 115, 47, 104, 101, 97, 100, 115, 47, 109, 0xC2, 0xA0, 110],
    target := List.replicate 64 (15 : Fin 16),
    upstream := [104, 116, 116, 112, 115, 58, 47, 47, 104, 58, 49, 47, 97, 32, 98],
    upstreamId := List.replicate 40 (0 : Fin 16), number := 0 }

/-- two ids, message `-----BEGIN MESSAGE-----\n` (a PEM marker inside the message) -/
def exAnn : AnnEntry :=
  { ids := [List.replicate 40 (3 : Fin 16), List.replicate 64 (12 : Fin 16)], skip := true,
    message := beginMessage ++ [10], number := 7 }

example : exAnn.WF := by decide
set_option maxRecDepth 100000 in
example : PemRoundTrip exAnn := by decide
example : exRef.WF := by decide
example : exProp.WF := by decide
example : ¬ f11Written.WF := by decide
set_option maxRecDepth 100000 in
example : Recordable (.ref exRef) ∧ Recordable (.prop exProp) ∧ Recordable (.ann exAnn) := by
  refine ⟨?_, ?_, ?_, ?_⟩
  · show exRef.WF; decide
  · show exProp.WF; decide
  · show exAnn.WF; decide
  · show PemRoundTrip exAnn; decide
/-- injectivity needs the guard: the F11 pair renders two different texts that read as ONE entry,
and the unguarded entry is not recordable in the sense above -/
example : ¬ Recordable (.ref f11Written) := by show ¬ f11Written.WF; decide
set_option maxRecDepth 100000 in
example : fieldsCanonicalB (render (.ref exRef)) (.ref exRef) = true := by decide

end Gittuf
