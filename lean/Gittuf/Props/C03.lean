/-
C03 — Recording keeps the RSL an append-only, consecutively numbered single chain.
Property theorems (helper lemmas in Proofs/Record.lean).
-/
import Gittuf.Proofs.Record
namespace Gittuf.RSL

/-- the annotation names at least one entry (always true of the other operations) -/
def Op.Named : Op → Prop
  | .annotation ids _ _ => ids ≠ []
  | .annotationLegacy ids _ _ => ids ≠ []
  | _ => True

def Op.isLegacy : Op → Bool
  | .referenceLegacy .. => true
  | .annotationLegacy .. => true
  | _ => false

/-- `CommitWithoutNumber` exists for logs that have not started numbering: it is used
only while the newest entry (if any) is unnumbered. -/
def Op.Admissible (l : List LEntry) (op : Op) : Prop :=
  op.Named ∧ (op.isLegacy = true → ∀ x rest, l = x :: rest → x.number = 0)

/-- the number the operation's entry gets on top of the log `l` -/
def Op.expectedNumber (l : List LEntry) (op : Op) : Nat :=
  if op.isLegacy then 0 else
  match l with
  | [] => 1
  | x :: _ => x.number + 1

/-- The empty repository satisfies the invariant. -/
theorem C03_init : ChainInv {} := ⟨[], rfl⟩

/-- **The chain shape in the property's words.**  In a log satisfying the invariant every
entry except the first has exactly one parent — the next entry of the log — and is numbered
one more than it (1 right after unnumbered entries), unnumbered entries having unnumbered
parents; the first entry has no parent. -/
theorem C03_chain_shape (s : Store) (l : List LEntry) (hl : IsLog s l) :
    (∀ a x y b, l = a ++ x :: y :: b →
      s.get x.id = some ⟨[y.id], some x.e⟩ ∧ (x.number = y.number + 1 ∨ (x.number = 0 ∧ y.number = 0))) ∧
    (∀ a z, l = a ++ [z] → s.get z.id = some ⟨[], some z.e⟩) := by
  unfold IsLog at hl
  cases ht : s.tip with
  | none =>
    rw [ht] at hl
    simp only at hl
    subst hl
    exact ⟨fun a x y b h => by simp at h, fun a z h => by simp at h⟩
  | some t =>
    rw [ht] at hl
    exact hl.shape

/-- A failed operation appends nothing: the store is returned unchanged (every operation,
every store — no well-formedness assumed). -/
theorem C03_failed_unchanged (s : Store) (op : Op) (e : RErr) (h : (step s op).2 = .error e) :
    (step s op).1 = s := by
  cases op <;> simp only [step] at h ⊢ <;>
    repeat (first | rfl | (split at h <;> try rfl) | (split <;> try rfl))
  all_goals simp_all

/-- Append-only: whatever the operation and the store, no stored commit changes and the old
tip remains an ancestor of the new one. -/
theorem C03_step_extends (s : Store) (op : Op) : Extends s (step s op).1 := by
  cases op <;> simp only [step]
  all_goals
    repeat (first | exact Extends.refl s | exact commitEntry_extends s _ | split)

/-- Exactness and preservation for one operation on a well-formed log `l`:
a successful operation reports exactly one new id, not in the store before, and the log
becomes that entry on top of `l`, numbered one more than the previous entry (1 on an empty
log or after unnumbered entries, 0 for the legacy operations); a failed one leaves the store as it was. -/
theorem C03_step_exact (s : Store) (l : List LEntry) (op : Op) (hl : IsLog s l) (hadm : op.Admissible l) :
    match step s op with
    | (s', .ok ids) => ∃ x, ids = [x.id] ∧ s.get x.id = none ∧ IsLog s' (x :: l) ∧
        x.number = op.expectedNumber l
    | (s', .error _) => s' = s := by
  have hnumOk : ∀ n, setEntryNumber s = .ok n → n = Op.expectedNumber l (.reference "" 0) ∧
      ∀ x rest, l = x :: rest → linkOk n x.number = true := by
    intro n hn
    cases l with
    | nil =>
      rw [setEntryNumber_nil hl] at hn; cases hn
      exact ⟨rfl, fun _ _ h => by cases h⟩
    | cons y rest =>
      rw [setEntryNumber_cons hl] at hn; cases hn
      refine ⟨rfl, fun x r h => ?_⟩
      cases h
      exact linkOk_succ _
  have hleg : op.isLegacy = true → ∀ x rest, l = x :: rest → linkOk 0 x.number = true := by
    intro h x rest hx
    rw [hadm.2 h x rest hx]; rfl
  cases op with
  | reference r t =>
    simp only [step]
    cases hn : setEntryNumber s with
    | error e => simp
    | ok n =>
      obtain ⟨h1, h2⟩ := hnumOk n hn
      exact ⟨⟨s.fresh, .reference r t n⟩, rfl, get_fresh s, commitEntry_isLog _ hl rfl h2, h1⟩
  | propagation r t u ue =>
    simp only [step]
    cases hn : setEntryNumber s with
    | error e => simp
    | ok n =>
      obtain ⟨h1, h2⟩ := hnumOk n hn
      exact ⟨⟨s.fresh, .propagation r t u ue n⟩, rfl, get_fresh s, commitEntry_isLog _ hl rfl h2, h1⟩
  | annotation ids sk m =>
    simp only [step]
    cases hc : checkIds s ids with
    | error e => simp
    | ok u =>
      cases hn : setEntryNumber s with
      | error e => simp
      | ok n =>
        obtain ⟨h1, h2⟩ := hnumOk n hn
        have hne : ids ≠ [] := hadm.1
        have hp : parseBack (.annotation ids sk m n) = some (.annotation ids sk m n) := by
          cases ids with
          | nil => exact absurd rfl hne
          | cons _ _ => rfl
        exact ⟨⟨s.fresh, .annotation ids sk m n⟩, rfl, get_fresh s, commitEntry_isLog _ hl hp h2, h1⟩
  | referenceLegacy r t =>
    simp only [step]
    exact ⟨⟨s.fresh, .reference r t 0⟩, rfl, get_fresh s, commitEntry_isLog _ hl rfl (hleg rfl), rfl⟩
  | annotationLegacy ids sk m =>
    simp only [step]
    cases hc : checkIds s ids with
    | error e => simp
    | ok u =>
      have hne : ids ≠ [] := hadm.1
      have hp : parseBack (.annotation ids sk m 0) = some (.annotation ids sk m 0) := by
        cases ids with
        | nil => exact absurd rfl hne
        | cons _ _ => rfl
      exact ⟨⟨s.fresh, .annotation ids sk m 0⟩, rfl, get_fresh s, commitEntry_isLog _ hl hp (hleg rfl), rfl⟩

/-- One operation preserves the chain invariant. -/
theorem C03_step_inv (s : Store) (l : List LEntry) (op : Op) (hl : IsLog s l) (hadm : op.Admissible l) :
    ChainInv (step s op).1 := by
  have h := C03_step_exact s l op hl hadm
  cases hs : step s op with
  | mk s' r =>
    rw [hs] at h
    cases r with
    | error e => simp only at h; subst h; exact ⟨l, hl⟩
    | ok ids =>
      simp only at h
      obtain ⟨x, _, _, hlog, _⟩ := h
      exact ⟨x :: l, hlog⟩

/-- An annotation is refused — nothing is written — as soon as one identifier it names is
not a well-formed RSL entry in the store (missing object, or a commit whose message does
not parse as an entry). -/
theorem C03_annotate_refused (s : Store) (ids : List Id) (sk : Bool) (m : String) (i : Id)
    (hi : i ∈ ids) (hbad : ∀ x, getEntry s i ≠ .ok x) :
    (∃ e, step s (.annotation ids sk m) = (s, .error e)) ∧
    (∃ e, step s (.annotationLegacy ids sk m) = (s, .error e)) := by
  obtain ⟨e, he⟩ := checkIds_error hi hbad
  exact ⟨⟨e, by simp [step, he]⟩, ⟨e, by simp [step, he]⟩⟩

/-- Conversely an accepted annotation names only well-formed entries of the store. -/
theorem C03_annotate_accepted (s s' : Store) (ids : List Id) (sk : Bool) (m : String) (out : List Id)
    (h : step s (.annotation ids sk m) = (s', .ok out)) : ∀ i ∈ ids, ∃ x, getEntry s i = .ok x := by
  simp only [step] at h
  cases hc : checkIds s ids with
  | error e => simp [hc] at h
  | ok u => cases u; exact checkIds_ok hc

/-- every operation of the sequence is admissible where it is applied -/
def AdmissibleRun : Store → List Op → Prop
  | _, [] => True
  | s, op :: ops => (∀ l, IsLog s l → op.Admissible l) ∧ AdmissibleRun (step s op).1 ops

/-- Lifted to sequences: after every prefix of an admissible sequence of recording
operations the log is a single well-formed chain extending the initial one. -/
theorem C03_run_inv (ops : List Op) : ∀ (s : Store), ChainInv s → AdmissibleRun s ops →
    ∀ k, ChainInv (run s (ops.take k)) ∧ Extends s (run s (ops.take k)) := by
  induction ops with
  | nil => intro s hs _ k; simp only [List.take_nil, run]; exact ⟨hs, Extends.refl s⟩
  | cons op ops ih =>
    intro s hs hadm k
    cases k with
    | zero => simp only [List.take_zero, run]; exact ⟨hs, Extends.refl s⟩
    | succ k =>
      obtain ⟨l, hl⟩ := hs
      have hinv := C03_step_inv s l op hl (hadm.1 l hl)
      have := ih (step s op).1 hinv hadm.2 k
      simp only [List.take_succ_cons, run]
      exact ⟨this.1, (C03_step_extends s op).trans this.2⟩

/-- Sequences of numbered operations (the API gittuf itself uses) in which every annotation
names at least one entry are admissible from any well-formed log. -/
theorem C03_numbered_admissible (ops : List Op) (hops : ∀ op ∈ ops, op.Named ∧ op.isLegacy = false) :
    ∀ s, AdmissibleRun s ops := by
  induction ops with
  | nil => intro s; trivial
  | cons op ops ih =>
    intro s
    refine ⟨fun l _ => ⟨(hops op List.mem_cons_self).1, fun h => ?_⟩, ih (fun o ho => hops o (List.mem_cons_of_mem _ ho)) _⟩
    rw [(hops op List.mem_cons_self).2] at h; cases h

/-- The automatic skip (`SkipAllInvalidReferenceEntriesForRef`) writes nothing, or is exactly
one skip annotation naming at least one entry, recorded through the ordinary annotation path. -/
theorem C03_skipAll_shape (knows : Id → Id → Bool) (ref : String) (s : Store) :
    (∃ r, skipAllInvalid knows ref s = (s, r) ∧ (r = .ok [] ∨ ∃ e, r = .error e)) ∨
    (∃ i is m, skipAllInvalid knows ref s = step s (.annotation (i :: is) true m)) := by
  unfold skipAllInvalid
  split
  · exact Or.inl ⟨_, rfl, Or.inr ⟨_, rfl⟩⟩
  · split
    · exact Or.inl ⟨_, rfl, Or.inl rfl⟩
    · exact Or.inl ⟨_, rfl, Or.inr ⟨_, rfl⟩⟩
    · split
      · exact Or.inl ⟨_, rfl, Or.inr ⟨_, rfl⟩⟩
      · split
        · exact Or.inl ⟨_, rfl, Or.inr ⟨_, rfl⟩⟩
        · exact Or.inl ⟨_, rfl, Or.inl rfl⟩
        · exact Or.inr ⟨_, _, _, rfl⟩

/-- … hence it preserves the chain invariant and is append-only. -/
theorem C03_skipAll_inv (knows : Id → Id → Bool) (ref : String) (s : Store) (l : List LEntry) (hl : IsLog s l) :
    ChainInv (skipAllInvalid knows ref s).1 ∧ Extends s (skipAllInvalid knows ref s).1 := by
  rcases C03_skipAll_shape knows ref s with ⟨r, h, _⟩ | ⟨i, is, m, h⟩
  · rw [h]; exact ⟨⟨l, hl⟩, Extends.refl s⟩
  · rw [h]
    exact ⟨C03_step_inv s l _ hl ⟨by simp [Op.Named], fun h => by cases h⟩, C03_step_extends s _⟩

/-- What recording guarantees about annotations (the hypothesis of the C04 theorems): on a
log whose annotations name only stored commits and only older entries, a successful
operation yields such a log again — the new entry has a fresh id, so nothing older can name
it, and an accepted annotation names only ids that were already stored. -/
theorem C03_step_annBackward (s : Store) (l : List LEntry) (op : Op) (hl : IsLog s l) (hadm : op.Admissible l)
    (hb : AnnBackward l) (hc : AnnClosed s l) (s' : Store) (ids : List Id) (h : step s op = (s', .ok ids)) :
    ∃ x, IsLog s' (x :: l) ∧ AnnBackward (x :: l) ∧ AnnClosed s' (x :: l) := by
  have hex := C03_step_exact s l op hl hadm
  rw [h] at hex
  simp only at hex
  obtain ⟨x, hids, hfresh, hlog, _⟩ := hex
  have hext := (C03_step_extends s op).1
  rw [h] at hext
  simp only at hext
  obtain ⟨e, hs', hstored⟩ := step_ok_entry h
  -- the new entry is `e`
  have hxe : ∀ i, x.e.refersTo i = true → s.get i ≠ none := by
    have htip : s'.tip = some s.fresh := by rw [hs']; rfl
    unfold IsLog at hlog
    rw [htip] at hlog
    simp only at hlog
    obtain ⟨y, rest, hy, _, hge⟩ := hlog.head
    cases hy
    obtain ⟨c, hcget, hce⟩ := getEntry_get hge
    rw [hs', commitEntry_get_new] at hcget
    cases hcget
    simp only at hce
    rw [parseBack_some hce]
    exact hstored
  refine ⟨x, hlog, ⟨?_, hb⟩, ?_⟩
  · -- nothing names the fresh id
    intro a ha
    cases hr : a.e.refersTo x.id with
    | false => rfl
    | true =>
      rcases List.mem_cons.mp ha with h1 | h1
      · subst h1; exact absurd hfresh (hxe _ hr)
      · exact absurd hfresh (hc a h1 _ hr)
  · intro a ha i hi
    have hsi : s.get i ≠ none := by
      rcases List.mem_cons.mp ha with h1 | h1
      · subst h1; exact hxe i hi
      · exact hc a h1 i hi
    cases hg : s.get i with
    | none => exact absurd hg hsi
    | some c => rw [hext i c hg]; simp

/-- The unrestricted statement for the numbered operations: *every* recording operation
keeps the invariant.  It does not hold of the code as it stands (F25): see `C03_F25`. -/
def C03_step_inv_full : Prop :=
  ∀ (s : Store) (op : Op), op.isLegacy = false → ChainInv s → ChainInv (step s op).1

/-- F25: an annotation that names no entry is accepted, and the commit it writes does not
parse back as an entry — the log's tip is no longer a well-formed entry. -/
theorem C03_F25 : ¬ C03_step_inv_full := by
  intro h
  have hc := h {} (.annotation [] true "") rfl C03_init
  obtain ⟨l, hl⟩ := hc
  have hget : (step {} (.annotation [] true "")).1.get 1 = some ⟨[], none⟩ := by decide
  have htip : (step {} (.annotation [] true "")).1.tip = some 1 := by decide
  unfold IsLog at hl
  rw [htip] at hl
  simp only at hl
  cases hl with
  | root hg => rw [hget] at hg; cases hg
  | cons hg _ _ => rw [hget] at hg; cases hg

/-- … and from then on every numbered operation fails (the RSL is stuck). -/
example : (step (step {} (.annotation [] true "")).1 (.reference "refs/heads/main" 7)).2 = .error .invalid := by decide

/-! Non-vacuity: a legacy prefix followed by numbered entries and an annotation. -/
example : ((run {} [.referenceLegacy "refs/heads/main" 7, .reference "refs/heads/main" 8,
      .annotation [1] true "revoke", .propagation "refs/heads/main" 9 "up" 3]).chain.map
        (fun p => (p.1, p.2.parents, p.2.entry.map (·.number)))) =
    [(4, [3], some 3), (3, [2], some 2), (2, [1], some 1), (1, [], some 0)] := by decide
example : AdmissibleRun {} [.reference "refs/heads/main" 8, .annotation [1] true "revoke"] :=
  C03_numbered_admissible _ (by intro op h; simp at h; rcases h with h | h <;> subst h <;> exact ⟨by simp [Op.Named], rfl⟩) _
-- a named id that is not an entry: refused, store unchanged
example : step (run {} [.reference "refs/heads/main" 8]) (.annotation [1, 5] true "x") =
    (run {} [.reference "refs/heads/main" 8], .error .notFound) := by decide

/-! ## append-only over whole histories, with no side condition (round 2) -/

/-- ANY finite sequence of recording operations (admissible or not: annotations naming nothing,
legacy and numbered operations mixed, failing operations, the skip-all operation) from ANY store:
no stored commit ever changes and the old tip stays an ancestor of the new one.  Unlike
`C03_run_inv` this needs no well-formedness or admissibility hypothesis. -/
theorem C03_run_extends (ops : List Op) : ∀ s : Store, Extends s (run s ops) := by
  induction ops with
  | nil => intro s; exact Extends.refl s
  | cons op ops ih => intro s; simp only [run]; exact (C03_step_extends s op).trans (ih _)

theorem run_append (a b : List Op) : ∀ s : Store, run s (a ++ b) = run (run s a) b := by
  induction a with
  | nil => intro s; rfl
  | cons op a ih => intro s; simp only [List.cons_append, run]; exact ih _

/-- Hence every intermediate state of a history is extended by every later one: what any reader
saw after `k` operations is still there, unchanged and reachable from the tip, at the end. -/
theorem C03_run_prefix_extends (ops : List Op) (s : Store) (k : Nat) :
    Extends (run s (ops.take k)) (run s ops) := by
  have h := run_append (ops.take k) (ops.drop k) s
  rw [List.take_append_drop] at h
  rw [h]; exact C03_run_extends _ _

end Gittuf.RSL
