/-
C19 — theorems about the mergeability prediction of the verification model
(`usingVerifiers.go` in mergeable mode; Go: verify.go:1300-1392, 232-314).
-/
import Gittuf.Spec.C19
namespace Gittuf
namespace World

/-- Full statement (repaired variants): the prediction agrees with the verification of the
recorded fast-forward merge.  Evaluated by the driver on the REAL code: VerifyMergeable is called,
then the merge is recorded by each candidate recorder and verified with VerifyRefFull. -/
def C19_statement : Prop :=
  ∀ (W : World) (target feature : String) (fc : Nat) (need : Bool),
    W.verifyMergeable Variant.good target feature = .ok need →
    ∀ (k : Option KeyId),
      (need = false → ∃ tip, (W.withMerge target fc k).verifyRefFull Variant.good target = .ok tip)

/-- **What "signature needed" means in the verifier loop**: if the loop answers that the recorder's
signature is still needed, it is because some non-exhaustive rule with threshold `t` has exactly
`t - 1` counted principals of its own — one more authorized, not yet counted principal is what is
missing (for every verifier list, signature, envelope and approver set). -/
theorem C19_need_means_one_short (v : Variant) (g : Option Sig) (auth : Option Envelope) (ap : Option (List String))
    (apps : List String) (defs : List PrincipalSpec) (vs : List VerifierN) (r : UVResult)
    (h : usingVerifiers.go v g auth ap true apps defs vs = .ok r) (hn : r.rslNeeded = true) :
    ∃ vn ∈ vs, vn.name = r.usedName ∧ (r.accepted.length : Int) = vn.v.threshold - 1 ∧
      ∀ p ∈ r.accepted, ∃ P ∈ vn.v.principals, P.id = p := by
  induction vs with
  | nil => simp [usingVerifiers.go] at h
  | cons vn rest ih =>
    unfold usingVerifiers.go at h
    split at h
    · -- verified outright: rslNeeded = false
      cases h; simp at hn
    · rename_i used hused
      simp only at h
      split at h
      · cases h; simp at hn
      · rename_i hnot
        split at h
        · rename_i hrel
          cases h
          simp only [Bool.true_and, Bool.and_eq_true, decide_eq_true_eq] at hrel
          refine ⟨vn, List.mem_cons_self, rfl, ?_, ?_⟩
          · have h1 := hrel.2
            have h2 := hnot
            show ((List.filter (fun p => vn.v.principals.any fun x => x.id == p)
              (withApprovers defs apps vn.v.principals ap used)).length : Int) = vn.v.threshold - 1
            omega
          · intro p hp
            simp only [List.mem_filter, List.any_eq_true, beq_iff_eq] at hp
            obtain ⟨_, P, hP, hid⟩ := hp
            exact ⟨P, hP, hid⟩
        · obtain ⟨vn', hvn', h1, h2, h3⟩ := ih h
          exact ⟨vn', List.mem_cons_of_mem _ hvn', h1, h2, h3⟩
    · cases h

/-- **"No further signature needed" means a rule is already met without the recorder**: the loop
answers `rslNeeded = false` only when a verifier accepted outright or its own counted principals
reach its threshold. -/
theorem C19_no_need_means_met (v : Variant) (g : Option Sig) (auth : Option Envelope) (ap : Option (List String))
    (m : Bool) (apps : List String) (defs : List PrincipalSpec) (vs : List VerifierN) (r : UVResult)
    (h : usingVerifiers.go v g auth ap m apps defs vs = .ok r) (hn : r.rslNeeded = false) :
    ∃ vn ∈ vs, vn.name = r.usedName ∧
      ((∃ used, vn.v.verify g 1 auth = .ok used ∧ r.accepted = used) ∨
       vn.v.threshold ≤ (r.accepted.length : Int)) := by
  induction vs with
  | nil => simp [usingVerifiers.go] at h
  | cons vn rest ih =>
    unfold usingVerifiers.go at h
    split at h
    · rename_i used hused
      cases h
      exact ⟨vn, List.mem_cons_self, rfl, Or.inl ⟨used, hused, rfl⟩⟩
    · rename_i used hused
      simp only at h
      split at h
      · rename_i hmet
        cases h
        exact ⟨vn, List.mem_cons_self, rfl, Or.inr hmet⟩
      · split at h
        · cases h; simp at hn
        · obtain ⟨vn', hvn', h1, h2⟩ := ih h
          exact ⟨vn', List.mem_cons_of_mem _ hvn', h1, h2⟩
    · cases h

/-- the F27 witness: a threshold-1 rule and no approvals — the loop refuses in mergeable mode (current
variant) although the rule's principal alone satisfies it once it signs the entry -/
example :
    let vs : List VerifierN := [⟨"protect-main", { principals := [⟨2, [2]⟩], threshold := 1 }⟩]
    (usingVerifiers Variant.current ⟨⟨1, [0], 1, [1], 1, [], [], [0]⟩, []⟩ vs none none none true).isOk = false ∧
    (usingVerifiers Variant.current ⟨⟨1, [0], 1, [1], 1, [], [], [0]⟩, []⟩ vs (some ⟨2, 1, none⟩) none none false).isOk = true ∧
    (usingVerifiers Variant.good ⟨⟨1, [0], 1, [1], 1, [], [], [0]⟩, []⟩ vs none none none true).isOk = true := by
  decide

/-- **"Possible, no further signature needed" is exactly what verification decides**: whenever the
verifier loop in mergeability mode answers without asking for the recorder's signature, the loop
in verification mode returns the very same answer on the same signature, approvals and rules —
for every verifier list, signature, envelope and approver set, in every variant. -/
theorem C19_no_need_is_verification (v : Variant) (g : Option Sig) (auth : Option Envelope)
    (ap : Option (List String)) (apps : List String) (defs : List PrincipalSpec)
    (vs : List VerifierN) (r : UVResult)
    (h : usingVerifiers.go v g auth ap true apps defs vs = .ok r) (hn : r.rslNeeded = false) :
    usingVerifiers.go v g auth ap false apps defs vs = .ok r := by
  induction vs with
  | nil => simp [usingVerifiers.go] at h
  | cons vn rest ih =>
    unfold usingVerifiers.go at h ⊢
    split at h
    · exact h
    · rename_i used hused
      simp only at h ⊢
      split at h
      · rename_i hmet
        simp only [hmet, if_true]; exact h
      · rename_i hnot
        simp only [hnot, if_false]
        split at h
        · cases h; simp at hn
        · simp only [Bool.false_and, Bool.false_eq_true, if_false]
          exact ih h
    · rename_i x hx hnot
      cases h

/-- **A refusal in mergeability mode is a refusal in verification mode**: if the loop refuses the
merge outright ("not possible"), verification with the same signature, approvals and rules refuses
too — mergeability mode only ever relaxes. -/
theorem C19_refusal_is_refusal (v : Variant) (g : Option Sig) (auth : Option Envelope)
    (ap : Option (List String)) (apps : List String) (defs : List PrincipalSpec)
    (vs : List VerifierN) (e : VE)
    (h : usingVerifiers.go v g auth ap true apps defs vs = .error e) :
    usingVerifiers.go v g auth ap false apps defs vs = .error e := by
  induction vs with
  | nil => simpa [usingVerifiers.go] using h
  | cons vn rest ih =>
    unfold usingVerifiers.go at h ⊢
    split at h
    · cases h
    · rename_i used hused
      simp only at h ⊢
      split at h
      · cases h
      · rename_i hnot
        simp only [hnot, if_false]
        split at h
        · cases h
        · simp only [Bool.false_and, Bool.false_eq_true, if_false]
          exact ih h
    · exact h

/-- and verification mode accepting implies mergeability mode accepts (possibly at an earlier rule) -/
theorem C19_verification_implies_possible (v : Variant) (g : Option Sig) (auth : Option Envelope)
    (ap : Option (List String)) (apps : List String) (defs : List PrincipalSpec)
    (vs : List VerifierN) (r : UVResult)
    (h : usingVerifiers.go v g auth ap false apps defs vs = .ok r) :
    ∃ r', usingVerifiers.go v g auth ap true apps defs vs = .ok r' := by
  cases hm : usingVerifiers.go v g auth ap true apps defs vs with
  | ok r' => exact ⟨r', rfl⟩
  | error e =>
    rw [C19_refusal_is_refusal v g auth ap apps defs vs e hm] at h
    cases h

end World
end Gittuf
