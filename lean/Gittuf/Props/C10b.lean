/-
C10, verification layer (b): every path changed by every newly introduced commit is checked
against the file rules.  Theorems about `verifyFiles` / `verifyPaths` / `verifyEntry`.
-/
import Gittuf.Proofs.Entry
namespace Gittuf
namespace World

/-- the per-path loop checks EVERY path of the list: if it succeeds, each path was accepted by
`verifyObject` (possibly through the trusted-verifier shortcut, which only fires for a verifier
among those consulted for that very path) -/
theorem verifyPaths_all (W : World) (v : Variant) (P : Policy) (ap : Approvals) (g : Option Sig)
    (paths : List String) (used : String) (h : W.verifyPaths v P ap g paths used = .ok ()) :
    ∀ path ∈ paths, ∃ u res, W.verifyObject v P ("file:" ++ path) g none ap { trusted := u } = .ok res := by
  induction paths generalizing used with
  | nil => intro p hp; cases hp
  | cons a rest ih =>
    intro p hp
    unfold verifyPaths at h
    split at h
    · cases h
    · rename_i u b hres
      rcases List.mem_cons.mp hp with hp | hp
      · subst hp; exact ⟨used, (u, b), hres⟩
      · exact ih u h p hp

/-- **Every changed path of every listed commit is checked** (for all commit lists, trees, policies) -/
theorem C10_all_paths (W : World) (v : Variant) (P : Policy) (ap : Approvals) (commits : List Nat)
    (h : W.verifyFiles v P ap commits = .ok ()) :
    ∀ c ∈ commits, ∀ path ∈ W.changedPaths c, ∃ u res,
      W.verifyObject v P ("file:" ++ path) (sigOf (W.commitSigner c)) none ap { trusted := u } = .ok res := by
  induction commits with
  | nil => intro c hc; cases hc
  | cons a rest ih =>
    intro c hc path hpath
    unfold verifyFiles at h
    split at h
    · cases h
    · rename_i hp
      rcases List.mem_cons.mp hc with hc | hc
      · subst hc; exact verifyPaths_all W v P ap _ _ _ hp path hpath
      · exact ih h c hc path hpath

/-- **Acceptance of an entry under a policy with file rules covers every commit newly introduced
to the reference** (all commits reachable from the new target and not from the previous one: linear,
merge and root commits alike) and every path each of them changes. -/
theorem C10_entry_checks_all_commits (W : World) (v : Variant) (P : Policy) (A : Option AttState) (i : Nat)
    (e : LogEntry) (hne : (e.ref == policyRef || e.ref == attestationsRef) = false)
    (hfile : hasFileRuleV v P = true) (h : W.verifyEntry v P A i e = .ok ()) :
    ∃ tc ap, targetCommit e = some tc ∧
      ∀ c ∈ W.commitsBetween tc (W.fromId e.ref i), ∀ path ∈ W.changedPaths c, ∃ u res,
        W.verifyObject v P ("file:" ++ path) (sigOf (W.commitSigner c)) none ap { trusted := u } = .ok res := by
  unfold verifyEntry at h
  simp only [hne, Bool.false_eq_true, if_false] at h
  split at h
  · cases h
  · rename_i tc htc
    simp only [bind, Except.bind] at h
    split at h
    · cases h
    · rename_i ap hap
      split at h
      · cases h
      · simp only [hfile, Bool.not_true, Bool.false_eq_true, if_false] at h
        exact ⟨tc, ap, htc, C10_all_paths W v P ap _ h⟩

/-- `commitsBetween` really is "reachable from the new target and not from the previous one" -/
theorem commitsBetween_spec (W : World) (new : Nat) (old : Nat) (c : Nat) :
    c ∈ W.commitsBetween new (some old) ↔ c ∈ W.ancestors new ∧ c ∉ W.ancestors old := by
  simp [commitsBetween, List.mem_filter]

end World
end Gittuf
