/-
C10, layer (a): the path codec.  "Path names containing spaces, quotes, backslashes, control or
non-ASCII characters are handled verbatim - never quoted, truncated or skipped - when trees are
read back."  (Layer (b), the verification loop over changed paths, is C10b.)

* `paths_roundtrip_z`, `changed_verbatim_z`: the repaired (NUL-delimited) readers return every
  name verbatim, for all names without NUL - full strength.
* `paths_roundtrip_partial`, `changed_one_partial`: the readers as coded return the names
  verbatim when every name consists of safe bytes only (`safeName`).
* `paths_witness`: for the code as it stands the full statement `PathsVerbatimAsCoded` is false
  (finding F8): `a b`, `é`, ` x`.
-/
import Gittuf.Proofs.Tree
namespace Gittuf
open Tree
open Gittuf.Codec (Bytes splitNL joinNL trimSpace)

/-- Repaired behaviour: with `-z` output split at NUL, every list of NUL-free names (any other
byte allowed: blanks, quotes, backslashes, control bytes, bytes ≥ 0x80, glob characters, "/")
is read back verbatim. -/
theorem paths_roundtrip_z (names : List Path) (h : ∀ n ∈ names, (0 : UInt8) ∉ n) :
    parseNamesZ (renderNameOnlyZ names) = names := by
  unfold parseNamesZ
  rw [parseNamesZ_render names h]
  simp

theorem foldl_insertSet_z (ds : List (List Path)) (h : ∀ d ∈ ds, ∀ n ∈ d, (0 : UInt8) ∉ n) (acc : List Bytes) :
    ds.foldl (fun acc d => (parseNamesZ (renderNameOnlyZ d)).foldl (fun acc p => insertSet p acc) acc) acc
      = ds.flatten.foldl (fun acc p => insertSet p acc) acc := by
  induction ds generalizing acc with
  | nil => rfl
  | cons d rest ih =>
    simp only [List.foldl_cons, List.flatten_cons, List.foldl_append]
    rw [paths_roundtrip_z d (h d (by simp))]
    exact ih (fun d' hd' => h d' (by simp [hd'])) _

/-- Repaired behaviour, whole function: `GetFilePathsChangedByCommit` reading NUL-delimited output
returns exactly the prescribed list (root commit: all paths; one parent: the diff; merge: nothing
if tree-same as the last parent, else the union), verbatim, for all NUL-free names. -/
theorem changed_verbatim_z (files : List Path) (diffs : List (List Path))
    (hf : ∀ n ∈ files, (0 : UInt8) ∉ n) (hd : ∀ d ∈ diffs, ∀ n ∈ d, (0 : UInt8) ∉ n) :
    ChangedVerbatim (changedPaths good files diffs) files diffs := by
  unfold ChangedVerbatim changedPaths expectedChanged
  simp only [good, ↓reduceIte]
  match diffs, hd with
  | [], _ => exact paths_roundtrip_z files hf
  | [d], hd => exact paths_roundtrip_z d (hd d (by simp))
  | d1 :: d2 :: rest, hd =>
    simp only
    cases hl : (d1 :: d2 :: rest).getLast? with
    | none => simp at hl
    | some last =>
      cases last with
      | nil => simp
      | cons a l =>
        simp only [List.cons_ne_nil, ↓reduceIte]
        rw [foldl_insertSet_z _ hd]
        rfl

/-- the full statement for a reader `read` of name lists: every list of NUL-free names is
returned verbatim -/
def PathsVerbatim (read : List Path → List Bytes) : Prop :=
  ∀ names : List Path, (∀ n ∈ names, (0 : UInt8) ∉ n) → read names = names

/-- the repaired reader meets the full statement -/
theorem paths_verbatim_z : PathsVerbatim (fun names => parseNamesZ (renderNameOnlyZ names)) :=
  fun names h => paths_roundtrip_z names h

theorem joinNL_head (n : Path) (a : UInt8) (n' : Path) (rest : List Path) (h : n = a :: n') :
    ∃ t, joinNL (n :: rest) = a :: t := by
  subst h
  cases rest with
  | nil => exact ⟨n', rfl⟩
  | cons m r => exact ⟨n' ++ 10 :: joinNL (m :: r), rfl⟩

theorem joinNL_last (names : List Path) (hne : names ≠ []) (h : ∀ n ∈ names, safeName n = true) :
    ∃ b y, (joinNL names).reverse = b :: y ∧ safeByte b = true := by
  induction names with
  | nil => exact absurd rfl hne
  | cons n rest ih =>
    cases rest with
    | nil =>
      have hn := h n (by simp)
      simp only [safeName, Bool.and_eq_true, List.all_eq_true] at hn
      cases hr : n.reverse with
      | nil => simp at hr; simp [hr] at hn
      | cons b y =>
        refine ⟨b, y, by simp [joinNL, hr], hn.2 b ?_⟩
        have : b ∈ n.reverse := by simp [hr]
        simpa using this
    | cons m r =>
      obtain ⟨b, y, hby, hb⟩ := ih (by simp) (fun x hx => h x (by simp [hx]))
      refine ⟨b, y ++ 10 :: n.reverse, ?_, hb⟩
      simp only [joinNL, List.reverse_append, List.reverse_cons] at hby ⊢
      rw [hby]
      simp

theorem trim_render_safe (names : List Path) (hne : names ≠ []) (h : ∀ n ∈ names, safeName n = true) :
    trimSpace (renderNameOnly names) = joinNL names := by
  rw [renderNameOnly_safe names h hne]
  obtain ⟨b, y, hby, hb⟩ := joinNL_last names hne h
  match names, hne, h with
  | n :: rest, _, h =>
    have hn := h n (by simp)
    simp only [safeName, Bool.and_eq_true, List.all_eq_true] at hn
    cases hn' : n with
    | nil => simp [hn'] at hn
    | cons a n' =>
      obtain ⟨t, ht⟩ := joinNL_head n a n' rest hn'
      have ha : safeByte a = true := hn.2 a (by simp [hn'])
      rw [← hn']
      exact trimSpace_text_nl _ a t ht ha b y hby hb

/-- The code as it stands (root commit: `ls-tree --name-only -r`, TrimSpace, split at "\n"):
the names are returned verbatim when each consists of safe bytes only - no space, tab, newline,
quote, backslash, control byte, DEL or byte ≥ 0x80 (so no leading or trailing blanks). -/
theorem paths_roundtrip_partial (names : List Path) (hne : names ≠ []) (h : ∀ n ∈ names, safeName n = true) :
    changedRoot (renderNameOnly names) = names := by
  unfold changedRoot
  rw [trim_render_safe names hne h]
  exact Codec.splitNL_joinNL names hne (fun l hl => safe_noNL l (h l hl))

/-- the same for a commit with one parent (`diff-tree --name-only -r`), including the empty diff -/
theorem changed_one_partial (names : List Path) (h : ∀ n ∈ names, safeName n = true) :
    changedOne (renderNameOnly names) = names := by
  cases names with
  | nil => decide
  | cons n rest =>
    unfold changedOne
    rw [trim_render_safe (n :: rest) (by simp) h]
    have hn := h n (by simp)
    simp only [safeName, Bool.and_eq_true, List.all_eq_true] at hn
    cases hn' : n with
    | nil => simp [hn'] at hn
    | cons a n' =>
      obtain ⟨t, ht⟩ := joinNL_head n a n' rest hn'
      rw [← hn', ht]
      simp only [List.cons_ne_nil, ↓reduceIte]
      rw [← ht]
      exact Codec.splitNL_joinNL (n :: rest) (by simp) (fun l hl => safe_noNL l (h l hl))

/-! ### the code as it stands does not meet the full statement (F8) -/

def zeroId : Codec.Hash := List.replicate 40 0

/-- `a b`, `é`, ` x` -/
def nameAB : Path := [97, 32, 98]
def nameE : Path := [0xC3, 0xA9]
def nameSX : Path := [32, 120]

set_option maxRecDepth 100000 in
/-- F8: `a b` is listed as `a` by GetAllFilesInTree, `é` reaches the rule matcher as
`"\303\251"`, ` x` as `x`. -/
theorem paths_witness :
    getAllFilesInTree (renderLsTreeR [⟨nameAB, .regular, zeroId⟩]) = .ok [([97], zeroId)]
    ∧ changedRoot (renderNameOnly [nameE]) = [[34, 92, 51, 48, 51, 92, 50, 53, 49, 34]]
    ∧ changedRoot (renderNameOnly [nameSX]) = [[120]] := by
  decide

/-- hence the reader as coded does not meet the full statement -/
theorem paths_not_verbatim_as_coded : ¬ PathsVerbatim (fun names => changedRoot (renderNameOnly names)) := by
  intro h
  have := h [nameSX] (by decide)
  simp only [paths_witness.2.2] at this
  exact absurd this (by decide)

/-! ### the hypotheses are satisfiable by non-trivial inputs -/

example : ∀ n ∈ [nameAB, nameE, nameSX, [34, 92, 9, 1, 127, 42, 63, 91]], (0 : UInt8) ∉ n := by decide
example : parseNamesZ (renderNameOnlyZ [nameAB, nameE, nameSX]) = [nameAB, nameE, nameSX] := by decide
example : ∀ n ∈ [[102, 111, 111], [102, 111, 111, 98, 97, 114, 47, 42, 63, 91]], safeName n = true := by decide
example : safeName nameAB = false ∧ safeName nameE = false ∧ safeName nameSX = false := by decide

end Gittuf
