/-
C17 — concurrent writers cannot corrupt the log.
Model: Gittuf/Model/Script.lean (threads = programs issuing Storer calls; schedules = lists of
thread ids; `Global.run`).  Spec: Gittuf/Spec/C17.lean.
-/
import Gittuf.Proofs.Script
namespace Gittuf.Script

macro "disc1" : tactic =>
  `(tactic| first
    | exact Disciplined.ret _
    | (refine Disciplined.call _ _ rfl ?_; intro resp; cases resp))

theorem disc_commitEntry (rc : Rec) (n : Nat) (k : Resp → Prog) (hk : ∀ r, Disciplined (k r)) :
    Disciplined (commitEntry rc n k) := by
  unfold commitEntry
  split
  · refine Disciplined.call _ _ rfl ?_
    intro resp
    cases resp <;> first | exact hk _ | exact Disciplined.call _ _ rfl hk
  · exact Disciplined.call _ _ rfl hk

theorem disc_recTail (rc : Rec) (n : Nat) : Disciplined (recTail rc n) := by
  unfold recTail
  refine Disciplined.call _ _ rfl ?_
  intro resp
  cases resp <;> first
    | exact Disciplined.ret _
    | (apply disc_commitEntry; intro r; cases r <;> exact Disciplined.ret _)

theorem disc_recCode (rc : Rec) (cache : Cache) : Disciplined (recCode rc cache) := by
  unfold recCode
  refine Disciplined.call _ _ rfl ?_
  intro resp
  cases resp with
  | ref o =>
    cases o with
    | none => exact disc_recTail _ _
    | some t =>
      simp only []
      split
      · exact disc_recTail _ _
      · refine Disciplined.call _ _ rfl ?_
        intro r
        cases r <;> first | exact Disciplined.ret _ | exact disc_recTail _ _
  | _ => exact Disciplined.ret _

theorem disc_fin (p : Payload) (o : Option Cid) :
    Disciplined (.call .emptyTree fun
      | .cid _ => .call (.commitCas .rsl p o) fun
        | .cid _ => .ret .ok
        | _ => .ret .err
      | _ => .ret .err) := by
  refine Disciplined.call _ _ rfl ?_
  intro resp
  cases resp <;> first
    | exact Disciplined.ret _
    | (refine Disciplined.call _ _ rfl ?_; intro r; cases r <;> exact Disciplined.ret _)

theorem disc_recRepaired (rc : Rec) (cache : Cache) : Disciplined (recRepaired rc cache) := by
  unfold recRepaired
  refine Disciplined.call _ _ rfl ?_
  intro resp
  cases resp with
  | ref o =>
    cases o with
    | none => exact disc_fin _ _
    | some t =>
      simp only []
      split
      · exact disc_fin _ _
      · refine Disciplined.call _ _ rfl ?_
        intro r
        cases r <;> first | exact Disciplined.ret _ | exact disc_fin _ _
  | _ => exact Disciplined.ret _

theorem disc_record (rc : Rec) (cache : Cache) : Disciplined (record rc cache) := by
  unfold record
  split
  · exact disc_recCode _ _
  · exact disc_recRepaired _ _

theorem disc_annotateFrom (rc : Rec) (ids : List Cid) (cache : Cache) : Disciplined (annotateFrom rc ids cache) := by
  induction ids generalizing cache with
  | nil => exact disc_record _ _
  | cons id ids ih =>
    unfold annotateFrom
    split
    · exact ih _
    · refine Disciplined.call _ _ rfl ?_
      intro r
      cases r <;> first | exact Disciplined.ret _ | exact ih _

/-- the recording operations of pkg/rsl move the log reference only through Commit. -/
theorem disc_recordRef (r : Ref) (t : Cid) (split : Bool) (proto : Proto) (cache : Cache) :
    Disciplined (recordRef r t split proto cache) := disc_record _ _

theorem disc_annotate (ids : List Cid) (split : Bool) (proto : Proto) :
    Disciplined (annotate ids split proto) := disc_annotateFrom _ _ _

/-- **conc_linear.** Any number of threads, each running any program that moves the log
reference only through Commit / compare-and-set (in particular the recording operations,
`disc_recordRef`, `disc_annotate`, under either protocol and at either granularity), any
schedule: commit objects are only ever added, the log tip the run started from is reachable
along first parents from the tip it ends with (no entry that was in the log is lost, no fork),
and every object created has at most one parent. -/
theorem conc_linear (g : Global) (sched : List Nat) (h : ∀ t ∈ g.threads, Disciplined t.prog) :
    Ext g.store (g.run sched).store :=
  (run_ext g sched h).1

/-- the same for every intermediate point: each earlier tip stays reachable from each later one. -/
theorem conc_linear_prefix (g : Global) (s1 s2 : List Nat) (h : ∀ t ∈ g.threads, Disciplined t.prog) :
    Ext (g.run s1).store ((g.run s1).run s2).store :=
  (run_ext (g.run s1) s2 (run_ext g s1 h).2).1

-- ---------------------------------------------------------------------------------------
-- numbering

/-- two writers on a log of `pre` entries. -/
def twoWriters (pre : Nat) (split : Bool) (proto : Proto) : Global :=
  { store :=
      { commits := (List.range pre).map fun i =>
          { parents := if i = 0 then [] else [i - 1], payload := .refEntry (.branch 100) 9999 (i + 1), owner := 0 },
        refs := if pre = 0 then [] else [(.rsl, pre - 1)] },
    threads := [ { owner := 1, prog := recordRef (.branch 0) 1000 split proto },
                 { owner := 2, prog := recordRef (.branch 1) 1001 split proto } ] }

def Global.finishAll (g : Global) : Global := (g.finish 0 8).finish 1 8

def Global.results (g : Global) : List Bool := g.threads.map (fun t => t.result == some .ok)

def Global.allDone (g : Global) : Bool := g.threads.all (fun t => t.result.isSome)

/-- all schedules over two threads of length `n`. -/
def schedules : Nat → List (List Nat)
  | 0 => [[]]
  | n + 1 => (schedules n).flatMap fun s => [0 :: s, 1 :: s]

/-- **conc_numbers_witness (F14).** The code's two-read protocol (number from
setEntryNumber's read of the tip, parent from the read inside Commit): thread 0 reads the tip
and its number (2 calls), thread 1 records its whole entry, thread 0 continues. Both report
success and both entries carry number 3 on a log that had 2 entries: the chain is not
consecutively numbered (every reader then fails in GetParentForEntry, rsl.go:566-577). -/
theorem conc_numbers_witness :
    let g := ((twoWriters 2 false .code).run [0, 0, 1, 1, 1, 1, 0, 0])
    g.results = [true, true] ∧
    g.store.nodes.map (·.number) = [3, 3, 2, 1] ∧
    chainOKB g.store.nodes = false := by
  decide

/-- the same schedule under the repaired protocol: thread 0's compare-and-set fails, it reports
an error and leaves no entry. -/
example :
    let g := ((twoWriters 2 true .repaired).run [0, 0, 1, 1, 1, 1, 0, 0])
    g.results = [false, true] ∧ g.store.nodes.map (·.number) = [3, 2, 1] ∧
    c17HoldsB 2 g.results g.store.nodes true = true := by
  decide

/-- **conc_numbers (full statement).** Under the repaired protocol, for any number of recording
threads and any schedule, once all threads have finished the observed chain satisfies C17. -/
def conc_numbers_statement : Prop :=
  ∀ (pre : Nat) (specs : List (Ref × Cid)) (split : Bool) (sched : List Nat),
    let g0 : Global := { (twoWriters pre split .repaired) with
      threads := specs.zipIdx.map fun (x, i) => { owner := i + 1, prog := recordRef x.1 x.2 split .repaired } }
    let g := g0.run sched
    g.allDone = true → C17Holds pre g.results g.store.nodes true

/-- **conc_exactly_once (full statement).** Under either protocol, an operation that reports
success has its entry in the chain exactly once and one that reports failure has none. -/
def conc_exactly_once_statement : Prop :=
  ∀ (pre : Nat) (specs : List (Ref × Cid)) (split : Bool) (proto : Proto) (sched : List Nat),
    let g0 : Global := { (twoWriters pre split proto) with
      threads := specs.zipIdx.map fun (x, i) => { owner := i + 1, prog := recordRef x.1 x.2 split proto } }
    let g := g0.run sched
    g.allDone = true → ExactlyOnce g.results g.store.nodes ∧ PreKept pre g.store.nodes

/-- **conc_numbers_partial.** Two writers, repaired protocol, Commit in two halves, logs of 0
and 2 entries: under EVERY schedule (all 2^10 orders of the at most 5+5 calls, followed by
running both to completion) the outcome satisfies C17: valid consecutively numbered chain,
entries of successful operations exactly once, failed ones absent, old entries kept. -/
theorem conc_numbers_partial :
    ∀ pre ∈ [0, 2], ∀ s ∈ schedules 10,
      let g := ((twoWriters pre true .repaired).run s).finishAll
      g.allDone = true ∧ c17HoldsB pre g.results g.store.nodes true = true := by
  decide +kernel

/-- **conc_exactly_once_partial.** Two writers, the code's protocol, every schedule (Commit as
one call: all 2^8 orders of the at most 4+4 calls on logs of 0 and 2 entries; Commit in two
halves: all 2^10 orders of the at most 5+5 calls on a log of 2 entries; then both run to
completion): success ⇒ the entry is in the chain exactly once, failure ⇒ it is absent, old
entries kept (numbering is NOT claimed: `conc_numbers_witness`). -/
theorem conc_exactly_once_partial :
    (∀ pre ∈ [0, 2], ∀ s ∈ schedules 8,
      let g := ((twoWriters pre false .code).run s).finishAll
      g.allDone = true ∧ exactlyOnceB g.results g.store.nodes = true ∧ preKeptB pre g.store.nodes = true) ∧
    (∀ s ∈ schedules 10,
      let g := ((twoWriters 2 true .code).run s).finishAll
      g.allDone = true ∧ exactlyOnceB g.results g.store.nodes = true ∧ preKeptB 2 g.store.nodes = true) := by
  constructor <;> decide +kernel

end Gittuf.Script
