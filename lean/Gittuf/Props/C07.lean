/-
C07 — theorems about the recovery search of the verification model
(`lookForFix`, Model/Verify.lean; Go: verify.go:655-735).
The whole-loop statement is kept at full strength as `C07_sound_statement`; the whole-loop theorems
`C07_relative_tolerated` / `C07_full_tolerated` (bottom of the file) prove it up to the link between
`verifyEntry` and the declarative authorization (C01), for references without propagation entries.
-/
import Gittuf.Proofs.Recovery
import Gittuf.Props.C01
namespace Gittuf
namespace World

/-- Full statement (repaired variant): acceptance of a range implies every violating entry for
the reference is tolerated in the sense of the property.  Evaluated by the driver on the REAL
verifier's answers for every generated history; not yet a theorem. -/
def C07_sound_statement : Prop :=
  ∀ (W : World) (ref : String) (first last : Nat),
    W.firstFor ref = some first → W.latestEntryFor ref = some last →
    W.verifyRelative Variant.good first last ref = .ok () → W.c07Sound ref first last = true

/-- The entries of `q` that are reference entries for `ref` -/
def isRefEntryFor (W : World) (ref : String) (j : Nat) : Bool :=
  match W.log[j]? with
  | some e => e.ref == ref && e.kind != .prop
  | none => false

/-- **Fix search is sound**, for every queue, every history: if the search reports a fix `f`
then `f` is an entry of the queue for the affected reference, it is not marked skipped, and its
tree equals the last good tree — skipped entries are never chosen as the fix. -/
theorem C07_fix_is_unskipped_treesame (W : World) (ref : String) (goodTree : Nat)
    (q newQ : List Nat) (bad : Bool) (f : Nat) (nq : List Nat) (b : Bool)
    (h : W.lookForFix ref goodTree q newQ bad = (some f, b, nq)) :
    f ∈ q ∧ W.isRefEntryFor ref f = true ∧ W.skipped f = false ∧
    (∃ e, W.log[f]? = some e ∧ W.treeOfEntry e = goodTree) := by
  induction q generalizing newQ bad with
  | nil => simp [lookForFix] at h
  | cons j rest ih =>
    unfold lookForFix at h
    split at h
    · -- no such log entry
      obtain ⟨h1, h2⟩ := ih _ _ h
      exact ⟨List.mem_cons_of_mem _ h1, h2⟩
    · rename_i e he
      split at h
      · obtain ⟨h1, h2⟩ := ih _ _ h
        exact ⟨List.mem_cons_of_mem _ h1, h2⟩
      · rename_i href
        split at h
        · obtain ⟨h1, h2⟩ := ih _ _ h
          exact ⟨List.mem_cons_of_mem _ h1, h2⟩
        · rename_i hprop
          split at h
          · rename_i hfix
            simp only [Prod.mk.injEq, Option.some.injEq] at h
            obtain ⟨hf, _, _⟩ := h
            subst hf
            simp only [Bool.and_eq_true, beq_iff_eq, Bool.not_eq_true'] at hfix
            refine ⟨List.mem_cons_self, ?_, hfix.2, ?_⟩
            · unfold isRefEntryFor
              rw [he]
              simp only [Bool.and_eq_true, beq_iff_eq, bne_iff_ne, ne_eq]
              constructor
              · simpa using href
              · intro hk; exact hprop (by simp [hk])
            · exact ⟨e, he, hfix.1⟩
          · obtain ⟨h1, h2⟩ := ih _ _ h
            exact ⟨List.mem_cons_of_mem _ h1, h2⟩

/-- If the search reports a fix without flagging an unskipped intermediate entry (and none was
flagged before), every reference entry for `ref` that precedes the fix in the queue is skipped. -/
theorem C07_intermediates_skipped (W : World) (ref : String) (goodTree : Nat)
    (q newQ : List Nat) (f : Nat) (nq : List Nat)
    (h : W.lookForFix ref goodTree q newQ false = (some f, false, nq)) :
    ∀ pre post, q = pre ++ f :: post → f ∉ pre →
      ∀ k ∈ pre, W.isRefEntryFor ref k = true → W.skipped k = true := by
  induction q generalizing newQ with
  | nil => simp [lookForFix] at h
  | cons j rest ih =>
    intro pre post hq hfpre k hk hkref
    unfold lookForFix at h
    cases pre with
    | nil => cases hk
    | cons p pre' =>
      simp only [List.cons_append, List.cons.injEq] at hq
      obtain ⟨hp, hrest⟩ := hq
      subst hp
      have hfj : f ≠ j := fun hfj => hfpre (hfj ▸ List.mem_cons_self)
      have hfpre' : f ∉ pre' := fun hm => hfpre (List.mem_cons_of_mem _ hm)
      split at h
      · rename_i hnone
        rcases List.mem_cons.mp hk with hk | hk
        · subst hk; simp [isRefEntryFor, hnone] at hkref
        · exact ih _ h pre' post hrest hfpre' k hk hkref
      · rename_i e he
        split at h
        · rename_i href
          rcases List.mem_cons.mp hk with hk | hk
          · subst hk
            simp only [isRefEntryFor, he, Bool.and_eq_true, beq_iff_eq] at hkref
            exact absurd hkref.1 (by simpa using href)
          · exact ih _ h pre' post hrest hfpre' k hk hkref
        · split at h
          · rename_i hprop
            rcases List.mem_cons.mp hk with hk | hk
            · subst hk
              simp only [isRefEntryFor, he, Bool.and_eq_true, bne_iff_ne, ne_eq] at hkref
              exact absurd (by simpa using hprop) hkref.2
            · exact ih _ h pre' post hrest hfpre' k hk hkref
          · split at h
            · simp only [Prod.mk.injEq, Option.some.injEq] at h
              exact absurd h.1.symm hfj
            · -- not the fix: flagged unless skipped
              cases hsk : W.skipped j with
              | true =>
                rcases List.mem_cons.mp hk with hk | hk
                · subst hk; exact hsk
                · simp only [hsk, Bool.not_true, Bool.or_false] at h
                  exact ih _ h pre' post hrest hfpre' k hk hkref
              | false =>
                -- the flag becomes true and stays true: contradiction with the result `false`
                simp only [hsk, Bool.not_false, Bool.or_true] at h
                exfalso
                have : ∀ (q' newQ' : List Nat) f' b' nq', W.lookForFix ref goodTree q' newQ' true = (some f', b', nq') → b' = true := by
                  intro q'
                  induction q' with
                  | nil => intro _ _ _ _ h'; simp [lookForFix] at h'
                  | cons a as iha =>
                    intro newQ' f' b' nq' h'
                    unfold lookForFix at h'
                    split at h'
                    · exact iha _ _ _ _ h'
                    · split at h'
                      · exact iha _ _ _ _ h'
                      · split at h'
                        · exact iha _ _ _ _ h'
                        · split at h'
                          · simp only [Prod.mk.injEq] at h'; exact h'.2.1.symm
                          · simp only [Bool.true_or] at h'; exact iha _ _ _ _ h'
                have := this _ _ _ _ _ h
                cases this

/-- non-vacuity: a concrete history in which the search finds a fix -/
example :
    let W : World := {
      trees := [[("a", 1)], [("a", 2)]], commits := [⟨[], 0, some 2⟩, ⟨[0], 1, some 8⟩, ⟨[1], 0, some 2⟩],
      policies := [], atts := [],
      log := [ { kind := .ref, ref := "refs/heads/main", target := .commit 0 },
               { kind := .ref, ref := "refs/heads/main", target := .commit 1 },
               { kind := .ann, refs := [1], skip := true },
               { kind := .ref, ref := "refs/heads/main", target := .commit 2 } ] }
    W.lookForFix "refs/heads/main" 0 [3] [] false = (some 3, false, []) := by decide

/-! ## The whole loop -/

/-- no propagation entry was recorded for `ref` inside the verified range -/
def NoRefProp (W : World) (ref : String) (first last : Nat) : Prop :=
  ∀ (j : Nat) (e : LogEntry), first ≤ j → j ≤ last → W.log[j]? = some e → e.ref = ref → e.kind ≠ .prop

theorem range_bounds (W : World) (first last : Nat) (ref : String) (j : Nat)
    (h : j ∈ W.range first last ref) :
    first ≤ j ∧ j ≤ last ∧ ∃ e, W.log[j]? = some e ∧ isUpdater e = true ∧
      (ref.isEmpty = true ∨ e.ref = ref ∨ isRelevantGittufRef e.ref = true) := by
  unfold range at h
  obtain ⟨hd, hp⟩ := List.mem_filter.mp h
  rw [List.mem_drop_iff_getElem] at hd
  obtain ⟨i, hi, hget⟩ := hd
  simp only [List.getElem_range] at hget
  simp only [List.length_range] at hi
  refine ⟨by omega, by omega, ?_⟩
  split at hp
  · cases hp
  · rename_i e he
    refine ⟨e, he, ?_⟩
    simp only [Bool.and_eq_true, Bool.or_eq_true, beq_iff_eq] at hp
    refine ⟨hp.1, ?_⟩
    rcases hp.2 with (h | h) | h
    · exact Or.inl h
    · exact Or.inr (Or.inl h)
    · exact Or.inr (Or.inr h)

/-- the queue of `VerifyRelativeForRef` for a branch without propagation entries satisfies the
invariant of the loop theorem -/
theorem range_QInv (W : World) (first last : Nat) (ref : String)
    (hne : ref.isEmpty = false)
    (hnp : W.NoRefProp ref first last) :
    QInv W ref last first (W.range first last ref) := by
  refine ⟨?_, ?_, ?_, ?_⟩
  · unfold range
    exact List.Pairwise.sublist (List.filter_sublist.trans (List.drop_sublist _ _)) List.pairwise_lt_range
  · intro k hk; exact (range_bounds W first last ref k hk).2.1
  · intro k hk e he hb
    obtain ⟨h1, h2, e', he', hu, hor⟩ := range_bounds W first last ref k hk
    rw [he] at he'; cases he'
    have href : e.ref = ref := by
      rcases hor with h | h | h
      · rw [hne] at h; cases h
      · exact h
      · simp only [isRelevantGittufRef, Bool.and_eq_true] at h
        rw [h.1] at hb; cases hb
    refine ⟨href, ?_, h1⟩
    have hnprop := hnp k e h1 h2 he href
    have hnann : e.kind ≠ .ann := by simpa [isUpdater] using hu
    cases hk : e.kind with
    | ref => rfl
    | ann => exact absurd hk hnann
    | prop => exact absurd hk hnprop
  · intro k hk1 hk2 hk3
    unfold refK at hk3
    split at hk3
    · rename_i e he
      simp only [Bool.and_eq_true, beq_iff_eq] at hk3
      exact range_mem W first last ref k e hk1 hk2 he (by simp [isUpdater, hk3.1]) hk3.2
    · cases hk3

/-- **C07 for relative verification**, every history, range and variant: if
`VerifyRelativeForRef` accepts the range of a branch that has no propagation entries in it, every
entry recorded for the branch in the range was accepted by `verifyEntry` under a policy and an
attestation state in force during the walk, or is tolerated exactly as the property demands
(revoked; a later unrevoked entry of the branch restores the tree of the last unrevoked entry
before it; every entry of the branch in between is revoked) — or, only with defect F3, is the
unverified fix of a tolerated entry. -/
theorem C07_relative_tolerated (W : World) (v : Variant) (first last : Nat) (ref : String)
    (hne : ref.isEmpty = false) (hr : hasPrefix ref gittufPrefix = false)
    (hnp : W.NoRefProp ref first last)
    (h : W.verifyRelative v first last ref = .ok ()) :
    ∃ st, ∀ j e, first ≤ j → j ≤ last → W.log[j]? = some e → isUpdater e = true → e.ref = ref →
      EntryOK7 W v ref last st (W.range first last ref) j e := by
  unfold verifyRelative at h
  split at h
  · cases h
  · rename_i pol hpol
    split at h
    · cases h
    · rename_i att hatt
      refine ⟨{ policy := pol, att := att }, ?_⟩
      intro j e hj1 hj2 he hu href
      exact relLoop_recovery_gen W v first ref last hr _ _ _ first
        (range_QInv W first last ref hne hnp) h j
        (range_mem W first last ref j e hj1 hj2 he hu href) e he (href ▸ hr)

/-- what `latestFor … (unskipped) (refOnly)` returns is an unrevoked reference entry of `r` below the bound -/
theorem latestFor_spec (W : World) (r : String) (j lg : Nat)
    (h : W.latestFor r j (unskipped := true) (refOnly := true) = some lg) :
    lg < j ∧ W.refK r lg = true ∧ W.skipped lg = false := by
  unfold latestFor at h
  have hp := List.find?_some h
  have hm := List.mem_of_find?_eq_some h
  simp only [below, List.mem_reverse, List.mem_range] at hm
  refine ⟨hm, ?_⟩
  split at hp
  · cases hp
  · rename_i e he
    simp only [Bool.not_true, Bool.false_or, Bool.true_and, Bool.and_eq_true, beq_iff_eq,
      Bool.or_eq_true, Bool.not_eq_true'] at hp
    obtain ⟨⟨⟨_, href⟩, hkind⟩, hsk⟩ := hp
    refine ⟨by simp [refK, he, hkind, href], ?_⟩
    rcases hsk with hsk | hsk
    · rw [hkind] at hsk; simp at hsk
    · exact hsk

/-- every reference entry of `ref` names a commit (entries that delete the reference are outside
the recovery rule: the code cannot take the tree of the zero id) -/
def RefTargetsCommits (W : World) (ref : String) : Prop :=
  ∀ (k : Nat) (e : LogEntry), W.log[k]? = some e → e.kind = .ref → e.ref = ref → (targetCommit e).isSome = true

/-- the relational statement implies the executable declarative predicate of Spec/C07 that the
driver evaluates on the real verifier's verdicts -/
theorem tolerated_of_TolWith (W : World) (ref : String) (last j f : Nat)
    (ht : W.RefTargetsCommits ref) (h : TolWith W ref last j f) :
    W.tolerated ref last j = true := by
  obtain ⟨lg, fe, hlg, hfe, htree⟩ := h.tree
  obtain ⟨_, hlgref, _⟩ := latestFor_spec W ref j lg hlg
  unfold tolerated
  simp only [h.revoked, Bool.true_and, hlg]
  rw [List.any_eq_true]
  refine ⟨f, ?_, ?_⟩
  · unfold refEntriesIn
    rw [List.mem_filter]
    constructor
    · rw [List.mem_drop_iff_getElem]
      refine ⟨f - (j + 1), ?_, ?_⟩
      · simp only [List.length_range]; have := h.lt; have := h.le; omega
      · simp only [List.getElem_range]; have := h.lt; omega
    · have := h.fixRef
      unfold refK at this
      split at this
      · rename_i e he; simp [he, this]
      · cases this
  · -- the fix restores the tree of the last unrevoked entry, and everything in between is revoked
    have hfk : fe.kind = .ref ∧ fe.ref = ref := by
      have := h.fixRef
      simp only [refK, hfe, Bool.and_eq_true, beq_iff_eq] at this
      exact this
    obtain ⟨cf, hcf⟩ := Option.isSome_iff_exists.mp (ht f fe hfe hfk.1 hfk.2)
    unfold refK at hlgref
    split at hlgref
    · rename_i le hle
      simp only [Bool.and_eq_true, beq_iff_eq] at hlgref
      obtain ⟨cl, hcl⟩ := Option.isSome_iff_exists.mp (ht lg le hle hlgref.1 hlgref.2)
      have h1 : W.entryTree f = some (W.treeOf cf) := by simp [entryTree, hfe, hcf]
      have h2 : W.entryTree lg = some (W.treeOf cl) := by simp [entryTree, hle, hcl]
      have h3 : W.treeOf cf = W.treeOf cl := by
        simpa [treeOfEntry, goodTreeAt, hcf, hle, hcl] using htree
      simp only [h.fixUnrevoked, Bool.not_false, Bool.true_and, h1, h2, h3, beq_self_eq_true,
        Option.isSome_some]
      rw [List.all_eq_true]
      intro k hk
      unfold refEntriesIn at hk
      obtain ⟨hd, hp⟩ := List.mem_filter.mp hk
      rw [List.mem_drop_iff_getElem] at hd
      obtain ⟨i, hi, hget⟩ := hd
      simp only [List.getElem_range] at hget
      simp only [List.length_range] at hi
      have hlt := h.lt
      refine h.between k (by omega) (by omega) ?_
      unfold refK
      split at hp
      · rename_i e he; simpa [he] using hp
      · cases hp
    · cases hlgref

/-- **C07 for full verification** (repaired variant): if `VerifyRefFull` accepts a branch without
propagation entries whose entries all name commits, every entry recorded for the branch was accepted
by `verifyEntry` under a state in force during the walk, or satisfies the executable predicate
`tolerated` of Spec/C07 — the statement `C07_sound_statement` with "authorized" read as "accepted by
`verifyEntry`" (the link to the declarative authorization is C01's `C01_entry_authorized_git`). -/
theorem C07_full_tolerated (W : World) (ref : String) (tip : Option Nat)
    (hne : ref.isEmpty = false) (hr : hasPrefix ref gittufPrefix = false)
    (ht : W.RefTargetsCommits ref)
    (h : W.verifyRefFull Variant.good ref = .ok tip) :
    ∃ f l, W.firstFor ref = some f ∧ W.latestEntryFor ref = some l ∧
      (W.NoRefProp ref f l →
        ∃ st, ∀ j e, f ≤ j → j ≤ l → W.log[j]? = some e → isUpdater e = true → e.ref = ref →
          (∃ P A, SeenPolicy W st (W.range f l ref) P ∧ SeenAtt W st (W.range f l ref) A ∧
            W.verifyEntry Variant.good P A j e = .ok ()) ∨
          W.tolerated ref l j = true) := by
  unfold verifyRefFull at h
  split at h
  · rename_i f l hf hl
    refine ⟨f, l, hf, hl, ?_⟩
    intro hnp
    simp only [bind, Except.bind] at h
    split at h
    · cases h
    · rename_i u hrel
      have hrel' : W.verifyRelative Variant.good f l ref = .ok () := by cases u; exact hrel
      obtain ⟨st, hst⟩ := C07_relative_tolerated W Variant.good f l ref hne hr hnp hrel'
      refine ⟨st, ?_⟩
      intro j e h1 h2 he hu href
      rcases hst j e h1 h2 he hu href with hv | ⟨fx, htol⟩ | ⟨hf3, _⟩
      · exact Or.inl hv
      · exact Or.inr (tolerated_of_TolWith W ref l j fx ht htol)
      · simp [Variant.good] at hf3
  · cases h

/-! ### The hypotheses are decidable and satisfiable -/

def noRefPropB (W : World) (ref : String) : Bool :=
  W.log.all (fun e => !(e.ref == ref && e.kind == .prop))

def refTargetsCommitsB (W : World) (ref : String) : Bool :=
  W.log.all (fun e => !(e.kind == .ref && e.ref == ref) || (targetCommit e).isSome)

theorem noRefProp_of_B (W : World) (ref : String) (first last : Nat) (h : W.noRefPropB ref = true) :
    W.NoRefProp ref first last := by
  intro j e _ _ he href hk
  have := List.all_eq_true.mp h e (List.mem_of_getElem? he)
  simp [href, hk] at this

theorem refTargetsCommits_of_B (W : World) (ref : String) (h : W.refTargetsCommitsB ref = true) :
    W.RefTargetsCommits ref := by
  intro k e he hk href
  have := List.all_eq_true.mp h e (List.mem_of_getElem? he)
  simpa [href, hk] using this

/-- good A; bad B by an outsider; revocation; fix C by the authorized key with A's tree -/
def wRec : World := {
  trees := [[("README", 1)], [("README", 2)]],
  commits := [⟨[], 0, some 2⟩, ⟨[0], 1, some 8⟩, ⟨[1], 0, some 2⟩],
  policies := [wPol], atts := [],
  log := [polEntry 0, push 0 2, push 1 8, { kind := .ann, refs := [2], skip := true, signer := some 2 }, push 2 2] }

/-- non-vacuity of `C07_full_tolerated`: a history with a tolerated violation meets every
hypothesis, is accepted by the repaired variant, its violating entry is rejected by `verifyEntry`
and satisfies `tolerated`; the same history without the revocation is rejected -/
example :
    wRec.verifyRefFull Variant.good mainRef = .ok (some 2) ∧
    mainRef.isEmpty = false ∧ hasPrefix mainRef gittufPrefix = false ∧
    wRec.noRefPropB mainRef = true ∧ wRec.refTargetsCommitsB mainRef = true ∧
    (wRec.verifyEntry Variant.good wPol none 2 (push 1 8)).isOk = false ∧
    wRec.tolerated mainRef 4 2 = true ∧ wRec.c07Sound mainRef 1 4 = true ∧
    ({ wRec with log := [polEntry 0, push 0 2, push 1 8, push 2 2] } : World).verifyRefFull Variant.good mainRef
      = .error .verif := by decide

end World
end Gittuf
