/-
C07 — theorems about the recovery search of the verification model
(`lookForFix`, Model/Verify.lean; Go: verify.go:655-735).
The whole-loop statement is kept at full strength as `C07_sound_statement`.
-/
import Gittuf.Spec.C07
namespace Gittuf
namespace World

/-- Full statement (repaired variant): acceptance of a range implies every violating entry for
the reference is tolerated in the sense of the property.  Evaluated by the driver on the REAL
verifier's answers for every generated history; not yet a theorem. -/
def C07_sound_statement : Prop :=
  ∀ (W : World) (ref : String) (first last : Nat),
    W.firstFor ref = some first → W.latestEntryFor ref = some last →
    W.verifyRelative Variant.good first last ref = .ok () → W.c07Sound ref first last = true

/-- The entries of `q` that are reference entries for `ref` -/
def isRefEntryFor (W : World) (ref : String) (j : Nat) : Bool :=
  match W.log[j]? with
  | some e => e.ref == ref && e.kind != .prop
  | none => false

/-- **Fix search is sound**, for every queue, every history: if the search reports a fix `f`
then `f` is an entry of the queue for the affected reference, it is not marked skipped, and its
tree equals the last good tree — skipped entries are never chosen as the fix. -/
theorem C07_fix_is_unskipped_treesame (W : World) (ref : String) (goodTree : Nat)
    (q newQ : List Nat) (bad : Bool) (f : Nat) (nq : List Nat) (b : Bool)
    (h : W.lookForFix ref goodTree q newQ bad = (some f, b, nq)) :
    f ∈ q ∧ W.isRefEntryFor ref f = true ∧ W.skipped f = false ∧
    (∃ e, W.log[f]? = some e ∧ W.treeOfEntry e = goodTree) := by
  induction q generalizing newQ bad with
  | nil => simp [lookForFix] at h
  | cons j rest ih =>
    unfold lookForFix at h
    split at h
    · -- no such log entry
      obtain ⟨h1, h2⟩ := ih _ _ h
      exact ⟨List.mem_cons_of_mem _ h1, h2⟩
    · rename_i e he
      split at h
      · obtain ⟨h1, h2⟩ := ih _ _ h
        exact ⟨List.mem_cons_of_mem _ h1, h2⟩
      · rename_i href
        split at h
        · obtain ⟨h1, h2⟩ := ih _ _ h
          exact ⟨List.mem_cons_of_mem _ h1, h2⟩
        · rename_i hprop
          split at h
          · rename_i hfix
            simp only [Prod.mk.injEq, Option.some.injEq] at h
            obtain ⟨hf, _, _⟩ := h
            subst hf
            simp only [Bool.and_eq_true, beq_iff_eq, Bool.not_eq_true'] at hfix
            refine ⟨List.mem_cons_self, ?_, hfix.2, ?_⟩
            · unfold isRefEntryFor
              rw [he]
              simp only [Bool.and_eq_true, beq_iff_eq, bne_iff_ne, ne_eq]
              constructor
              · simpa using href
              · intro hk; exact hprop (by simp [hk])
            · exact ⟨e, he, hfix.1⟩
          · obtain ⟨h1, h2⟩ := ih _ _ h
            exact ⟨List.mem_cons_of_mem _ h1, h2⟩

/-- If the search reports a fix without flagging an unskipped intermediate entry (and none was
flagged before), every reference entry for `ref` that precedes the fix in the queue is skipped. -/
theorem C07_intermediates_skipped (W : World) (ref : String) (goodTree : Nat)
    (q newQ : List Nat) (f : Nat) (nq : List Nat)
    (h : W.lookForFix ref goodTree q newQ false = (some f, false, nq)) :
    ∀ pre post, q = pre ++ f :: post → f ∉ pre →
      ∀ k ∈ pre, W.isRefEntryFor ref k = true → W.skipped k = true := by
  induction q generalizing newQ with
  | nil => simp [lookForFix] at h
  | cons j rest ih =>
    intro pre post hq hfpre k hk hkref
    unfold lookForFix at h
    cases pre with
    | nil => cases hk
    | cons p pre' =>
      simp only [List.cons_append, List.cons.injEq] at hq
      obtain ⟨hp, hrest⟩ := hq
      subst hp
      have hfj : f ≠ j := fun hfj => hfpre (hfj ▸ List.mem_cons_self)
      have hfpre' : f ∉ pre' := fun hm => hfpre (List.mem_cons_of_mem _ hm)
      split at h
      · rename_i hnone
        rcases List.mem_cons.mp hk with hk | hk
        · subst hk; simp [isRefEntryFor, hnone] at hkref
        · exact ih _ h pre' post hrest hfpre' k hk hkref
      · rename_i e he
        split at h
        · rename_i href
          rcases List.mem_cons.mp hk with hk | hk
          · subst hk
            simp only [isRefEntryFor, he, Bool.and_eq_true, beq_iff_eq] at hkref
            exact absurd hkref.1 (by simpa using href)
          · exact ih _ h pre' post hrest hfpre' k hk hkref
        · split at h
          · rename_i hprop
            rcases List.mem_cons.mp hk with hk | hk
            · subst hk
              simp only [isRefEntryFor, he, Bool.and_eq_true, bne_iff_ne, ne_eq] at hkref
              exact absurd (by simpa using hprop) hkref.2
            · exact ih _ h pre' post hrest hfpre' k hk hkref
          · split at h
            · simp only [Prod.mk.injEq, Option.some.injEq] at h
              exact absurd h.1.symm hfj
            · -- not the fix: flagged unless skipped
              cases hsk : W.skipped j with
              | true =>
                rcases List.mem_cons.mp hk with hk | hk
                · subst hk; exact hsk
                · simp only [hsk, Bool.not_true, Bool.or_false] at h
                  exact ih _ h pre' post hrest hfpre' k hk hkref
              | false =>
                -- the flag becomes true and stays true: contradiction with the result `false`
                simp only [hsk, Bool.not_false, Bool.or_true] at h
                exfalso
                have : ∀ (q' newQ' : List Nat) f' b' nq', W.lookForFix ref goodTree q' newQ' true = (some f', b', nq') → b' = true := by
                  intro q'
                  induction q' with
                  | nil => intro _ _ _ _ h'; simp [lookForFix] at h'
                  | cons a as iha =>
                    intro newQ' f' b' nq' h'
                    unfold lookForFix at h'
                    split at h'
                    · exact iha _ _ _ _ h'
                    · split at h'
                      · exact iha _ _ _ _ h'
                      · split at h'
                        · exact iha _ _ _ _ h'
                        · split at h'
                          · simp only [Prod.mk.injEq] at h'; exact h'.2.1.symm
                          · simp only [Bool.true_or] at h'; exact iha _ _ _ _ h'
                have := this _ _ _ _ _ h
                cases this

/-- non-vacuity: a concrete history in which the search finds a fix -/
example :
    let W : World := {
      trees := [[("a", 1)], [("a", 2)]], commits := [⟨[], 0, some 2⟩, ⟨[0], 1, some 8⟩, ⟨[1], 0, some 2⟩],
      policies := [], atts := [],
      log := [ { kind := .ref, ref := "refs/heads/main", target := .commit 0 },
               { kind := .ref, ref := "refs/heads/main", target := .commit 1 },
               { kind := .ann, refs := [1], skip := true },
               { kind := .ref, ref := "refs/heads/main", target := .commit 2 } ] }
    W.lookForFix "refs/heads/main" 0 [3] [] false = (some 3, false, []) := by decide

end World
end Gittuf
