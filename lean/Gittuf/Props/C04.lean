/-
C04 — RSL queries match a plain scan of the chain and fail closed on tampering.
Property theorems (helper lemmas in Proofs/Log.lean and Proofs/Readers.lean).

`Fix.all` is the model with the two deviations F5 / F24 of `GetLatestReferenceUpdaterEntry`
repaired; `{}` is the code as it stands.  The correspondence run compares the real code
with the `{}` model; the theorems below say what holds of which.
-/
import Gittuf.Proofs.Readers
namespace Gittuf.RSL

/-! ## The step every reader takes: `GetParentForEntry` refuses tampered links -/

/-- Stepping from a commit with more than one parent is refused. -/
theorem C04_step_branch (s : Store) (x : LEntry) (p q : Id) (rest : List Id) (e : Option Entry)
    (h : s.get x.id = some ⟨p :: q :: rest, e⟩) : getParentForEntry s x = .error .branch := by
  simp [getParentForEntry, h]

/-- Stepping onto a commit that is not a well-formed entry is refused. -/
theorem C04_step_garbage (s : Store) (x : LEntry) (p : Id) (e : Option Entry) (ps : List Id)
    (h : s.get x.id = some ⟨[p], e⟩) (hp : s.get p = some ⟨ps, none⟩) :
    getParentForEntry s x = .error .invalid := by
  simp [getParentForEntry, h, getEntry, hp]

/-- Stepping across a break in the numbering is refused: the parent of an entry numbered
`n ≥ 2` must be numbered `n - 1`, the parent of an entry numbered 0 or 1 must be unnumbered. -/
theorem C04_step_number (s : Store) (x : LEntry) (p : Id) (e : Option Entry) (ps : List Id) (pe : Entry)
    (h : s.get x.id = some ⟨[p], e⟩) (hp : s.get p = some ⟨ps, some pe⟩)
    (hbreak : linkOk x.e.number pe.number = false) :
    getParentForEntry s x = .error .invalid := by
  simp [getParentForEntry, h, getEntry, hp, hbreak]

/-- … and only those: a step succeeds exactly onto the single parent, a well-formed entry
whose number fits. -/
theorem C04_step_ok (s : Store) (x p : LEntry) (h : getParentForEntry s x = .ok p) :
    ∃ c pc, s.get x.id = some c ∧ c.parents = [p.id] ∧ s.get p.id = some pc ∧ pc.entry = some p.e ∧
      linkOk x.e.number p.e.number = true := by
  have hst := getParent_stored h
  obtain ⟨pc, hpc, hpe⟩ := getEntry_get hst
  unfold getParentForEntry at h
  cases hg : s.get x.id with
  | none => simp [hg] at h
  | some c =>
    simp only [hg] at h
    cases hpar : c.parents with
    | nil => simp [hpar] at h
    | cons q tl =>
      cases tl with
      | cons _ _ => simp [hpar] at h
      | nil =>
        simp only [hpar] at h
        cases hq : getEntry s q with
        | error er => simp [hq] at h
        | ok pe =>
          simp only [hq] at h
          split at h
          · rename_i hl
            cases h
            exact ⟨c, pc, rfl, by rw [hpar, getEntry_id hq], hpc, hpe, hl⟩
          · cases h

/-- Every reader loop fails closed: if the loop has to leave entry `x` (it did not stop
there) and the step from `x` is refused with a tamper error, the loop returns that error —
whatever it has accumulated so far. -/
theorem C04_walk_fail_closed {σ ρ : Type} (s : Store) (w : Walker σ ρ) (fuel : Nat) (st st' : σ) (x : LEntry)
    (e : RErr) (hvisit : w.visit st x = .cont st') (hstep : getParentForEntry s x = .error e)
    (he : e ≠ .notFound) : walk s w (fuel + 1) st x = .error e := by
  unfold walk
  simp only [hvisit, hstep]
  cases e <;> simp_all [Walker.endOf]

/-! ## GetLatestReferenceUpdaterEntry -/

/-- **Refinement, all options, complete or tampered chains.**  Let the chain from the tip
consist of the entries `x :: l`, each step between them passing `GetParentForEntry`, and let
the step after the last fail with `e` (`.notFound`: the log is complete; `.branch` /
`.invalid`: the chain is tampered with there).  Then for *every* combination of options the
reader (F5, F24 repaired) returns exactly what the plain scan of the list `x :: l` defines,
where a scan that would have to go past the end of the list answers `e`.
In particular on a tampered chain the answer is a result only if the scan finds it inside the
well-formed prefix, and is the tamper error whenever the scan has to cross the break. -/
theorem C04_latest_refines_general (o : Opts) (s : Store) (x : LEntry) (l : List LEntry) (e : RErr)
    (htip : getLatestEntry s = .ok x) (hst : Steps s x l e) (hback : AnnBackward (x :: l)) :
    getLatestReferenceUpdaterEntry Fix.all o s = latestSpec o (x :: l) e :=
  latest_refines o s x l e htip hst hback

/-- **Refinement on well-formed logs** (`ChainInv`, stated with the log `l` it denotes):
entry and annotations are exactly those of the list specification; not-found when nothing
qualifies.  Annotations name only older entries (`AnnBackward`, guaranteed by recording: ids
are hashes of existing commits). -/
theorem C04_latest_refines (o : Opts) (s : Store) (l : List LEntry) (hl : IsLog s l) (hback : AnnBackward l) :
    getLatestReferenceUpdaterEntry Fix.all o s = latestSpec o l := by
  unfold IsLog at hl
  cases ht : s.tip with
  | none =>
    rw [ht] at hl
    simp only at hl
    subst hl
    unfold getLatestReferenceUpdaterEntry latestSpec
    simp [getLatestEntry, ht]
  | some t =>
    rw [ht] at hl
    simp only at hl
    obtain ⟨x, rest, hxl, hge, hst⟩ := hl.steps
    subst hxl
    exact latest_refines o s x rest .notFound (by simp [getLatestEntry, ht, hge]) hst hback

/-- An unreadable tip (not an entry) fails every query that gets past the option checks. -/
theorem C04_latest_bad_tip (o : Opts) (s : Store) (e : RErr) (h : getLatestEntry s = .error e)
    (ho : o.staticBad = false) : ∀ fx, getLatestReferenceUpdaterEntry fx o s = .error e := by
  intro fx
  simp [getLatestReferenceUpdaterEntry, ho, h]

/-- The full statement for the code as it stands (`{}`): it is **false** (F5, F24 below). -/
def C04_latest_refines_asis : Prop :=
  ∀ (o : Opts) (s : Store) (l : List LEntry), IsLog s l → AnnBackward l →
    getLatestReferenceUpdaterEntry {} o s = latestSpec o l

/-- What does hold of the code as it stands: the refinement for every option combination
without `UntilEntryID` and without (a before bound together with `UntilEntryNumber`) — i.e.
`ForReference`, `IsUnskipped`, `ForNonGittufReference`, `IsReferenceEntry`,
`IsPropagationEntryForRepository`, `BeforeEntryID` / `BeforeEntryNumber`, and
`UntilEntryNumber` on its own — on complete and on tampered chains. -/
theorem C04_latest_refines_asis_partial (o : Opts) (s : Store) (x : LEntry) (l : List LEntry) (e : RErr)
    (h1 : o.untilId = none) (h2 : o.untilNum = 0 ∨ o.hasBefore = false)
    (htip : getLatestEntry s = .ok x) (hst : Steps s x l e) (hback : AnnBackward (x :: l)) :
    getLatestReferenceUpdaterEntry {} o s = latestSpec o (x :: l) e := by
  rw [latest_asis_eq o s h1 h2]
  exact latest_refines o s x l e htip hst hback

/-! ### F5 / F24 witnesses: a log of two reference entries, main (id 1) then feature (id 2). -/

def witnessLog : Store := run {} [.reference "refs/heads/main" 7, .reference "refs/heads/feature" 8]
def witnessList : List LEntry := [⟨2, .reference "refs/heads/feature" 8 2⟩, ⟨1, .reference "refs/heads/main" 7 1⟩]

example : IsLog witnessLog witnessList :=
  ChainFrom.cons (p := 1) (by decide) (ChainFrom.root (by decide)) (by decide)
example : annBackwardB witnessList = true := by decide

/-- F5: `UntilEntryID` names entry 1 (documented inclusive); entry 1 is the answer, the code says not found. -/
theorem C04_F5_witness :
    getLatestReferenceUpdaterEntry {} { ref := "refs/heads/main", untilId := some 1 } witnessLog = .error .notFound ∧
    latestSpec { ref := "refs/heads/main", untilId := some 1 } witnessList =
      .ok (⟨1, .reference "refs/heads/main" 7 1⟩, []) := by
  constructor <;> decide

/-- F5, other face: the until entry is the first one examined; the code searches on past it. -/
theorem C04_F5_witness2 :
    getLatestReferenceUpdaterEntry {} { ref := "refs/heads/main", untilId := some 2 } witnessLog =
      .ok (⟨1, .reference "refs/heads/main" 7 1⟩, []) ∧
    latestSpec { ref := "refs/heads/main", untilId := some 2 } witnessList = .error .notFound := by
  constructor <;> decide

/-- F24: before = until = 2 leaves nothing to search; the code returns entry 1. -/
theorem C04_F24_witness :
    getLatestReferenceUpdaterEntry {} { beforeNum := 2, untilNum := 2 } witnessLog =
      .ok (⟨1, .reference "refs/heads/main" 7 1⟩, []) ∧
    latestSpec { beforeNum := 2, untilNum := 2 } witnessList = .error .notFound := by
  constructor <;> decide

/-- hence the unrestricted statement about the code as it stands is false -/
theorem C04_latest_asis_false : ¬ C04_latest_refines_asis := by
  intro h
  have h1 := h { ref := "refs/heads/main", untilId := some 1 } witnessLog witnessList
    (ChainFrom.cons (p := 1) (by decide) (ChainFrom.root (by decide)) (by decide))
    (annBackward_of_B _ (by decide))
  rw [C04_F5_witness.1, C04_F5_witness.2] at h1
  cases h1

/-! ## The other readers -/

/-- `GetFirstReferenceUpdaterEntryForRef` / `GetFirstEntry` (`ref = ""`), complete or
tampered chain: the oldest matching entry with every annotation of the log on it; on a
tampered chain always the tamper error (the whole chain has to be walked). -/
theorem C04_first_refines (ref : String) (s : Store) (x : LEntry) (l : List LEntry) (e : RErr)
    (htip : getLatestEntry s = .ok x) (hst : Steps s x l e) :
    getFirstReferenceUpdaterEntryForRef ref s = firstSpec ref (x :: l) e :=
  first_refines ref s x l e htip hst

theorem C04_first_fail_closed (ref : String) (s : Store) (x : LEntry) (l : List LEntry) (e : RErr)
    (htip : getLatestEntry s = .ok x) (hst : Steps s x l e) (he : e ≠ .notFound) :
    getFirstReferenceUpdaterEntryForRef ref s = .error e := by
  rw [first_refines ref s x l e htip hst]
  cases e <;> simp_all [firstSpec]

/-- `GetReferenceUpdaterEntriesInRange[ForRef]`, complete or tampered chain: the relevant
entries between `first` and `last` in log order, each with *all* annotations of the log on it
(including those recorded after `last`), oldest first; if either end of the range lies beyond
a tampered link, the tamper error.  (`AnnIdsNodup`: an annotation lists an id once; otherwise
the Go map repeats the annotation.) -/
theorem C04_range_refines (first last : Id) (ref : String) (s : Store) (x : LEntry) (l : List LEntry) (e : RErr)
    (htip : getLatestEntry s = .ok x) (hst : Steps s x l e) (hback : AnnBackward (x :: l))
    (hnd : AnnIdsNodup (x :: l)) :
    getReferenceUpdaterEntriesInRangeForRef first last ref s = rangeSpec first last ref (x :: l) e :=
  range_refines first last ref s x l e htip hst hback hnd

/-- on a well-formed log -/
theorem C04_range_refines_wf (first last : Id) (ref : String) (s : Store) (l : List LEntry) (hl : IsLog s l)
    (hback : AnnBackward l) (hnd : AnnIdsNodup l) :
    getReferenceUpdaterEntriesInRangeForRef first last ref s = rangeSpec first last ref l := by
  unfold IsLog at hl
  cases ht : s.tip with
  | none =>
    rw [ht] at hl
    simp only at hl
    subst hl
    simp [getReferenceUpdaterEntriesInRangeForRef, rangeSpec, getLatestEntry, ht]
  | some t =>
    rw [ht] at hl
    simp only at hl
    obtain ⟨x, rest, hxl, hge, hst⟩ := hl.steps
    subst hxl
    exact range_refines first last ref s x rest .notFound (by simp [getLatestEntry, ht, hge]) hst hback hnd

/-- `GetNonGittufParentReferenceUpdaterEntryForEntry` for an entry `y` of the chain, complete
or tampered: the newest reference-updating entry outside refs/gittuf/ strictly older than
`y`, with all annotations of the log on it; the tamper error if the scan has to cross a
tampered link. -/
theorem C04_nonGittufParent_refines (y : LEntry) (s : Store) (x : LEntry) (l : List LEntry) (e : RErr)
    (htip : getLatestEntry s = .ok x) (hst : Steps s x l e) (hback : AnnBackward (x :: l))
    (hy : y ∈ x :: l) :
    getNonGittufParent y s = nonGittufParentSpec y.id (x :: l) e :=
  ngparent_refines y s x l e htip hst hback hy

/-- `GetFirstReferenceUpdaterEntryForCommit`, complete or tampered chain, for any
reachability oracle `knows` (`KnowsCommit`): among the entries outside refs/gittuf/, newest
first, the last one of the initial run whose targets all contain the commit, with all
annotations of the log on it; `noRecord` when the newest one does not contain it (or there is
none); the tamper error when the run reaches a tampered link. -/
theorem C04_forCommit_refines (knows : Id → Id → Bool) (c : Id) (s : Store) (x : LEntry) (l : List LEntry) (e : RErr)
    (htip : getLatestEntry s = .ok x) (hst : Steps s x l e) (hback : AnnBackward (x :: l)) :
    getFirstReferenceUpdaterEntryForCommit knows c s = forCommitSpec knows c (x :: l) e :=
  forCommit_refines knows c s x l e htip hst hback

/-! Non-vacuity: a tampered chain on which the refinement theorem applies with `e = .branch`. -/
example : getParentForEntry { commits := [(2, ⟨[1, 9], some (.reference "r" 7 2)⟩), (1, ⟨[], some (.reference "r" 7 1)⟩)], tip := some 2 }
    ⟨2, .reference "r" 7 2⟩ = .error .branch := by decide
example : getLatestReferenceUpdaterEntry {} { ref := "q" }
    { commits := [(2, ⟨[1, 9], some (.reference "r" 7 2)⟩), (1, ⟨[], some (.reference "q" 7 1)⟩)], tip := some 2 }
    = .error .branch := by decide
-- skipped entries are passed over, and the annotation is reported with the result
example : getLatestReferenceUpdaterEntry {} { ref := "refs/heads/main", unskipped := true }
    (run {} [.reference "refs/heads/main" 7, .reference "refs/heads/main" 8, .annotation [2] true "bad"]) =
    .ok (⟨1, .reference "refs/heads/main" 7 1⟩, []) := by decide

end Gittuf.RSL
