/-
C06 — Rules consulted for a path are exactly those of the documented delegation walk.
Property theorems (helper lemmas are in Proofs/Walk*.lean).  Everywhere `m` is an
arbitrary match relation (`delegation.Matches(path)` for the fixed path) and `P` an
arbitrary finite policy: no bound on files or rules, cycles and diamonds included.
-/
import Gittuf.Proofs.WalkTerm
import Gittuf.Proofs.WalkComplete
namespace Gittuf.Walk

/-- The walk terminates on every finite policy, cyclic and diamond-shaped
delegations and duplicated rule names included.  `walk` is defined by structural
recursion on an explicit fuel (so it is total by construction); this theorem says
the fuel `findVerifiers` supplies — the measure "rules of the current group + rules
of the queued groups + rules of the delegated files not yet in `seenRoles`" — is
never exhausted: each loop iteration of the Go code strictly decreases it. -/
theorem C06_walk_terminates (m : Rule → Bool) (P : Policy) :
    findVerifiers m P ≠ .error .outOfFuel ∧
    ((∃ vs, findVerifiers m P = .ok vs) ↔ P.primary.isSome = true) :=
  ⟨findVerifiers_ne_outOfFuel m P, findVerifiers_ok_iff m P⟩

private theorem init_walk {m : Rule → Bool} {P : Policy} {R : List WVerifier}
    (h : findVerifiers m P = .ok R) :
    ∃ f fuel, P.primary = some f ∧
      walk m P fuel [] [f.rules] [targetsName] f.principals [] = some R := by
  unfold findVerifiers at h
  split at h
  · cases h
  · rename_i f hf
    split at h
    · cases h
    · rename_i vs hw
      cases h
      exact ⟨f, _, hf, hw⟩

/-- Soundness, for every policy (duplicated rule names, cycles, diamonds): every
verifier returned comes from a matching rule that is not the trailing rule of its
file, in a file reachable from the primary file through matching rules, and carries
that rule's own name, trusted principal ids and threshold. -/
theorem C06_walk_sound_reach (m : Rule → Bool) (P : Policy) (R : List WVerifier)
    (h : findVerifiers m P = .ok R) :
    ∀ v ∈ R, ∃ F r, Reach P m F ∧ r ∈ active F.rules ∧ m r = true ∧ VerifierOf v r := by
  obtain ⟨f, fuel, hf, hw⟩ := init_walk h
  refine walk_sound_reach_aux m P fuel _ _ _ _ _ R ⟨by simp, by simp, Or.inl rfl, ?_⟩ hw
  intro g hg
  simp only [List.mem_singleton] at hg
  exact ⟨f, Reach.primary hf, hg.symm⟩

/-- Soundness against the documented walk, terminating cut-off included: under
unique rule names (what `preprocess` enforces on load) every verifier returned comes
from a *consulted* matching rule — a non-trailing rule of an entered file that no
earlier matching terminating rule with a delegated file cuts off — and carries
that rule's own name, trusted principal ids and threshold. -/
theorem C06_walk_sound (m : Rule → Bool) (P : Policy) (R : List WVerifier)
    (hu : UniqueRuleNames P) (h : findVerifiers m P = .ok R) :
    ∀ v ∈ R, ∃ F r, Consulted P m F r ∧ m r = true ∧ VerifierOf v r := by
  obtain ⟨f, fuel, hf, hw⟩ := init_walk h
  refine walk_sound_aux m P fuel _ _ _ _ _ R ⟨by simp, by simp, Or.inl rfl, ?_, ?_⟩ hw
  · intro g hg
    simp only [List.mem_singleton] at hg
    exact ⟨f, Entered.primary hf, hg.symm⟩
  · intro n
    have := hu n
    rw [hf] at this
    refine ⟨?_, ?_⟩
    · unfold cnt
      simp only [nameCount_nil, List.map_cons, List.map_nil, List.sum_cons, List.sum_nil]
      simp only at this
      omega
    · intro h1 h2
      simp only [List.mem_singleton] at h1
      exact absurd h1 h2

/-- Completeness, for every policy (no hypothesis on rule names is needed: the
work-list drops the rest of a file only where the documented walk does): every
consulted matching rule yields a verifier carrying its name, principal ids and
threshold. -/
theorem C06_walk_complete (m : Rule → Bool) (P : Policy) (R : List WVerifier)
    (h : findVerifiers m P = .ok R) :
    ∀ F r, Consulted P m F r → m r = true → ∃ v ∈ R, VerifierOf v r := by
  obtain ⟨f, fuel, hf, hw⟩ := init_walk h
  refine walk_complete_aux m P fuel _ _ _ _ _ R ⟨by simp, ?_⟩ hw
  intro F hF
  rcases hF with hp | ⟨n, hn, hd⟩
  · rw [hf] at hp
    cases hp
    exact Or.inl (by simp)
  · simp only [List.mem_singleton] at hn
    subst hn
    rw [delegated?_targets] at hd
    cases hd

/-- The trailing rule of a rule file (the allow rule) never yields a verifier:
every verifier comes from a rule that has at least one rule after it in its file.
In particular, when the allow rule's name is used for trailing rules only, no
verifier bears it. -/
theorem C06_allow_rule_never_consulted (m : Rule → Bool) (P : Policy) (R : List WVerifier)
    (h : findVerifiers m P = .ok R) :
    (∀ v ∈ R, ∃ F r pre post, Reach P m F ∧ F.rules = pre ++ r :: post ∧ post ≠ [] ∧ VerifierOf v r) ∧
    ((∀ F, Reach P m F → ∀ r ∈ active F.rules, r.name ≠ allowRuleName) →
      ∀ v ∈ R, v.name ≠ allowRuleName) := by
  have hs := C06_walk_sound_reach m P R h
  refine ⟨?_, ?_⟩
  · intro v hv
    obtain ⟨F, r, hF, hr, _, hvo⟩ := hs v hv
    unfold active at hr
    obtain ⟨pre, post', hsplit⟩ := List.append_of_mem hr
    have hne : F.rules ≠ [] := by
      intro h0
      rw [h0] at hr
      cases hr
    refine ⟨F, r, pre, post' ++ [F.rules.getLast hne], hF, ?_, by simp, hvo⟩
    have := List.dropLast_concat_getLast hne
    rw [hsplit] at this
    exact this.symm.trans (by simp)
  · intro hall v hv
    obtain ⟨F, r, hF, hr, _, hvo⟩ := hs v hv
    rw [hvo.1]
    exact hall F hF r hr

/-- A path is reported unprotected (no verifier) exactly when no consulted rule
matches it; so a path matched by a reachable rule is never reported unprotected. -/
theorem C06_unprotected_iff (m : Rule → Bool) (P : Policy) (R : List WVerifier)
    (h : findVerifiers m P = .ok R) :
    R = [] ↔ ¬ ∃ F r, Consulted P m F r ∧ m r = true :=
  unprotected_iff_aux m P R h

/-- Exactness in one statement, under unique rule names: the verifiers returned are
those of the consulted matching rules, no more and no fewer. -/
theorem C06_walk_exact (m : Rule → Bool) (P : Policy) (R : List WVerifier)
    (hu : UniqueRuleNames P) (h : findVerifiers m P = .ok R) :
    (∀ v ∈ R, ∃ F r, Consulted P m F r ∧ m r = true ∧ VerifierOf v r) ∧
    (∀ F r, Consulted P m F r → m r = true → ∃ v ∈ R, VerifierOf v r) :=
  ⟨C06_walk_sound m P R hu h, C06_walk_complete m P R h⟩

/-- Full statement of "each consulted rule contributes its own principals": the key
material of a verifier is that of the rule's principal ids as defined in the rule's
own file.  NOT a theorem of the model (nor of the code, finding F20): the walk
resolves ids in one map that every entered file overwrites.  It is stated here with
the two hypotheses under which it is expected to hold; it is checked on the
implementation's output by the driver, not yet proved. -/
def C06_own_principals : Prop :=
  ∀ (m : Rule → Bool) (P : Policy) (R : List WVerifier),
    ConsistentPrincipals P →
    (∀ F r, Reach P m F → r ∈ F.rules → ∀ i ∈ r.pids, (PMap.get F.principals i).isSome = true) →
    findVerifiers m P = .ok R →
    ∀ v ∈ R, ∃ F r, Reach P m F ∧ r ∈ active F.rules ∧ VerifierOf v r ∧ v.principals = ownPrincipals F r

/-- What is proved of it: the trusted ids and threshold are the rule's own (see
`VerifierOf` in the soundness theorems), and each resolved principal is looked up
under exactly the rule's ids, in order. -/
theorem C06_own_principals_partial (r : Rule) (allP : PMap) :
    (mkVerifier r allP).pids = r.pids ∧ (mkVerifier r allP).threshold = r.threshold ∧
    (mkVerifier r allP).principals = r.pids.map allP.get := ⟨rfl, rfl, rfl⟩

/-! ### Examples: the hypotheses are satisfiable and the named situations behave as stated -/

private def rl (n : String) (t : Bool := false) (pids : List PId := []) : Rule :=
  { name := n, terminating := t, pids := pids }
private def al : Rule := { name := allowRuleName, terminating := true }
private def names (r : Except WErr (List WVerifier)) : Option (List String) :=
  r.toOption.map (·.map (·.name))

/-- cycle: targets → A → B → A, B → B, B → targets; every file is entered once -/
private def Pcycle : Policy :=
  { primary := some ⟨[], [rl "A", al]⟩,
    files := [("A", ⟨[], [rl "B", al]⟩), ("B", ⟨[], [rl "A", rl "B", rl "targets", rl "r1", al]⟩)] }
example : names (findVerifiers (fun _ => true) Pcycle) = some ["A", "B", "A", "B", "targets", "r1"] := by decide

/-- diamond with terminating rules: C is entered once, through B's rule (the last
discovered file goes first); that rule cuts off r2, while A's rule C, already seen,
does not cut off r1 -/
private def Pdiamond : Policy :=
  { primary := some ⟨[], [rl "A", rl "B", al]⟩,
    files := [("A", ⟨[], [rl "C" true, rl "r1", al]⟩), ("B", ⟨[], [rl "C" true, rl "r2", al]⟩),
              ("C", ⟨[], [rl "r3", al]⟩)] }
example : names (findVerifiers (fun _ => true) Pdiamond) = some ["A", "B", "C", "r3", "C", "r1"] := by decide

/-- terminating: r0 (terminating, no delegated file) cuts nothing; A (terminating,
delegated file) cuts off r1 only; inside A, B cuts off r2; B's own rules are consulted.
Rule names are unique here, so `C06_walk_exact` applies. -/
private def Pterm : Policy :=
  { primary := some ⟨[], [rl "r0" true, rl "A" true, rl "r1", al]⟩,
    files := [("A", ⟨[], [rl "B" true, rl "r2", al]⟩), ("B", ⟨[], [rl "r3", rl "r4", al]⟩)] }
example : names (findVerifiers (fun _ => true) Pterm) = some ["r0", "A", "B", "r3", "r4"] := by decide
example : uniqueRuleNamesB Pterm = true := by decide
/-- a path matched by nothing reachable is unprotected; the allow rule alone protects nothing -/
example : findVerifiers (fun _ => false) Pterm = .ok [] := by decide
example : findVerifiers (fun _ => true) { primary := some ⟨[], [al]⟩ } = .ok [] := by decide
example : findVerifiers (fun _ => true) { primary := none } = .error .metadataNotFound := by decide
/-- the order returned by the code (siblings first, then the last discovered file)
differs from the documented pre-order, the set does not -/
example : ((consultedB (fun _ => true) Pterm).map (·.2.name)) = ["r0", "A", "B", "r3", "r4"] := by decide
private def Porder : Policy :=
  { primary := some ⟨[], [rl "A", rl "B", al]⟩,
    files := [("A", ⟨[], [rl "a1", al]⟩), ("B", ⟨[], [rl "b1", al]⟩)] }
example : names (findVerifiers (fun _ => true) Porder) = some ["A", "B", "b1", "a1"] := by decide
example : ((consultedB (fun _ => true) Porder).map (·.2.name)) = ["A", "a1", "B", "b1"] := by decide

/-- F20: person 2 is defined with key 2 in the primary file and with key 4 in the
delegated file A; rule B of the primary file (threshold 2) is handed A's definition. -/
private def Pshadow : Policy :=
  { primary := some ⟨[⟨1, [1]⟩, ⟨2, [2]⟩], [rl "A" false [1], { rl "B" false [1, 2] with threshold := 2 }, al]⟩,
    files := [("A", ⟨[⟨2, [4]⟩], [al]⟩)] }
example : (findVerifiers (fun _ => true) Pshadow).toOption.map (·.map (·.principals)) =
    some [[some ⟨1, [1]⟩], [some ⟨1, [1]⟩, some ⟨2, [4]⟩]] := by decide

end Gittuf.Walk
