/- Shared basics (core Lean only). -/
namespace Gittuf

deriving instance DecidableEq for Except

end Gittuf
