import Gittuf.Model.Sig
/-!
Model of a gittuf policy state (internal/policy/policy.go, internal/tuf/v02):
root of trust, rule files, global rules, GitHub apps; `State.Verify`
(policy.go:557-715), `VerifyNewState` / `VerifyNewStateMetadata`
(verify.go:740-845), `FindVerifiersForPath` / `findVerifiersForPathIfProtected`
(policy.go:413-546), `preprocess` facts used by verification (hasFileRule,
allPrincipals, duplicate rule names; policy.go:1122-1268).

An envelope is identified with (payload, signer keys); payload identity is
structural equality of the metadata value.  Core Lean only.
-/
namespace Gittuf

/-! ### fnmatch with flags 0 (`*` crosses `/`), for the pattern forms generated:
literal characters, `*`, `?`. -/
def globAux : Nat → List Char → List Char → Bool
  | 0, _, _ => false
  | _ + 1, [], [] => true
  | _ + 1, [], _ :: _ => false
  | f + 1, '*' :: ps, [] => globAux f ps []
  | f + 1, '*' :: ps, c :: cs => globAux f ps (c :: cs) || globAux f ('*' :: ps) cs
  | _ + 1, '?' :: _, [] => false
  | f + 1, '?' :: ps, _ :: cs => globAux f ps cs
  | _ + 1, _ :: _, [] => false
  | f + 1, p :: ps, c :: cs => p == c && globAux f ps cs

/-- structural recursion on a fuel argument (each step consumes a pattern or a target character,
so `|pattern| + |target| + 1` is enough); kernel-reducible, unlike well-founded recursion -/
def glob (pattern target : String) : Bool :=
  globAux (pattern.toList.length + target.toList.length + 1) pattern.toList target.toList

/-- `strings.HasPrefix`, on character lists so that it reduces in the kernel -/
def hasPrefix (s pre : String) : Bool := pre.toList.isPrefixOf s.toList

structure PrincipalSpec where
  id         : PId
  person     : Bool := false
  keys       : List KeyId
  identities : List (String × String) := []   -- app name ↦ identity (tufv02.Person.AssociatedIdentities)
  deriving Repr, DecidableEq, Inhabited

def PrincipalSpec.toPrincipal (p : PrincipalSpec) : Principal := { id := p.id, keys := p.keys }

/-- a bare key used as principal (tufv01.Key): its principal id is its key id -/
def keyPrincipal (k : KeyId) : PrincipalSpec := { id := 1000 + k, keys := [k] }

structure Rule where
  name        : String
  patterns    : List String
  principals  : List PId
  threshold   : Int
  terminating : Bool := false
  deriving Repr, DecidableEq, Inhabited

def allowRuleName : String := "gittuf-allow-rule"
def allowRule : Rule := { name := allowRuleName, patterns := ["*"], principals := [], threshold := 1, terminating := true }

def Rule.matches (r : Rule) (path : String) : Bool := r.patterns.any (fun p => glob p path)

structure RuleFile where
  name       : String              -- "targets" or the delegating rule's name
  version    : Nat := 1
  principals : List PrincipalSpec
  rules      : List Rule           -- INCLUDING the trailing allow rule when the file has one
  signers    : List KeyId
  deriving Repr, DecidableEq, Inhabited

structure GlobalRule where
  name      : String
  isThreshold : Bool               -- false: block-force-pushes
  patterns  : List String
  threshold : Int := 0
  deriving Repr, DecidableEq, Inhabited

def GlobalRule.matches (g : GlobalRule) (path : String) : Bool := g.patterns.any (fun p => glob p path)

structure App where
  name    : String
  key     : KeyId
  trusted : Bool
  deriving Repr, DecidableEq, Inhabited

structure Root where
  version          : Nat := 1
  rootKeys         : List KeyId
  rootThreshold    : Int
  targetsKeys      : List KeyId
  targetsThreshold : Int
  globals          : List GlobalRule := []
  apps             : List App := []
  signers          : List KeyId
  deriving Repr, DecidableEq, Inhabited

structure Policy where
  root  : Root
  files : List RuleFile            -- head = primary rule file ("targets"), rest = delegated files
  deriving Repr, DecidableEq, Inhabited

def envelopeOf (signers : List KeyId) : Envelope :=
  { digest := 2, sigs := signers.map (fun k => { key := k, over := 2, hint := some k }) }

def Policy.primary (P : Policy) : Option RuleFile := P.files.head?
def Policy.delegated (P : Policy) : List RuleFile := P.files.tail
def Policy.hasRole (P : Policy) (name : String) : Bool :=
  if name == "targets" then P.primary.isSome else P.delegated.any (·.name == name)
def Policy.file? (P : Policy) (name : String) : Option RuleFile :=
  if name == "targets" then P.primary else P.delegated.find? (·.name == name)

inductive PErr where
  | unmet            -- ErrVerifierConditionsUnmet
  | other            -- any other error (invalid verifier, missing role information, no signature …)
  | dangling         -- ErrDanglingDelegationMetadata
  | rollback         -- ErrMetadataRollbackDetected
  | loop             -- model fuel exhausted (the Go loop would not terminate)
  deriving Repr, DecidableEq, Inhabited

def liftV : Except VErr (List PId) → Except PErr Unit
  | .ok _ => .ok ()
  | .error (.unmet _) => .error .unmet
  | .error _ => .error .other

def lookupPrincipals (defs : List PrincipalSpec) (ids : List PId) : List Principal :=
  ids.filterMap (fun i => (defs.find? (·.id == i)).map (·.toPrincipal))

/-- merge `new` definitions over `old` (Go: `delegationKeys[keyID] = key`) -/
def mergeDefs (old new : List PrincipalSpec) : List PrincipalSpec :=
  new ++ old.filter (fun o => !new.any (·.id == o.id))

def rootVerifier (r : Root) : Verifier :=
  { principals := r.rootKeys.map (fun k => (keyPrincipal k).toPrincipal), threshold := r.rootThreshold }

/-- the reachable-delegations loop of `State.Verify` (policy.go:603-650) -/
def verifyDelegations (P : Policy) : Nat → List Rule → List PrincipalSpec → List String →
    Except PErr (List String)
  | 0, _, _, _ => .error .loop
  | fuel + 1, queue, defs, reached =>
    match queue with
    | [] => .ok reached
    | [_] => .ok reached                       -- `for len(delegationsQueue) > 1`
    | d :: rest =>
      if P.hasRole d.name then
        match P.file? d.name with
        | none => .error .other
        | some f =>
          let v : Verifier := { principals := lookupPrincipals defs d.principals, threshold := d.threshold }
          match liftV (v.verify none 0 (some (envelopeOf f.signers))) with
          | .error e => .error e
          | .ok () => verifyDelegations P fuel (f.rules ++ rest) (mergeDefs defs f.principals) (d.name :: reached)
      else verifyDelegations P fuel rest defs reached

def Policy.fuel (P : Policy) : Nat :=
  ((P.files.map (fun f => f.rules.length + 1)).sum + 1) * (P.files.length + 2) + 2

/-- `State.Verify` (without controller repositories). -/
def Policy.verify (P : Policy) : Except PErr Unit := do
  liftV ((rootVerifier P.root).verify none 0 (some (envelopeOf P.root.signers)))
  match P.primary with
  | none => .ok ()
  | some tf =>
    if P.root.targetsKeys.isEmpty then .error .other else   -- no primary rule file role in root
    let tv : Verifier := { principals := P.root.targetsKeys.map (fun k => (keyPrincipal k).toPrincipal),
                           threshold := P.root.targetsThreshold }
    liftV (tv.verify none 0 (some (envelopeOf tf.signers)))
    let reached ← verifyDelegations P P.fuel tf.rules tf.principals []
    if P.delegated.all (fun f => reached.contains f.name) then .ok () else .error .dangling

/-- `VerifyNewStateMetadata` (verify.go:740-812) -/
def Policy.verifyNewMetadata (cur new : Policy) : Except PErr Unit :=
  if new.root.version < cur.root.version then .error .rollback else
  match cur.primary with
  | none => .ok ()
  | some ct =>
    match new.primary with
    | none => .error .rollback
    | some nt =>
      if nt.version < ct.version then .error .rollback else
      if cur.delegated.all (fun cf =>
          match new.delegated.find? (·.name == cf.name) with
          | none => false
          | some nf => decide (cf.version ≤ nf.version)) then .ok () else .error .rollback

/-- `VerifyNewState` (verify.go:816-845): successor root signed by the predecessor's root role. -/
def Policy.verifyNewState (cur new : Policy) : Except PErr Unit := do
  liftV ((rootVerifier cur.root).verify none 0 (some (envelopeOf new.root.signers)))
  cur.verifyNewMetadata new

/-! ### preprocess facts -/

def Policy.userRules (P : Policy) : List Rule :=
  (P.files.flatMap (·.rules)).filter (fun r => r.name != allowRuleName)

def Policy.hasFileRule (P : Policy) : Bool :=
  P.userRules.any (fun r => r.patterns.any (fun p => hasPrefix p "file:"))

def Policy.duplicateRuleNames (P : Policy) : Bool :=
  let names := P.userRules.map (·.name)
  !(names.eraseDups.length == names.length)

/-- `allPrincipals`: root principals, then every rule file's principals (later definitions win) -/
def Policy.allPrincipals (P : Policy) : List PrincipalSpec :=
  let rootPs := (P.root.rootKeys ++ P.root.targetsKeys ++ P.root.apps.map (·.key)).eraseDups.map keyPrincipal
  P.files.foldl (fun acc f => mergeDefs acc f.principals) rootPs

/-! ### the delegation walk (policy.go:467-546) -/

structure VerifierN where      -- a verifier with its rule name
  name : String
  v    : Verifier
  deriving Repr, DecidableEq, Inhabited

/-- inner loop over one group: returns (verifiers found, new groups to prepend, defs, seen, broke?) -/
def walkGroup (P : Policy) (path : String) : List Rule → List PrincipalSpec → List String →
    List VerifierN → List (List Rule) → (List VerifierN × List (List Rule) × List PrincipalSpec × List String)
  | [], defs, seen, acc, pre => (acc, pre, defs, seen)
  | [_], defs, seen, acc, pre => (acc, pre, defs, seen)      -- `for len(currentDelegationGroup) > 1`
  | d :: rest, defs, seen, acc, pre =>
    if d.matches path then
      let ver : VerifierN := ⟨d.name, { principals := lookupPrincipals defs d.principals, threshold := d.threshold }⟩
      let acc := acc ++ [ver]
      if seen.contains d.name then walkGroup P path rest defs seen acc pre
      else if P.hasRole d.name then
        match P.file? d.name with
        | none => walkGroup P path rest defs seen acc pre
        | some f =>
          let seen := d.name :: seen
          let defs := mergeDefs defs f.principals
          let pre := f.rules :: pre            -- prepended to the list of groups
          if d.terminating then (acc, pre, defs, seen) else walkGroup P path rest defs seen acc pre
      else walkGroup P path rest defs seen acc pre
    else walkGroup P path rest defs seen acc pre

def walkGroups (P : Policy) (path : String) : Nat → List (List Rule) → List PrincipalSpec → List String →
    List VerifierN → List VerifierN
  | 0, _, _, _, acc => acc
  | _ + 1, [], _, _, acc => acc
  | fuel + 1, g :: gs, defs, seen, acc =>
    let (acc, pre, defs, seen) := walkGroup P path g defs seen acc []
    -- each newly discovered file is prepended individually, so the last discovered comes first
    walkGroups P path fuel (pre ++ gs) defs seen acc

/-- `findVerifiersForPathIfProtected`; `none` = ErrMetadataNotFound (no primary rule file) -/
def Policy.findSpecific (P : Policy) (path : String) : Option (List VerifierN) :=
  match P.primary with
  | none => none
  | some tf => some (walkGroups P path (P.files.length + 2) [tf.rules] tf.principals ["targets"] [])

def exhaustiveName : String := "gittuf-exhaustive-verifier"

/-- `FindVerifiersForPath` (policy.go:413-465) -/
def Policy.findVerifiers (P : Policy) (path : String) : Option (List VerifierN) :=
  match P.findSpecific path with
  | none => none
  | some vs =>
    if P.root.globals.isEmpty then some vs else
    some (⟨exhaustiveName, { principals := P.allPrincipals.map (·.toPrincipal), threshold := 1, exhaustive := true }⟩ :: vs)

end Gittuf
