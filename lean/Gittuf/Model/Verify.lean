import Gittuf.Model.World
/-!
Model of gittuf verification (internal/policy/verify.go):
`LoadState` (policy.go:227-370), `verifyEntry`, `verifyGitObjectAndAttestations`
(+`UsingVerifiers`), global rules, `VerifyRelativeForRef` incl. the recovery
loop, `VerifyRef` / `VerifyRefFull` / `VerifyRefFromEntry`, `verifyMergeable`.

`Variant` records, per known defect of the unchanged tree, whether the model
follows the code as it stands (`true` = defect present) or the repaired
behaviour.  Core Lean only.
-/
namespace Gittuf

structure Variant where
  /-- F1: the exhaustive verifier (present when any global rule exists) "succeeds"
  unconditionally and ends the verifier loop, so delegation rules are not enforced. -/
  f1_exhaustiveSatisfies : Bool := true
  /-- F2: propagation entries are not verified. -/
  f2_propagationSkipped : Bool := true
  /-- F3: the fix entry found by the recovery loop is not itself verified. -/
  f3_fixNotVerified : Bool := true
  /-- F4: a policy entry met inside the verified range is only root-chained, its rule files' signatures are not checked. -/
  f4_inRangeNotSelfVerified : Bool := true
  /-- F7: code-review approval predicate is not validated against the lookup key. -/
  f7_ghPredicateNotValidated : Bool := true
  /-- F27: the mergeability relaxation "threshold - 1 is enough, the recorder supplies the last
  signature" is only applied to rules with threshold > 1, so a threshold-1 rule without approvals is
  reported "not mergeable" although an authorized recorder's entry verifies. -/
  f27_mergeableNeedsThreshold2 : Bool := true
  /-- F63: the "already verified using this verifier" shortcut for the later paths of a commit also
  fires for the exhaustive verifier, which is part of every path's verifiers once a global rule
  exists: after an unprotected path, the protected paths of the same commit are not checked. -/
  f63_trustExhaustive : Bool := true
  /-- F64: the "already verified using this verifier" shortcut returns before the global rules are
  evaluated: a global threshold rule matching a later path of a commit is not enforced when an
  earlier path of the same commit was accepted by the same delegation rule. -/
  f64_shortcutSkipsGlobals : Bool := true
  /-- F65: whether the files changed by a commit are verified at all depends on the delegation rules
  only (`hasFileRule`): a global rule that protects a file namespace is never evaluated when no
  delegation rule has a `file:` pattern. -/
  f65_globalFileRuleIgnored : Bool := true
  deriving Repr, DecidableEq, Inhabited

def Variant.current : Variant := {}
def Variant.good : Variant :=
  { f1_exhaustiveSatisfies := false, f2_propagationSkipped := false, f3_fixNotVerified := false,
    f4_inRangeNotSelfVerified := false, f7_ghPredicateNotValidated := false,
    f27_mergeableNeedsThreshold2 := false, f63_trustExhaustive := false,
    f64_shortcutSkipsGlobals := false, f65_globalFileRuleIgnored := false }

inductive VE where
  | verif            -- ErrVerificationFailed / ErrVerifierConditionsUnmet
  | notSkipped       -- ErrInvalidEntryNotSkipped
  | lastGoodSkipped  -- ErrLastGoodEntryIsSkipped
  | noPolicy         -- ErrPolicyNotFound
  | notFound         -- rsl.ErrRSLEntryNotFound
  | policy (e : PErr) -- policy state rejected (chain of trust / rollback / invalid signatures)
  | other
  deriving Repr, DecidableEq, Inhabited

namespace World

/-! ### loading policy states -/

def policyAt (W : World) (i : Nat) : Option Policy :=
  match W.log[i]? with
  | some e => (match e.target with | .policy p => W.policies[p]? | _ => none)
  | none => none

/-- `loadStateForEntry`: fails when the tree cannot be loaded or `preprocess` rejects it -/
def loadRaw (W : World) (i : Nat) : Except VE Policy :=
  match W.policyAt i with
  | none => .error .other
  | some P => if P.duplicateRuleNames then .error .other else .ok P

def liftP {α} : Except PErr α → Except VE α
  | .ok a => .ok a
  | .error e => .error (.policy e)

/-- chain `VerifyNewState` through the policy entries after the first (LoadState, policy.go:327-346) -/
def chainStates (W : World) : List Nat → Policy → Except VE Policy
  | [], cur => .ok cur
  | j :: js, cur =>
    match W.log[j]? with
    | none => .error .other
    | some e =>
      if e.ref != policyRef then chainStates W js cur else
      match W.loadRaw j with
      | .error x => .error x
      | .ok nxt =>
        match liftP (cur.verifyNewState nxt) with
        | .error x => .error x
        | .ok () => chainStates W js nxt

/-- `LoadState(requestedEntry)` without initial root principals (trust on first use). -/
def loadState (W : World) (req : Nat) : Except VE Policy :=
  match W.firstFor policyRef with
  | none => W.loadRaw req
  | some first =>
    if first == req then do
      let P ← W.loadRaw req
      liftP P.verify
      pure P
    else if req < first then W.loadRaw req          -- requested entry is an ancestor of the first policy entry
    else do
      let all := W.range first req policyRef
      let init ← W.loadRaw first
      let last ← W.chainStates (all.drop 1) init
      match W.log[req]? with
      | none => .error .other
      | some e =>
        if e.ref == policyRef then do
          liftP last.verify
          pure last
        else W.loadRaw req

/-! ### attestations -/

def attAt (W : World) (i : Nat) : Option AttState :=
  match W.log[i]? with
  | some e => (match e.target with | .att a => W.atts[a]? | _ => none)
  | none => none

def targetCommit (e : LogEntry) : Option Nat := match e.target with | .commit c => some c | _ => none

/-- previous target for `ref` before log index `i` (any kind, skipped or not) — verify.go:947-959 -/
def fromId (W : World) (ref : String) (i : Nat) : Option Nat :=
  match W.latestFor ref i with
  | none => none
  | some j => (W.log[j]?).bind targetCommit

structure Approvals where
  auth      : Option Envelope      -- the authorization envelope handed to the verifiers
  approvers : Option (List String) -- nil when there is no attestation state at all
  deriving Repr, Inhabited

/-- authorization lookup: by path key, predicate re-validated against the key
(authorization.go:98-138): `.ok none` = not found, `.error` = stored statement does not match -/
def authFor (A : AttState) (ref : String) (frm : Option Nat) (to : Nat) : Except VE (Option Envelope) :=
  match (A.auths.reverse.find? (fun a => a.sref == ref && a.sfrom == frm && a.sto == to)) with
  | none => .ok none
  | some a => if a.ref == ref && a.frm == frm && a.to == to then .ok (some (envelopeOf a.signers))
              else .error .other

/-- code-review approvals of every trusted app (verify.go:1003-1059) -/
def ghApprovers (v : Variant) (P : Policy) (A : AttState) (ref : String) (frm : Option Nat) (to : Nat) :
    Except VE (List String) :=
  (P.root.apps.filter (·.trusted)).foldlM (init := ([] : List String)) (fun acc app =>
    match A.gh.reverse.find? (fun g => g.app == app.name && g.sref == ref && g.sfrom == frm && g.sto == to) with
    | none => pure acc
    | some g =>
      let av : Verifier := { principals := [(keyPrincipal app.key).toPrincipal], threshold := 1 }
      match av.verify none 0 (some (envelopeOf g.signers)) with
      | .error _ => (.error .verif : Except VE (List String))
      | .ok _ =>
        if !v.f7_ghPredicateNotValidated && !(g.ref == ref && g.frm == frm && g.to == to) then .error .other
        else pure (acc ++ g.approvers.filter (fun a => !acc.contains a)))

/-- `getApproverAttestationAndKeyIDsForIndex` (verify.go:982-1062) -/
def approvalsFor (v : Variant) (P : Policy) (A : Option AttState) (ref : String) (frm : Option Nat) (to : Nat) :
    Except VE Approvals :=
  match A with
  | none => .ok { auth := none, approvers := none }
  | some A =>
    match authFor A ref frm to with
    | .error e => .error e
    | .ok auth =>
      match ghApprovers v P A ref frm to with
      | .error e => .error e
      | .ok approvers => .ok { auth := auth, approvers := some approvers }

/-! ### verifyGitObjectAndAttestations -/

structure GOpts where
  mergeable : Bool := false
  trusted   : String := ""
  deriving Repr, Inhabited

/-- does principal `p` (not yet counted) match approver identity `a`: a Person that registered `a`
as its identity for some trusted app (verify.go:1345-1357) -/
def approverMatches (defs : List PrincipalSpec) (apps : List String) (used : List PId) (a : String)
    (p : Principal) : Bool :=
  !used.contains p.id &&
  (match defs.find? (fun d => d.id == p.id) with
   | some d => d.person && d.identities.any (fun (app, idn) => apps.contains app && idn == a)
   | none => false)

/-- approver → principal matching (verify.go:1323-1363): each approver identity credits the first
not-yet-counted principal of the verifier that registered it for any trusted app. -/
def creditApprovers (defs : List PrincipalSpec) (apps : List String) (vp : List Principal)
    (approvers : List String) (used : List PId) : List PId :=
  approvers.foldl (fun used a =>
    match vp.find? (approverMatches defs apps used a) with
    | some p => used ++ [p.id]
    | none => used) used

def withApprovers (defs : List PrincipalSpec) (apps : List String) (vp : List Principal)
    (approvers : Option (List String)) (used : List PId) : List PId :=
  match approvers with
  | none => used
  | some as => creditApprovers defs apps vp as used

structure UVResult where
  usedName : String
  accepted : List PId
  rslNeeded : Bool
  deriving Repr, Inhabited

/-- `verifyGitObjectAndAttestationsUsingVerifiers` (verify.go:1300-1392) -/
def usingVerifiers (v : Variant) (P : Policy) (vs : List VerifierN) (g : Option Sig) (auth : Option Envelope)
    (approvers : Option (List String)) (mergeable : Bool) : Except VE UVResult :=
  let apps := (P.root.apps.filter (·.trusted)).map (·.name)
  let defs := P.allPrincipals
  let rec go : List VerifierN → Except VE UVResult
    | [] => .error .verif
    | vn :: rest =>
      match vn.v.verify g 1 auth with
      | .ok used => .ok { usedName := vn.name, accepted := used, rslNeeded := false }
      | .error (.unmet used) =>
        let used := withApprovers defs apps vn.v.principals approvers used
        let trustedUsed := used.filter (fun p => vn.v.principals.any (·.id == p))
        if (trustedUsed.length : Int) ≥ vn.v.threshold then
          .ok { usedName := vn.name, accepted := trustedUsed, rslNeeded := false }
        else if mergeable && (vn.v.threshold > 1 || !v.f27_mergeableNeedsThreshold2) && (trustedUsed.length : Int) ≥ vn.v.threshold - 1 then
          .ok { usedName := vn.name, accepted := trustedUsed, rslNeeded := true }
        else go rest
      | .error _ => .error .other
  if vs.isEmpty then .error .other else
  match vs with
  | ex :: rest =>
    if ex.v.exhaustive && !v.f1_exhaustiveSatisfies then
      -- repaired behaviour: the exhaustive verifier only counts authenticated principals for
      -- the global rules; a delegation verifier (if any) must still be satisfied
      match ex.v.verify g 1 auth with
      | .error _ => .error .other
      | .ok exUsed =>
        if rest.isEmpty then .ok { usedName := ex.name, accepted := exUsed, rslNeeded := false }
        else match go rest with
          | .error e => .error e
          | .ok r => .ok { r with accepted := exUsed ++ r.accepted.filter (fun p => !exUsed.contains p) }
    else go vs
  | [] => .error .other

/-- `verifyGitObjectAndAttestations` (verify.go:1132-1298) for a commit/entry object.
`entryIdx`: the log index of the RSL entry when the object is an entry (needed by block-force-pushes). -/
def verifyObject (W : World) (v : Variant) (P : Policy) (path : String) (g : Option Sig)
    (entryIdx : Option Nat) (ap : Approvals) (o : GOpts) : Except VE (String × Bool) :=
  match P.findVerifiers path with
  | none => .error .other
  | some vs =>
    if vs.isEmpty then .ok ("", false) else
    if o.trusted != "" && (v.f64_shortcutSkipsGlobals || P.root.globals.isEmpty) &&
        vs.any (fun vn => vn.name == o.trusted && (v.f63_trustExhaustive || !vn.v.exhaustive)) then .ok (o.trusted, false) else
    match usingVerifiers v P vs g ap.auth ap.approvers o.mergeable with
    | .error e => .error e
    | .ok r =>
      let n : Int := r.accepted.length
      let rec globals : List GlobalRule → Except VE Unit
        | [] => .ok ()
        | gr :: rest =>
          if !gr.matches path then globals rest else
          if gr.isThreshold then
            let req := if r.rslNeeded && o.mergeable then gr.threshold - 1 else gr.threshold
            if n < req then .error .verif else globals rest
          else
            if o.mergeable then globals rest else
            match entryIdx with
            | none => .error .other
            | some i =>
              match W.log[i]? with
              | none => .error .other
              | some e =>
                if e.kind != .ref then .error .other else
                match W.latestFor e.ref i (unskipped := true) with
                | none => globals rest
                | some j =>
                  match targetCommit e, (W.log[j]?).bind targetCommit with
                  | some cur, some prev => if W.knows cur prev then globals rest else .error .verif
                  | _, _ => .error .other
      match globals P.root.globals with
      | .error e => .error e
      | .ok () => .ok (r.usedName, r.rslNeeded)

def sigOf (k : Option KeyId) : Option Sig := k.map (fun k => { key := k, over := 1, hint := none })

def commitSigner (W : World) (c : Nat) : Option KeyId :=
  match W.commits[c]? with | some cs => cs.signer | none => none

/-- the per-path loop for one commit (verify.go:896-907): every changed path is checked against the
file rules; `used` is the verifier that already accepted this commit (trusted-verifier shortcut) -/
def verifyPaths (W : World) (v : Variant) (P : Policy) (ap : Approvals) (g : Option Sig) :
    List String → String → Except VE Unit
  | [], _ => .ok ()
  | path :: rest, used =>
    match W.verifyObject v P ("file:" ++ path) g none ap { trusted := used } with
    | .error _ => .error .verif
    | .ok (u, _) => verifyPaths W v P ap g rest u

/-- file-rule verification of the commits introduced by a change (verify.go:882-908) -/
def verifyFiles (W : World) (v : Variant) (P : Policy) (ap : Approvals) : List Nat → Except VE Unit
  | [] => .ok ()
  | c :: cs =>
    match W.verifyPaths v P ap (sigOf (W.commitSigner c)) (W.changedPaths c) "" with
    | .error e => .error e
    | .ok () => verifyFiles W v P ap cs

/-- does verification look at the files changed by the commits of an entry?  `hasFileRule`
(policy.go:1205-1246) only knows the delegation rules; repaired (F65): also when a global threshold
rule protects a file namespace. -/
def hasFileRuleV (v : Variant) (P : Policy) : Bool :=
  P.hasFileRule || (!v.f65_globalFileRuleIgnored &&
    P.root.globals.any (fun g => g.isThreshold && g.patterns.any (fun p => hasPrefix p "file:")))

/-- `verifyEntry` (verify.go:853-911), branch references only (tags are not modelled). -/
def verifyEntry (W : World) (v : Variant) (P : Policy) (A : Option AttState) (i : Nat) (e : LogEntry) :
    Except VE Unit :=
  if e.ref == policyRef || e.ref == attestationsRef then .ok () else
  match targetCommit e with
  | none => .error .other
  | some tc => do
    let frm := W.fromId e.ref i
    let ap ← approvalsFor v P A e.ref frm (W.treeOf tc)
    match W.verifyObject v P ("git:" ++ e.ref) (sigOf e.signer) (some i) ap {} with
    | .error _ => .error .verif
    | .ok _ =>
      if !hasFileRuleV v P then .ok () else
      W.verifyFiles v P ap (W.commitsBetween tc frm)

/-! ### VerifyRelativeForRef -/

structure VState where
  policy : Option Policy
  att    : Option AttState
  deriving Inhabited

def treeOfEntry (W : World) (e : LogEntry) : Nat :=
  match targetCommit e with | some c => W.treeOf c | none => 0

/-- the `lookForFixes` loop (verify.go:655-712).  Returns (fixed?, fix index, unskipped intermediates?, new queue). -/
def lookForFix (W : World) (ref : String) (goodTree : Nat) :
    List Nat → List Nat → Bool → (Option Nat × Bool × List Nat)
  | [], newQ, bad => (none, bad, newQ)
  | j :: rest, newQ, bad =>
    match W.log[j]? with
    | none => lookForFix W ref goodTree rest newQ bad
    | some e =>
      if e.ref != ref then lookForFix W ref goodTree rest (newQ ++ [j]) bad
      else if e.kind == .prop then lookForFix W ref goodTree rest (newQ ++ [j]) bad
      else
        if W.treeOfEntry e == goodTree && !W.skipped j then (some j, bad, newQ ++ rest)
        else lookForFix W ref goodTree rest newQ (bad || !W.skipped j)

/-- main loop of `VerifyRelativeForRef` (verify.go:511-737) over the queue of log indices. -/
def relLoop (W : World) (v : Variant) (first : Nat) : Nat → List Nat → VState → Except VE Unit
  | 0, _, _ => .error .other
  | _ + 1, [], _ => .ok ()
  | fuel + 1, j :: rest, st =>
    match W.log[j]? with
    | none => .error .other
    | some e =>
      if e.kind == .prop && (v.f2_propagationSkipped || hasPrefix e.ref gittufPrefix) then
        relLoop W v first fuel rest st
      else if e.ref == policyStagingRef then relLoop W v first fuel rest st
      else if e.ref == policyRef then
        if j == first then relLoop W v first fuel rest st else
        match W.loadRaw j with
        | .error x => .error x
        | .ok newP =>
          match st.policy with
          | some cur =>
            match liftP (cur.verifyNewState newP) with
            | .error x => .error x
            | .ok () =>
              if !v.f4_inRangeNotSelfVerified then
                match liftP newP.verify with
                | .error x => .error x
                | .ok () => relLoop W v first fuel rest { st with policy := some newP }
              else relLoop W v first fuel rest { st with policy := some newP }
          | none =>
            if !v.f4_inRangeNotSelfVerified then
              match liftP newP.verify with
              | .error x => .error x
              | .ok () => relLoop W v first fuel rest { st with policy := some newP }
            else relLoop W v first fuel rest { st with policy := some newP }
      else if e.ref == attestationsRef then
        match W.attAt j with
        | none => .error .other
        | some a => relLoop W v first fuel rest { st with att := some a }
      else
        match st.policy with
        | none => .error .noPolicy
        | some P =>
          match W.verifyEntry v P st.att j e with
          | .ok () => relLoop W v first fuel rest st
          | .error err =>
            if !W.skipped j then .error err else
            if rest.isEmpty then .error err else
            -- recovery: last good state, then look for the fix
            match W.latestFor e.ref j (unskipped := true) (refOnly := true) with
            | none => .error .notFound
            | some lg =>
              -- (`SkippedBy` check on the last good entry cannot fire: it was selected as unskipped)
              let goodTree := match (W.log[lg]?).bind targetCommit with | some c => W.treeOf c | none => 0
              match W.lookForFix e.ref goodTree rest [] false with
              | (none, _, _) => .error err
              | (some fix, bad, newQ) =>
                if bad then .error .notSkipped else
                if v.f3_fixNotVerified then relLoop W v first fuel newQ st
                else
                  match W.log[fix]? with
                  | none => .error .other
                  | some fe =>
                    match W.verifyEntry v P st.att fix fe with
                    | .ok () => relLoop W v first fuel newQ st
                    | .error err2 => .error err2

/-- policy applicable at the first entry of the range (verify.go:469-482) -/
def initialPolicy (W : World) (first : Nat) : Except VE (Option Policy) :=
  match W.log[first]? with
  | none => .error .other
  | some fe =>
    match (if isUpdater fe && fe.ref == policyRef then some first else W.latestFor policyRef first) with
    | none => .ok none
    | some p => (match W.loadState p with | .ok P => .ok (some P) | .error x => .error x)

/-- attestations applicable at the first entry of the range (verify.go:485-497) -/
def initialAtt (W : World) (first : Nat) : Except VE (Option AttState) :=
  match W.log[first]? with
  | none => .error .other
  | some fe =>
    match (if isUpdater fe && fe.ref == attestationsRef then some first else W.latestFor attestationsRef first) with
    | none => .ok none
    | some a => (match W.attAt a with | some s => .ok (some s) | none => .error .other)

/-- `VerifyRelativeForRef(first, last, ref)` -/
def verifyRelative (W : World) (v : Variant) (first last : Nat) (ref : String) : Except VE Unit :=
  match W.initialPolicy first with
  | .error x => .error x
  | .ok pol =>
    match W.initialAtt first with
    | .error x => .error x
    | .ok att =>
      W.relLoop v first (2 * (W.range first last ref).length + 2) (W.range first last ref) { policy := pol, att := att }

/-- result of the three exported modes: the tip (a commit index) and the verdict -/
def latestEntryFor (W : World) (ref : String) : Option Nat := W.latestFor ref W.log.length

def verifyRefFull (W : World) (v : Variant) (ref : String) : Except VE (Option Nat) :=
  match W.firstFor ref, W.latestEntryFor ref with
  | some f, some l => do
    W.verifyRelative v f l ref
    pure ((W.log[l]?).bind targetCommit)
  | _, _ => .error .notFound

def verifyRef (W : World) (v : Variant) (ref : String) : Except VE (Option Nat) :=
  match W.latestEntryFor ref with
  | some l => do
    W.verifyRelative v l l ref
    pure ((W.log[l]?).bind targetCommit)
  | none => .error .notFound

def verifyRefFromEntry (W : World) (v : Variant) (ref : String) (frm : Nat) : Except VE (Option Nat) :=
  match W.log[frm]? with
  | none => .error .other
  | some fe =>
    if fe.kind != .ref then .error .other else
    match W.latestEntryFor ref with
    | some l => do
      W.verifyRelative v frm l ref
      pure ((W.log[l]?).bind targetCommit)
    | none => .error .notFound

/-! ### VerifyMergeable (verify.go:172-314) -/

/-- `GetMergeTree(from, feature)` for the shapes generated: no base (zero id), fast-forward
(`from` is an ancestor of `feature`) or already merged (`feature` is an ancestor of `from`).
A real three-way merge is not modelled (`.error`). -/
def mergeTreeOf (W : World) (frm : Option Nat) (feature : Nat) : Except VE Nat :=
  match frm with
  | none => .ok (W.treeOf feature)
  | some a =>
    if W.knows feature a then .ok (W.treeOf feature)
    else if W.knows a feature then .ok (W.treeOf a)
    else .error .other

/-- `verifyMergeable(targetRef, fromID, featureID)`: `.ok needsSignature` or an error -/
def verifyMergeableCommit (W : World) (v : Variant) (targetRef : String) (feature : Nat) : Except VE Bool := do
  let frm : Option Nat := match W.latestFor targetRef W.log.length (unskipped := true) with
    | none => none
    | some j => (W.log[j]?).bind targetCommit
  let mt ← W.mergeTreeOf frm feature
  let P ← match W.latestFor policyRef W.log.length with
    | none => (.error .noPolicy : Except VE Policy)
    | some p => W.loadState p
  let A ← match W.latestFor attestationsRef W.log.length with
    | none => (pure none : Except VE (Option AttState))
    | some a => (match W.attAt a with | some s => pure (some s) | none => .error .other)
  let ap ← approvalsFor v P A targetRef frm mt
  match W.verifyObject v P ("git:" ++ targetRef) none none ap { mergeable := true } with
  | .error _ => .error .verif
  | .ok (_, need) =>
    if !hasFileRuleV v P then pure need else do
      W.verifyFiles v P ap (W.commitsBetween feature frm)
      pure need

/-- `VerifyMergeable(targetRef, featureRef)`: the feature tip is the latest unskipped entry for featureRef -/
def verifyMergeable (W : World) (v : Variant) (targetRef featureRef : String) : Except VE Bool :=
  if hasPrefix targetRef "refs/tags/" then .error .other else
  match W.latestFor featureRef W.log.length (unskipped := true) with
  | none => .error .notFound
  | some j =>
    match (W.log[j]?).bind targetCommit with
    | none => .error .other
    | some f => W.verifyMergeableCommit v targetRef f

end World
end Gittuf
