import Gittuf.Model.Sig
/-
Model of the delegation walk `State.findVerifiersForPathIfProtected`
(internal/policy/policy.go:464-546, called from `FindVerifiersForPath`, 413-462;
the exhaustive verifier added there for global rules belongs to C11, not here),
of `Delegation.Matches` (internal/tuf/v02/targets.go:411-420) with
`fnmatch.Match(pattern, target, 0)` (github.com/danwakefield/fnmatch), and of the
duplicate-name check of `State.preprocess` (policy.go:1185-1236).

A policy is a primary rule file plus a finite map name → rule file
(`StateMetadata.TargetsEnvelope`, `.DelegationEnvelopes`).  Core Lean only.
-/
namespace Gittuf.Walk

structure Rule where
  name        : String
  patterns    : List String := []
  /-- principal ids trusted by the rule (`Role.PrincipalIDs`, a set in Go) -/
  pids        : List PId := []
  threshold   : Int := 1
  terminating : Bool := false
  deriving Repr, DecidableEq, Inhabited

structure RuleFile where
  /-- principal definitions of the file (`Delegations.Principals`, a map id → principal) -/
  principals : List Principal := []
  /-- `Delegations.Roles` in declared order; normally ends with the allow rule -/
  rules      : List Rule
  deriving Repr, DecidableEq, Inhabited

structure Policy where
  primary : Option RuleFile
  files   : List (String × RuleFile) := []
  deriving Repr, Inhabited

/-- the verifier built for one matching rule (policy.go:505-514) -/
structure WVerifier where
  name       : String
  pids       : List PId
  /-- `allPrincipals[principalID]` for each trusted id; `none` = nil map entry -/
  principals : List (Option Principal)
  threshold  : Int
  deriving Repr, DecidableEq, Inhabited

def targetsName : String := "targets"
def allowRuleName : String := "gittuf-allow-rule"

/-- `HasTargetsRole` + `GetTargetsMetadata` (policy.go:1105-1116): the name
"targets" denotes the primary file, every other name is looked up in the map. -/
def Policy.file? (P : Policy) (n : String) : Option RuleFile :=
  if n == targetsName then P.primary else P.files.lookup n

/-- the local `allPrincipals` map of the walk: an association list, newest first -/
abbrev PMap := List Principal

def PMap.get (m : PMap) (i : PId) : Option Principal := m.find? (fun p => p.id == i)

/-- `for id, p := range delegated.GetPrincipals() { allPrincipals[id] = p }` (policy.go:528-530) -/
def PMap.merge (m : PMap) (defs : List Principal) : PMap := defs ++ m

def mkVerifier (r : Rule) (allP : PMap) : WVerifier :=
  { name := r.name, pids := r.pids, principals := r.pids.map allP.get, threshold := r.threshold }

/-- the rules of a file the loop `for len(group) > 1` can consult: all but the last -/
def active (rules : List Rule) : List Rule := rules.dropLast

/-- One Go loop iteration per unit of fuel.  `cur` is `currentDelegationGroup`,
`groups` is `groupedDelegations`; `m` is `delegation.Matches(path)` for the fixed path.
`none` = out of fuel (never happens from `findVerifiers`, see `Props/C06`). -/
def walk (m : Rule → Bool) (P : Policy) :
    Nat → List Rule → List (List Rule) → List String → PMap → List WVerifier → Option (List WVerifier)
  | 0, _, _, _, _, _ => none
  | fuel + 1, cur, groups, seen, allP, acc =>
    match cur with
    | [] =>                                                  -- group exhausted: next group
      match groups with
      | [] => some acc
      | g :: gs => walk m P fuel g gs seen allP acc
    | [_] =>                                                 -- only the last rule is left: never consulted
      match groups with
      | [] => some acc
      | g :: gs => walk m P fuel g gs seen allP acc
    | d :: x :: xs =>                                        -- len(currentDelegationGroup) > 1
      if m d then
        let acc' := acc ++ [mkVerifier d allP]
        if seen.contains d.name then walk m P fuel (x :: xs) groups seen allP acc'  -- `continue`
        else match P.file? d.name with
          | none => walk m P fuel (x :: xs) groups seen allP acc'
          | some f =>
            let seen' := d.name :: seen
            let allP' := allP.merge f.principals
            let groups' := f.rules :: groups                 -- prepended
            if d.terminating then walk m P fuel [] groups' seen' allP' acc'          -- `break`
            else walk m P fuel (x :: xs) groups' seen' allP' acc'
      else walk m P fuel (x :: xs) groups seen allP acc

/-- weight of the delegated files whose name is not yet in `seenRoles` -/
def unseenW (w : String × RuleFile → Nat) (seen : List String) (files : List (String × RuleFile)) : Nat :=
  ((files.filter (fun e => !seen.contains e.1)).map w).sum

def fileWeight (e : String × RuleFile) : Nat := e.2.rules.length + 2

/-- termination measure of a walk state: strictly decreases with every loop iteration -/
def walkMeasure (P : Policy) (cur : List Rule) (groups : List (List Rule)) (seen : List String) : Nat :=
  cur.length + (groups.map (fun g => g.length + 1)).sum + unseenW fileWeight seen P.files

inductive WErr where
  | metadataNotFound     -- ErrMetadataNotFound: no primary rule file
  | outOfFuel            -- unreachable (theorem `walk_terminates`)
  deriving Repr, DecidableEq, Inhabited

/-- `findVerifiersForPathIfProtected`.  The fuel is the measure of the initial
state plus one, which is enough for every finite policy. -/
def findVerifiers (m : Rule → Bool) (P : Policy) : Except WErr (List WVerifier) :=
  match P.primary with
  | none => .error .metadataNotFound
  | some f =>
    match walk m P (walkMeasure P [] [f.rules] [targetsName] + 1) [] [f.rules] [targetsName] f.principals [] with
    | none => .error .outOfFuel
    | some vs => .ok vs

/-! ### `fnmatch.Match(pattern, s, 0)` for literals, `?`, `*` and `\` escapes

With flags 0: `?` matches any one character, `*` any (possibly empty) sequence
including `/`, `\c` the character `c` (a trailing `\` matches itself).  Bracket
classes are not modelled (the generator does not produce them; `[` is treated as a
pattern that never matches). -/

def globL : List Char → List Char → Bool
  | [], s => s.isEmpty
  | c :: p, s =>
    if c == '?' then
      match s with
      | [] => false
      | _ :: s' => globL p s'
    else if c == '*' then
      -- `**…` collapses; a pattern ending in stars matches everything that is left
      if p.all (· == '*') then true
      else
        -- some non-empty suffix of `s` matches the rest
        match s with
        | [] => false
        | x :: s' => globL p (x :: s') || globL (c :: p) s'
    else if c == '[' then false
    else if c == '\\' then
      match p with
      | [] => (match s with | [] => false | sc :: s' => sc == '\\' && globL [] s')
      | c' :: p' => (match s with | [] => false | sc :: s' => sc == c' && globL p' s')
    else
      match s with
      | [] => false
      | sc :: s' => sc == c && globL p s'
termination_by p s => p.length + s.length

def glob (pattern s : String) : Bool := globL pattern.toList s.toList

/-- `Delegation.Matches` -/
def Rule.matchesPath (r : Rule) (path : String) : Bool := r.patterns.any (fun p => glob p path)

/-- `preprocess` (policy.go:1185-1236): over the primary file and *every* delegated
file, rule names other than the allow rule's must be pairwise distinct. -/
def ruleNamesForLoader (P : Policy) : List String :=
  let fs := (match P.primary with | none => [] | some f => [f]) ++ P.files.map (·.2)
  (fs.flatMap (fun f => f.rules.map (·.name))).filter (fun n => n != allowRuleName)

def nodupStr : List String → Bool
  | [] => true
  | x :: xs => !xs.contains x && nodupStr xs

def loaderAccepts (P : Policy) : Bool := nodupStr (ruleNamesForLoader P)

end Gittuf.Walk
