/-
Model of the path / tree layer of gittuf (core Lean only; linked into the driver).

Go code modelled
* /repo/pkg/gitinterface/repository.go:276-329  the git executor: `executeString` returns
  `strings.TrimSpace(stdout)`; no `-z`, no `core.quotePath` override, so git prints path names
  C-quoted (quote.c) and one per line.
* /repo/pkg/gitinterface/changes.go:17-88       GetFilePathsChangedByCommit
* /repo/pkg/gitinterface/tree.go:36-167         GetPathIDInTree, GetEntriesInTree, GetAllFilesInTree
* /repo/pkg/gitinterface/tree.go:210-328        CreateSubtreeFromUpstreamRepository
* /repo/pkg/gitinterface/tree.go:345-480        TreeBuilder (WriteTreeFromEntries, `git mktree` input)
* /repo/internal/propagation/propagation.go     PropagateChangesFromUpstreamRepository
* git itself (2.39): quote.c `quote_c_style` (output of ls-tree / diff-tree without -z under the
  default core.quotePath) and `unquote_c_style` as called by `git mktree` without -z.

Representation
* paths and all git output are byte strings (`Bytes = List UInt8`, shared with `Codec`);
* a (flattened) tree is the list of its leaves `(path, mode, blob id)` sorted bytewise by path,
  exactly what `git ls-tree -r -z` prints (bytewise order of the full paths is git's tree order);
* a tree object's identity is its content (trees are compared structurally: git ids are injective);
* `Variant` carries one flag per known defect: `nul` (F8 repaired: NUL-delimited reading, names
  verbatim), `keepModes` (F16 repaired), `subtreeCheck` (F15 repaired).  `asCoded` is the code as
  it stands, `good` the repaired behaviour the property asks for.
-/
import Gittuf.Model.Codec
namespace Gittuf.Tree
open Gittuf.Codec (Bytes Hash hexEncode hashOf splitNL trimSpace hasPrefix hasSuffix)

abbrev Path := List UInt8

inductive Mode
  | regular     -- 100644
  | executable  -- 100755
  | symlink     -- 120000
  deriving DecidableEq, Repr, Inhabited

def Mode.render : Mode → Bytes
  | .regular => [49, 48, 48, 54, 52, 52]
  | .executable => [49, 48, 48, 55, 53, 53]
  | .symlink => [49, 50, 48, 48, 48, 48]

structure Entry where
  path : Path
  mode : Mode
  id : Hash
  deriving DecidableEq, Repr, Inhabited

abbrev Tree := List Entry

structure Variant where
  /-- F8 repaired: git is read and written NUL-delimited (`-z`), names are verbatim -/
  nul : Bool
  /-- F16 repaired: rebuilt trees keep the file modes -/
  keepModes : Bool
  /-- F15 repaired: the already-propagated check compares with the upstream *subtree* -/
  subtreeCheck : Bool
  /-- not a defect flag but the oracle for Go's map iteration order in the tree builder: a blob
  entry whose path is also a directory of another entry survives iff it is visited first -/
  keepConflicted : Bool := false
  deriving DecidableEq, Repr

def asCoded : Variant := { nul := false, keepModes := false, subtreeCheck := false }
def good : Variant := { nul := true, keepModes := true, subtreeCheck := true }

/-! ## byte-string helpers -/

/-- Go's `<` on strings: bytewise lexicographic -/
def bytesLt : Bytes → Bytes → Bool
  | [], [] => false
  | [], _ :: _ => true
  | _ :: _, [] => false
  | a :: x, b :: y => a < b || (a == b && bytesLt x y)

/-- `strings.Split(s, sep)` for a one-byte separator (never empty) -/
def splitOn (sep : UInt8) : Bytes → List Bytes
  | [] => [[]]
  | c :: rest =>
    if c = sep then [] :: splitOn sep rest else
    match splitOn sep rest with
    | [] => [[c]]
    | l :: ls => (c :: l) :: ls

/-- `strings.Join(parts, "/")` -/
def joinSlash : List Bytes → Bytes
  | [] => []
  | [l] => l
  | l :: ls => l ++ 47 :: joinSlash ls

/-- `strings.TrimSuffix(p, "/")` -/
def trimSuffixSlash (p : Bytes) : Bytes := if hasSuffix [47] p then p.dropLast else p

def insertBy {α} (lt : α → α → Bool) (x : α) : List α → List α
  | [] => [x]
  | y :: ys => if lt x y then x :: y :: ys else y :: insertBy lt x ys

def sortBy {α} (lt : α → α → Bool) (l : List α) : List α := l.foldr (insertBy lt) []

def sortTree (t : Tree) : Tree := sortBy (fun a b => bytesLt a.path b.path) t
def sortPaths (l : List Bytes) : List Bytes := sortBy bytesLt l

/-! ## git's output formats (quote.c, ls-tree, diff-tree) -/

/-- quote.c `cq_must_quote` under the default `core.quotePath=true` -/
def mustQuote (c : UInt8) : Bool := c < 0x20 || c == 0x22 || c == 0x5c || c == 0x7f || c ≥ 0x80

def octal3 (c : UInt8) : Bytes := [48 + c / 64, 48 + (c / 8) % 8, 48 + c % 8]

/-- quote.c `cq_lookup` -/
def escByte (c : UInt8) : Bytes :=
  if c = 7 then [92, 97] else if c = 8 then [92, 98] else if c = 9 then [92, 116] else
  if c = 10 then [92, 110] else if c = 11 then [92, 118] else if c = 12 then [92, 102] else
  if c = 13 then [92, 114] else if c = 0x22 then [92, 0x22] else if c = 0x5c then [92, 0x5c] else
  if mustQuote c then 92 :: octal3 c else [c]

/-- `quote_c_style`: a name is printed verbatim unless it contains a byte that must be quoted -/
def cquote (p : Path) : Bytes :=
  if p.any mustQuote then 34 :: (p.flatMap escByte ++ [34]) else p

def blobWord : Bytes := [32, 98, 108, 111, 98, 32]
def treeWord : Bytes := [32, 116, 114, 101, 101, 32]
def treeMode : Bytes := [48, 52, 48, 48, 48, 48]

/-- one line of `git ls-tree`: `<mode> SP <type> SP <object> TAB <file>` -/
def renderLsLine (mode : Bytes) (isTree : Bool) (id : Hash) (name : Path) : Bytes :=
  mode ++ (if isTree then treeWord else blobWord) ++ hexEncode id ++ 9 :: cquote name

/-- `git ls-tree -r <tree>` -/
def renderLsTreeR (t : Tree) : Bytes :=
  t.flatMap (fun e => renderLsLine e.mode.render false e.id e.path ++ [10])

/-- an immediate entry of a tree object -/
structure DirEntry where
  name : Path
  isTree : Bool
  mode : Bytes
  id : Hash
  deriving DecidableEq, Repr

/-- `git ls-tree <tree>` -/
def renderLsTree (es : List DirEntry) : Bytes :=
  es.flatMap (fun e => renderLsLine e.mode e.isTree e.id e.name ++ [10])

/-- `git ls-tree --name-only -r` / `git diff-tree --no-commit-id --name-only -r` -/
def renderNameOnly (names : List Path) : Bytes := names.flatMap (fun p => cquote p ++ [10])

/-- the same with `-z`: verbatim names, each terminated by NUL -/
def renderNameOnlyZ (names : List Path) : Bytes := names.flatMap (fun p => p ++ [0])

/-! ## gittuf's parsers, exactly as coded -/

inductive PErr
  | panic     -- Go index out of range
  | badHash   -- NewHash failed
  deriving DecidableEq, Repr

/-- Go slice indexing -/
def idx {α} (l : List α) (i : Nat) : Except PErr α :=
  match l[i]? with
  | some x => .ok x
  | none => .error .panic

def newHash (v : Bytes) : Except PErr Hash :=
  match hashOf v with
  | .ok h => .ok h
  | .error _ => .error .badHash

/-- tree.go:148-161: `Split(entry," ")[2]`, then `Split(.., "\t")`: `[0]` is the id, `[1]` the name -/
def parseFilesLine (line : Bytes) : Except PErr (Bytes × Hash) := do
  let f ← idx (splitOn 32 line) 2
  let g := splitOn 9 f
  let h ← newHash (← idx g 0)
  let n ← idx g 1
  return (n, h)

/-- Go `map[string]Hash` assignment; kept sorted by key (canonical form) -/
def mapSet {β} (k : Bytes) (v : β) : List (Bytes × β) → List (Bytes × β)
  | [] => [(k, v)]
  | (k', v') :: rest =>
    if k = k' then (k, v) :: rest
    else if bytesLt k k' then (k, v) :: (k', v') :: rest
    else (k', v') :: mapSet k v rest

def mapOf {β} (l : List (Bytes × β)) : List (Bytes × β) := l.foldl (fun m kv => mapSet kv.1 kv.2 m) []

/-- `GetAllFilesInTree` (tree.go:126-167) applied to the raw output of `git ls-tree -r` -/
def getAllFilesInTree (out : Bytes) : Except PErr (List (Bytes × Hash)) :=
  let s := trimSpace out
  if s = [] then .ok [] else do
    let l ← (splitNL s).mapM parseFilesLine
    return mapOf l

/-- tree.go:95-118 -/
def parseEntryLine (line : Bytes) : Except PErr (Bytes × Hash × Bool) := do
  let fields := splitOn 32 line
  let f ← idx fields 2
  let g := splitOn 9 f
  let h ← newHash (← idx g 0)
  let kind ← idx fields 1
  let n ← idx g 1
  return (n, h, kind == [116, 114, 101, 101])

/-- `GetEntriesInTree` (tree.go:77-121) applied to the raw output of `git ls-tree` -/
def getEntriesInTree (out : Bytes) : Except PErr (List (Bytes × Hash × Bool)) :=
  let s := trimSpace out
  if s = [] then .ok [] else (splitNL s).mapM parseEntryLine

/-- changes.go:27-35: root commit, raw output of `ls-tree --name-only -r` -/
def changedRoot (out : Bytes) : List Bytes := splitNL (trimSpace out)

/-- changes.go:78-87: one parent, raw output of `diff-tree --name-only -r` -/
def changedOne (out : Bytes) : List Bytes :=
  let s := trimSpace out
  if s = [] then [] else splitNL s

def insertSet (x : Bytes) : List Bytes → List Bytes
  | [] => [x]
  | y :: ys => if x = y then y :: ys else if bytesLt x y then x :: y :: ys else y :: insertSet x ys

/-- changes.go:37-76: merge commit, raw diff-tree outputs against every parent in order -/
def changedMerge (outs : List Bytes) : List Bytes :=
  match outs.getLast? with
  | none => []
  | some last =>
    if trimSpace last = [] then [] else
    outs.foldl (fun acc o =>
      let s := trimSpace o
      if s = [] then acc else
      (splitNL s).foldl (fun acc p => if p = [] then acc else insertSet p acc) acc) []

/-- the repaired reader: split the `-z` output at NUL (every name is NUL-terminated) -/
def parseNamesZ (out : Bytes) : List Bytes := (splitOn 0 out).dropLast

/-- GetFilePathsChangedByCommit on the model: `files` = all leaf paths of the commit's tree,
`diffs` = the changed leaf paths against each parent (in parent order) -/
def changedPaths (v : Variant) (files : List Path) (diffs : List (List Path)) : List Bytes :=
  if v.nul then
    match diffs with
    | [] => parseNamesZ (renderNameOnlyZ files)
    | [d] => parseNamesZ (renderNameOnlyZ d)
    | ds => match ds.getLast? with
      | none => []
      | some last => if last = [] then [] else
        ds.foldl (fun acc d => (parseNamesZ (renderNameOnlyZ d)).foldl (fun acc p => insertSet p acc) acc) []
  else
    match diffs with
    | [] => changedRoot (renderNameOnly files)
    | [d] => changedOne (renderNameOnly d)
    | ds => changedMerge (ds.map renderNameOnly)

/-! ## `git mktree` (no -z) as used by TreeBuilder.writeTree -/

def octVal (c : UInt8) : Option UInt8 := if 48 ≤ c ∧ c ≤ 55 then some (c - 48) else none

/-- quote.c `unquote_c_style` after the opening quote; `none` = "invalid quoting".  With
`endp = NULL` whatever follows the closing quote is ignored. -/
def unquoteBody : Bytes → Option Bytes
  | [] => none
  | c :: rest =>
    if c = 34 then some [] else
    if c ≠ 92 then (unquoteBody rest).map (c :: ·) else
    match rest with
    | [] => none
    | e :: rest2 =>
      let simple (v : UInt8) := (unquoteBody rest2).map (v :: ·)
      if e = 97 then simple 7 else if e = 98 then simple 8 else if e = 102 then simple 12 else
      if e = 110 then simple 10 else if e = 114 then simple 13 else if e = 116 then simple 9 else
      if e = 118 then simple 11 else if e = 92 then simple 92 else if e = 34 then simple 34 else
      if 48 ≤ e ∧ e ≤ 51 then
        match rest2 with
        | d1 :: d2 :: rest3 =>
          match octVal d1, octVal d2 with
          | some a, some b => (unquoteBody rest3).map (((e - 48) * 64 + a * 8 + b) :: ·)
          | _, _ => none
        | _ => none
      else none

/-- builtin/mktree.c: a name starting with `"` is C-unquoted, anything else is taken verbatim -/
def mktreeName (n : Bytes) : Option Bytes :=
  match n with
  | 34 :: rest => unquoteBody rest
  | _ => some n

/-! ## TreeBuilder.WriteTreeFromEntries + mktree, on entry lists -/

inductive Obj
  | blob (mode : Mode) (id : Hash)
  | tree (t : Tree)        -- graft of an existing tree object (NewEntryTree)
  deriving DecidableEq, Repr

structure BEntry where
  path : Bytes
  obj : Obj
  deriving DecidableEq, Repr

inductive BErr
  | rootPath        -- ErrCannotCreateSubtreeIntoRootTree
  | notFound        -- ErrTreeDoesNotHavePath
  | git             -- a git command failed (ls-tree on a blob, mktree: invalid quoting, ...)
  | refMissing      -- ErrReferenceNotFound
  deriving DecidableEq, Repr

/-- components of an entry path, `none` when some component is empty: then `path.Join` never
reproduces `entry.Path`, the entry is never a leaf (identifyIntermediates/populateTree) -/
def cleanComps (p : Bytes) : Option (List Bytes) :=
  let cs := splitOn 47 p
  if cs.any (· == []) then none else some cs

/-- leaves that one builder entry contributes to the written tree; `verbatim`: the repaired
writer hands the names to `git mktree -z`, which takes them as they are -/
def writeEntry (verbatim : Bool) (e : BEntry) : Except BErr (List Entry) :=
  match cleanComps e.path with
  | none => .ok []
  | some cs =>
    match (if verbatim then some cs else cs.mapM mktreeName) with
    | none => .error .git
    | some ns =>
      let p := joinSlash ns
      match e.obj with
      | .blob m id => .ok [⟨p, m, id⟩]
      | .tree t => .ok (t.map (fun x => { x with path := p ++ 47 :: x.path }))

/-- a blob entry whose path is also a directory of another entry: whether it survives depends
on Go's map iteration order (populateTree returns early when the directory already exists) -/
def conflicted (es : List BEntry) (e : BEntry) : Bool :=
  match e.obj with
  | .tree _ => false
  | .blob _ _ => es.any (fun o => hasPrefix (e.path ++ [47]) o.path)

/-- the tree written for a list of builder entries; conflicted blobs are all kept or all left out -/
def writeTree (verbatim keep : Bool) (es : List BEntry) : Except BErr Tree := do
  let parts ← (es.filter (fun e => keep || !conflicted es e)).mapM (writeEntry verbatim)
  return sortTree parts.flatten

/-! ## reading trees back (structural form of the parsers above) -/

/-- what the line parsers keep of a path: its C-quoted form up to the first blank -/
def nameAsRead (p : Path) : Bytes := (cquote p).takeWhile (· ≠ 32)

def readName (v : Variant) (p : Path) : Bytes := if v.nul then p else nameAsRead p

/-- `GetAllFilesInTree` on a model tree: (name, (mode, id)), later lines overwrite earlier ones.
The real function drops the mode; it is carried along for the `keepModes` variant. -/
def readFiles (v : Variant) (t : Tree) : List (Bytes × Mode × Hash) :=
  if v.nul then t.map (fun e => (e.path, e.mode, e.id))
  else mapOf (t.map (fun e => (nameAsRead e.path, e.mode, e.id)))

/-- leaves below directory `dir`, re-rooted -/
def subtreeAt (t : Tree) (dir : Bytes) : Tree :=
  t.filterMap (fun e => if hasPrefix (dir ++ [47]) e.path then some { e with path := e.path.drop (dir.length + 1) } else none)

inductive Node
  | blob (id : Hash)
  | tree (t : Tree)
  deriving DecidableEq, Repr

def firstComp (p : Bytes) : Bytes := p.takeWhile (· ≠ 47)

/-- `GetEntriesInTree` on the root of a model tree: immediate entries in git's order, names as read -/
def entriesIn (v : Variant) (t : Tree) : List (Bytes × Node) :=
  (t.map (fun e => firstComp e.path)).eraseDups.map (fun c =>
    match t.find? (fun e => e.path == c) with
    | some e => (readName v c, Node.blob e.id)
    | none => (readName v c, Node.tree (subtreeAt t c)))

def walk (v : Variant) : Node → List Bytes → Except BErr Node
  | n, [] => .ok n
  | .blob _, _ :: _ => .error .git           -- `git ls-tree <blob>` fails
  | .tree t, c :: cs =>
    match (entriesIn v t).find? (fun x => x.1 == c) with
    | none => .error .notFound
    | some (_, n) => walk v n cs

/-- `GetPathIDInTree` (tree.go:36-62) -/
def pathId (v : Variant) (t : Tree) (p : Bytes) : Except BErr Node :=
  walk v (.tree t) (splitOn 47 (trimSuffixSlash p))

/-! ## CreateSubtreeFromUpstreamRepository -/

/-- every tree object below (and including) `t` -/
def allSubtrees (t : Tree) : List Tree :=
  let dirs := (t.flatMap (fun e =>
    let cs := splitOn 47 e.path
    (List.range (cs.length - 1)).map (fun i => joinSlash (cs.take (i + 1))))).eraseDups
  t :: dirs.map (subtreeAt t)

/-- `HasObject(treeID)`: the empty tree is known to every repository -/
def hasTree (store : List Tree) (s : Tree) : Bool := s.isEmpty || store.contains s

/-- `path.Join(localPath, blobPath)` for clean arguments -/
def pathJoin (a b : Bytes) : Bytes := if b = [] then a else if a = [] then b else a ++ 47 :: b

def blobMode (v : Variant) (m : Mode) : Mode := if v.keepModes then m else .regular

/-- builder entries handed to WriteTreeFromEntries (tree.go:224-294) -/
def subtreeEntries (v : Variant) (store : List Tree) (down : Tree) (s : Tree) (downPath : Bytes) : List BEntry :=
  let lp := if hasSuffix [47] downPath then downPath else downPath ++ [47]
  let kept := (readFiles v down).filter (fun f => !hasPrefix lp f.1)
  let lp' := trimSuffixSlash lp
  let keptE := kept.map (fun f => (⟨f.1, .blob (blobMode v f.2.1) f.2.2⟩ : BEntry))
  if hasTree store s then keptE ++ [⟨lp', .tree s⟩]
  else keptE ++ (readFiles v s).map (fun f => ⟨pathJoin lp' f.1, .blob (blobMode v f.2.1) f.2.2⟩)

/-- the upstream tree object that is copied: whole tree or `GetPathIDInTree(tree, upstreamPath)` -/
def upstreamSubtree (v : Variant) (up : Tree) (upPath : Bytes) : Except BErr Tree :=
  if upPath = [] then .ok up else
  match pathId v up upPath with
  | .error e => .error e
  | .ok (.blob _) => .error .git
  | .ok (.tree s) => .ok s

/-- tree of the new downstream commit -/
def createSubtree (v : Variant) (store : List Tree) (down up : Tree) (upPath downPath : Bytes) : Except BErr Tree :=
  if downPath = [] then .error .rootPath else
  match upstreamSubtree v up upPath with
  | .error e => .error e
  | .ok s => writeTree v.nul v.keepConflicted (subtreeEntries v store down s downPath)

/-! ## PropagateChangesFromUpstreamRepository -/

structure UpEntry where
  ref : Nat
  commit : Nat      -- index into the upstream trees
  skipped : Bool
  deriving DecidableEq, Repr

structure Directive where
  upRef : Nat
  upPath : Bytes
  downPath : Bytes
  deriving DecidableEq, Repr

/-- fields of a recorded propagation entry (rsl.go:427-441): the downstream reference and the
upstream location are those of directive `dir`, the target is the `target`-th new commit -/
structure PEntry where
  dir : Nat
  upEntry : Nat     -- index of the upstream log entry used
  target : Nat
  deriving DecidableEq, Repr

structure Down where
  tree : Tree
  store : List Tree
  commits : Nat
  entries : List PEntry
  deriving DecidableEq, Repr

/-- `GetLatestReferenceUpdaterEntry(upstream, ForReference(ref), IsUnskipped())` -/
def latestUnskipped (log : List UpEntry) (ref : Nat) : Option (Nat × UpEntry) :=
  (log.zipIdx.reverse.find? (fun x => x.1.ref == ref && !x.1.skipped)).map (fun x => (x.2, x.1))

/-- propagation.go:38-61, the already-propagated check -/
def alreadyPropagated (v : Variant) (down up : Tree) (d : Directive) : Except BErr Bool :=
  let cur : Except BErr (Option Node) :=
    match pathId v down d.downPath with
    | .ok n => .ok (some n)
    | .error .notFound => .ok none
    | .error e => .error e
  match cur with
  | .error e => .error e
  | .ok none => .ok false
  | .ok (some (.blob _)) => .ok false
  | .ok (some (.tree s)) =>
    if v.subtreeCheck then
      match upstreamSubtree v up d.upPath with
      | .ok u => .ok (s == u)
      | .error _ => .ok false
    else .ok (s == up)

/-- one iteration of the loop over directives (propagation.go:23-73) -/
def stepDirective (v : Variant) (trees : List Tree) (log : List UpEntry) (st : Down) (i : Nat) (d : Directive) : Except BErr Down :=
  match latestUnskipped log d.upRef with
  | none => .ok st
  | some (k, e) =>
    let up := trees.getD e.commit []
    match alreadyPropagated v st.tree up d with
    | .error err => .error err
    | .ok true => .ok st
    | .ok false =>
      match createSubtree v st.store st.tree up d.upPath d.downPath with
      | .error err => .error err
      | .ok t' => .ok { tree := t', store := allSubtrees t' ++ st.store, commits := st.commits + 1,
                        entries := st.entries ++ [⟨i, k, st.commits⟩] }

/-- the loop: the first error aborts, keeping what earlier directives did (no rollback) -/
def propagateLoop (v : Variant) (trees : List Tree) (log : List UpEntry) : Down → List (Nat × Directive) → Down × Bool
  | st, [] => (st, false)
  | st, (i, d) :: rest =>
    match stepDirective v trees log st i d with
    | .error _ => (st, true)
    | .ok st' => propagateLoop v trees log st' rest

/-- one call of PropagateChangesFromUpstreamRepository: new state, error flag -/
def propagate (v : Variant) (trees : List Tree) (log : List UpEntry) (ds : List Directive) (st : Down) : Down × Bool :=
  propagateLoop v trees log st (ds.zipIdx.map (fun x => (x.2, x.1)))

end Gittuf.Tree
