/-
C20 — model of the Lua hook sandbox (internal/luasandbox/luasandbox.go, experimental/gittuf/hook.go).

The environment of a `LuaEnvironment` is a finite graph: nodes are the tables, Go
functions, Lua functions, userdata reachable from the script-visible roots (globals
table = thread environment, string metatable), edges are table fields (`f:<name>`,
`i:<n>`), table keys that are objects (`key`), metatables (`meta`), function
environments (`env`), upvalues (`up:<i>`) and prototype constants (`const:<i>`).
Node 0 stands for all inert data (strings, numbers, booleans).
The graph is EXTRACTED from the live state by the harness (harness/c20_graph.go);
a Go function is named by its implementation (`impl` = path of the same Go function
in a gopher-lua state with every standard library open), not by where it is stored.

Hand-written and trusted: the capability table `capOf` below (what each allow-listed
function can return / mutate, read off gopher-lua v1.1.2).
Core Lean only.
-/
namespace Gittuf.Sandbox

inductive Kind | table | gofn | luafn | userdata | thread | inert | other
  deriving DecidableEq, Repr, Inhabited

def Kind.ofString : String → Kind
  | "table" => .table | "gofn" => .gofn | "luafn" => .luafn | "userdata" => .userdata
  | "thread" => .thread | "inert" => .inert | _ => .other

structure Node where
  id : Nat
  kind : Kind
  name : String      -- first path the node was found at (for messages only)
  impl : String      -- gofn: reference path of the Go implementation; "" otherwise
  prot : Bool        -- table whose metatable has a `__newindex` guard (protectModule)
  deriving Repr, Inhabited

structure Edge where
  src : Nat
  label : String
  dst : Nat
  deriving Repr, Inhabited, DecidableEq

structure Graph where
  nodes : List Node
  edges : List Edge
  roots : List Nat      -- script-visible roots: globals / thread env, metatables of basic types
  hidden : List Nat     -- roots only Go code reaches (registry); NOT part of the closure
  deriving Repr, Inhabited

def Graph.node? (g : Graph) (i : Nat) : Option Node := g.nodes.find? (fun n => n.id == i)

/-! ## Capability summaries

What a call of the function can hand to the script, given that the script holds the
function and the arguments (gopher-lua v1.1.2, file:function in brackets).  -/
inductive Cap
  /-- result is inert data (strings, numbers, booleans, nil) or a FRESH table/userdata
      holding only inert data; no side effect outside the Lua state -/
  | pureData
  /-- result is one of the arguments, a value stored in an argument table (one edge away),
      or an upvalue of the function itself; no mutation -/
  | retArg
  /-- calls function arguments with held values and returns what they return; results are
      values the callee (a held function) could produce -/
  | callsArg
  /-- returns an environment table: the globals table (root), the thread environment
      (root) or the `env` of an argument function -/
  | envRead
  /-- sets the environment of a LUA function argument / the thread environment to a held
      table; returns the function -/
  | envWrite
  /-- creates a fresh object (thread, closure over a thread, userdata with fresh empty
      metatable) whose contents are held values -/
  | fresh
  /-- raw write of held values at integer keys of a held table, bypassing `__newindex` -/
  | rawArrayWrite
  /-- writes text to the process' stdout; no other effect -/
  | stdout
  /-- registered gittuf API: reads the repository (blobs, refs, commit metadata, index
      status, remote URL) or is a pure helper; returns strings / fresh tables of strings -/
  | api
  /-- the `__newindex` guard installed by protectModule: raises an error -/
  | guard
  deriving DecidableEq, Repr

/-- The allow-list. `none` = not allowed in the sandbox (unknown or dangerous). -/
def capOf : String → Option Cap
  -- base library [baselib.go]
  | "assert" => some .retArg        -- baseAssert: returns all its arguments or raises
  | "error" => some .pureData       -- baseError: raises its argument, returns nothing
  | "ipairs" => some .retArg        -- baseIpairs: upvalue 1 (ipairsaux), the table, 0
  | "ipairs<up0>" => some .retArg   -- ipairsaux: tb.RawGetInt(i+1)
  | "pairs" => some .retArg         -- basePairs: upvalue 1 (pairsaux), the table, nil
  | "pairs<up0>" => some .retArg    -- pairsaux: tb.Next(key): a key and a value of the table
  | "next" => some .retArg          -- baseNext: a key and a value of the argument table
  | "select" => some .retArg        -- baseSelect: a suffix of its arguments / their number
  | "unpack" => some .retArg        -- baseUnpack: tb.RawGetInt(i)
  | "tonumber" => some .pureData    -- strconv only
  | "tostring" => some .pureData    -- ToStringMeta: `__tostring` of a value's metatable is called; scripts cannot
                                    -- install metatables (setmetatable absent), library metatables have no __tostring
  | "type" => some .pureData
  | "pcall" => some .callsArg       -- basePCall: L.PCall on the argument; results or (false, error object)
  | "xpcall" => some .callsArg      -- baseXPCall: same with a held error handler
  | "getfenv" => some .envRead      -- baseGetFEnv: fn.Env | L.G.Global (Go functions, missing frames) | L.Env (level<=0)
  | "setfenv" => some .envWrite     -- baseSetFEnv: refuses Go functions; fn.Env = table | L.Env = table
  | "newproxy" => some .fresh       -- baseNewProxy: new userdata; metatable = fresh table or that of a held userdata
  | "print" => some .stdout         -- basePrint: fmt.Print of ToStringMeta of the arguments
  | "_printregs" => some .stdout    -- base_PrintRegs: println of the VM registers of the calling thread (own values)
  -- string library [stringlib.go]; the module table is also the metatable of strings (`__index` = itself)
  | "string.byte" => some .pureData
  | "string.char" => some .pureData
  | "string.find" => some .pureData     -- pm.Find: backtracking matcher, time unbounded in the pattern (F32)
  | "string.format" => some .pureData   -- fmt.Sprintf per directive; widths > 10^6 are refused by package fmt
  | "string.gsub" => some .callsArg     -- replacement may be a held function / table (L.GetTable: __index of held table)
  | "string.len" => some .pureData
  | "string.lower" => some .pureData
  | "string.match" => some .pureData
  | "string.reverse" => some .pureData
  | "string.sub" => some .pureData
  | "string.upper" => some .pureData
  | "string.gfind" => some .retArg      -- strGmatch (gmatch/gfind): upvalue 1 (iterator) + fresh userdata of match data
  | "string.gmatch" => some .retArg
  | "string.gfind<up0>" => some .pureData  -- strGmatchIter: captures (strings)
  | "string.gmatch<up0>" => some .pureData
  -- table library [tablelib.go]
  | "table.concat" => some .pureData
  | "table.getn" => some .pureData
  | "table.maxn" => some .pureData
  | "table.insert" => some .rawArrayWrite  -- tbl.Append / tbl.Insert: raw
  | "table.remove" => some .rawArrayWrite  -- tbl.Remove: raw; returns the removed element
  | "table.sort" => some .rawArrayWrite    -- sort.Sort over tbl.array, calls a held comparator
  -- coroutine library [coroutinelib.go]; a new thread shares G and gets a child context of the state's context
  | "coroutine.create" => some .fresh
  | "coroutine.wrap" => some .fresh
  | "coroutine.resume" => some .callsArg
  | "coroutine.yield" => some .callsArg
  | "coroutine.running" => some .fresh
  | "coroutine.status" => some .pureData
  -- math library [mathlib.go]: float functions; random uses the process-wide math/rand source
  | "math.abs" | "math.acos" | "math.asin" | "math.atan" | "math.atan2" | "math.ceil" | "math.cos"
  | "math.cosh" | "math.deg" | "math.exp" | "math.floor" | "math.fmod" | "math.frexp" | "math.ldexp"
  | "math.log" | "math.log10" | "math.max" | "math.min" | "math.mod" | "math.modf" | "math.pow"
  | "math.rad" | "math.random" | "math.sin" | "math.sinh" | "math.sqrt" | "math.tan" | "math.tanh" => some .pureData
  -- gittuf [luasandbox.go:192-233, apis.go]
  | "api.matchRegex" | "api.gitReadBlob" | "api.gitGetObjectSize" | "api.gitGetTagTarget" | "api.gitGetReference"
  | "api.gitGetAbsoluteReference" | "api.gitGetSymbolicReferenceTarget" | "api.gitGetCommitMessage"
  | "api.gitGetFilePathsChangedByCommit" | "api.gitGetRemoteURL" | "api.gitGetStagedFilePaths" => some .api
  | "guard.newindex" => some .guard
  | _ => none

/-- Lua-implemented registered APIs (luasandbox.go:192-233): global name of the function. -/
def luaApis : List String := ["strSplit"]

/-- Why a function outside the allow-list is refused (for messages; `capOf = none` decides). -/
def dangerOf (impl : String) : String :=
  if impl.startsWith "os." then "host: processes, environment, files, clock (oslib.go)"
  else if impl.startsWith "io." then "filesystem / pipes (iolib.go)"
  else if impl.startsWith "debug." then "registry, metatables, upvalues, locals (debuglib.go)"
  else if impl.startsWith "package." then "module loaders: filesystem search and code loading (loadlib.go)"
  else if impl.startsWith "channel." then "Go channels (channellib.go)"
  else if ["dofile", "load", "loadfile", "loadstring", "require", "module"].contains impl then "code loading"
  else if ["getmetatable", "setmetatable"].contains impl then "metatable primitive"
  else if ["rawget", "rawset", "rawequal", "rawlen"].contains impl then "raw-access primitive"
  else if impl == "collectgarbage" then "forces a process-wide GC"
  else if impl == "string.dump" then "function bytecode"
  else if impl == "string.rep" then "unbounded allocation in one call"
  else if impl == "math.randomseed" then "reseeds the process-wide random source"
  else "not on the allow-list"

/-- A node a script may hold: inert data, a table (a container: its contents are nodes of
their own), an allow-listed Go function, or a Lua function that is a registered API. -/
def allowedNode (n : Node) : Bool :=
  match n.kind with
  | .inert => true
  | .table => true
  | .gofn => (capOf n.impl).isSome
  | .luafn => luaApis.contains n.name
  | .userdata | .thread | .other => false

/-! ## Closure -/

def succs (g : Graph) (S : List Nat) : List Nat :=
  (g.edges.filter (fun e => S.contains e.src)).map (·.dst)

def addNew (S : List Nat) : List Nat → List Nat
  | [] => S
  | x :: xs => if S.contains x then addNew S xs else addNew (S ++ [x]) xs

def iter (g : Graph) : Nat → List Nat → List Nat
  | 0, S => S
  | n + 1, S =>
    let S' := addNew S (succs g S)
    if S'.length == S.length then S else iter g n S'   -- fixpoint reached: stop early

/-- Everything reachable from the script-visible roots by following any edge (fields, keys,
metatables, environments, upvalues, constants), plus node 0 (inert data: a script can always make
some). Calls add nothing: by `capOf` every result of
an allow-listed function is a held value, a root, or one edge away from a held value. -/
def reach (g : Graph) : List Nat := iter g g.nodes.length (addNew [] (0 :: g.roots))

/-- `S` contains the inert node, the roots and is closed under every edge. -/
def closedB (g : Graph) (S : List Nat) : Bool :=
  S.contains 0 && g.roots.all S.contains && g.edges.all (fun e => !S.contains e.src || S.contains e.dst)

def nodeAllowedB (g : Graph) (i : Nat) : Bool :=
  match g.node? i with
  | some n => allowedNode n
  | none => false

/-- the checked property of an extracted graph: the computed closure is a closure, and every
node in it may be held by a script -/
def safeOn (g : Graph) (S : List Nat) : Bool :=
  closedB g S && S.all (nodeAllowedB g)

def safeB (g : Graph) : Bool := safeOn g (reach g)

/-- the graph contains a Go function outside the allow-list that the closure `S` does not contain
(non-vacuity of the check: e.g. the module loaders kept in the registry) -/
def hiddenDangerOn (g : Graph) (S : List Nat) : Bool :=
  g.nodes.any (fun n => n.kind == .gofn && (capOf n.impl).isNone && !S.contains n.id)

def hiddenDangerB (g : Graph) : Bool := hiddenDangerOn g (reach g)

def unsafeNodes (g : Graph) : List Node :=
  (reach g).filterMap (fun i => match g.node? i with
    | some n => if allowedNode n then none else some n
    | none => some { id := i, kind := .other, name := "<dangling>", impl := "", prot := false })

/-! ## Abstract scripts

A script is a sequence of actions over the state (current edges, held nodes). -/

inductive Action
  /-- read a global, index a held table, follow a metatable / `__index`, take the environment or an
      upvalue of a held function: any edge of the current graph out of a held node -/
  | follow (e : Edge)
  /-- call held function `f` on held arguments; `r` is a node the call returns -/
  | call (f : Nat) (args : List Nat) (r : Nat)
  /-- `t[label] = v` (v = none: nil or inert data); `raw`: through table.insert/remove/sort -/
  | write (t : Nat) (label : String) (v : Option Nat) (raw : Bool)
  /-- `setfenv(f, t)` -/
  | setenv (f : Nat) (t : Nat)
  deriving Repr

structure St where
  edges : List Edge
  held : List Nat
  deriving Repr

def St.init (g : Graph) : St := { edges := g.edges, held := g.roots }

/-- capability of a callable node: Go functions by `capOf`; a Lua API function runs Lua code over
its own environment / upvalues / constants (edges of the graph) and the arguments -/
def fnCap (g : Graph) (f : Nat) : Option Cap :=
  match g.node? f with
  | none => none
  | some n => if n.kind == .gofn then capOf n.impl else if allowedNode n then some .callsArg else none

/-- may a call with capability `c` of `f` (held) on `args` (held) return node `r`? -/
def capResult (c : Cap) (g : Graph) (st : St) (f : Nat) (args : List Nat) (r : Nat) : Bool :=
  match c with
  | .pureData | .stdout | .api | .guard => false           -- no object results
  | .retArg => r == f || args.contains r                   -- fields / upvalues are then `follow` steps
  | .callsArg | .fresh | .rawArrayWrite => st.held.contains r
  | .envRead => g.roots.contains r || args.contains r
  | .envWrite => args.contains r

def callMayReturn (g : Graph) (st : St) (f : Nat) (args : List Nat) (r : Nat) : Bool :=
  match fnCap g f with
  | none => false
  | some c => capResult c g st f args r

def hasField (es : List Edge) (t : Nat) (label : String) : Bool :=
  es.any (fun e => e.src == t && e.label == label)

def isProt (g : Graph) (t : Nat) : Bool :=
  match g.node? t with | some n => n.prot | none => false

/-- gopher-lua `setField` (state.go): an EXISTING key of a table is overwritten raw; only for an
absent key the `__newindex` of the metatable is consulted. -/
def putEdge (es : List Edge) (t : Nat) (label : String) (v : Option Nat) : List Edge :=
  es.filter (fun e => !(e.src == t && e.label == label)) ++ [{ src := t, label := label, dst := v.getD 0 }]

def writeEdges (g : Graph) (es : List Edge) (t : Nat) (label : String) (v : Option Nat) (raw : Bool) : List Edge :=
  if raw || hasField es t label then putEdge es t label v
  else if isProt g t then es          -- guard raises: nothing changes
  else putEdge es t label v

def step (g : Graph) (st : St) : Action → St
  | .follow e =>
    if e ∈ st.edges ∧ e.src ∈ st.held then { st with held := st.held ++ [e.dst] } else st
  | .call f args r =>
    if f ∈ st.held ∧ (∀ a ∈ args, a ∈ st.held) ∧ callMayReturn g st f args r = true
    then { st with held := st.held ++ [r] } else st
  | .write t label v raw =>
    if t ∈ st.held ∧ (∀ x, v = some x → x ∈ st.held) then { st with edges := writeEdges g st.edges t label v raw } else st
  | .setenv f t =>
    if f ∈ st.held ∧ t ∈ st.held ∧ (g.node? f).any (fun n => n.kind == .luafn) = true
    then { st with edges := (st.edges.filter (fun e => !(e.src == f && e.label == "env"))) ++ [{ src := f, label := "env", dst := t }] }
    else st

def run (g : Graph) (as : List Action) : St := as.foldl (step g) (St.init g)

/-! ## Path resolution (what a probe script finds) -/

/-- follow field labels from a node through table fields only -/
def resolve (g : Graph) : Nat → List String → Option Nat
  | n, [] => some n
  | n, k :: ks =>
    match g.edges.find? (fun e => e.src == n && e.label == "f:" ++ k) with
    | some e => resolve g e.dst ks
    | none => none

def globalsRoot (g : Graph) : Nat := g.roots.headD 0

/-- the string module as seen through a string VALUE: `__index` of the string metatable -/
def stringIndex (g : Graph) : Option Nat :=
  (g.nodes.find? (fun n => n.name == "string" && n.kind == .table)).bind (fun n => resolve g n.id ["__index"])

/-! ## Timeout: interpreter-loop abstraction (vm.go mainLoopWithContext)

The VM checks `ctx.Done()` before EVERY instruction; an instruction that is a call into a Go
library function is one atomic step. `prog` lists the durations of the steps the script
would execute. -/

structure VMResult where
  time : Nat          -- when the VM returned
  completed : Bool    -- false: stopped by the deadline check
  deriving Repr, DecidableEq

def runVM (deadline : Nat) : Nat → List Nat → VMResult
  | now, [] => { time := now, completed := true }
  | now, d :: rest =>
    if deadline ≤ now then { time := now, completed := false }
    else runVM deadline (now + d) rest

/-! ## RunScript's result handling (luasandbox.go:96-112) -/

inductive LVal | nil | bool (b : Bool) | num (n : Int) | str | table | func | userdata | thread
  deriving DecidableEq, Repr

/-- DoString leaves the chunk's return values above the pushed parameters table; `Get(-1)` is
the LAST returned value, or the parameters table if the chunk returned nothing. -/
def scriptExit (rets : List LVal) : Int :=
  match (LVal.table :: rets).getLast? with
  | some (.num n) => n
  | _ => 1

/-! ## Hook selection (hook.go:54-113) -/

structure Hook where
  name : String
  stages : List Nat
  principals : List Nat     -- principal ids
  deriving Repr

structure Principal where
  id : Nat
  keys : List Nat
  deriving Repr

inductive SelResult
  | noHooksDefined | principalNotFound | noHooksForPrincipal
  | run (names : List String)
  deriving Repr, DecidableEq

/-- `principals` in the iteration order of `state.GetAllPrincipals()` (a Go map): the LAST
principal owning the key wins (the `break` only leaves the inner loop). -/
def selectPrincipal (principals : List Principal) (key : Nat) : Option Principal :=
  principals.foldl (fun acc p => if p.keys.contains key then some p else acc) none

def selectHooks (hooks : List Hook) (principals : List Principal) (key stage : Nat) : SelResult :=
  if hooks.isEmpty then .noHooksDefined            -- RootMetadata.GetHooks: r.Hooks == nil
  else
    match selectPrincipal principals key with
    | none => .principalNotFound
    | some p =>
      let sel := hooks.filter (fun h => h.stages.contains stage && h.principals.contains p.id)
      if sel.isEmpty then .noHooksForPrincipal else .run (sel.map (·.name))

end Gittuf.Sandbox
