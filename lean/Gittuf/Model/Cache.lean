import Gittuf.Model.Verify
/-!
Model of the persistent cache (internal/cache/*.go), of the cache-backed searcher
(internal/policy/searcher.go:153-335) and of verification when the cache is enabled
(verify.go:97-117 start from the last verified entry; 459-461 cache committed on exit;
559-561, 575-577, 604-607, 732-734 cache updated during the walk).

Entry numbers are log indices + 1; the cache lists are kept as ascending lists of log
indices.  Core Lean only.
-/
namespace Gittuf

structure Cache where
  policy : List Nat := []                 -- indices of policy entries known to the cache (ascending)
  att    : List Nat := []                 -- indices of attestation entries known to the cache
  lastVerified : List (String × Nat) := []
  deriving Repr, DecidableEq, Inhabited

namespace Cache

/-- `InsertPolicyEntryNumber` / `InsertAttestationEntryNumber`: sorted insert, no duplicates -/
def insertIdx (l : List Nat) (i : Nat) : List Nat :=
  if l.contains i then l else (l.filter (· < i)) ++ [i] ++ (l.filter (fun j => decide (i < j)))

/-- `FindPolicyEntryNumberForEntry(n)`: the entry with that number, else the last one below it -/
def findFor (l : List Nat) (i : Nat) : Option Nat :=
  if l.contains i then some i else (l.filter (· < i)).getLast?

def setLastVerified (c : Cache) (ref : String) (i : Nat) : Cache :=
  match c.lastVerified.lookup ref with
  | some j => if i < j then c else { c with lastVerified := (ref, i) :: c.lastVerified.filter (·.1 != ref) }
  | none => { c with lastVerified := (ref, i) :: c.lastVerified }

def isEmpty (c : Cache) : Bool := c.policy.isEmpty && c.att.isEmpty && c.lastVerified.isEmpty

end Cache

namespace World

/-- the history as it was when the log had `k + 1` entries -/
def prefixAt (W : World) (k : Nat) : World := { W with log := W.log.take (k + 1) }

def isRefEntryFor (W : World) (ref : String) (j : Nat) : Bool :=
  match W.log[j]? with | some e => e.kind == .ref && e.ref == ref | none => false

/-- `PopulatePersistentCache`: scans the whole log for reference entries of the two gittuf refs -/
def populateCache (W : World) : Cache :=
  { policy := (List.range W.log.length).filter (W.isRefEntryFor policyRef),
    att := (List.range W.log.length).filter (W.isRefEntryFor attestationsRef) }

/-- `LoadState` with the cache searcher (it loads the cache from disk: the cache as of the start
of the verification). An empty policy index makes it return the requested state unverified. -/
def loadStateC (W : World) (c : Cache) (req : Nat) : Except VE Policy :=
  match c.policy.head? with
  | none => W.loadRaw req
  | some first =>
    if first == req then do
      let P ← W.loadRaw req
      liftP P.verify
      pure P
    else if req < first then W.loadRaw req
    else do
      let known := if W.isRefEntryFor policyRef req || (match W.log[req]? with | some e => isUpdater e && e.ref == policyRef | none => false)
                   then Cache.insertIdx c.policy req else c.policy
      let all := known.filter (fun j => decide (first ≤ j) && decide (j ≤ req))
      let init ← W.loadRaw first
      let last ← W.chainStates (all.drop 1) init
      match W.log[req]? with
      | none => .error .other
      | some e =>
        if e.ref == policyRef then do
          liftP last.verify
          pure last
        else W.loadRaw req

/-- main loop with the cache threaded through (inserts and checkpoints as the Go code does) -/
def relLoopC (W : World) (v : Variant) (first : Nat) : Nat → List Nat → VState → Cache → (Except VE Unit × Cache)
  | 0, _, _, c => (.error .other, c)
  | _ + 1, [], _, c => (.ok (), c)
  | fuel + 1, j :: rest, st, c =>
    match W.log[j]? with
    | none => (.error .other, c)
    | some e =>
      if e.kind == .prop && (v.f2_propagationSkipped || hasPrefix e.ref gittufPrefix) then
        relLoopC W v first fuel rest st c
      else if e.ref == policyStagingRef then relLoopC W v first fuel rest st c
      else if e.ref == policyRef then
        if j == first then relLoopC W v first fuel rest st c else
        match W.loadRaw j with
        | .error x => (.error x, c)
        | .ok newP =>
          let c' := { c with policy := Cache.insertIdx c.policy j }
          match st.policy with
          | some cur =>
            match liftP (cur.verifyNewState newP) with
            | .error x => (.error x, c)
            | .ok () =>
              if !v.f4_inRangeNotSelfVerified then
                match liftP newP.verify with
                | .error x => (.error x, c)
                | .ok () => relLoopC W v first fuel rest { st with policy := some newP } c'
              else relLoopC W v first fuel rest { st with policy := some newP } c'
          | none =>
            if !v.f4_inRangeNotSelfVerified then
              match liftP newP.verify with
              | .error x => (.error x, c)
              | .ok () => relLoopC W v first fuel rest { st with policy := some newP } c'
            else relLoopC W v first fuel rest { st with policy := some newP } c'
      else if e.ref == attestationsRef then
        match W.attAt j with
        | none => (.error .other, c)
        | some a => relLoopC W v first fuel rest { st with att := some a } { c with att := Cache.insertIdx c.att j }
      else
        match st.policy with
        | none => (.error .noPolicy, c)
        | some P =>
          match W.verifyEntry v P st.att j e with
          | .ok () => relLoopC W v first fuel rest st (c.setLastVerified e.ref j)
          | .error err =>
            if !W.skipped j then (.error err, c) else
            if rest.isEmpty then (.error err, c) else
            match W.latestFor e.ref j (unskipped := true) (refOnly := true) with
            | none => (.error .notFound, c)
            | some lg =>
              let goodTree := match W.log[lg]? with | some le => W.treeOfEntry le | none => 0
              match W.lookForFix e.ref goodTree rest [] false with
              | (none, _, _) => (.error err, c)
              | (some fix, bad, newQ) =>
                if bad then (.error .notSkipped, c) else
                if v.f3_fixNotVerified then relLoopC W v first fuel newQ st (c.setLastVerified e.ref fix)
                else
                  match W.log[fix]? with
                  | none => (.error .other, c)
                  | some fe =>
                    match W.verifyEntry v P st.att fix fe with
                    | .ok () => relLoopC W v first fuel newQ st (c.setLastVerified e.ref fix)
                    | .error err2 => (.error err2, c)

/-- `VerifyRelativeForRef` with the cache searcher; returns the verdict and the cache as persisted on exit -/
def verifyRelativeC (W : World) (v : Variant) (c : Cache) (first last : Nat) (ref : String) : (Except VE Unit × Cache) :=
  match W.log[first]? with
  | none => (.error .other, c)
  | some fe =>
    -- FindPolicyEntryFor (inserts a policy entry into the in-memory cache)
    let (pe, c1) :=
      if isUpdater fe && fe.ref == policyRef then (some first, { c with policy := Cache.insertIdx c.policy first })
      else (Cache.findFor c.policy first, c)
    let polR : Except VE (Option Policy) := match pe with
      | none => .ok none
      | some p => (match W.loadStateC c p with | .ok P => .ok (some P) | .error x => .error x)
    match polR with
    | .error x => (.error x, c1)
    | .ok pol =>
      let (ae, c2) :=
        if isUpdater fe && fe.ref == attestationsRef then (some first, { c1 with att := Cache.insertIdx c1.att first })
        else (Cache.findFor c1.att first, c1)
      let attR : Except VE (Option AttState) := match ae with
        | none => .ok none
        | some a => (match W.attAt a with | some s => .ok (some s) | none => .error .other)
      match attR with
      | .error x => (.error x, c2)
      | .ok att =>
        let q := W.range first last ref
        W.relLoopC v first (2 * q.length + 2) q { policy := pol, att := att } c2

structure CResult where
  verdict : Except VE (Option Nat)
  cache   : Cache

/-- `VerifyRefFull` with the cache: starts from the last verified entry for the reference when there is one -/
def verifyRefFullC (W : World) (v : Variant) (c : Cache) (ref : String) : CResult :=
  let start : Except VE Nat := match c.lastVerified.lookup ref with
    | some j => (match W.log[j]? with
        | some e => if e.kind == .ref then .ok j else .error .other
        | none => .error .other)
    | none => (match W.firstFor ref with | some f => .ok f | none => .error .notFound)
  match start, W.latestEntryFor ref with
  | .ok f, some l =>
    let (r, c') := W.verifyRelativeC v c f l ref
    { verdict := r.map (fun _ => (W.log[l]?).bind targetCommit), cache := c' }
  | .error x, _ => { verdict := .error x, cache := c }
  | _, none => { verdict := .error .notFound, cache := c }

def verifyRefC (W : World) (v : Variant) (c : Cache) (ref : String) : CResult :=
  match W.latestEntryFor ref with
  | some l =>
    let (r, c') := W.verifyRelativeC v c l l ref
    { verdict := r.map (fun _ => (W.log[l]?).bind targetCommit), cache := c' }
  | none => { verdict := .error .notFound, cache := c }

def verifyRefFromEntryC (W : World) (v : Variant) (c : Cache) (ref : String) (frm : Nat) : CResult :=
  match W.log[frm]? with
  | none => { verdict := .error .other, cache := c }
  | some fe =>
    if fe.kind != .ref then { verdict := .error .other, cache := c } else
    match W.latestEntryFor ref with
    | some l =>
      let (r, c') := W.verifyRelativeC v c frm l ref
      { verdict := r.map (fun _ => (W.log[l]?).bind targetCommit), cache := c' }
    | none => { verdict := .error .notFound, cache := c }

end World
end Gittuf
