/-
Model of the RSL entry codec of /repo/pkg/rsl/rsl.go (core Lean only; linked into the driver).

Representation (chosen to keep proofs tractable while staying at the level the Go code works at)
* Go strings are byte strings: text, lines, keys and values are `Bytes = List UInt8`.
  Constants are spelled as explicit byte lists so that `decide`/`simp` evaluate them.
* `strings.Split(text,"\n")` = `splitNL`, `strings.Join(lines,"\n")` = `joinNL`; renderers are
  given as a *list of lines* (`render…Lines`) and `render… = joinNL lines`, exactly like
  `createCommitMessage` (rsl.go:206-217, 346-379, 502-515).  The PEM block of an annotation is
  given as its lines (BEGIN, 64-column base64 lines, END) = `strings.TrimSpace(pem.Encode(..))`.
* `strings.TrimSpace` works on UTF-8: it strips every rune with `unicode.IsSpace`, i.e. the six
  ASCII blanks and U+0085, U+00A0, U+1680, U+2000..U+200A, U+2028, U+2029, U+202F, U+205F, U+3000.
  On bytes this is: strip (from the left, then from the right) the UTF-8 encodings of those runes
  (`wsLen` / `wsRevLen`).  This is exact: Go decodes strictly (shortest form only, invalid bytes
  give RuneError which is not a space), and `DecodeLastRuneInString` walks back to the nearest
  start byte, which is the lead byte of the encodings below.
* A git hash is the list of its hex digits (`List (Fin 16)`, two per byte; `Hash.String()` is
  lower-case hex, `hex.DecodeString` accepts both cases).
* The state machines of `parseReferenceEntryText` (rsl.go:1113-1165) and
  `parsePropagationEntryText` (rsl.go:1256-1331) are the same machine over a different table of
  expected keys; the model has one table-driven machine `seqStep` (state = number of fields
  accepted = Go's `state`), instantiated with `refSpec` / `propSpec`.  The annotation machine
  (rsl.go:1171-1251) is modelled separately (`annLoop`).
* `encoding/pem.Decode` (Go 1.26) and `base64.StdEncoding.Decode` are modelled byte for byte
  (`pemDecode`, `b64Decode`) because the annotation parser runs them over the whole text.
* Recursions that are not structural carry a fuel argument (so that `decide` can evaluate them).

Totality / panics: the only index expressions in the Go parsers are `lines[0]`, `lines[1]`,
`lines[2:]` in `entryBody` (guarded by `len(lines) < 2`; rsl.go:1336-1341); `strings.Cut` returns
its parts as values.  The model is a total function, `Except Err _`.
-/
import Gittuf.Basic
namespace Gittuf.Codec

abbrev Bytes := List UInt8
/-- hex digits of a git object id -/
abbrev Hash := List (Fin 16)

inductive Err
  | invalid    -- rsl.ErrInvalidRSLEntry
  | hashLen    -- githash.ErrInvalidHashLength
  | hashEnc    -- githash.ErrInvalidHashEncoding
  | numSyntax  -- strconv.ErrSyntax
  | numRange   -- strconv.ErrRange
  deriving DecidableEq, Repr, Inhabited

/-! ## constants (rsl.go:24-46) -/

/-- `RSL Reference Entry` -/
def hdrRef : Bytes := [82, 83, 76, 32, 82, 101, 102, 101, 114, 101, 110, 99, 101, 32, 69, 110, 116, 114, 121]
/-- `RSL Annotation Entry` -/
def hdrAnn : Bytes := [82, 83, 76, 32, 65, 110, 110, 111, 116, 97, 116, 105, 111, 110, 32, 69, 110, 116, 114, 121]
/-- `RSL Propagation Entry` -/
def hdrProp : Bytes := [82, 83, 76, 32, 80, 114, 111, 112, 97, 103, 97, 116, 105, 111, 110, 32, 69, 110, 116, 114, 121]
/-- `ref` -/
def kRef : Bytes := [114, 101, 102]
/-- `targetID` -/
def kTarget : Bytes := [116, 97, 114, 103, 101, 116, 73, 68]
/-- `number` -/
def kNumber : Bytes := [110, 117, 109, 98, 101, 114]
/-- `entryID` -/
def kEntryID : Bytes := [101, 110, 116, 114, 121, 73, 68]
/-- `skip` -/
def kSkip : Bytes := [115, 107, 105, 112]
/-- `upstreamRepository` -/
def kUpRepo : Bytes := [117, 112, 115, 116, 114, 101, 97, 109, 82, 101, 112, 111, 115, 105, 116, 111, 114, 121]
/-- `upstreamEntryID` -/
def kUpEntry : Bytes := [117, 112, 115, 116, 114, 101, 97, 109, 69, 110, 116, 114, 121, 73, 68]
/-- `-----BEGIN MESSAGE-----` -/
def beginMessage : Bytes := [45, 45, 45, 45, 45, 66, 69, 71, 73, 78, 32, 77, 69, 83, 83, 65, 71, 69, 45, 45, 45, 45, 45]
/-- `-----END MESSAGE-----` -/
def endMessage : Bytes := [45, 45, 45, 45, 45, 69, 78, 68, 32, 77, 69, 83, 83, 65, 71, 69, 45, 45, 45, 45, 45]
/-- `true` -/
def vTrue : Bytes := [116, 114, 117, 101]
/-- `false` -/
def vFalse : Bytes := [102, 97, 108, 115, 101]
/-- `"\n-----END "` (pem.go: pemEnd) -/
def pemEnd : Bytes := [10, 45, 45, 45, 45, 45, 69, 78, 68, 32]
/-- `"-----BEGIN "` (pem.go: pemStart[1:]) -/
def pemBegin : Bytes := [45, 45, 45, 45, 45, 66, 69, 71, 73, 78, 32]
/-- `"-----"` (pem.go: pemEndOfLine) -/
def dashes : Bytes := [45, 45, 45, 45, 45]
/-- `": "` -/
def colonSp : Bytes := [58, 32]

/-! ## strings.* as used by the parser -/

/-- `strings.HasPrefix` -/
def hasPrefix : Bytes → Bytes → Bool
  | [], _ => true
  | _ :: _, [] => false
  | a :: p, b :: t => a == b && hasPrefix p t

/-- `strings.HasSuffix` -/
def hasSuffix (s t : Bytes) : Bool := hasPrefix s.reverse t.reverse

/-- `strings.Index` -/
def indexOf (pat : Bytes) : Bytes → Option Nat
  | [] => if pat.isEmpty then some 0 else none
  | c :: rest =>
    if hasPrefix pat (c :: rest) then some 0 else
    match indexOf pat rest with
    | none => none
    | some i => some (i + 1)

/-- `strings.Contains` -/
def contains (t pat : Bytes) : Bool := (indexOf pat t).isSome

/-- `bytes.LastIndex`: the last position at which `pat` starts -/
def lastIndexOf (pat : Bytes) : Bytes → Option Nat
  | [] => if pat.isEmpty then some 0 else none
  | c :: rest =>
    match lastIndexOf pat rest with
    | some i => some (i + 1)
    | none => if hasPrefix pat (c :: rest) then some 0 else none

/-- `strings.Split(text, "\n")` (never empty) -/
def splitNL : Bytes → List Bytes
  | [] => [[]]
  | c :: rest =>
    if c = 10 then [] :: splitNL rest else
    match splitNL rest with
    | [] => [[c]]
    | l :: ls => (c :: l) :: ls

/-- `strings.Join(lines, "\n")` -/
def joinNL : List Bytes → Bytes
  | [] => []
  | [l] => l
  | l :: ls => l ++ 10 :: joinNL ls

/-- `strings.Cut(s, ":")` -/
def cut : Bytes → Option (Bytes × Bytes)
  | [] => none
  | c :: rest =>
    if c = 58 then some ([], rest) else
    match cut rest with
    | none => none
    | some (k, v) => some (c :: k, v)

/-! ### strings.TrimSpace -/

/-- the ASCII members of `unicode.IsSpace` -/
def ws1 : List Bytes := [[9], [10], [11], [12], [13], [32]]
/-- U+0085, U+00A0 -/
def ws2 : List Bytes := [[0xC2, 0x85], [0xC2, 0xA0]]
/-- U+1680, U+2000..U+200A, U+2028, U+2029, U+202F, U+205F, U+3000 -/
def ws3 : List Bytes := [[0xE1, 0x9A, 0x80],
  [0xE2, 0x80, 0x80], [0xE2, 0x80, 0x81], [0xE2, 0x80, 0x82], [0xE2, 0x80, 0x83], [0xE2, 0x80, 0x84],
  [0xE2, 0x80, 0x85], [0xE2, 0x80, 0x86], [0xE2, 0x80, 0x87], [0xE2, 0x80, 0x88], [0xE2, 0x80, 0x89],
  [0xE2, 0x80, 0x8A], [0xE2, 0x80, 0xA8], [0xE2, 0x80, 0xA9], [0xE2, 0x80, 0xAF], [0xE2, 0x81, 0x9F],
  [0xE3, 0x80, 0x80]]

/-- number of bytes of the white-space rune at the head of `l` (0: none) -/
def wsLen (l : Bytes) : Nat :=
  if ws1.contains (l.take 1) then 1
  else if ws2.contains (l.take 2) then 2
  else if ws3.contains (l.take 3) then 3
  else 0

/-- the same for the *reversed* text: number of bytes of the white-space rune at the end -/
def wsRevLen (r : Bytes) : Nat :=
  if ws1.contains (r.take 1).reverse then 1
  else if ws2.contains (r.take 2).reverse then 2
  else if ws3.contains (r.take 3).reverse then 3
  else 0

/-- strip while `f` reports a rune at the head -/
def stripN (f : Bytes → Nat) : Nat → Bytes → Bytes
  | 0, l => l
  | fuel + 1, l => if f l = 0 then l else stripN f fuel (l.drop (f l))

/-- `strings.TrimLeftFunc(s, unicode.IsSpace)` -/
def trimLeft (l : Bytes) : Bytes := stripN wsLen l.length l
/-- `strings.TrimRightFunc(s, unicode.IsSpace)` -/
def trimRight (l : Bytes) : Bytes := (stripN wsRevLen l.length l.reverse).reverse
/-- `strings.TrimSpace` -/
def trimSpace (l : Bytes) : Bytes := trimRight (trimLeft l)

/-- `key, value, ok := strings.Cut(strings.TrimSpace(line), ":")` then both trimmed
(rsl.go:1129-1133, 1207-1215, 1276-1280) -/
def splitField (line : Bytes) : Option (Bytes × Bytes) :=
  match cut (trimSpace line) with
  | none => none
  | some (k, v) => some (trimSpace k, trimSpace v)

/-! ## numbers and hashes -/

def digitVal (c : UInt8) : Option Nat :=
  if c = 48 then some 0 else if c = 49 then some 1 else if c = 50 then some 2 else
  if c = 51 then some 3 else if c = 52 then some 4 else if c = 53 then some 5 else
  if c = 54 then some 6 else if c = 55 then some 7 else if c = 56 then some 8 else
  if c = 57 then some 9 else none

def digitChar (d : Nat) : UInt8 :=
  match d with
  | 0 => 48 | 1 => 49 | 2 => 50 | 3 => 51 | 4 => 52 | 5 => 53 | 6 => 54 | 7 => 55 | 8 => 56 | _ => 57

def two64 : Nat := 18446744073709551616

/-- loop of `strconv.ParseUint(s, 10, 64)`: first bad byte → syntax, first overflow → range -/
def puGo (n : Nat) : Bytes → Except Err Nat
  | [] => .ok n
  | c :: cs =>
    match digitVal c with
    | none => .error .numSyntax
    | some d => if n * 10 + d ≥ two64 then .error .numRange else puGo (n * 10 + d) cs

/-- `strconv.ParseUint(value, 10, 64)` (rsl.go:1352-1359) -/
def parseUint (s : Bytes) : Except Err Nat :=
  if s = [] then .error .numSyntax else puGo 0 s

/-- `%d` of a uint64 -/
def renderNatF : Nat → Nat → Bytes
  | 0, _ => []
  | fuel + 1, n => if n < 10 then [digitChar n] else renderNatF fuel (n / 10) ++ [digitChar (n % 10)]
def renderNat (n : Nat) : Bytes := renderNatF (n + 1) n

def hexChar (d : Fin 16) : UInt8 :=
  if d.val < 10 then (48 + d.val).toUInt8 else (87 + d.val).toUInt8

def hexVal (c : UInt8) : Option (Fin 16) :=
  if 48 ≤ c ∧ c ≤ 57 then some ⟨(c.toNat - 48) % 16, Nat.mod_lt _ (by decide)⟩
  else if 97 ≤ c ∧ c ≤ 102 then some ⟨(c.toNat - 87) % 16, Nat.mod_lt _ (by decide)⟩
  else if 65 ≤ c ∧ c ≤ 70 then some ⟨(c.toNat - 55) % 16, Nat.mod_lt _ (by decide)⟩
  else none

def hexDecode : Bytes → Option Hash
  | [] => some []
  | c :: cs =>
    match hexVal c with
    | none => none
    | some d => match hexDecode cs with
      | none => none
      | some ds => some (d :: ds)

/-- `Hash.String()` (hash.go:33-35) -/
def hexEncode (h : Hash) : Bytes := h.map hexChar

/-- `githash.NewHash` (hash.go:81-93) -/
def hashOf (v : Bytes) : Except Err Hash :=
  if v.length ≠ 40 ∧ v.length ≠ 64 then .error .hashLen else
  match hexDecode v with
  | none => .error .hashEnc
  | some h => .ok h

/-! ## base64 and PEM (encoding/base64, encoding/pem of Go 1.26) -/

def b64Char (v : UInt8) : UInt8 :=
  if v < 26 then 65 + v else if v < 52 then 71 + v else if v < 62 then v - 4
  else if v = 62 then 43 else 47

def b64Val (c : UInt8) : Option Nat :=
  if 65 ≤ c ∧ c ≤ 90 then some (c.toNat - 65)
  else if 97 ≤ c ∧ c ≤ 122 then some (c.toNat - 71)
  else if 48 ≤ c ∧ c ≤ 57 then some (c.toNat + 4)
  else if c = 43 then some 62
  else if c = 47 then some 63
  else none

/-- `base64.StdEncoding.EncodeToString` -/
def b64Enc : Bytes → Bytes
  | a :: b :: c :: rest =>
    b64Char (a >>> 2) :: b64Char (((a &&& 3) <<< 4) ||| (b >>> 4)) ::
      b64Char (((b &&& 15) <<< 2) ||| (c >>> 6)) :: b64Char (c &&& 63) :: b64Enc rest
  | [a, b] => [b64Char (a >>> 2), b64Char (((a &&& 3) <<< 4) ||| (b >>> 4)), b64Char ((b &&& 15) <<< 2), 61]
  | [a] => [b64Char (a >>> 2), b64Char ((a &&& 3) <<< 4), 61, 61]
  | [] => []

/-- skip `\r` and `\n` -/
def skipNL : Bytes → Bytes
  | [] => []
  | c :: rest => if c = 10 ∨ c = 13 then skipNL rest else c :: rest

def emit (acc : List Nat) (n : Nat) : Bytes :=
  let v := acc.getD 0 0 * 262144 + acc.getD 1 0 * 4096 + acc.getD 2 0 * 64 + acc.getD 3 0
  ([(v / 65536) % 256, (v / 256) % 256, v % 256].take n).map Nat.toUInt8

/-- `base64.StdEncoding.Decode` (non-strict, padded): the sequence of `decodeQuantum` calls.
`acc` = the 6-bit values of the current quantum. `none` = CorruptInputError. -/
def b64Go (acc : List Nat) : Bytes → Option Bytes
  | [] => if acc.isEmpty then some [] else none
  | c :: rest =>
    match b64Val c with
    | some v =>
      if acc.length = 3 then (b64Go [] rest).map (emit (acc ++ [v]) 3 ++ ·)
      else b64Go (acc ++ [v]) rest
    | none =>
      if c = 10 ∨ c = 13 then b64Go acc rest
      else if c ≠ 61 then none
      else if acc.length < 2 then none
      else if acc.length = 2 then
        match skipNL rest with
        | [] => none
        | d :: r2 => if d ≠ 61 then none else if (skipNL r2).isEmpty then some (emit acc 1) else none
      else if (skipNL rest).isEmpty then some (emit acc 2) else none

def b64Decode (s : Bytes) : Option Bytes := b64Go [] s

/-- `bytes.TrimRight(s, " \t")` -/
def trimRightST (l : Bytes) : Bytes := (l.reverse.dropWhile (fun c => c = 32 ∨ c = 9)).reverse

/-- pem.go `getLine`: (line, rest, consumed) -/
def getLine (d : Bytes) : Bytes × Bytes × Nat :=
  match indexOf [10] d with
  | none => (trimRightST d, [], d.length)
  | some i =>
    let i' := if i > 0 ∧ d.getD (i - 1) 0 = 13 then i - 1 else i
    (trimRightST (d.take i'), d.drop (i + 1), i + 1)

/-- header loop of pem.Decode: `none` = `return nil, data` (input exhausted) -/
def pemHeaders : Nat → Bytes → Int → Int → Bool → Option (Bytes × Int × Int × Bool)
  | 0, _, _, _, _ => none
  | fuel + 1, rest, endIndex, eti, has =>
    if rest.isEmpty then none else
    let (line, next, consumed) := getLine rest
    match cut line with
    | none => some (rest, endIndex, eti, has)
    | some _ => pemHeaders fuel next (endIndex - consumed) (eti - consumed) true

/-- main loop of `pem.Decode` (pem.go:93-200); returns `Block.Bytes` of the first block found -/
def pemLoop : Nat → Bytes → Int → Option Bytes
  | 0, _, _ => none
  | fuel + 1, rest, eti =>
    if eti < 0 ∨ eti > rest.length then none else
    let rest := rest.drop eti.toNat
    match indexOf pemEnd rest with
    | none => none
    | some endIndex0 =>
      let eti : Int := endIndex0 + 10
      match lastIndexOf pemBegin (rest.take endIndex0) with
      | none => pemLoop fuel rest eti
      | some b =>
        if b > 0 ∧ rest.getD (b - 1) 0 ≠ 10 then pemLoop fuel rest eti else
        let rest := rest.drop (b + 11)
        let endIndex : Int := endIndex0 - (b + 11)
        let eti : Int := eti - (b + 11)
        let (typeLine, rest, consumed) := getLine rest
        let endIndex := endIndex - consumed
        let eti := eti - consumed
        if !hasSuffix dashes typeLine then pemLoop fuel rest eti else
        let typ := typeLine.take (typeLine.length - 5)
        match pemHeaders (rest.length + 1) rest endIndex eti false with
        | none => none
        | some (rest, endIndex, eti, has) =>
          if has ∧ endIndex < 0 then pemLoop fuel rest eti else
          let endTrailer := rest.drop eti.toNat
          let etl := typ.length + 5
          if endTrailer.length < etl then pemLoop fuel rest eti else
          let restOfEndLine := endTrailer.drop etl
          let endTrailer := endTrailer.take etl
          if !hasPrefix typ endTrailer || !hasSuffix dashes endTrailer then pemLoop fuel rest eti else
          if !(getLine restOfEndLine).1.isEmpty then pemLoop fuel rest eti else
          if endIndex > 0 then
            match b64Decode ((rest.take endIndex.toNat).filter (fun c => c ≠ 32 ∧ c ≠ 9)) with
            | none => pemLoop fuel rest eti
            | some bytes => some bytes
          else some []

/-- `pem.Decode(data)`: the bytes of the first decodable block -/
def pemDecode (data : Bytes) : Option Bytes := pemLoop (data.length + 2) data 0

/-- 64-column lines of pem.go `lineBreaker` -/
def chunk64 : Nat → Bytes → List Bytes
  | 0, _ => []
  | fuel + 1, l => if l.isEmpty then [] else l.take 64 :: chunk64 fuel (l.drop 64)

/-- lines of `strings.TrimSpace(pem.Encode(Block{Type:"MESSAGE", Bytes: m}))` (rsl.go:366-376) -/
def pemLines (m : Bytes) : List Bytes :=
  let b := b64Enc m
  beginMessage :: (chunk64 b.length b ++ [endMessage])

/-- the annotation's message as `parseAnnotationEntryText` extracts it (rsl.go:1186-1191) -/
def messageOf (text : Bytes) : Bytes :=
  if contains text beginMessage then (pemDecode text).getD [] else []

/-! ## entries -/

structure RefEntry where
  ref : Bytes
  target : Hash
  number : Nat
  deriving DecidableEq, Repr

structure AnnEntry where
  ids : List Hash
  skip : Bool
  message : Bytes
  number : Nat
  deriving DecidableEq, Repr

structure PropEntry where
  ref : Bytes
  target : Hash
  upstream : Bytes
  upstreamId : Hash
  number : Nat
  deriving DecidableEq, Repr

inductive Entry
  | ref (e : RefEntry)
  | ann (e : AnnEntry)
  | prop (e : PropEntry)
  deriving DecidableEq, Repr

/-! ## renderers: createCommitMessage(includeNumber = true) -/

/-- `fmt.Sprintf("%s: %s", key, value)` -/
def fieldLine (k v : Bytes) : Bytes := k ++ colonSp ++ v

def numberLines (n : Nat) : List Bytes :=
  if n > 0 then [fieldLine kNumber (renderNat n)] else []

/-- rsl.go:206-217 -/
def renderRefLines (e : RefEntry) : List Bytes :=
  [hdrRef, [], fieldLine kRef e.ref, fieldLine kTarget (hexEncode e.target)] ++ numberLines e.number

/-- rsl.go:346-379 -/
def renderAnnLines (e : AnnEntry) : List Bytes :=
  [hdrAnn, []] ++ e.ids.map (fun h => fieldLine kEntryID (hexEncode h)) ++
    [fieldLine kSkip (if e.skip then vTrue else vFalse)] ++ numberLines e.number ++
    (if e.message.isEmpty then [] else pemLines e.message)

/-- rsl.go:502-515 -/
def renderPropLines (e : PropEntry) : List Bytes :=
  [hdrProp, [], fieldLine kRef e.ref, fieldLine kTarget (hexEncode e.target),
    fieldLine kUpRepo e.upstream, fieldLine kUpEntry (hexEncode e.upstreamId)] ++ numberLines e.number

def renderRef (e : RefEntry) : Bytes := joinNL (renderRefLines e)
def renderAnn (e : AnnEntry) : Bytes := joinNL (renderAnnLines e)
def renderProp (e : PropEntry) : Bytes := joinNL (renderPropLines e)

def render : Entry → Bytes
  | .ref e => renderRef e
  | .ann e => renderAnn e
  | .prop e => renderProp e

/-! ## parsers -/

/-- `entryBody` (rsl.go:1336-1342) on the already split text -/
def entryBody (lines : List Bytes) (header : Bytes) : Except Err (List Bytes) :=
  match lines with
  | h :: b :: rest => if h ≠ header ∨ trimSpace b ≠ [] then .error .invalid else .ok rest
  | _ => .error .invalid

inductive VKind | raw | hash | num
  deriving DecidableEq, Repr

/-- the per-field validation done when the field is accepted (`setHash`, `setNumber`) -/
def validate : VKind → Bytes → Except Err Unit
  | .raw, _ => .ok ()
  | .hash, v => match hashOf v with | .ok _ => .ok () | .error e => .error e
  | .num, v => match parseUint v with | .ok _ => .ok () | .error e => .error e

abbrev FieldSpec := Bytes × VKind

/-- keys in the order the state machine expects them; state i = "expect key i" -/
def refSpec : List FieldSpec := [(kRef, .raw), (kTarget, .hash), (kNumber, .num)]
def propSpec : List FieldSpec :=
  [(kRef, .raw), (kTarget, .hash), (kUpRepo, .raw), (kUpEntry, .hash), (kNumber, .num)]

/-- position and kind of a known key (`switch key`) -/
def lookupKey : List FieldSpec → Bytes → Option (Nat × VKind)
  | [], _ => none
  | (k, kind) :: rest, key =>
    if key = k then some (0, kind) else
    match lookupKey rest key with
    | none => none
    | some (i, kd) => some (i + 1, kd)

/-- one iteration of the `for _, line := range body` loop; `vals` = accepted values so far,
`vals.length` = Go's `state` -/
def seqStep (spec : List FieldSpec) (vals : List Bytes) (line : Bytes) : Except Err (List Bytes) :=
  match splitField line with
  | none => .error .invalid
  | some (key, value) =>
    match lookupKey spec key with
    | none => .ok vals                       -- unknown keys are ignored
    | some (i, kind) =>
      if i ≠ vals.length then .error .invalid else
      match validate kind value with
      | .error e => .error e
      | .ok () => .ok (vals ++ [value])

def seqLoop (spec : List FieldSpec) (vals : List Bytes) : List Bytes → Except Err (List Bytes)
  | [] => .ok vals
  | l :: ls =>
    match seqStep spec vals l with
    | .error e => .error e
    | .ok vals' => seqLoop spec vals' ls

/-- the entry built from the accepted values (`setHash` / `setNumber` stored the decoded values
when the field was accepted; decoding again gives the same result) -/
def buildRef : List Bytes → Except Err RefEntry
  | [r, t] =>
    match hashOf t with
    | .error e => .error e
    | .ok h => .ok { ref := r, target := h, number := 0 }
  | [r, t, n] =>
    match hashOf t, parseUint n with
    | .ok h, .ok k => .ok { ref := r, target := h, number := k }
    | .error e, _ => .error e
    | _, .error e => .error e
  | _ => .error .invalid               -- state < expectNumber

def buildProp : List Bytes → Except Err PropEntry
  | [r, t, u, ue] =>
    match hashOf t, hashOf ue with
    | .ok h, .ok h2 => .ok { ref := r, target := h, upstream := u, upstreamId := h2, number := 0 }
    | .error e, _ => .error e
    | _, .error e => .error e
  | [r, t, u, ue, n] =>
    match hashOf t, hashOf ue, parseUint n with
    | .ok h, .ok h2, .ok k => .ok { ref := r, target := h, upstream := u, upstreamId := h2, number := k }
    | .error e, _, _ => .error e
    | _, .error e, _ => .error e
    | _, _, .error e => .error e
  | _ => .error .invalid

/-- rsl.go:1113-1165 (lines = `strings.Split(text, "\n")`) -/
def parseRefLines (lines : List Bytes) : Except Err RefEntry :=
  match entryBody lines hdrRef with
  | .error e => .error e
  | .ok body =>
    match seqLoop refSpec [] body with
    | .error e => .error e
    | .ok vals => buildRef vals

/-- rsl.go:1256-1331 -/
def parsePropLines (lines : List Bytes) : Except Err PropEntry :=
  match entryBody lines hdrProp with
  | .error e => .error e
  | .ok body =>
    match seqLoop propSpec [] body with
    | .error e => .error e
    | .ok vals => buildProp vals

/-- state of the annotation machine: `st` 0 = expectEntryID, 1 = expectNumber, 2 = done -/
structure AnnSt where
  st : Nat
  ids : List Hash
  skip : Bool
  number : Nat
  deriving DecidableEq, Repr

/-- rsl.go:1200-1244 -/
def annLoop (s : AnnSt) : List Bytes → Except Err AnnSt
  | [] => .ok s
  | l :: ls =>
    let line := trimSpace l
    if line = beginMessage then .ok s else       -- break
    match cut line with
    | none => .error .invalid
    | some (k, v) =>
      let key := trimSpace k
      let value := trimSpace v
      if key = kEntryID then
        if s.st ≠ 0 then .error .invalid else
        match hashOf value with
        | .error e => .error e
        | .ok h => annLoop { s with ids := s.ids ++ [h] } ls
      else if key = kSkip then
        if s.st ≠ 0 ∨ s.ids.isEmpty then .error .invalid else
        if value = vTrue then annLoop { s with skip := true, st := 1 } ls
        else if value = vFalse then annLoop { s with skip := false, st := 1 } ls
        else .error .invalid
      else if key = kNumber then
        if s.st ≠ 1 then .error .invalid else
        match parseUint value with
        | .error e => .error e
        | .ok n => annLoop { s with number := n, st := 2 } ls
      else annLoop s ls

/-- rsl.go:1171-1251; `msg` = `messageOf text` -/
def parseAnnLines (lines : List Bytes) (msg : Bytes) : Except Err AnnEntry :=
  match entryBody lines hdrAnn with
  | .error e => .error e
  | .ok body =>
    match annLoop { st := 0, ids := [], skip := false, number := 0 } body with
    | .error e => .error e
    | .ok s =>
      if s.st < 1 then .error .invalid else
      .ok { ids := s.ids, skip := s.skip, message := msg, number := s.number }

/-- `parseRSLEntryText` (rsl.go:1079-1107) -/
def parse (text : Bytes) : Except Err Entry :=
  if hasPrefix hdrRef text then
    match parseRefLines (splitNL text) with | .ok e => .ok (.ref e) | .error e => .error e
  else if hasPrefix hdrAnn text then
    match parseAnnLines (splitNL text) (messageOf text) with | .ok e => .ok (.ann e) | .error e => .error e
  else if hasPrefix hdrProp text then
    match parsePropLines (splitNL text) with | .ok e => .ok (.prop e) | .error e => .error e
  else .error .invalid

end Gittuf.Codec
