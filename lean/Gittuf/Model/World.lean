import Gittuf.Model.Policy
/-!
An abstract repository history ("world"): git commits with trees and signers,
policy states, attestation states and the Reference State Log as a plain list.
Log readers are given at the list level (what C04 proves the Go readers compute
on a well-formed chain).  Core Lean only.
-/
namespace Gittuf

def policyRef : String := "refs/gittuf/policy"
def policyStagingRef : String := "refs/gittuf/policy-staging"
def attestationsRef : String := "refs/gittuf/attestations"
def gittufPrefix : String := "refs/gittuf/"

structure CommitSpec where
  parents : List Nat            -- indices into `World.commits` (all smaller than the commit's own index)
  tree    : Nat                 -- index into `World.trees`
  signer  : Option KeyId
  deriving Repr, DecidableEq, Inhabited

inductive Target where
  | commit (i : Nat)
  | policy (i : Nat)            -- a commit on the policy / staging ref carrying policy state i
  | att (i : Nat)               -- a commit on the attestations ref carrying attestation state i
  | zero
  deriving Repr, DecidableEq, Inhabited

inductive EKind where
  | ref | ann | prop
  deriving Repr, DecidableEq, Inhabited

structure LogEntry where
  kind   : EKind
  ref    : String := ""
  target : Target := .zero
  signer : Option KeyId := none   -- key that signed the RSL entry's commit
  refs   : List Nat := []         -- annotation: log indices it refers to
  skip   : Bool := false
  deriving Repr, DecidableEq, Inhabited

/-- A reference authorization.  `s*`: the key of the path it is stored under;
`ref/from/to`: what the signed statement names. `from`: commit index (none = zero id); `to`: tree index. -/
structure Auth where
  sref : String
  sfrom : Option Nat
  sto : Nat
  ref : String
  frm : Option Nat
  to : Nat
  signers : List KeyId
  deriving Repr, DecidableEq, Inhabited

/-- A GitHub pull-request approval attestation for app `app` (stored under base64url(app)). -/
structure GhApproval where
  sref : String
  sfrom : Option Nat
  sto : Nat
  ref : String
  frm : Option Nat
  to : Nat
  app : String
  signers : List KeyId
  approvers : List String
  dismissed : List String := []
  deriving Repr, DecidableEq, Inhabited

structure AttState where
  auths : List Auth := []
  gh    : List GhApproval := []
  deriving Repr, DecidableEq, Inhabited

structure World where
  trees    : List (List (String × Nat))      -- tree index ↦ flattened (path, blob)
  commits  : List CommitSpec
  policies : List Policy
  atts     : List AttState
  log      : List LogEntry                   -- oldest first; entry number = index + 1
  deriving Repr, Inhabited

namespace World

def entry? (W : World) (i : Nat) : Option LogEntry := W.log[i]?

def isUpdater (e : LogEntry) : Bool := e.kind != .ann

/-- skipped by some annotation recorded later in the log -/
def skipped (W : World) (i : Nat) : Bool :=
  (W.log.drop (i + 1)).any (fun a => a.kind == .ann && a.skip && a.refs.contains i)

/-- indices `j < before`, newest first -/
def below (before : Nat) : List Nat := (List.range before).reverse

/-- `GetLatestReferenceUpdaterEntry(ForReference(ref), BeforeEntryID(before) [, IsUnskipped] [, IsReferenceEntry])` -/
def latestFor (W : World) (ref : String) (before : Nat) (unskipped := false) (refOnly := false) : Option Nat :=
  (below before).find? (fun j =>
    match W.log[j]? with
    | none => false
    | some e => isUpdater e && e.ref == ref && (!refOnly || e.kind == .ref) &&
                (!(unskipped && e.kind == .ref) || !W.skipped j))

def firstFor (W : World) (ref : String) : Option Nat :=
  (List.range W.log.length).find? (fun j =>
    match W.log[j]? with
    | none => false
    | some e => isUpdater e && e.ref == ref)

def isRelevantGittufRef (r : String) : Bool := hasPrefix r gittufPrefix && r != policyStagingRef

/-- `GetReferenceUpdaterEntriesInRangeForRef(first, last, ref)`: indices in log order -/
def range (W : World) (first last : Nat) (ref : String) : List Nat :=
  ((List.range (last + 1)).drop first).filter (fun j =>
    match W.log[j]? with
    | none => false
    | some e => isUpdater e && (ref.isEmpty || e.ref == ref || isRelevantGittufRef e.ref))

/-- ancestors-or-self of a commit, by fuel over the commit index (parents have smaller indices) -/
def ancestorsAux (W : World) : Nat → List Nat → List Nat → List Nat
  | 0, _, acc => acc
  | _ + 1, [], acc => acc
  | fuel + 1, c :: todo, acc =>
    if acc.contains c then ancestorsAux W fuel todo acc
    else
      let ps := match W.commits[c]? with | some cs => cs.parents | none => []
      ancestorsAux W fuel (ps ++ todo) (c :: acc)

def ancestors (W : World) (c : Nat) : List Nat :=
  ancestorsAux W ((W.commits.length + 1) * (W.commits.length + 1) + 1) [c] []

/-- `KnowsCommit(test, anc)`: `anc` is an ancestor of (or equal to) `test` -/
def knows (W : World) (test anc : Nat) : Bool := (W.ancestors test).contains anc

/-- `GetCommitsBetweenRange(new, old)` as a set -/
def commitsBetween (W : World) (new : Nat) (old : Option Nat) : List Nat :=
  match old with
  | none => W.ancestors new
  | some o => let ao := W.ancestors o; (W.ancestors new).filter (fun c => !ao.contains c)

def treeOf (W : World) (c : Nat) : Nat := match W.commits[c]? with | some cs => cs.tree | none => 0
def files (W : World) (t : Nat) : List (String × Nat) := match W.trees[t]? with | some f => f | none => []

def diffPaths (a b : List (String × Nat)) : List String :=
  let changed := b.filter (fun (p, blob) => a.lookup p != some blob) |>.map (·.1)
  let removed := a.filter (fun (p, _) => (b.lookup p).isNone) |>.map (·.1)
  (changed ++ removed).eraseDups

/-- `GetFilePathsChangedByCommit` (changes.go:17-88) -/
def changedPaths (W : World) (c : Nat) : List String :=
  match W.commits[c]? with
  | none => []
  | some cs =>
    match cs.parents with
    | [] => let ps := (W.files cs.tree).map (·.1); if ps.isEmpty then [""] else ps
    | [p] => diffPaths (W.files (W.treeOf p)) (W.files cs.tree)
    | ps =>
      -- merge commit: empty if equal to the last parent, else union of diffs against every parent
      match ps.getLast? with
      | none => []
      | some l =>
        if (diffPaths (W.files (W.treeOf l)) (W.files cs.tree)).isEmpty then []
        else (ps.flatMap (fun p => diffPaths (W.files (W.treeOf p)) (W.files cs.tree))).eraseDups

end World
end Gittuf
