/-
Mutating gittuf operations as SCRIPTS OF STORAGE CALLS (interface gitstore.Storer,
pkg/gitstore/gitstore.go).  Core Lean only.

* `Store`   : abstract repository: commit objects (append-only, id = position) and references.
* `Call`    : the Storer calls that matter, plus three read-only macro calls that stand for a
              head call followed by a run of pure object reads (policy look-ups).
* `Prog`    : an operation = a program that issues calls and continues with the response
              (program counter + locals = the continuation).
* `runFault`, `runCrash` : C16.  `Sched.run` : C17 (threads, schedules = lists of thread ids).
-/
namespace Gittuf.Script

inductive Ref | rsl | policy | staging | attest | pcache | branch (n : Nat)
  deriving DecidableEq, Repr, Inhabited

abbrev Cid := Nat

/-- what a commit carries: an RSL reference entry, an RSL annotation, or a tree (policy /
attestation state; `tag` identifies the content). -/
inductive Payload
  | refEntry (ref : Ref) (target : Cid) (number : Nat)
  | annEntry (ids : List Cid) (number : Nat)
  | tree (tag : Nat)
  deriving DecidableEq, Repr, Inhabited

def Payload.number : Payload → Nat
  | .refEntry _ _ n => n
  | .annEntry _ n => n
  | .tree _ => 0

def Payload.isEntry : Payload → Bool
  | .tree _ => false
  | _ => true

/-- `owner` is a ghost field: which operation created the object (0 = pre-existing). -/
structure Commit where
  parents : List Cid
  payload : Payload
  owner : Nat
  deriving DecidableEq, Repr, Inhabited

structure Store where
  commits : List Commit
  refs : List (Ref × Cid)
  deriving DecidableEq, Repr, Inhabited

def Store.empty : Store := { commits := [], refs := [] }

def Store.get (s : Store) (r : Ref) : Option Cid := s.refs.lookup r

def Store.set (s : Store) (r : Ref) (c : Cid) : Store :=
  { s with refs := (r, c) :: s.refs.filter (fun x => x.1 != r) }

def Store.del (s : Store) (r : Ref) : Store :=
  { s with refs := s.refs.filter (fun x => x.1 != r) }

def Store.commit? (s : Store) (c : Cid) : Option Commit := s.commits[c]?

/-- create a commit object (git commit-tree); its id is its position. -/
def Store.add (s : Store) (c : Commit) : Store × Cid :=
  ({ s with commits := s.commits ++ [c] }, s.commits.length)

/-- first-parent chain from `c`, newest first (`fuel` bounds the walk). -/
def Store.chainFrom (s : Store) : Nat → Cid → List Cid
  | 0, _ => []
  | fuel + 1, c =>
    match s.commit? c with
    | none => []
    | some cm =>
      match cm.parents with
      | [] => [c]
      | p :: _ => c :: s.chainFrom fuel p

/-- the log: first-parent chain of the RSL tip, newest first. -/
def Store.log (s : Store) : List Cid :=
  match s.get .rsl with
  | none => []
  | some t => s.chainFrom (s.commits.length + 1) t

/-- latest reference entry for `r` walking the chain from the tip: (entry id, target).
Mirrors rsl.GetLatestReferenceUpdaterEntry(ForReference(r)) (rsl.go:655-). -/
def Store.latestFor (s : Store) (r : Ref) : Option (Cid × Cid) :=
  (s.log.filterMap (fun id =>
    match s.commit? id with
    | some { payload := .refEntry r' t _, .. } => if r' = r then some (id, t) else none
    | _ => none)).head?

def Store.tipInfo (s : Store) : Option (Cid × Payload) :=
  match s.get .rsl with
  | none => none
  | some t => (s.commit? t).map (fun cm => (t, cm.payload))

/-- is `b` an ancestor of (or equal to) `a` along first parents (KnowsCommit). -/
def Store.knows (s : Store) (a b : Cid) : Bool :=
  (s.chainFrom (s.commits.length + 1) a).contains b

-- ---------------------------------------------------------------------------------------
-- calls

inductive Call
  | getRef (r : Ref)                       -- GetReference
  | setRef (r : Ref) (c : Cid)             -- SetReference (unconditional)
  | delRef (r : Ref)                       -- DeleteReference
  | getMsg (c : Cid)                       -- GetCommitMessage
  | emptyTree | writeBlob | writeTree
  /-- Repository.Commit (commit.go:23-57) as ONE Storer call: read tip, create commit with
      that parent, compare-and-set. -/
  | commit (r : Ref) (p : Payload)
  /-- the same in two halves (sub-call granularity, what concurrent processes see) -/
  | commitRead (r : Ref)
  | commitCas (r : Ref) (p : Payload) (old : Option Cid)
  | reset (r : Ref) (c : Cid)              -- ResetDueToError
  | knows (a b : Cid)                      -- KnowsCommit
  /-- macro: GetLatestReferenceUpdaterEntry(ForReference r) = GetReference(rsl) followed by
      GetCommitMessage / GetCommitParentIDs reads -/
  | lookup (r : Ref)
  /-- macro: LoadCurrentState(staging) + State.Verify: reference reads + object reads -/
  | loadVerify
  /-- macro: loadStateForEntry: object reads -/
  | loadState (c : Cid)
  deriving DecidableEq, Repr, Inhabited

inductive Resp
  | fail                      -- the call returned an (injected) error
  | failSoft                  -- a GetCommitMessage inside a macro failed (reported as "entry not found", rsl.go:531-533)
  | unit
  | ref (o : Option Cid)
  | msg (p : Payload)
  | cid (c : Cid)
  | casFailed
  /-- lookup: latest entry for the reference (id, target), and the log tip with its payload
      (the walk has fetched it: it is now in the process cache) -/
  | entry (o : Option (Cid × Cid)) (tip : Option (Cid × Payload))
  | bool (b : Bool)
  deriving DecidableEq, Repr, Inhabited

/-- perform one call on the store on behalf of operation `owner`. -/
def exec (s : Store) (owner : Nat) : Call → Store × Resp
  | .getRef r => (s, .ref (s.get r))
  | .setRef r c => (s.set r c, .unit)
  | .delRef r => (s.del r, .unit)
  | .getMsg c =>
    match s.commit? c with
    | some cm => (s, .msg cm.payload)
    | none => (s, .fail)
  | .emptyTree => (s, .cid 0)
  | .writeBlob => (s, .cid 0)
  | .writeTree => (s, .cid 0)
  | .commit r p =>
    let tip := s.get r
    let (s1, id) := s.add { parents := tip.toList, payload := p, owner := owner }
    (s1.set r id, .cid id)
  | .commitRead r => (s, .ref (s.get r))
  | .commitCas r p old =>
    -- the object is created in any case (git commit-tree), the reference moves only if unchanged
    let (s1, id) := s.add { parents := old.toList, payload := p, owner := owner }
    if s.get r = old then (s1.set r id, .cid id) else (s1, .casFailed)
  | .reset r c => (s.set r c, .unit)
  | .knows a b => (s, .bool (s.knows a b))
  | .lookup r => (s, .entry (s.latestFor r) (s.tipInfo))
  | .loadVerify => (s, .unit)
  | .loadState _ => (s, .unit)

-- ---------------------------------------------------------------------------------------
-- programs

inductive Res | ok | err | invalidPolicy
  deriving DecidableEq, Repr, Inhabited

inductive Prog where
  | ret : Res → Prog
  | call : Call → (Resp → Prog) → Prog

instance : Inhabited Prog := ⟨.ret .err⟩

/-- the process-local entry cache (pkg/rsl/cache.go): ids whose message was fetched. -/
abbrev Cache := List (Cid × Payload)

/-- which protocol records an entry.
`code`     : number from GetLatestEntry (one read of the tip), parent from the read inside Commit
             (rsl.go:190-204 then rsl.go:61-69 / commit.go:24).
`repaired` : the tip is read once; number and parent both come from that read; compare-and-set. -/
inductive Proto | code | repaired
  deriving DecidableEq, Repr, Inhabited

/-- parameters of a recording operation: how to build the entry once the number is known. -/
structure Rec where
  build : Nat → Payload
  split : Bool := false      -- Commit seen as two halves
  proto : Proto := .code

/-- last step(s): commitEntry's storer.Commit (rsl.go:68), possibly in two halves. -/
def commitEntry (rc : Rec) (n : Nat) (k : Resp → Prog) : Prog :=
  if rc.split then
    .call (.commitRead .rsl) fun
      | .ref old => .call (.commitCas .rsl (rc.build n) old) k
      | _ => k .fail
  else .call (.commit .rsl (rc.build n)) k

/-- commitEntry (rsl.go:61-70): EmptyTree, Commit. -/
def recTail (rc : Rec) (n : Nat) : Prog :=
  .call .emptyTree fun
    | .cid _ => commitEntry rc n fun
      | .cid _ => .ret .ok
      | _ => .ret .err
    | _ => .ret .err

/-- setEntryNumber (rsl.go:190-204) = GetLatestEntry (rsl.go:640-650) + GetEntry (rsl.go:524-541):
a failing GetCommitMessage is joined with ErrRSLEntryNotFound, which setEntryNumber takes for
"first entry" (number 1). -/
def recCode (rc : Rec) (cache : Cache) : Prog :=
  .call (.getRef .rsl) fun
    | .ref none => recTail rc 1
    | .ref (some t) =>
      match cache.lookup t with
      | some p => recTail rc (p.number + 1)
      | none => .call (.getMsg t) fun
        | .msg p => recTail rc (p.number + 1)
        | .fail => recTail rc 1
        | _ => .ret .err
    | _ => .ret .err

/-- repaired protocol: read the tip once (commitRead), take the number from that very commit,
compare-and-set against that very tip; a failing read is an error. -/
def recRepaired (rc : Rec) (cache : Cache) : Prog :=
  .call (.commitRead .rsl) fun
    | .ref none =>
      .call .emptyTree fun
        | .cid _ => .call (.commitCas .rsl (rc.build 1) none) fun
          | .cid _ => .ret .ok
          | _ => .ret .err
        | _ => .ret .err
    | .ref (some t) =>
      let fin (n : Nat) : Prog :=
        .call .emptyTree fun
          | .cid _ => .call (.commitCas .rsl (rc.build n) (some t)) fun
            | .cid _ => .ret .ok
            | _ => .ret .err
          | _ => .ret .err
      match cache.lookup t with
      | some p => fin (p.number + 1)
      | none => .call (.getMsg t) fun
        | .msg p => fin (p.number + 1)
        | _ => .ret .err
    | _ => .ret .err

def record (rc : Rec) (cache : Cache := []) : Prog :=
  match rc.proto with
  | .code => recCode rc cache
  | .repaired => recRepaired rc cache

/-- AnnotationEntry.Commit (rsl.go:265-284): GetEntry for every referred id, then as above. -/
def annotateFrom (rc : Rec) : List Cid → Cache → Prog
  | [], cache => record rc cache
  | id :: ids, cache =>
    match cache.lookup id with
    | some _ => annotateFrom rc ids cache
    | none => .call (.getMsg id) fun
      | .msg p => annotateFrom rc ids ((id, p) :: cache)
      | _ => .ret .err

def annotate (ids : List Cid) (split : Bool := false) (proto : Proto := .code) : Prog :=
  annotateFrom { build := fun n => .annEntry ids n, split := split, proto := proto } ids []

def recordRef (r : Ref) (target : Cid) (split : Bool := false) (proto : Proto := .code) (cache : Cache := []) : Prog :=
  record { build := fun n => .refEntry r target n, split := split, proto := proto } cache

-- ---------------------------------------------------------------------------------------
-- policy / attestation operations (C16). `guard` = the code's "previous tip non-zero" test
-- before rolling back (policy.go:773, 866; attestations.go:201); `guard := false` is the
-- repaired variant that always rolls back (deleting the reference when there was none).

structure Variant where
  guard : Bool := true               -- F13: roll back only if the previous tip is non-zero
  reconcileRollback : Bool := false  -- F50: ReconcileStaging has no rollback
  softNotFound : Bool := true        -- F51: a failing GetCommitMessage counts as "no entry"
  deriving DecidableEq, Repr, Inhabited

def Variant.code : Variant := {}
def Variant.fixed : Variant := { guard := false, reconcileRollback := true, softNotFound := false }

/-- roll `r` back to `old` after a failed log write (ResetDueToError returns the cause). -/
def rollback (v : Variant) (r : Ref) (old : Option Cid) : Prog :=
  match old with
  | some o => .call (.reset r o) fun _ => .ret .err
  | none => if v.guard then .ret .err else .call (.delRef r) fun _ => .ret .err

/-- ReferenceEntry.Commit for `r -> target` inside a larger operation: on failure `onFail`,
on success `k`. Same call order as `recCode` (non-split). -/
def recordEntry (v : Variant) (r : Ref) (target : Cid) (cache : Cache) (onFail : Prog) (k : Unit → Prog) : Prog :=
  let tail (n : Nat) : Prog :=
    .call .emptyTree fun
      | .cid _ => .call (.commit .rsl (.refEntry r target n)) fun
        | .cid _ => k ()
        | _ => onFail
      | _ => onFail
  .call (.getRef .rsl) fun
    | .ref none => tail 1
    | .ref (some t) =>
      match cache.lookup t with
      | some p => tail (p.number + 1)
      | none => .call (.getMsg t) fun
        | .msg p => tail (p.number + 1)
        | .fail => if v.softNotFound then tail 1 else onFail
        | _ => onFail
    | _ => onFail

def calls : List Call → (Unit → Prog) → Prog
  | [], k => k ()
  | c :: cs, k => .call c fun
    | .fail => .ret .err
    | _ => calls cs k

/-- State.Commit(repo, msg, createRSLEntry := true) (policy.go:717-783). -/
def stageK (v : Variant) (tag : Nat) (k : Unit → Prog) : Prog :=
  calls [.writeBlob, .writeBlob, .writeTree, .writeTree] fun _ =>
  .call (.getRef .staging) fun
    | .ref old => .call (.commit .staging (.tree tag)) fun
      | .cid c => recordEntry v .staging c [] (rollback v .staging old) k
      | _ => .ret .err
    | _ => .ret .err

def stage (v : Variant) (tag : Nat) : Prog := stageK v tag fun _ => .ret .ok

/-- Attestations.Commit (attestations.go:153-210). -/
def attest (v : Variant) (tag : Nat) : Prog :=
  .call .writeTree fun
    | .cid _ => .call (.getRef .attest) fun
      | .ref old => .call (.commit .attest (.tree tag)) fun
        | .cid c => recordEntry v .attest c [] (rollback v .attest old) fun _ => .ret .ok
        | _ => .ret .err
      | _ => .ret .err
    | _ => .ret .err

/-- Discard (policy.go:877-895). -/
def discard : Prog :=
  .call (.getRef .policy) fun
    | .ref none => .call (.delRef .staging) fun
      | .unit => .ret .ok
      | _ => .ret .err
    | .ref (some p) => .call (.setRef .staging p) fun
      | .unit => .ret .ok
      | _ => .ret .err
    | _ => .ret .err

def addTip (cache : Cache) : Option (Cid × Payload) → Cache
  | some x => x :: cache
  | none => cache

/-- the reference / entry consistency test at the head of ReconcileStaging and Apply
(policy.go:901-931, 796-826): continues with (tip, entry, cache). -/
def checkRef (v : Variant) (r : Ref) (cache : Cache) (k : Option Cid → Option (Cid × Cid) → Cache → Prog) : Prog :=
  .call (.getRef r) fun
    | .ref tip => .call (.lookup r) fun resp =>
      let go (e : Option (Cid × Cid)) (cache : Cache) : Prog :=
        match tip, e with
        | some t, some (_, tgt) => if t = tgt then k tip e cache else .ret .invalidPolicy
        | none, none => k none none cache
        | _, _ => .ret .invalidPolicy
      match resp with
      | .entry e t => go e (addTip cache t)
      | .failSoft => if v.softNotFound then go none cache else .ret .err
      | _ => .ret .err
    | _ => .ret .err

/-- ReconcileStaging (policy.go:897-1075). `tagMerged`: content of the rebased staging state. -/
def reconcileK (v : Variant) (tagMerged : Nat) (k : Cache → Prog) : Prog :=
  checkRef v .policy [] fun pTip pE cache =>
  checkRef v .staging cache fun sTip _sE cache =>
    match pE, pTip, sTip with
    | some _, some p, some s =>
      if p = s then k cache else
      .call (.knows s p) fun
        | .bool true => k cache
        | .bool false => .call (.knows p s) fun
          | .bool true =>
            -- policy ahead of staging: fast-forward staging and record it (policy.go:1030-1037)
            .call (.setRef .staging p) fun
              | .unit => recordEntry v .staging p cache (undo s) fun _ => k cache
              | _ => .ret .err
          | .bool false =>
            -- diverged (policy.go:1040-1074)
            .call (.loadState p) fun
              | .fail => .ret .err
              | _ => .call (.loadState s) fun
                | .fail => .ret .err
                | _ => .call (.setRef .staging p) fun
                  | .unit => recordEntry v .staging p cache (undo s) fun _ => stageK v tagMerged fun _ => k cache
                  | _ => .ret .err
          | _ => .ret .err
        | _ => .ret .err
    | _, _, _ => k cache     -- nothing applied yet (policy.go:979-986)
where
  undo (s : Cid) : Prog :=
    if v.reconcileRollback then .call (.reset .staging s) fun _ => .ret .err else .ret .err

def reconcile (v : Variant) (tagMerged : Nat) : Prog := reconcileK v tagMerged fun _ => .ret .ok

/-- Apply (policy.go:785-874). -/
def apply (v : Variant) (tagMerged : Nat) : Prog :=
  reconcileK v tagMerged fun _ =>
  checkRef v .policy [] fun pTip _ cache =>
  .call (.getRef .staging) fun
    | .ref (some s) =>
      let fin : Prog :=
        .call .loadVerify fun
          | .fail => .ret .err
          | _ => .call (.setRef .policy s) fun
            | .unit => recordEntry v .policy s cache (rollback v .policy pTip) fun _ => .ret .ok
            | _ => .ret .err
      match pTip with
      | some p => .call (.knows s p) fun
        | .bool true => fin
        | _ => .ret .err
      | none => fin
    | _ => .ret .err

-- ---------------------------------------------------------------------------------------
-- C16: one operation, the k-th call fails / the process stops after the k-th call

/-- how the k-th call fails: plainly, or (inside a macro call) at a GetCommitMessage. -/
inductive Flavour | hard | soft
  deriving DecidableEq, Repr, Inhabited

structure Outcome where
  store : Store
  res : Option Res          -- none: abandoned (crash)
  trace : List Call
  deriving Repr, Inhabited

/-- run to completion; the call with index `k` (0-based; `none` = no fault) fails without being performed. -/
def runFault (owner : Nat) (fault : Option (Nat × Flavour)) : Prog → Store → Nat → List Call → Outcome
  | .ret r, s, _, tr => { store := s, res := some r, trace := tr.reverse }
  | .call c k, s, i, tr =>
    match fault with
    | some (j, fl) =>
      if i = j then
        runFault owner fault (k (match fl with | .hard => .fail | .soft => .failSoft)) s (i + 1) (c :: tr)
      else
        let (s', resp) := exec s owner c
        runFault owner fault (k resp) s' (i + 1) (c :: tr)
    | none =>
      let (s', resp) := exec s owner c
      runFault owner fault (k resp) s' (i + 1) (c :: tr)

/-- stop dead after `n` calls have completed. -/
def runCrash (owner : Nat) : Nat → Prog → Store → List Call → Outcome
  | _, .ret r, s, tr => { store := s, res := some r, trace := tr.reverse }
  | 0, .call _ _, s, tr => { store := s, res := none, trace := tr.reverse }
  | n + 1, .call c k, s, tr =>
    let (s', resp) := exec s owner c
    runCrash owner n (k resp) s' (c :: tr)

def run (owner : Nat) (p : Prog) (s : Store) : Outcome := runFault owner none p s 0 []

-- ---------------------------------------------------------------------------------------
-- C17: threads and schedules

structure Thread where
  owner : Nat
  prog : Prog
  trace : List Call := []     -- newest first

structure Global where
  store : Store
  threads : List Thread

def Thread.result (t : Thread) : Option Res :=
  match t.prog with
  | .ret r => some r
  | .call _ _ => none

/-- thread `t` performs its next call (no-op if it has finished). -/
def Thread.step (t : Thread) (s : Store) : Store × Thread :=
  match t.prog with
  | .ret _ => (s, t)
  | .call c k =>
    let (s', resp) := exec s t.owner c
    (s', { t with prog := k resp, trace := c :: t.trace })

def stepAt : List Thread → Nat → Store → Store × List Thread
  | [], _, s => (s, [])
  | t :: ts, 0, s => let (s', t') := t.step s; (s', t' :: ts)
  | t :: ts, i + 1, s => let (s', ts') := stepAt ts i s; (s', t :: ts')

def Global.step (g : Global) (tid : Nat) : Global :=
  let (s', ts') := stepAt g.threads tid g.store
  { store := s', threads := ts' }

/-- follow a schedule (thread ids; ids of finished or non-existent threads are no-ops). -/
def Global.run (g : Global) : List Nat → Global
  | [] => g
  | tid :: rest => (g.step tid).run rest

/-- run thread `tid` to completion (fuel = bound on its remaining calls). -/
def Global.finish (g : Global) (tid : Nat) : Nat → Global
  | 0 => g
  | fuel + 1 => (g.step tid).finish tid fuel

end Gittuf.Script
