import Gittuf.Basic
/-
Model of `SignatureVerifier.Verify` (internal/policy/signature.go:57-235) and of
DSSE envelope acceptance (internal/third_party/go-securesystemslib/dsse/verify.go:27-118).

Cryptography is symbolic: a signature *is* the pair (key that made it, digest it
was made over) plus the key-id hint carried next to it in the envelope.  It
verifies under key `k` over content `d` iff `key = k ∧ over = d`.
Core Lean only (this file is linked into the driver executable).
-/
namespace Gittuf

abbrev KeyId := Nat
abbrev PId := Nat
abbrev Digest := Nat

structure Sig where
  key  : KeyId
  over : Digest
  hint : Option KeyId := none
  deriving Repr, DecidableEq, Inhabited

structure Principal where
  id   : PId
  keys : List KeyId
  deriving Repr, DecidableEq, Inhabited

structure Envelope where
  digest : Digest
  sigs   : List Sig
  deriving Repr, DecidableEq, Inhabited

structure Verifier where
  name       : Nat := 0
  principals : List Principal
  threshold  : Int
  exhaustive : Bool := false
  deriving Repr, DecidableEq, Inhabited

inductive VErr where
  | invalidVerifier
  | noSignature                 -- envelope without signatures: dsse.ErrNoSignature is propagated
  | unmet (used : List PId)
  deriving Repr, DecidableEq, Inhabited

/-- Does signature `s` verify under key `k` for content `d`?  In an envelope the
key-id hint, when present, must name the verifying key (verify.go: `s.KeyID != keyID → continue`). -/
def Sig.okFor (s : Sig) (k : KeyId) (d : Digest) : Bool :=
  s.key == k && s.over == d && (match s.hint with | none => true | some h => h == k)

/-- Git phase: principals in iteration order, keys in iteration order; the first
key that verifies the object's signature credits its principal, and nobody else. -/
def gitPhase (ps : List Principal) (g : Option Sig) (gd : Digest) : Option (PId × KeyId) :=
  match g with
  | none => none
  | some s => ps.findSome? (fun p => (p.keys.find? (fun k => s.okFor k gd)).map (fun k => (p.id, k)))

/-- `EnvelopeVerifier.Verify` for one principal's not-yet-used keys: for each
signature in order, the first remaining key that verifies it is accepted and removed. -/
def acceptedKeysAux (d : Digest) : List Sig → List KeyId → List KeyId
  | [], _ => []
  | s :: ss, avail =>
    match avail.find? (fun k => s.okFor k d) with
    | some k => k :: acceptedKeysAux d ss (avail.erase k)
    | none => acceptedKeysAux d ss avail

def acceptedKeys (e : Envelope) (avail : List KeyId) : List KeyId :=
  acceptedKeysAux e.digest e.sigs avail

abbrev VState := List PId × List KeyId   -- usedPrincipalIDs, usedKeyIDs

def envStep (e : Envelope) (st : VState) (p : Principal) : Except VErr VState :=
  if st.1.contains p.id then .ok st else
  let avail := p.keys.filter (fun k => !st.2.contains k)
  if avail.isEmpty then .ok st else
  if e.sigs.isEmpty then .error .noSignature else
  let acc := acceptedKeys e avail
  if acc.isEmpty then .ok st else .ok (st.1 ++ [p.id], st.2 ++ acc)

def envPhase (e : Envelope) : List Principal → VState → Except VErr VState
  | [], st => .ok st
  | p :: ps, st =>
    match envStep e st p with
    | .error x => .error x
    | .ok st' => envPhase e ps st'

def Verifier.finish (v : Verifier) (st : VState) : Except VErr (List PId) :=
  if v.exhaustive || (st.1.length : Int) ≥ v.threshold then .ok st.1 else .error (.unmet st.1)

/-- `SignatureVerifier.Verify`.  `g`/`gd`: the Git object's signature and digest
(`g = none`: no object given, or unsigned object).  `env`: the DSSE envelope. -/
def Verifier.verify (v : Verifier) (g : Option Sig) (gd : Digest) (env : Option Envelope) :
    Except VErr (List PId) :=
  if v.threshold < 1 || v.principals.isEmpty then .error .invalidVerifier else
  let g0 := gitPhase v.principals g gd
  let st0 : VState := match g0 with
    | some (p, k) => ([p], [k])
    | none => ([], [])
  if !v.exhaustive && v.threshold == 1 && g0.isSome then .ok st0.1 else
  match env with
  | none => v.finish st0
  | some e =>
    match envPhase e v.principals st0 with
    | .error x => .error x
    | .ok st => v.finish st

end Gittuf
