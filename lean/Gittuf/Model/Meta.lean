import Gittuf.Basic
/-
Model of the policy-metadata mutators of gittuf (property C13).

* rule files:  internal/tuf/v02/targets.go:73-236, 243-375 and internal/tuf/v01/targets.go:68-285
* roots:       internal/tuf/v02/root.go:77-273, 473-631 and internal/tuf/v01/root.go (same logic, keys only)
* sets:        internal/common/set/set.go  (a set is a duplicate-free list here; order is irrelevant,
               the driver sorts before comparing)

The Go mutators work *in place* and return an error; the model returns the pair
(error class, state afterwards) so that "a refused edit leaves the metadata
unchanged" can be stated.  The control flow of the Go code is followed check by
check (same order, same early exits).  `AddRule`/`UpdateRule` (both schema
versions) compare the threshold with the number of *distinct* principal ids
handed in (`set.NewSetFromItems(ids...).Len()`, since commit 43f8e67); before
that commit they compared with the length of the argument list, duplicates
included (finding F10, repaired) — that older code is kept at the end of the
rule-file section as `applyF10`, for the driver only.
Core Lean only (linked into the driver executable).
-/
namespace Gittuf.Meta

inductive Ver where
  | v01 | v02
  deriving Repr, DecidableEq, Inhabited

/-- dynamic type of a `tuf.Principal` value handed to a mutator: `*Key`, `*Person`, or some
other implementation of the interface (`bogus`). A nil interface is `none : Option Principal`. -/
inductive PKind where
  | key | person | bogus
  deriving Repr, DecidableEq, Inhabited

structure Principal where
  id   : String
  kind : PKind
  keys : List String
  deriving Repr, DecidableEq, Inhabited

structure Rule where
  name        : String
  patterns    : List String
  principals  : List String      -- set.Set[string]: duplicate-free
  threshold   : Int
  terminating : Bool
  deriving Repr, DecidableEq, Inhabited

inductive Err where
  | reservedPrefix        -- tuf.ErrCannotManipulateRulesWithGittufPrefix
  | principalNotFound     -- tuf.ErrPrincipalNotFound
  | invalidThreshold      -- tuf.ErrInvalidThreshold
  | cannotMeetThreshold   -- tuf.ErrCannotMeetThreshold
  | duplicatedRuleName    -- tuf.ErrDuplicatedRuleName
  | ruleNotFound          -- tuf.ErrRuleNotFound
  | missingRules          -- tuf.ErrMissingRules
  | invalidPrincipalType  -- tuf.ErrInvalidPrincipalType
  | invalidPrincipalID    -- tuf.ErrInvalidPrincipalID
  | principalStillInUse   -- tuf.ErrPrincipalStillInUse
  | invalidOperation      -- tuf.ErrInvalidOperationForMetadataVersion
  | invalidRoot           -- tuf.ErrInvalidRootMetadata
  | noTargetsRole         -- tuf.ErrPrimaryRuleFileInformationNotFoundInRoot
  | globalRuleExists      -- tuf.ErrGlobalRuleAlreadyExists
  | globalRuleNotFound    -- tuf.ErrGlobalRuleNotFound
  | globalRuleType        -- tuf.ErrCannotUpdateGlobalRuleType
  | propagationExists     -- tuf.ErrPropagationDirectiveAlreadyExists
  | propagationNotFound   -- tuf.ErrPropagationDirectiveNotFound
  | panic                 -- run-time panic of the Go code (index out of range)
  deriving Repr, DecidableEq, Inhabited

/-- outcome of a mutator: the error it returned (if any) and the object afterwards -/
structure Res (σ : Type) where
  err : Option Err
  st  : σ
  deriving Repr

def allowName : String := "gittuf-allow-rule"

/-- `tufv02.AllowRule()` (targets.go:377-387): no principal set at all, threshold 1 -/
def allowRule : Rule :=
  { name := allowName, patterns := ["*"], principals := [], threshold := 1, terminating := true }

/-- `strings.HasPrefix(name, tuf.GittufPrefix)` -/
def reserved (s : String) : Bool := "gittuf-".toList.isPrefixOf s.toList

/-- `set.NewSetFromItems(items...)`: one copy of every item -/
def dedup : List String → List String
  | [] => []
  | x :: xs => if x ∈ xs then dedup xs else x :: dedup xs

/-- no item twice -/
def nodupB : List String → Bool
  | [] => true
  | x :: xs => !(xs.contains x) && nodupB xs

/-! ## rule files -/

structure TargetsMeta where
  /-- `Delegations.Principals == nil` (only observable through `RemovePrincipal`'s error) -/
  principalsNil : Bool
  principals    : List Principal
  rules         : List Rule
  deriving Repr, DecidableEq, Inhabited

namespace TargetsMeta

/-- `NewTargetsMetadata()` (targets.go:34-41) -/
def new : TargetsMeta := { principalsNil := true, principals := [], rules := [allowRule] }

def ids (m : TargetsMeta) : List String := m.principals.map (·.id)

def defined (m : TargetsMeta) (id : String) : Bool := m.ids.contains id

def fail (m : TargetsMeta) (e : Err) : Res TargetsMeta := { err := some e, st := m }
def done (m : TargetsMeta) : Res TargetsMeta := { err := none, st := m }

/-- the four argument checks shared by AddRule and UpdateRule (v02 targets.go:74-92 = 114-132,
v01 targets.go:69-87 = 108-126). The last one counts the *distinct* ids,
`set.NewSetFromItems(authorizedPrincipalIDs...).Len() < threshold`: exactly the size of the
principal set the rule is going to store (`dedup ids`). -/
def checkRuleArgs (m : TargetsMeta) (name : String) (ids : List String) (thr : Int) : Option Err :=
  if reserved name then some .reservedPrefix
  else if !(ids.all m.defined) then some .principalNotFound
  else if thr ≤ 0 then some .invalidThreshold
  else if ((dedup ids).length : Int) < thr then some .cannotMeetThreshold
  else none

/-- `AddRule` (targets.go:73-110) -/
def addRule (m : TargetsMeta) (name : String) (ids patterns : List String) (thr : Int) : Res TargetsMeta :=
  match m.checkRuleArgs name ids thr with
  | some e => m.fail e
  | none =>
    if m.rules.isEmpty then m.fail .panic   -- allDelegations[:len(allDelegations)-1] with len 0
    else
      let r : Rule := { name := name, patterns := patterns, principals := dedup ids, threshold := thr, terminating := false }
      done { m with rules := m.rules.dropLast ++ [r, allowRule] }

/-- the loop of `UpdateRule` (targets.go:134-154): copy until the first rule called like the allow rule -/
def updateGo (name : String) (patterns ids : List String) (thr : Int) : List Rule → List Rule
  | [] => []
  | r :: rs =>
    if r.name = allowName then []
    else if r.name ≠ name then r :: updateGo name patterns ids thr rs
    else { r with patterns := patterns, principals := dedup ids, threshold := thr } :: updateGo name patterns ids thr rs

/-- `UpdateRule` (targets.go:113-158); an unknown rule name is not an error -/
def updateRule (m : TargetsMeta) (name : String) (ids patterns : List String) (thr : Int) : Res TargetsMeta :=
  match m.checkRuleArgs name ids thr with
  | some e => m.fail e
  | none => done { m with rules := updateGo name patterns ids thr m.rules ++ [allowRule] }

/-- names of the rules other than the allow rule (`currentRules`, targets.go:166-173) -/
def userRuleNames (m : TargetsMeta) : List String :=
  (m.rules.filter (fun r => r.name != allowName)).map (·.name)

/-- `rolesMap[name]`: the last rule carrying that name -/
def lookupRule (m : TargetsMeta) (name : String) : Option Rule :=
  m.rules.reverse.find? (fun r => r.name == name)

/-- `ReorderRules` (targets.go:162-212) -/
def reorderRules (m : TargetsMeta) (names : List String) : Res TargetsMeta :=
  let current := m.userRuleNames
  if !nodupB names then m.fail .duplicatedRuleName
  else if names.any (fun n => !current.contains n) then
    (if names.contains allowName then m.fail .reservedPrefix else m.fail .ruleNotFound)
  else if current.any (fun n => !names.contains n) then m.fail .missingRules
  else done { m with rules := names.filterMap m.lookupRule ++ [allowRule] }

/-- `RemoveRule` (targets.go:215-230) -/
def removeRule (m : TargetsMeta) (name : String) : Res TargetsMeta :=
  if reserved name then m.fail .reservedPrefix
  else done { m with rules := m.rules.filter (fun r => r.name != name) }

/-- `d.Principals[p.ID()] = p` -/
def upsert (ps : List Principal) (p : Principal) : List Principal :=
  if ps.any (fun q => q.id == p.id) then ps.map (fun q => if q.id == p.id then p else q) else ps ++ [p]

/-- which dynamic types a schema version stores: v01 `*Key` only, v02 `*Key` and `*Person` -/
def acceptsKind : Ver → PKind → Bool
  | _, .key => true
  | .v02, .person => true
  | _, _ => false

/-- `AddPrincipal` (v02 targets.go:312-325, v01 targets.go:262-274): the map is created *before* the type check -/
def addPrincipal (v : Ver) (m : TargetsMeta) (p : Option Principal) : Res TargetsMeta :=
  let m1 := { m with principalsNil := false }
  match p with
  | none => m1.fail .invalidPrincipalType
  | some p =>
    if acceptsKind v p.kind then done { m1 with principals := upsert m1.principals p }
    else m1.fail .invalidPrincipalType

/-- `UpdatePrincipal` (v02 targets.go:329-346; v01 targets.go:245-247 always refuses) -/
def updatePrincipal (v : Ver) (m : TargetsMeta) (p : Option Principal) : Res TargetsMeta :=
  match v with
  | .v01 => m.fail .invalidOperation
  | .v02 =>
    match p with
    | none => m.fail .invalidPrincipalType
    | some p =>
      if !m.defined p.id then m.fail .principalNotFound
      else if acceptsKind .v02 p.kind then done { m with principals := upsert m.principals p }
      else m.fail .invalidPrincipalType

def inUse (m : TargetsMeta) (id : String) : Bool := m.rules.any (fun r => r.principals.contains id)

/-- `RemovePrincipal` (v02 targets.go:350-364, v01 targets.go:276-286) -/
def removePrincipal (v : Ver) (m : TargetsMeta) (id : String) : Res TargetsMeta :=
  if m.principalsNil then m.fail .principalNotFound
  else if v = .v02 ∧ id = "" then m.fail .invalidPrincipalID
  else if m.inUse id then m.fail .principalStillInUse
  else done { m with principals := m.principals.filter (fun q => q.id != id) }

end TargetsMeta

inductive TOp where
  | addRule (name : String) (ids patterns : List String) (thr : Int)
  | updateRule (name : String) (ids patterns : List String) (thr : Int)
  | removeRule (name : String)
  | reorderRules (names : List String)
  | addPrincipal (p : Option Principal)
  | updatePrincipal (p : Option Principal)
  | removePrincipal (id : String)
  deriving Repr, DecidableEq, Inhabited

def TargetsMeta.apply (v : Ver) (m : TargetsMeta) : TOp → Res TargetsMeta
  | .addRule n ids pats t => m.addRule n ids pats t
  | .updateRule n ids pats t => m.updateRule n ids pats t
  | .removeRule n => m.removeRule n
  | .reorderRules ns => m.reorderRules ns
  | .addPrincipal p => TargetsMeta.addPrincipal v m p
  | .updatePrincipal p => TargetsMeta.updatePrincipal v m p
  | .removePrincipal id => TargetsMeta.removePrincipal v m id

/-- the object after a sequence of edits, accepted or refused -/
def TargetsMeta.run (v : Ver) (m : TargetsMeta) (ops : List TOp) : TargetsMeta :=
  ops.foldl (fun m o => (m.apply v o).st) m

/-! ### the code before commit 43f8e67 (finding F10, repaired)

No theorem is about these definitions. The driver steps with `applyF10` instead of `apply` only
when the orchestrator lists F10 as an *open* finding (= the old code is the expected variant). -/

/-- the argument checks as they were: the threshold is compared with `len(authorizedPrincipalIDs)` -/
def TargetsMeta.checkRuleArgsF10 (m : TargetsMeta) (name : String) (ids : List String) (thr : Int) : Option Err :=
  if reserved name then some .reservedPrefix
  else if !(ids.all m.defined) then some .principalNotFound
  else if thr ≤ 0 then some .invalidThreshold
  else if (ids.length : Int) < thr then some .cannotMeetThreshold
  else none

/-- `apply` with the old argument checks; everything after the checks is the same code -/
def TargetsMeta.applyF10 (v : Ver) (m : TargetsMeta) : TOp → Res TargetsMeta
  | .addRule n ids pats t =>
    match m.checkRuleArgsF10 n ids t with
    | some e => m.fail e
    | none =>
      if m.rules.isEmpty then m.fail .panic
      else
        let r : Rule := { name := n, patterns := pats, principals := dedup ids, threshold := t, terminating := false }
        TargetsMeta.done { m with rules := m.rules.dropLast ++ [r, allowRule] }
  | .updateRule n ids pats t =>
    match m.checkRuleArgsF10 n ids t with
    | some e => m.fail e
    | none => TargetsMeta.done { m with rules := TargetsMeta.updateGo n pats ids t m.rules ++ [allowRule] }
  | op => m.apply v op

/-! ## root metadata -/

structure Role where
  principals : List String   -- set.Set[string]
  threshold  : Int
  deriving Repr, DecidableEq, Inhabited

inductive GKind where
  | threshold | blockForcePushes
  deriving Repr, DecidableEq, Inhabited

structure GlobalRule where
  name      : String
  kind      : GKind
  patterns  : List String
  threshold : Int          -- 0 for block-force-pushes rules
  deriving Repr, DecidableEq, Inhabited

structure Propagation where
  name : String
  upstreamRepo : String
  upstreamRef : String
  upstreamPath : String
  downstreamRef : String
  downstreamPath : String
  deriving Repr, DecidableEq, Inhabited

structure RootMeta where
  principals   : List Principal
  rootRole     : Option Role
  targetsRole  : Option Role
  globalRules  : List GlobalRule
  propagations : List Propagation
  deriving Repr, DecidableEq, Inhabited

inductive RoleName where
  | root | targets
  deriving Repr, DecidableEq, Inhabited

namespace RootMeta

/-- `NewRootMetadata()` -/
def new : RootMeta := { principals := [], rootRole := none, targetsRole := none, globalRules := [], propagations := [] }

def fail (m : RootMeta) (e : Err) : Res RootMeta := { err := some e, st := m }
def done (m : RootMeta) : Res RootMeta := { err := none, st := m }

def role (m : RootMeta) : RoleName → Option Role
  | .root => m.rootRole
  | .targets => m.targetsRole

def setRole (m : RootMeta) (which : RoleName) (r : Role) : RootMeta :=
  match which with
  | .root => { m with rootRole := some r }
  | .targets => { m with targetsRole := some r }

/-- `set.Add` -/
def setAdd (s : List String) (x : String) : List String := if s.contains x then s else s ++ [x]

/-- `AddRootPrincipal` / `AddPrimaryRuleFilePrincipal` (root.go:77-102, 124-149) -/
def addRolePrincipal (v : Ver) (m : RootMeta) (which : RoleName) (p : Option Principal) : Res RootMeta :=
  match p with
  | none => m.fail .invalidPrincipalType
  | some p =>
    if !TargetsMeta.acceptsKind v p.kind then m.fail .invalidPrincipalType
    else
      let m1 := { m with principals := TargetsMeta.upsert m.principals p }
      match m.role which with
      | none => done (m1.setRole which { principals := [p.id], threshold := 1 })
      | some r => done (m1.setRole which { r with principals := setAdd r.principals p.id })

/-- `DeleteRootPrincipal` / `DeletePrimaryRuleFilePrincipal` (root.go:107-120, 155-172) -/
def deleteRolePrincipal (m : RootMeta) (which : RoleName) (id : String) : Res RootMeta :=
  if which = .targets ∧ id = "" then m.fail .invalidPrincipalID
  else match m.role which with
  | none => m.fail (match which with | .root => .invalidRoot | .targets => .noTargetsRole)
  | some r =>
    if (r.principals.length : Int) ≤ r.threshold then m.fail .cannotMeetThreshold
    else done (m.setRole which { r with principals := r.principals.filter (fun x => x != id) })

/-- `UpdateRootThreshold` / `UpdatePrimaryRuleFileThreshold` (root.go:237-273) -/
def updateRoleThreshold (m : RootMeta) (which : RoleName) (thr : Int) : Res RootMeta :=
  match m.role which with
  | none => m.fail (match which with | .root => .invalidRoot | .targets => .noTargetsRole)
  | some r =>
    if thr ≤ 0 then m.fail .invalidThreshold
    else if (r.principals.length : Int) < thr then m.fail .cannotMeetThreshold
    else done (m.setRole which { r with threshold := thr })

def badGlobalThreshold (g : GlobalRule) : Bool := g.kind == .threshold && decide (g.threshold ≤ 0)

/-- `AddGlobalRule` (root.go:473-495) -/
def addGlobalRule (m : RootMeta) (g : GlobalRule) : Res RootMeta :=
  if badGlobalThreshold g then m.fail .invalidThreshold
  else if m.globalRules.any (fun r => r.name == g.name) then m.fail .globalRuleExists
  else done { m with globalRules := m.globalRules ++ [g] }

/-- `DeleteGlobalRule` (root.go:498-513): an unknown name is an error only when there are no global rules -/
def deleteGlobalRule (m : RootMeta) (name : String) : Res RootMeta :=
  if m.globalRules.isEmpty then m.fail .globalRuleNotFound
  else done { m with globalRules := m.globalRules.filter (fun r => r.name != name) }

/-- loop of `UpdateGlobalRule` (root.go:531-548): `none` = type change refused, else (found, new list) -/
def updateGlobalGo (g : GlobalRule) : List GlobalRule → Option (Bool × List GlobalRule)
  | [] => some (false, [])
  | r :: rs =>
    if r.name = g.name then
      if r.kind ≠ g.kind then none
      else (updateGlobalGo g rs).map (fun (_, l) => (true, g :: l))
    else (updateGlobalGo g rs).map (fun (f, l) => (f, r :: l))

/-- `UpdateGlobalRule` (root.go:516-557) -/
def updateGlobalRule (m : RootMeta) (g : GlobalRule) : Res RootMeta :=
  if badGlobalThreshold g then m.fail .invalidThreshold
  else if m.globalRules.isEmpty then m.fail .globalRuleNotFound
  else match updateGlobalGo g m.globalRules with
  | none => m.fail .globalRuleType
  | some (false, _) => m.fail .globalRuleNotFound
  | some (true, l) => done { m with globalRules := l }

def samePropagation (a b : Propagation) : Bool :=
  a.upstreamRepo == b.upstreamRepo && a.upstreamRef == b.upstreamRef && a.upstreamPath == b.upstreamPath &&
  a.downstreamRef == b.downstreamRef && a.downstreamPath == b.downstreamPath

/-- `AddPropagationDirective` (root.go:565-578): duplicates are judged by content, not by name -/
def addPropagation (m : RootMeta) (d : Propagation) : Res RootMeta :=
  if m.propagations.any (samePropagation d) then m.fail .propagationExists
  else done { m with propagations := m.propagations ++ [d] }

/-- `UpdatePropagationDirective` (root.go:582-606): every directive of that name is replaced -/
def updatePropagation (m : RootMeta) (d : Propagation) : Res RootMeta :=
  if m.propagations.any (fun o => o.name == d.name) then
    done { m with propagations := m.propagations.map (fun o => if o.name == d.name then d else o) }
  else m.fail .propagationNotFound

def eraseFirst (name : String) : List Propagation → List Propagation
  | [] => []
  | o :: os => if o.name = name then os else o :: eraseFirst name os

/-- `DeletePropagationDirective` (root.go:616-631): only the first directive of that name goes -/
def deletePropagation (m : RootMeta) (name : String) : Res RootMeta :=
  if m.propagations.any (fun o => o.name == name) then
    done { m with propagations := eraseFirst name m.propagations }
  else m.fail .propagationNotFound

end RootMeta

inductive ROp where
  | addRolePrincipal (which : RoleName) (p : Option Principal)
  | deleteRolePrincipal (which : RoleName) (id : String)
  | updateRoleThreshold (which : RoleName) (thr : Int)
  | addGlobalRule (g : GlobalRule)
  | updateGlobalRule (g : GlobalRule)
  | deleteGlobalRule (name : String)
  | addPropagation (d : Propagation)
  | updatePropagation (d : Propagation)
  | deletePropagation (name : String)
  deriving Repr, DecidableEq, Inhabited

def RootMeta.apply (v : Ver) (m : RootMeta) : ROp → Res RootMeta
  | .addRolePrincipal w p => RootMeta.addRolePrincipal v m w p
  | .deleteRolePrincipal w id => m.deleteRolePrincipal w id
  | .updateRoleThreshold w t => m.updateRoleThreshold w t
  | .addGlobalRule g => m.addGlobalRule g
  | .updateGlobalRule g => m.updateGlobalRule g
  | .deleteGlobalRule n => m.deleteGlobalRule n
  | .addPropagation d => m.addPropagation d
  | .updatePropagation d => m.updatePropagation d
  | .deletePropagation n => m.deletePropagation n

def RootMeta.run (v : Ver) (m : RootMeta) (ops : List ROp) : RootMeta :=
  ops.foldl (fun m o => (m.apply v o).st) m

end Gittuf.Meta
